(** C15 — the uint64 exclusion of tojson_value made exact: to_json of ANY layout is to_json of the same layout with
    its uint64 buffers reinterpreted as int64 (what the (int64_t) cast of tojson_integer<uint64_t> does), so the
    JSON value of an array is the to_list of that reinterpreted array, without the hypothesis [u64ok].
    Known finding c15-uint64-wraps.  New file. *)
From Coq Require Import ZArith List Bool Lia ZifyBool.
From AwkV Require Import Base Layout LayoutInd Valid.
From AwkJson Require Import Json Proofs_C15 Proofs_C15b Proofs_C15e Proofs_C15f.
Import ListNotations.
Open Scope Z_scope.

Definition wrapd (d : datum) : datum := match d with DZ z => DZ (wrap64 z) | _ => d end.

(** the layout with every uint64 buffer viewed as int64 *)
Fixpoint wrapv (c : content) : content :=
  match c with
  | Numpy DUInt64 sh data => Numpy DInt64 sh (map wrapd data)
  | Numpy _ _ _ | Empty => c
  | ListOffset w o c' => ListOffset w o (wrapv c')
  | ListA w s e c' => ListA w s e (wrapv c')
  | Regular c' size zl => Regular (wrapv c') size zl
  | Indexed w ix c' => Indexed w ix (wrapv c')
  | IndexedOption w ix c' => IndexedOption w ix (wrapv c')
  | ByteMasked m vw c' => ByteMasked m vw (wrapv c')
  | BitMasked m vw lsb n c' => BitMasked m vw lsb n (wrapv c')
  | Unmasked c' => Unmasked (wrapv c')
  | Union w t ix cs => Union w t ix (map wrapv cs)
  | Record cs ks n => Record (map wrapv cs) ks n
  | Par a r c' => Par a r (wrapv c')
  end.

Lemma slice_map {A B} (f : A -> B) l a b : slice (map f l) a b = rmap (map f) (slice l a b).
Proof.
  unfold slice. rewrite zlen_map. destruct ((0 <=? a) && (a <=? b) && (b <=? zlen l)); [|reflexivity].
  cbn [rmap]. unfold take, drop. rewrite skipn_map, firstn_map. reflexivity.
Qed.

Lemma str_of_wrap ds : str_of DInt64 (map wrapd ds) = str_of DUInt64 ds.
Proof. destruct ds as [|d ds]; [reflexivity|]. unfold str_of. cbn [map mapM]. destruct d; reflexivity. Qed.

Lemma scalar_ev_wrap o d : scalar_ev o DInt64 (wrapd d) = scalar_ev o DUInt64 d.
Proof. destruct d; reflexivity. Qed.

Lemma np_block_wrap o chars dims : forall ds,
  np_block o chars DInt64 dims (map wrapd ds) = np_block o chars DUInt64 dims ds.
Proof.
  induction dims as [|n dims IH]; intros ds; cbn [np_block].
  - destruct ds as [|d ds]; [reflexivity|]. cbn [map]. destruct chars; [apply (str_of_wrap [d]) | rewrite scalar_ev_wrap; reflexivity].
  - assert (G : mapM (fun k => do sub <- slice (map wrapd ds) (k * prodZ dims) ((k + 1) * prodZ dims);
                                 np_block o chars DInt64 dims sub) (iota n) =
                mapM (fun k => do sub <- slice ds (k * prodZ dims) ((k + 1) * prodZ dims);
                                 np_block o chars DUInt64 dims sub) (iota n)).
    { apply mapM_ext_in. intros k _. rewrite slice_map. destruct (slice ds _ _); [cbn [rmap bind]; apply IH | reflexivity]. }
    destruct dims as [|m dims']; [destruct chars|].
    + rewrite slice_map. destruct (slice ds 0 n); [cbn [rmap bind]; apply str_of_wrap | reflexivity].
    + rewrite G. reflexivity.
    + rewrite G. reflexivity.
Qed.

(* the character buffer seen by a list node *)
Definition wrapc (x : dtype * list datum) : dtype * list datum :=
  match x with (DUInt64, data) => (DInt64, map wrapd data) | _ => x end.

Lemma chars_of_wrapv c : forall p, chars_of p (wrapv c) = option_map wrapc (chars_of p c).
Proof.
  induction c as [dt shape data| |w offs c IHc|w ss se c IHc|c size zl IHc|w ix c IHc|w ix c IHc|m vw c IHc
                  |m vw lsb n c IHc|c IHc|w tags ix cs IHcs|cs ks n IHcs|arr rn c IHc] using content_ind';
    intros p; try reflexivity.
  - destruct dt; cbn [wrapv chars_of]; destruct shape as [|n [|m t]]; try reflexivity; destruct (is_charp p); reflexivity.
  - cbn [wrapv chars_of]. apply IHc.
  - cbn [wrapv chars_of]. apply IHc.
Qed.

Lemma range_events_wrap it it' ch a b : (forall i, it i = it' i) ->
  range_events it (option_map wrapc ch) a b = range_events it' ch a b.
Proof.
  intros H. unfold range_events. destruct ch as [[dt data]|]; cbn [option_map].
  - destruct dt; cbn [wrapc]; try reflexivity.
    destruct (a =? b); [reflexivity|]. rewrite slice_map. destruct (slice data a b); [cbn [rmap bind]; apply str_of_wrap | reflexivity].
  - rewrite (mapM_ext_in it it') by (intros; apply H). reflexivity.
Qed.

Lemma pick_nth_map {A} (f : content -> res A) (g : content -> content) cs : forall k,
  pick_nth f (map g cs) k = pick_nth (fun x => f (g x)) cs k.
Proof. induction cs as [|x cs IH]; intros [|k]; cbn [map pick_nth]; try reflexivity. apply IH. Qed.

Lemma pick_nth_ext {A} (f f' : content -> res A) cs : Forall (fun c => f c = f' c) cs ->
  forall k, pick_nth f cs k = pick_nth f' cs k.
Proof. induction 1 as [|x cs Hx _ IH]; intros [|k]; cbn [pick_nth]; auto. Qed.

Lemma fields_ev_map (f : content -> res (list ev)) (g : content -> content) cs : forall kl,
  Forall (fun c => f (g c) = f c) cs -> fields_ev f (map g cs) kl = fields_ev f cs kl.
Proof.
  induction cs as [|x cs IH]; intros kl H; [reflexivity|]. inversion H; subst. cbn [map fields_ev].
  destruct kl as [|k kl]; [reflexivity|]. rewrite H2. destruct (f x); [|reflexivity]. cbn [bind]. rewrite IH by assumption. reflexivity.
Qed.

Lemma item_wrapv o c : forall p i, item o p (wrapv c) i = item o p c i.
Proof.
  induction c as [dt shape data| |w offs c IHc|w ss se c IHc|c size zl IHc|w ix c IHc|w ix c IHc|m vw c IHc
                  |m vw lsb n c IHc|c IHc|w tags ix cs IHcs|cs ks n IHcs|arr rn c IHc] using content_ind';
    intros p i; try reflexivity; cbn [wrapv item].
  - destruct dt; try reflexivity. cbn [item]. destruct shape as [|n dims]; [reflexivity|].
    rewrite slice_map. destruct (slice data _ _); [cbn [rmap bind]; apply np_block_wrap | reflexivity].
  - destruct (get offs i); [|reflexivity]. destruct (get offs (i + 1)); [|reflexivity]. cbn [bind].
    rewrite chars_of_wrapv. apply range_events_wrap. intros; apply IHc.
  - destruct (get ss i); [|reflexivity]. destruct (get se i); [|reflexivity]. cbn [bind].
    rewrite chars_of_wrapv. apply range_events_wrap. intros; apply IHc.
  - rewrite chars_of_wrapv. apply range_events_wrap. intros; apply IHc.
  - destruct (get ix i); [|reflexivity]. cbn [bind]. apply IHc.
  - destruct (get ix i); [|reflexivity]. cbn [bind]. destruct (_ <? 0); [reflexivity | apply IHc].
  - destruct (get m i); [|reflexivity]. cbn [bind]. destruct (Bool.eqb _ _); [apply IHc | reflexivity].
  - destruct (bit_at m lsb i); [|reflexivity]. cbn [bind]. destruct (Bool.eqb _ _); [apply IHc | reflexivity].
  - apply IHc.
  - destruct (get tags i) as [t|]; [|reflexivity]. destruct (get ix i) as [j|]; [|reflexivity]. cbn [bind].
    destruct (t <? 0); [reflexivity|]. rewrite pick_nth_map. apply pick_nth_ext.
    eapply Forall_impl; [|exact IHcs]. cbn beta. intros c Hc. apply Hc.
  - rewrite map_length. rewrite fields_ev_map; [reflexivity|].
    eapply Forall_impl; [|exact IHcs]. cbn beta. intros c Hc. apply Hc.
  - apply IHc.
Qed.

Lemma clen_wrapv c : clen (wrapv c) = clen c.
Proof.
  induction c as [dt shape data| |w offs c IHc|w ss se c IHc|c size zl IHc|w ix c IHc|w ix c IHc|m vw c IHc
                  |m vw lsb n c IHc|c IHc|w tags ix cs IHcs|cs ks n IHcs|arr rn c IHc] using content_ind';
    try reflexivity; cbn [wrapv clen]; try (rewrite IHc; reflexivity); try assumption.
  destruct dt; reflexivity.
Qed.

(** to_json does not distinguish a layout from its int64 reinterpretation *)
Theorem tojson_events_wrapv o c : tojson_events o (wrapv c) = tojson_events o c.
Proof.
  unfold tojson_events. rewrite clen_wrapv, chars_of_wrapv. apply range_events_wrap. intros; apply item_wrapv.
Qed.

Lemma u64ok_wrapv c : u64ok (wrapv c) = true.
Proof.
  induction c as [dt shape data| |w offs c IHc|w ss se c IHc|c size zl IHc|w ix c IHc|w ix c IHc|m vw c IHc
                  |m vw lsb n c IHc|c IHc|w tags ix cs IHcs|cs ks n IHcs|arr rn c IHc] using content_ind';
    cbn [wrapv u64ok]; try reflexivity; try assumption.
  - destruct dt; reflexivity.
  - apply all_fix_intro. apply Forall_forall. intros x Hx. apply in_map_iff in Hx. destruct Hx as (y & <- & Hy).
    rewrite Forall_forall in IHcs. auto.
  - apply all_fix_intro. apply Forall_forall. intros x Hx. apply in_map_iff in Hx. destruct Hx as (y & <- & Hy).
    rewrite Forall_forall in IHcs. auto.
Qed.

(** (b) without [u64ok]: the JSON value of an array is the to_list of the array with its uint64 buffers read as int64 *)
Theorem tojson_value_uint64_exact_lemma o c vs : frag15w (wrapv c) = true -> to_list (wrapv c) = Ok vs ->
  exists evs, tojson_events o c = Ok evs /\ json_value evs = Ok (VList (map (jv o) vs), []).
Proof.
  intros F T. rewrite <- tojson_events_wrapv. apply tojson_value_wide_lemma; [exact F | apply u64ok_wrapv | exact T].
Qed.

(* [[2^64-1, 1], None] as option[var * uint64]: to_list keeps 2^64-1, the JSON value has -1 *)
Definition ex_u64 : content :=
  IndexedOption I64 [0; -1] (ListOffset I64 [0; 2] (Numpy DUInt64 [2] [DZ 18446744073709551615; DZ 1])).

Example tojson_value_uint64_ex :
  frag15w (wrapv ex_u64) = true /\ u64ok ex_u64 = false /\
  to_list ex_u64 = Ok [VList [VNum (DZ 18446744073709551615); VNum (DZ 1)]; VNone] /\
  to_list (wrapv ex_u64) = Ok [VList [VNum (DZ (-1)); VNum (DZ 1)]; VNone] /\
  (do e <- tojson_events ex_opts ex_u64; json_value e) = Ok (VList [VList [VNum (DZ (-1)); VNum (DZ 1)]; VNone], []).
Proof. vm_compute. repeat split. Qed.

(* the hypothesis u64ok of tojson_value cannot be dropped: stated for Props *)
Theorem tojson_value_uint64_refuted_thm :
  exists c vs v, frag15 c = true /\ u64ok c = false /\ to_list c = Ok vs /\
                 (do e <- tojson_events ex_opts c; json_value e) = Ok (v, []) /\ v <> VList (map (jv ex_opts) vs).
Proof.
  exists ex_u64. eexists _, _. split; [reflexivity|]. split; [reflexivity|]. split; [vm_compute; reflexivity|].
  split; [vm_compute; reflexivity | discriminate].
Qed.
