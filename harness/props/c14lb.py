"""C14, Form-driven half: awkward::LayoutBuilder (impl/drv/lbdrv.cpp) against the specification lb_run of
c14/coq/LBuilder.v (extracted -> c14/ocaml/lbrun).  Used by harness/props/c14.py (stream 'lb').

forms   : tuples ('np', dt) ('empty',) ('lo', w, f) ('str', w, isstr) ('la', w, f) ('reg', n, f) ('ix', w, f)
          ('ixo', w, f) ('bym', vw, f) ('bim', vw, lsb, f) ('unm', f) ('un', w, [f..]) ('rec', keys|None, [f..])
values  : None True False ('n', int) ('s', [bytes]) ('b', [bytes]) ('l', [v..]) ('r', [(k, v)..]) ('t', [v..])
"""
import os
import re
import subprocess

import common as C

BLD = os.path.join(C.BUILD, 'c14')
WIDTHS = ['i32', 'u32', 'i64']
FEEDABLE = ['bool', 'int64', 'float64']
OTHER_DT = ['int8', 'int16', 'int32', 'uint8', 'uint16', 'uint32', 'uint64', 'float32']
KEYS = ['x', 'y', 'z', 'pt', 'id']


# ------------------------------------------------------------------ forms
def gen_form(rng, depth, classes, top=True):
    """classes: the node classes allowed below (set of tags)"""
    r = rng.random()
    if depth <= 0 or r < 0.30:
        if 'baddt' in classes and rng.random() < 0.04:
            return ('np', rng.choice(OTHER_DT))
        if 'str' in classes and rng.random() < 0.15:
            return ('str', rng.choice(WIDTHS), rng.random() < 0.6)
        return ('np', rng.choice(FEEDABLE))
    ks = [k for k in ('lo', 'lo', 'lo', 'rec', 'rec', 'ixo', 'ixo', 'ix', 'reg', 'un', 'bym', 'bim', 'unm', 'la', 'empty')
          if k in classes]
    k = rng.choice(ks)
    sub = lambda: gen_form(rng, depth - 1, classes, False)
    if k == 'lo':
        return ('lo', rng.choice(WIDTHS), sub())
    if k == 'la':
        return ('la', rng.choice(WIDTHS), sub())
    if k == 'empty':
        return ('empty',)
    if k == 'reg':
        return ('reg', rng.choice([1, 2, 2, 3]), sub())
    if k == 'ix':
        return ('ix', rng.choice(WIDTHS), sub())
    if k == 'ixo':
        return ('ixo', rng.choice(['i32', 'i64']), sub())
    if k == 'bym':
        return ('bym', rng.random() < 0.5, sub())
    if k == 'bim':
        return ('bim', rng.random() < 0.5, rng.random() < 0.5, sub())
    if k == 'unm':
        return ('unm', sub())
    if k == 'un':
        return ('un', rng.choice(WIDTHS), [sub() for _ in range(rng.choice([1, 2, 2, 3]))])
    n = rng.choice([1, 2, 2, 3])
    keys = rng.sample(KEYS, n) if rng.random() < 0.75 else None
    return ('rec', keys, [sub() for _ in range(n)])


def form_sx(f):
    k = f[0]
    if k == 'np':
        return '(np %s)' % f[1]
    if k == 'empty':
        return '(empty)'
    if k == 'str':
        return ('(par string none (lo %s (par char none (np uint8))))' if f[2] else
                '(par bytestring none (lo %s (par byte none (np uint8))))') % f[1]
    if k in ('lo', 'la', 'ix', 'ixo'):
        return '(%s %s %s)' % (k, f[1], form_sx(f[2]))
    if k == 'reg':
        return '(reg %d %s)' % (f[1], form_sx(f[2]))
    if k == 'bym':
        return '(bym %d %s)' % (int(f[1]), form_sx(f[2]))
    if k == 'bim':
        return '(bim %d %d %s)' % (int(f[1]), int(f[2]), form_sx(f[3]))
    if k == 'unm':
        return '(unm %s)' % form_sx(f[1])
    if k == 'un':
        return '(un %s%s)' % (f[1], ''.join(' ' + form_sx(x) for x in f[2]))
    if k == 'rec':
        return '(rec %s%s)' % ('tuple' if f[1] is None else '(%s)' % ' '.join(f[1]), ''.join(' ' + form_sx(x) for x in f[2]))
    raise ValueError(f)


def classes_of(f, acc=None):
    acc = set() if acc is None else acc
    acc.add(f[0] if f[0] != 'np' else 'np:' + f[1])
    for x in f[1:]:
        if isinstance(x, tuple):
            classes_of(x, acc)
        elif isinstance(x, list):
            for y in x:
                if isinstance(y, tuple):
                    classes_of(y, acc)
    return acc


def inhabited(f):
    """some value conforms (mirror of conf: no ListForm / EmptyForm / unfeedable leaf on every path)"""
    k = f[0]
    if k == 'np':
        return f[1] in FEEDABLE
    if k in ('empty', 'la'):
        return False
    if k == 'str':
        return True
    if k == 'lo':
        return True         # the empty list
    if k in ('reg', 'ix'):
        return inhabited(f[2])
    if k in ('ixo', 'bym', 'bim'):
        return True         # None
    if k == 'unm':
        return inhabited(f[1])
    if k == 'un':
        return any(inhabited(x) for x in f[2])
    return all(inhabited(x) for x in f[2])


def constructible(f, top=True):
    k = f[0]
    if k == 'empty':
        return top
    if k in ('np', 'str'):
        return True
    if k == 'la':
        return False
    if k in ('lo', 'ix', 'ixo'):
        return constructible(f[2], False)
    if k == 'reg':
        return f[1] >= 1 and constructible(f[2], False)
    if k == 'bym':
        return constructible(f[2], False)
    if k == 'bim':
        return constructible(f[3], False)
    if k == 'unm':
        return constructible(f[1], False)
    return len(f[2]) > 0 and all(constructible(x, False) for x in f[2])


# ------------------------------------------------------------------ values
def small_int(rng):
    return rng.choice([0, 1, 2, 3, 5, -1, -7, 12, 100, 255, 2 ** 40, -2 ** 40])


def gen_bytes(rng):
    return [rng.choice([97, 98, 99, 0, 32, 200, 255, 65]) for _ in range(rng.choice([0, 1, 2, 3]))]


def gen_value(rng, f, pnone):
    k = f[0]
    if k == 'np':
        if f[1] == 'bool':
            return rng.random() < 0.5
        return ('n', small_int(rng))
    if k == 'str':
        return ('s' if f[2] else 'b', gen_bytes(rng))
    if k == 'lo':
        if not inhabited(f[2]):
            return ('l', [])
        return ('l', [gen_value(rng, f[2], pnone) for _ in range(rng.choice([0, 0, 1, 1, 2, 3]))])
    if k == 'reg':
        return ('l', [gen_value(rng, f[2], pnone) for _ in range(f[1])])
    if k == 'ix':
        return gen_value(rng, f[2], pnone)
    if k in ('ixo', 'bym', 'bim'):
        c = f[-1]
        if rng.random() < pnone or not inhabited(c):
            return None
        return gen_value(rng, c, pnone)
    if k == 'unm':
        return gen_value(rng, f[1], pnone)
    if k == 'un':
        return gen_value(rng, rng.choice([x for x in f[2] if inhabited(x)]), pnone)
    if k == 'rec':
        vs = [gen_value(rng, x, pnone) for x in f[2]]
        return ('r', list(zip(f[1], vs))) if f[1] is not None else ('t', vs)
    raise ValueError(f)


def conf(f, v):
    k = f[0]
    if k == 'np':
        if f[1] == 'bool':
            return v is True or v is False
        return f[1] in ('int64', 'float64') and isinstance(v, tuple) and v[0] == 'n'
    if k in ('empty', 'la'):
        return False
    if k == 'str':
        return isinstance(v, tuple) and v[0] == ('s' if f[2] else 'b')
    if k == 'lo':
        return isinstance(v, tuple) and v[0] == 'l' and all(conf(f[2], x) for x in v[1])
    if k == 'reg':
        return isinstance(v, tuple) and v[0] == 'l' and f[1] >= 1 and len(v[1]) == f[1] and all(conf(f[2], x) for x in v[1])
    if k == 'ix':
        return conf(f[2], v)
    if k == 'unm':
        return conf(f[1], v)
    if k in ('ixo', 'bym', 'bim'):
        return v is None or conf(f[-1], v)
    if k == 'un':
        return any(conf(x, v) for x in f[2])
    if k == 'rec':
        if f[1] is not None:
            return (isinstance(v, tuple) and v[0] == 'r' and [a for a, _ in v[1]] == list(f[1]) and len(f[2]) > 0 and
                    all(conf(x, y) for x, (_, y) in zip(f[2], v[1])))
        return (isinstance(v, tuple) and v[0] == 't' and len(v[1]) == len(f[2]) and len(f[2]) > 0 and
                all(conf(x, y) for x, y in zip(f[2], v[1])))
    raise ValueError(f)


def encode(f, v, out):
    """mirror of LBuilder.enc (lbrun checks that the result is lb_encode of the values)"""
    k = f[0]
    if k == 'np':
        if v is True or v is False:
            out.append('(bool %d)' % int(v))
        elif f[1] == 'int64':
            out.append('(int %d)' % v[1])
        else:
            out.append('(real %d)' % v[1])
    elif k == 'str':
        out.append('(%s%s)' % ('str' if v[0] == 's' else 'bytes', ''.join(' %d' % b for b in v[1])))
    elif k == 'lo':
        out.append('beginlist')
        for x in v[1]:
            encode(f[2], x, out)
        out.append('endlist')
    elif k == 'reg':
        for x in v[1]:
            encode(f[2], x, out)
    elif k == 'ix':
        encode(f[2], v, out)
    elif k == 'unm':
        encode(f[1], v, out)
    elif k in ('ixo', 'bym', 'bim'):
        if v is None:
            out.append('null')
        else:
            encode(f[-1], v, out)
    elif k == 'un':
        for t, x in enumerate(f[2]):
            if conf(x, v):
                out.append('(tag %d)' % t)
                encode(x, v, out)
                break
    elif k == 'rec':
        vs = [y for _, y in v[1]] if v[0] == 'r' else v[1]
        for x, y in zip(f[2], vs):
            encode(x, y, out)
    else:
        raise ValueError(f)


def val_sx(v):
    if v is None:
        return 'none'
    if v is True:
        return 'true'
    if v is False:
        return 'false'
    if v[0] == 'n':
        return '(n %d)' % v[1]
    if v[0] in 'sb':
        return '(%s%s)' % (v[0], ''.join(' %d' % b for b in v[1]))
    if v[0] in 'lt':
        return '(%s%s)' % (v[0], ''.join(' ' + val_sx(x) for x in v[1]))
    return '(r%s)' % ''.join(' (%s %s)' % (k, val_sx(x)) for k, x in v[1])


STRAY = ['null', '(bool 1)', '(int 7)', '(real 7)', '(str 97)', '(bytes 98)', 'beginlist', 'endlist', '(tag 0)', '(tag 1)',
         '(tag 5)', '(tag -1)', '(index 0)']


def mutate(rng, cmds, stray):
    cmds = list(cmds)
    for _ in range(rng.choice([1, 1, 2, 3])):
        m = rng.random()
        if m < 0.3 and cmds:
            del cmds[rng.randrange(len(cmds))]
        elif m < 0.65:
            cmds.insert(rng.randrange(len(cmds) + 1), rng.choice(stray))
        elif m < 0.8 and len(cmds) >= 2:
            i = rng.randrange(len(cmds) - 1)
            cmds[i], cmds[i + 1] = cmds[i + 1], cmds[i]
        elif m < 0.9 and cmds:
            i = rng.randrange(len(cmds))
            cmds.insert(i, cmds[i])
        elif cmds:
            i = rng.randrange(len(cmds))
            if cmds[i].startswith('(tag'):
                cmds[i] = '(tag %d)' % rng.choice([-2, -1, 0, 1, 2, 4, 9])
            else:
                cmds[i] = rng.choice(stray)
    return cmds


def sprinkle(rng, cmds, what, n):
    cmds = list(cmds)
    for _ in range(n):
        cmds.insert(rng.randrange(len(cmds) + 1), what)
    return cmds


def starts_with_null(f):
    k = f[0]
    if k in ('ixo', 'bym', 'bim'):
        return True
    if k in ('reg', 'ix'):
        return starts_with_null(f[2])
    if k == 'unm':
        return starts_with_null(f[1])
    if k == 'rec':
        return len(f[2]) > 0 and starts_with_null(f[2][0])
    return False


def unambiguous(f):
    k = f[0]
    if k in ('ixo', 'bym', 'bim') and starts_with_null(f[-1]):
        return False
    return all(unambiguous(c) for c in children(f))


def gen_values(rng, f, target):
    pnone = rng.choice([0.05, 0.15, 0.3])
    vals, cmds, bounds = [], [], [0]
    if not (constructible(f) and unambiguous(f) and inhabited(f)):
        return vals, cmds, bounds
    for _ in range(200):
        v = gen_value(rng, f, pnone)
        e = []
        encode(f, v, e)
        if cmds and len(cmds) + len(e) > target:
            break
        vals.append(v)
        cmds += e
        bounds.append(len(cmds))
        if len(cmds) >= target:
            break
    return vals, cmds, bounds


def make_case(cid, opts, f, cmds, vals, tags):
    args = ['(opts %d %d)' % opts, '(form %s)' % form_sx(f), '(cmds%s)' % ''.join(' ' + c for c in cmds)]
    if vals is not None:
        args.append('(vals%s)' % ''.join(' ' + val_sx(v) for v in vals))
    return C.Case(cid, 'lb', args, [], dict(nontrivial='snapshot' in cmds and len(cmds) >= 4, tags=tags, form=f))


# ------------------------------------------------------------------ run
def run_lbrun(lines):
    exe = os.path.join(BLD, 'lbrun')
    # default stack: a dump with a garbage index makes to_list recurse deeply; lbrun reports it as unreadable
    p = subprocess.run(exe, shell=True, input='\n'.join(lines) + '\n',
                       stdout=subprocess.PIPE, stderr=subprocess.PIPE, text=True, timeout=3600)
    out = {}
    for ol in p.stdout.splitlines():
        m = C.LINE_ID.match(ol)
        if m:
            out[m.group(1)] = ol[len(m.group(1)) + 2:-1]
    if p.returncode != 0:
        raise RuntimeError('lbrun failed rc=%s: %s' % (p.returncode, p.stderr[-2000:]))
    return out


def evaluate(cases, san=False):
    """-> list of (case, impl_text, verdict_text, stderr_tail)"""
    lines = [re.sub(r' \(vals.*\)\)$', ')', c.line()) for c in cases]      # the driver does not see the values
    res, errs = C.run_driver(lines, drv='lbdrv', san=san)
    mlines = []
    for c in cases:
        r = res.get(c.id, 'crash missing')
        if r.startswith('ok '):
            isx = '(impl ok %s)' % r[3:]
        elif r.startswith('err '):
            isx = '(impl %s)' % r
        elif r.startswith('timeout'):
            isx = '(impl timeout)'
        elif r.startswith('bad'):
            isx = None
        else:
            isx = '(impl crash)'
        if isx is not None:
            mlines.append('(%s %s %s)' % (c.id, c.body(), isx))
    verd = run_lbrun(mlines) if mlines else {}
    out = []
    for c in cases:
        r = res.get(c.id, 'crash missing')
        v = verd.get(c.id) or ('bad (driver: %s)' % r[:200])
        out.append((c, r, v, errs.get(c.id, '')))
    return out


# ------------------------------------------------------------------ where the implementation is known to deviate
# Every entry: signature -> the shape of Form it applies to.  A session on such a form that ends in `viol` is
# classified under the FIRST applicable signature (fixed order below); sessions on forms where none applies are the
# main stream and any `viol` there is a new finding.
def children(f):
    k = f[0]
    if k in ('np', 'empty', 'str'):
        return []
    if k in ('lo', 'la', 'reg', 'ix', 'ixo', 'bym'):
        return [f[2]]
    if k == 'bim':
        return [f[3]]
    if k == 'unm':
        return [f[1]]
    return list(f[2])


def nodes(f):
    yield f
    for c in children(f):
        for x in nodes(c):
            yield x


def has(f, kinds):
    return any(x[0] in kinds for x in nodes(f))


LISTISH = ('lo', 'str')
MULTI = ('lo', 'rec', 'reg', 'un')          # an element of these takes more than one command


def features(f):
    """-> ordered list of signatures of the known deviations that apply to this form"""
    out = []
    if has(f, ('bym', 'bim', 'unm')):
        out.append('lb-masked-forms-pass-through')
    # UnionArrayBuilder::snapshot sizes the scratch array `current` of awkward_UnionArray_regular_index by the number of
    # tags written so far, not by the number of alternatives: out of bounds as soon as a tag value >= that number
    if has(f, ('un',)):
        out.append('lb-union-snapshot-index-overflow')
    if sum(1 for x in nodes(f) if x[0] in ('ix', 'ixo')) >= 2:
        out.append('lb-two-index-nodes-variable-clash')
    # RegularForm anywhere but at the top: the enclosing node counts content items, not lists
    if any(x[0] == 'reg' for c in children(f) for x in nodes(c)) or (f[0] == 'reg' and has(f[2], ('reg',))):
        out.append('lb-regular-below-node-miscounted')
    # Indexed / Regular (and masked) builders do not pass on vm_from_stack of their content: a list / option below
    # them starts without its leading offset / dummy index entry
    if any(x[0] in ('ix', 'reg') and any(y[0] in ('lo', 'str', 'ixo') for c in children(x) for y in nodes(c)) for x in nodes(f)):
        out.append('lb-wrapper-drops-content-init')

    def walk(x, under_list, under_rec):
        r = []
        k = x[0]
        if k in ('ixo', 'ix', 'un', 'reg') and under_list and any(has(c, LISTISH) for c in children(x)):
            r.append('lb-active-not-forwarded')
        if k == 'rec':
            # RecordArrayBuilder advances its field counter on every scalar command and on every end_list, and
            # remembers the field of an open list by that counter: only records whose list fields are one-level
            # lists of list-free items and whose other fields take exactly one command are routed correctly
            if any(has(c, ('str',)) for c in x[2]):
                r.append('lb-record-list-field-routing')
            listy = [c for c in x[2] if has(c, LISTISH)]
            if listy:
                for c in x[2]:
                    if c in listy:
                        if not (c[0] == 'lo' and not has(c[2], LISTISH)):
                            r.append('lb-record-list-field-routing')
                    elif has(c, MULTI) or has(c, ('ixo',)):
                        # (null goes to the machine without passing the record builder: the counter is not advanced)
                        r.append('lb-record-list-field-routing')
            if under_rec and has(x, LISTISH):
                r.append('lb-record-list-field-routing')
        for c in children(x):
            r += walk(c, under_list or k in LISTISH, under_rec or k == 'rec')
        return r
    for s in walk(f, False, False):
        if s not in out:
            out.append(s)
    return out


def midelement_unsafe(f):
    """a snapshot in the middle of an element can be an invalid layout: an index / tags entry is written before the
    element below it is complete"""
    return any(x[0] in ('ixo', 'ix', 'un') and any(has(c, MULTI) for c in children(x)) for x in nodes(f))


def in_spec_fragment(f):
    return constructible(f) and not has(f, ('empty',)) and all(x[0] != 'np' or x[1] in FEEDABLE for x in nodes(f))


# ------------------------------------------------------------------ the stream
SIGNATURES = {
    'lb-length-constant': 'LayoutBuilder::length() (Python len(builder)) is the constant 8: length_ is initialised to 8 and never updated',
    'lb-masked-forms-pass-through': 'ByteMasked/BitMasked/UnmaskedArrayBuilder: snapshot returns the content (the option node and the mask are dropped: type int64 instead of ?int64) and null is refused',
    'lb-union-snapshot-index-overflow': 'UnionArrayBuilder::snapshot passes lentags as the size of the scratch array `current` of awkward_UnionArray_regular_index: out-of-bounds read/write when a tag value >= number of elements so far (first element with tag 1), garbage index; a snapshot between tag and value reads the content beyond its length; LayoutBuilder::tag never calls UnionArrayBuilder::tag, so begin_list/end_list always go to alternative 0',
    'lb-two-index-nodes-variable-clash': 'two IndexedForm/IndexedOptionForm nodes in one Form: the generated AwkwardForth declares `variable index` / `variable null` once per node, the constructor raises',
    'lb-regular-below-node-miscounted': 'RegularForm below a list / option / record / union: the enclosing node counts one element per content item instead of one per `size` items (offsets (0 4) over a RegularArray of length 2)',
    'lb-wrapper-drops-content-init': 'Indexed/RegularArrayBuilder::vm_from_stack return an empty string: a ListOffsetForm / IndexedOptionForm below them is never initialised (offsets without the leading 0)',
    'lb-active-not-forwarded': 'IndexedOption/Indexed/Union/RegularArrayBuilder do not override active(): end_list of a list below them, itself below a list, closes the outer level on the C++ side; the next end_list raises',
    'lb-record-list-field-routing': 'RecordArrayBuilder field counter advances per scalar command / per end_list / not at all for null: strings in records, nested lists in a field, a nested record or an option next to a list field are routed to the wrong field (conforming session raises or loses a list)',
    'lb-midelement-snapshot-invalid': 'snapshot in the middle of an element below IndexedOption/Indexed/Union: the index / tags entry is written before the element is complete (invalid layout)',
    'lb-input-buffer-initial': 'LayoutBuilder(form, initial < 8): the one-datum input buffer of the Forth machine is allocated with `initial` bytes and set_data<int64_t>/<double> writes 8 (complex: 16, also with the default initial = 8): heap-buffer-overflow (seen by the sanitizer build only)',
    'lb-record-endlist-empty-stack': 'RecordArrayBuilder::end_list with no list open calls back()/pop_back() on an empty std::vector: segmentation fault',
}


def registered():
    return set(k.get('signature') for k in C.load_known()
               if k.get('status') != 'fixed' and (k.get('property') == 'C14' or 'C14' in k.get('also', [])))


def session_features(f, cmds, boundary_snaps):
    ft = features(f)
    if midelement_unsafe(f) and not boundary_snaps:
        ft.append('lb-midelement-snapshot-invalid')
    if has(f, ('rec',)) and 'endlist' in cmds and not boundary_snaps:
        ft.append('lb-record-endlist-empty-stack')
    return ft


ALL_CLASSES = {'lo', 'rec', 'ixo', 'ix', 'reg', 'un', 'str', 'bym', 'bim', 'unm', 'la', 'empty', 'baddt'}


def gen_sessions(rng, n, maxlen, reg):
    """n sessions; a session on a form with known deviations is generated only when the first applicable signature
    is registered (open) in known_findings.json -- otherwise another form is drawn"""
    out = []
    tries = 0
    while len(out) < n and tries < 50 * n:
        tries += 1
        i = len(out)
        f = gen_form(rng, rng.choice([0, 1, 2, 2, 3, 3]), ALL_CLASSES)
        opts = (rng.choice([8, 8, 16, 64]), rng.choice([150, 110, 200]))
        target = min(maxlen, rng.choice([3, 6, 10, 15, 25, 40, maxlen]))
        vals, cmds, bounds = gen_values(rng, f, target)
        r = rng.random()
        mutated = r >= 0.7 or not vals
        boundary = False
        if mutated:
            base = cmds if cmds else [rng.choice(STRAY) for _ in range(rng.choice([1, 2, 3]))]
            m = mutate(rng, base, STRAY)
            if len(m) > maxlen:
                m = m[:maxlen]
            full = sprinkle(rng, m, 'snapshot', rng.choice([0, 1, 2])) + ['snapshot']
            vals = None
            stream = 'lb-mutated'
        elif rng.random() < 0.5:
            boundary = True
            full = []
            bs = set(bounds)
            for j, c in enumerate(cmds):
                if j in bs and rng.random() < 0.3:
                    full.append('snapshot')
                full.append(c)
            full.append('snapshot')
            stream = 'lb-values-boundary-snapshots'
        else:
            full = sprinkle(rng, cmds, 'snapshot', rng.choice([0, 1, 2, 4])) + ['snapshot']
            stream = 'lb-values'
        ft = session_features(f, full, boundary)
        if ft and ft[0] not in reg:
            continue
        cl = sorted(classes_of(f))
        out.append(make_case('L%d' % i, opts, f, full, vals,
                             dict(stream=stream, lbform=f[0], known_deviation=(ft[0] if ft else 'none'),
                                  spec_fragment=in_spec_fragment(f))))
        out[-1].meta['classes'] = cl
        out[-1].meta['features'] = ft
    return out


def parse_form(x):
    """S-expression text of a form (as printed by form_sx) -> tuple"""
    toks = re.findall(r'\(|\)|[^\s()]+', x)
    pos = [0]

    def rd():
        t = toks[pos[0]]
        pos[0] += 1
        if t != '(':
            return t
        l = []
        while toks[pos[0]] != ')':
            l.append(rd())
        pos[0] += 1
        return l

    def cv(s):
        h = s[0]
        if h == 'np':
            return ('np', s[1])
        if h == 'empty':
            return ('empty',)
        if h == 'par':
            return ('str', s[3][1], s[1] == 'string')
        if h in ('lo', 'la', 'ix', 'ixo'):
            return (h, s[1], cv(s[2]))
        if h == 'reg':
            return ('reg', int(s[1]), cv(s[2]))
        if h == 'bym':
            return ('bym', s[1] != '0', cv(s[2]))
        if h == 'bim':
            return ('bim', s[1] != '0', s[2] != '0', cv(s[3]))
        if h == 'unm':
            return ('unm', cv(s[1]))
        if h == 'un':
            return ('un', s[1], [cv(y) for y in s[2:]])
        if h == 'rec':
            return ('rec', None if s[1] == 'tuple' else list(s[1]), [cv(y) for y in s[2:]])
        raise ValueError(s)
    return cv(rd())


def case_form(c):
    if c.meta.get('form') is not None:
        return c.meta['form']
    m = re.search(r'\(form (.*)\) \(cmds', c.line())
    return parse_form(m.group(1)) if m else None


def signature(c, impl, v):
    """the known deviation a `viol` session falls under (None: a new finding)"""
    f = case_form(c)
    if f is None:
        return None
    line = c.line()
    cmds = re.search(r'\(cmds(.*?)\)( \(vals|\)$)', line)
    cmdtxt = cmds.group(1) if cmds else ''
    mo = re.search(r'\(opts (-?\d+) ', line)
    if mo and int(mo.group(1)) < 8:
        return 'lb-input-buffer-initial'
    ft = features(f)
    if '(crash)' in v or impl.startswith('crash'):
        if has(f, ('rec',)) and 'endlist' in cmdtxt:
            return 'lb-record-endlist-empty-stack'
        return ft[0] if ft else None
    if ft:
        return ft[0]
    probs = set(re.findall(r'\((value|type|conforming-prefix-raised|misfit-not-reported|partial-value|partial-invalid|'
                           r'snapshot-invalid-layout|snapshot-unreadable-layout|snapshot-changed|constructor-raised)', v))
    if probs == {'partial-invalid'} and midelement_unsafe(f):
        return 'lb-midelement-snapshot-invalid'
    return None
