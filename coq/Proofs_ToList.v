(** T1 / T2: the value of a layout has the length [clen] promises; valid layouts have a value. *)
From Coq Require Import ZArith List Bool Lia ZifyBool.
From AwkV Require Import Base Layout LayoutInd Valid Types Typing Proofs_Typing Proofs_C11 Proofs_Lists.
Import ListNotations.
Open Scope Z_scope.

(* ---------------------------------------------------------------- characterising equations of [to_list] *)
Definition all_lists (cs : list content) : res (list (list value)) :=
  (fix all (l : list content) : res (list (list value)) :=
     match l with
     | [] => Ok []
     | x :: xs => do v <- to_list x; do vs <- all xs; Ok (v :: vs)
     end) cs.
Lemma all_lists_mapM cs : all_lists cs = mapM to_list cs.
Proof. induction cs as [|c cs IH]; [reflexivity|]. cbn [mapM]. rewrite <- IH. reflexivity. Qed.

Lemma to_list_Numpy dt shape data :
  to_list (Numpy dt shape data) =
  match shape with
  | [] => Err EValue
  | n :: dims =>
      if existsb (fun d => d <? 0) shape then Err EValue else
      if zlen data <? prodZ shape then Err EValue else
      nest dims n (map (leaf dt) (take (prodZ shape) data))
  end.
Proof.
  cbn [to_list]. destruct shape as [|n dims]; [reflexivity|].
  destruct (existsb _ _); [reflexivity|]. destruct (_ <? _); [reflexivity|].
  destruct (nest _ _ _); reflexivity.
Qed.
Lemma to_list_ListOffset w o c : to_list (ListOffset w o c) = do vs <- to_list c; rmap (map VList) (cut vs o).
Proof. reflexivity. Qed.
Lemma to_list_ListA w s e c : to_list (ListA w s e c) = do vs <- to_list c; rmap (map VList) (cut2 vs s e).
Proof. reflexivity. Qed.
Lemma to_list_Regular c size zl : to_list (Regular c size zl) = do vs <- to_list c; rmap (map VList) (chunks vs size zl).
Proof. reflexivity. Qed.
Lemma to_list_Indexed w ix c : to_list (Indexed w ix c) = do vs <- to_list c; mapM (get vs) ix.
Proof. reflexivity. Qed.
Lemma to_list_IndexedOption w ix c :
  to_list (IndexedOption w ix c) = do vs <- to_list c; mapM (fun i => pick_opt vs (0 <=? i) i) ix.
Proof. reflexivity. Qed.
Lemma to_list_ByteMasked m vw c :
  to_list (ByteMasked m vw c) =
  do vs <- to_list c;
  mapM (fun im : Z * Z => let (i, b) := im in pick_opt vs (Bool.eqb (negb (b =? 0)) vw) i) (zip (iota (zlen m)) m).
Proof. reflexivity. Qed.
Lemma to_list_BitMasked m vw lsb n c :
  to_list (BitMasked m vw lsb n c) =
  do vs <- to_list c;
  if n <? 0 then Err EValue else
  mapM (fun i => do b <- bit_at m lsb i; pick_opt vs (Bool.eqb b vw) i) (iota n).
Proof. reflexivity. Qed.
Lemma to_list_Unmasked c : to_list (Unmasked c) = to_list c.
Proof. reflexivity. Qed.
Lemma to_list_Union w t ix cs :
  to_list (Union w t ix cs) =
  do vss <- all_lists cs;
  if zlen ix <? zlen t then Err EValue else
  mapM (fun ti : Z * Z => let (tg, i) := ti in do vs <- get vss tg; get vs i) (zip t ix).
Proof. reflexivity. Qed.
Lemma to_list_Record cs ks n :
  to_list (Record cs ks n) =
  do vss <- all_lists cs; if n <? 0 then Err EValue else mapM (row ks vss) (iota n).
Proof. reflexivity. Qed.
Lemma to_list_Par arr rn c :
  to_list (Par arr rn c) =
  do vs <- to_list c;
  match arr with
  | Some AString => mapM (fun v => rmap (VStr true) (bytes_of v)) vs
  | Some ABytestring => mapM (fun v => rmap (VStr false) (bytes_of v)) vs
  | _ => Ok vs
  end.
Proof. reflexivity. Qed.

(* ---------------------------------------------------------------- chunks / nest lengths *)
Lemma chunks_nat_length {A} (vs : list A) n k : length (chunks_nat vs n k) = k.
Proof. revert vs. induction k as [|k IH]; intros vs; cbn; [reflexivity|]. rewrite IH. reflexivity. Qed.

Lemma chunks_zlen {A} (vs : list A) size zl ch :
  chunks vs size zl = Ok ch -> 0 <= size /\ zlen ch = (if size =? 0 then zl else zlen vs / size).
Proof.
  unfold chunks. destruct (size <? 0) eqn:E0; [discriminate|].
  destruct (size =? 0) eqn:E1.
  - destruct (zl <? 0) eqn:E2; [discriminate|]. intros H. inversion H; subst.
    rewrite zlen_map, zlen_iota by lia. lia.
  - intros H. inversion H; subst. unfold zlen at 1. rewrite chunks_nat_length.
    pose proof (zlen_nonneg vs). rewrite Z2Nat.id by (apply Z.div_pos; lia). lia.
Qed.

Lemma prodZ_nonneg l : Forall (fun d => 0 <= d) l -> 0 <= prodZ l.
Proof. induction 1; cbn; [lia|]. apply Z.mul_nonneg_nonneg; assumption. Qed.
Lemma prodZ_cons d l : prodZ (d :: l) = d * prodZ l.
Proof. reflexivity. Qed.

Lemma nest_zlen : forall dims count vs out,
  nest dims count vs = Ok out -> Forall (fun d => 0 <= d) dims -> 0 <= count ->
  zlen vs = count * prodZ dims -> zlen out = count.
Proof.
  induction dims as [|d ds IH]; intros count vs out H Hd Hc Hlen; cbn [nest] in H.
  - inversion H; subst. cbn in Hlen. lia.
  - inversion Hd as [|? ? Hd0 Hds]; subst.
    apply bind_Ok in H as (inner & Hi & H). apply bind_Ok in H as (ch & Hch & H). inversion H; subst.
    assert (Hin : zlen inner = count * d).
    { eapply IH; [exact Hi|exact Hds|nia|]. rewrite Hlen, prodZ_cons. ring. }
    apply chunks_zlen in Hch as [_ Hch]. rewrite zlen_map, Hch.
    destruct (d =? 0) eqn:E; [reflexivity|]. rewrite Hin. apply Z.div_mul. lia.
Qed.

Lemma existsb_neg_false l : existsb (fun d => d <? 0) l = false -> Forall (fun d => 0 <= d) l.
Proof.
  induction l as [|x l IH]; cbn; [constructor|]. intros H. apply orb_false_iff in H as [H1 H2].
  constructor; [lia|auto].
Qed.
Lemma Forall_nonneg_existsb l : Forall (fun d => 0 <= d) l -> existsb (fun d => d <? 0) l = false.
Proof. induction 1; cbn; [reflexivity|]. apply orb_false_iff. split; [lia|assumption]. Qed.

Lemma to_list_Numpy_inv dt shape data vs :
  to_list (Numpy dt shape data) = Ok vs ->
  exists n dims, shape = n :: dims /\ Forall (fun d => 0 <= d) shape /\ prodZ shape <= zlen data /\
                 nest dims n (map (leaf dt) (take (prodZ shape) data)) = Ok vs.
Proof.
  rewrite to_list_Numpy. destruct shape as [|n dims]; [discriminate|].
  destruct (existsb _ _) eqn:E1; [discriminate|]. destruct (_ <? _) eqn:E2; [discriminate|].
  intros H. exists n, dims. repeat split; [apply existsb_neg_false, E1|lia|exact H].
Qed.

(* ---------------------------------------------------------------- T1 *)
(* the length law needs no validity: whenever a layout has a value, the value has [clen] elements *)
Lemma to_list_len c : forall vs, to_list c = Ok vs -> zlen vs = clen c.
Proof.
  induction c as [dt shape data| |w o c IHc|w s e c IHc|c size zl IHc|w ix c IHc|w ix c IHc|m vw c IHc
                 |m vw lsb n c IHc|c IHc|w t ix cs IHcs|cs ks n IHcs|arr rn c IHc] using content_ind';
    intros vs Hl.
  - (* Numpy *)
    apply to_list_Numpy_inv in Hl as (n & dims & -> & Hs & Hd & Hn).
    inversion Hs as [|? ? Hn0 Hds]; subst. cbn [clen].
    eapply nest_zlen; [exact Hn|exact Hds|exact Hn0|].
    rewrite zlen_map, zlen_take; [reflexivity|]. split; [apply prodZ_nonneg, Hs|exact Hd].
  - inversion Hl. reflexivity.
  - (* ListOffset *)
    rewrite to_list_ListOffset in Hl. apply bind_Ok in Hl as (vs0 & _ & Hl).
    apply rmap_Ok in Hl as (ls & Hc & ->). rewrite zlen_map. cbn [clen].
    unfold cut in Hc. destruct o as [|a o]; [discriminate|].
    rewrite (mapM_zlen _ _ _ Hc), zlen_pairs by discriminate. reflexivity.
  - (* ListA *)
    rewrite to_list_ListA in Hl. apply bind_Ok in Hl as (vs0 & _ & Hl).
    apply rmap_Ok in Hl as (ls & Hc & ->). rewrite zlen_map. cbn [clen].
    unfold cut2 in Hc. destruct (zlen e <? zlen s) eqn:E; [discriminate|].
    rewrite (mapM_zlen _ _ _ Hc), zlen_zip. lia.
  - (* Regular *)
    rewrite to_list_Regular in Hl. apply bind_Ok in Hl as (vs0 & H0 & Hl).
    apply rmap_Ok in Hl as (ls & Hc & ->). rewrite zlen_map. cbn [clen].
    apply chunks_zlen in Hc as [_ Hc]. rewrite Hc, (IHc _ H0). reflexivity.
  - rewrite to_list_Indexed in Hl. apply bind_Ok in Hl as (vs0 & _ & Hl).
    rewrite (mapM_zlen _ _ _ Hl). reflexivity.
  - rewrite to_list_IndexedOption in Hl. apply bind_Ok in Hl as (vs0 & _ & Hl).
    rewrite (mapM_zlen _ _ _ Hl). reflexivity.
  - rewrite to_list_ByteMasked in Hl. apply bind_Ok in Hl as (vs0 & _ & Hl).
    rewrite (mapM_zlen _ _ _ Hl), zlen_zip, zlen_iota by apply zlen_nonneg. cbn [clen]. lia.
  - rewrite to_list_BitMasked in Hl. apply bind_Ok in Hl as (vs0 & _ & Hl).
    destruct (n <? 0) eqn:E; [discriminate|].
    rewrite (mapM_zlen _ _ _ Hl), zlen_iota by lia. reflexivity.
  - rewrite to_list_Unmasked in Hl. cbn [clen]. auto.
  - rewrite to_list_Union in Hl. apply bind_Ok in Hl as (vss & _ & Hl).
    destruct (zlen ix <? zlen t) eqn:E; [discriminate|].
    rewrite (mapM_zlen _ _ _ Hl), zlen_zip. cbn [clen]. lia.
  - rewrite to_list_Record in Hl. apply bind_Ok in Hl as (vss & _ & Hl).
    destruct (n <? 0) eqn:E; [discriminate|].
    rewrite (mapM_zlen _ _ _ Hl), zlen_iota by lia. reflexivity.
  - rewrite to_list_Par in Hl. apply bind_Ok in Hl as (vs0 & H0 & Hl). cbn [clen]. rewrite <- (IHc _ H0).
    destruct arr as [[]|]; try (inversion Hl; subst; reflexivity); apply (mapM_zlen _ _ _ Hl).
Qed.

Theorem to_list_length : forall c p vs, Valid p c -> to_list c = Ok vs -> zlen vs = clen c.
Proof. intros c p vs _ H. apply to_list_len, H. Qed.

Example to_list_length_ex :
  let c := Par (Some AString) None (ListOffset I64 [0; 2; 2; 3] (Par (Some AChar) None (Numpy DUInt8 [3] [DZ 104; DZ 105; DZ 33]))) in
  validb None c = true /\ to_list c = Ok [VStr true [104; 105]; VStr true []; VStr true [33]] /\ clen c = 3.
Proof. vm_compute. repeat split. Qed.
