(** C17 proofs, part 10: the Form -> JSON -> Form round trip stated for ARRAYS: the form of every layout (Content::form)
    whose dimensions and regular sizes fit an int and whose record keys / record names are NUL-free byte strings is
    well-formed, hence survives Form::tojson / Form::fromjson -- as a JSON value and as JSON text, compact and verbose. *)
From Coq Require Import ZArith List Bool Lia String.
From AwkV Require Import Base Layout LayoutInd Valid Types.
From AwkTypes Require Import Json Forms TypeStr Proofs_Json Proofs_Parse Proofs_C17b_Exact Proofs_C17b_ParseX_Json
  Proofs_C17b_FormText.
Import ListNotations.
Open Scope Z_scope.

(* what Content::form needs for its JSON to come back: sizes within int (JSON readers use GetInt), one NUL-free
   byte-string key per record field, record names byte strings *)
Fixpoint jf_ok (c : content) : bool :=
  match c with
  | Numpy _ shape _ => forallb is_int32 (tl shape)
  | Empty => true
  | ListOffset _ _ c' | ListA _ _ _ c' | Indexed _ _ c' | IndexedOption _ _ c' | ByteMasked _ _ c'
  | BitMasked _ _ _ _ c' | Unmasked c' => jf_ok c'
  | Regular c' size _ => is_int32 size && jf_ok c'
  | Union _ _ _ cs => forallb jf_ok cs
  | Record cs ks _ =>
      forallb jf_ok cs &&
      match ks with
      | Some ks => Nat.eqb (length ks) (length cs) && forallb nonul ks && forallb key_ok ks
      | None => true
      end
  | Par _ r c' => match r with Some n => key_ok n | None => true end && jf_ok c'
  end.

Lemma meta_of_wf a r : meta_wf (meta_of a r) = true.
Proof. destruct a as [[]|], r; reflexivity. Qed.

Lemma akind_name_ok k : key_ok (akind_name k) = true.
Proof. destruct k; reflexivity. Qed.

Definition name_opt_ok (r : option name) : bool := match r with Some n => key_ok n | None => true end.

Lemma meta_of_text_ok a r : name_opt_ok r = true -> meta_text_ok (meta_of a r) = true.
Proof.
  intros H. unfold meta_text_ok, meta_of, params_of. cbn [m_params m_key]. rewrite andb_true_r.
  destruct a as [k|], r as [n|]; cbn [app jm_ok forallb fst snd json_ok name_opt_ok] in *;
    rewrite ?akind_name_ok, ?H; reflexivity.
Qed.

Lemma por_name_ok (r r' : option name) : name_opt_ok r = true -> name_opt_ok r' = true -> name_opt_ok (por r r') = true.
Proof. destruct r; auto. Qed.

Lemma iform_of_width_3 w : width3 (iform_of_width w) = true.
Proof. destruct w; reflexivity. Qed.

Definition fok (c : content) : Prop :=
  jf_ok c = true -> forall a r, name_opt_ok r = true ->
  form_wf (form_of_p a r c) = true /\ form_text_ok (form_of_p a r c) = true.

Lemma all_fok (cs : list content) : Forall fok cs -> forallb jf_ok cs = true ->
  forallb form_wf (map (form_of_p None None) cs) = true /\ forallb form_text_ok (map (form_of_p None None) cs) = true.
Proof.
  induction 1 as [|c cs Hc _ IH]; intros H; [split; reflexivity|].
  simpl in H. apply andb_true_iff in H as [H1 H2]. destruct (Hc H1 None None eq_refl) as [W T]. destruct (IH H2) as [Ws Ts].
  cbn [map forallb]. rewrite W, T, Ws, Ts. split; reflexivity.
Qed.

Ltac one_child IH H a r Hr :=
  destruct (IH H None None eq_refl) as [W T]; cbn [form_of_p form_wf form_text_ok];
  rewrite (meta_of_wf a r), (meta_of_text_ok a r Hr), W, T, ?iform_of_width_3, ?iform_eqb_refl; split; reflexivity.

Theorem form_of_wf_all c : fok c.
Proof.
  induction c as [dt shape data| |w o c IH|w s e c IH|c size zl IH|w ix c IH|w ix c IH|m vw c IH|m vw lsb n c IH|c IH
                 |w tg ix cs IH|cs ks n IH|a0 r0 c IH] using content_ind'; intros H a r Hr; cbn [jf_ok] in H.
  - cbn [form_of_p form_wf form_text_ok]. rewrite (meta_of_wf a r), (meta_of_text_ok a r Hr), H.
    destruct dt; split; reflexivity.
  - cbn [form_of_p form_wf form_text_ok]. rewrite (meta_of_wf a r), (meta_of_text_ok a r Hr). split; reflexivity.
  - one_child IH H a r Hr.
  - one_child IH H a r Hr.
  - apply andb_true_iff in H as [Hs H]. destruct (IH H None None eq_refl) as [W T]. cbn [form_of_p form_wf form_text_ok].
    rewrite (meta_of_wf a r), (meta_of_text_ok a r Hr), W, T, Hs. split; reflexivity.
  - one_child IH H a r Hr.
  - destruct (IH H None None eq_refl) as [W T]. cbn [form_of_p form_wf form_text_ok].
    rewrite (meta_of_wf a r), (meta_of_text_ok a r Hr), W, T. destruct w; split; reflexivity.
  - one_child IH H a r Hr.
  - one_child IH H a r Hr.
  - one_child IH H a r Hr.
  - destruct (all_fok cs IH H) as [Ws Ts]. cbn [form_of_p form_wf form_text_ok].
    rewrite (meta_of_wf a r), (meta_of_text_ok a r Hr), Ws, Ts, iform_of_width_3. split; reflexivity.
  - apply andb_true_iff in H as [H Hk]. destruct (all_fok cs IH H) as [Ws Ts]. cbn [form_of_p form_wf form_text_ok].
    rewrite (meta_of_wf a r), (meta_of_text_ok a r Hr), Ws, Ts. cbn [andb].
    destruct ks as [ks|]; [|split; reflexivity].
    apply andb_true_iff in Hk as [Hk Hk3]. apply andb_true_iff in Hk as [Hk1 Hk2].
    rewrite map_length. split; [apply andb_true_iff; split; [exact Hk1|exact Hk2]|exact Hk3].
  - apply andb_true_iff in H as [Hn H]. cbn [form_of_p]. apply (IH H). apply por_name_ok; assumption.
Qed.

(* the form of such an array is a form of an existing node class ... *)
Theorem array_form_wf_thm c : jf_ok c = true -> form_wf (form_of c) = true.
Proof. intros H. exact (proj1 (form_of_wf_all c H None None eq_refl)). Qed.

(* ... so it survives Form -> JSON -> Form, as a JSON value ... *)
Theorem array_form_json_roundtrip_thm c v : jf_ok c = true -> form_fromjson (form_tojson v (form_of c)) = Ok (form_of c).
Proof. intros H. apply form_json_roundtrip_thm, array_form_wf_thm, H. Qed.

(* ... and as JSON text *)
Theorem array_form_text_roundtrip_thm c v : jf_ok c = true -> form_fromtext (form_totext v (form_of c)) = Ok (form_of c).
Proof.
  intros H. destruct (form_of_wf_all c H None None eq_refl) as [W T]. exact (form_text_roundtrip_thm _ v W T).
Qed.

(* two arrays with the same form JSON text have the same form *)
Theorem array_form_text_injective_thm c d v w : jf_ok c = true -> jf_ok d = true ->
  form_totext v (form_of c) = form_totext w (form_of d) -> form_of c = form_of d.
Proof.
  intros Hc Hd E. destruct (form_of_wf_all c Hc None None eq_refl) as [Wc Tc].
  destruct (form_of_wf_all d Hd None None eq_refl) as [Wd Td]. exact (form_text_injective_thm _ _ v w Wc Tc Wd Td E).
Qed.

(* ---------------------------------------------------------------- example and the excluded shapes *)
Definition ex_array_f : content :=
  Par None (Some [80; 116])
    (Record [ListOffset I64 [0; 2; 2]
               (Record [Numpy DInt64 [2] [DZ 1; DZ 2];
                        IndexedOption I32 [0; -1]
                          (Par (Some AString) None
                             (ListOffset U32 [0; 2] (Par (Some AChar) None (Numpy DUInt8 [2] [DZ 97; DZ 98]))))]
                       (Some [[120]; [121; 34]]) 2);
             BitMasked [1] true false 2 (Union I32 [0; 1] [0; 0] [Numpy DFloat64 [1; 0; 3] []; Empty]);
             Par (Some ACategorical) None (Indexed I64 [0; 0] (Regular (Numpy DBool [0] []) 0 1))] None 2).

Example ex_array_f_ok : jf_ok ex_array_f = true.
Proof. vm_compute. reflexivity. Qed.
Example ex_array_f_text : form_totext false (form_of ex_array_f) = bytes_of_string
  "{""class"":""RecordArray"",""contents"":[{""class"":""ListOffsetArray64"",""offsets"":""i64"",""content"":{""class"":""RecordArray"",""contents"":{""x"":""int64"",""y\"""":{""class"":""IndexedOptionArray32"",""index"":""i32"",""content"":{""class"":""ListOffsetArrayU32"",""offsets"":""u32"",""content"":{""class"":""NumpyArray"",""itemsize"":1,""format"":""B"",""primitive"":""uint8"",""parameters"":{""__array__"":""char""}},""parameters"":{""__array__"":""string""}}}}}},{""class"":""BitMaskedArray"",""mask"":""u8"",""content"":{""class"":""UnionArray8_32"",""tags"":""i8"",""index"":""i32"",""contents"":[{""class"":""NumpyArray"",""inner_shape"":[0,3],""itemsize"":8,""format"":""d"",""primitive"":""float64""},{""class"":""EmptyArray""}]},""valid_when"":true,""lsb_order"":false},{""class"":""IndexedArray64"",""index"":""i64"",""content"":{""class"":""RegularArray"",""content"":""bool"",""size"":0},""parameters"":{""__array__"":""categorical""}}],""parameters"":{""__record__"":""Pt""}}"%string.
Proof. vm_compute. reflexivity. Qed.
Example ex_array_f_roundtrip : forall v, form_fromtext (form_totext v (form_of ex_array_f)) = Ok (form_of ex_array_f).
Proof. intros v. exact (array_form_text_roundtrip_thm ex_array_f v ex_array_f_ok). Qed.

(* outside: a valid (empty) array with a dimension beyond int: Form::fromjson rejects the form's own JSON *)
Example big_dimension_refuted :
  let c := Numpy DInt64 [0; 2147483648] [] in
  valid_b c = true /\ jf_ok c = false /\ form_fromjson (form_tojson false (form_of c)) = Err EValue.
Proof. cbv zeta. repeat split; vm_compute; reflexivity. Qed.

(* outside: a NUL byte in a record key: the key comes back cut *)
Example nul_key_refuted :
  let c := Record [Numpy DInt64 [1] [DZ 1]] (Some [[97; 0; 98]]) 1 in
  jf_ok c = false /\
  form_fromjson (form_tojson false (form_of c)) = Ok (FRecord meta0 (Some [[97]]) [form_of (Numpy DInt64 [1] [DZ 1])]).
Proof. cbv zeta. split; vm_compute; reflexivity. Qed.
