(* C19 — fault freedom, part 6: the run loop and the public API. *)
From Coq Require Import ZArith Bool List Lia ZifyBool.
From AwkForth Require Import Forth Proofs_C19 Proofs_C19_SafeDefs Proofs_C19_Safe Proofs_C19_Safe2 Proofs_C19_Safe3
     Proofs_C19_Words Proofs_C19_Safe4 Proofs_C19_Safe5.
Import ListNotations.
Open Scope Z_scope.

Lemma exec_instr_ctl : forall single p e t m m1, exec_instr true single p e t m = Ok (Continue, m1) -> ctl m1 = ctl m.
Proof.
  intros single p e t m m1 H. unfold exec_instr in H.
  destruct (fetch_instr p m) as [[m'|bc m0]|k|] eqn:Ef; try discriminate; apply fetch_instr_ctl in Ef.
  - unfold continue in H. inv H. assumption.
  - destruct (exec_op true single p e m0 bc) as [[[|] m2]|k|] eqn:Eo; try discriminate.
    apply exec_op_ctl in Eo. destruct single.
    + destruct (bc =? CODE_EXIT); [discriminate|].
      pose proof (single_tail_shape true p t m2 _ H) as Hs. destruct Hs.
    + inv H. congruence.
Qed.

Lemma chain_head_notin : forall d r n, chain_ok 1 (d :: r) n = true -> d <> n -> memz n (d :: r) = false.
Proof.
  intros d r n H Hd. cbn [chain_ok] in H. rewrite memz_cons.
  assert (Hr : chain_ok 1 r (d - 1) = true) by lia. rewrite (chain_ok_notin _ _ _ n Hr) by lia. lia.
Qed.

Section Run.
  Variables (c : list sctx) (p : prog) (e : env).
  Hypothesis Hc : check_prog c p = true.

  Notation good := (good c p e).

  (* the state at the head of the run loop, when the target depth has not been reached *)
  Lemma loop_state : forall m t ts, inv c p e m = true -> m_ready m = true -> m_targets m = t :: ts -> depth m <> t ->
    exists w ip fr, m_frames m = (w, ip) :: fr /\ tlt (m_targets m) (zlen fr + 1).
  Proof.
    intros m t ts H Hr Ht Hd. destruct (inv_parts c p e _ H) as [_ [_ [_ T]]]. rewrite Hr, Ht in T.
    unfold depth in Hd. destruct (m_frames m) as [|[w ip] fr] eqn:Ef.
    - cbn [chain_ok] in T. rewrite zlen_nil in *. lia.
    - exists w, ip, fr. split; [reflexivity|]. rewrite Ht. rewrite zlen_cons in *.
      apply tlt_of_chain; [assumption|]. intros t0 r E. inv E. clear - Hd. lia.
  Qed.

  Lemma done_not_mid : forall m w ip fr, inv c p e m = true -> m_frames m = (w, ip) :: fr ->
    segment_done p m = Ok true -> memz (zlen fr + 1) (ddepths (m_dos m)) = false.
  Proof.
    intros m w ip fr H Hfr Hd.
    destruct (top_facts c p e Hc _ _ _ _ H Hfr) as [sw [seg [Hw [Hsg [Hck [Hs [Hct [Hpos _]]]]]]]].
    rewrite (segdone_eq p m w ip fr seg Hfr Hsg) in Hd. inv Hd.
    destruct (memz (zlen fr + 1) (ddepths (m_dos m))) eqn:Em; [|reflexivity]. exfalso.
    destruct (mid_not_done c p Hc _ _ _ Hck Hpos) as [bc [Hbc _]]. apply znth_range in Hbc. lia.
  Qed.

  Lemma single_tail_good : forall m t ts, inv c p e m = true -> m_ready m = true -> m_targets m = t :: ts ->
    good (single_tail true p t m).
  Proof.
    intros m t ts H Hr Ht. unfold single_tail.
    assert (Hne : m_targets m <> []) by (rewrite Ht; discriminate).
    destruct (depth m =? t) eqn:Ed; [cbn; split; [assumption|intros _; assumption]|].
    destruct (loop_state m t ts H Hr Ht ltac:(lia)) as [w [ip [fr [Hfr Htl]]]].
    destruct (top_facts c p e Hc _ _ _ _ H Hfr) as [sw [seg [Hw [Hsg _]]]].
    pose proof (segdone_eq p m w ip fr seg Hfr Hsg) as Hsd. rewrite Hsd.
    destruct (negb (ip <? zlen seg)) eqn:Eb.
    - pose proof (done_not_mid m w ip fr H Hfr Hsd) as Hm.
      pose proof (pop_incr_good c p e Hc m w ip fr H Hfr Hm Htl Hne) as G.
      destruct (pop_incr m) as [[fl m']|k|]; [|exact G|exact I]. eapply good_return. exact G.
    - cbn. split; [assumption|intros _; assumption].
  Qed.

  Lemma after_op_good : forall single bc t ts m0 r, exec_op true single p e m0 bc = r -> good r ->
    m_ready m0 = true -> m_targets m0 = t :: ts ->
    good (match r with
          | Ok (Continue, m2) => if single then if bc =? CODE_EXIT then Ok (Return, m2) else single_tail true p t m2
                                 else Ok (Continue, m2)
          | Ok (Return, m2) => Ok (Return, m2)
          | Fault k => Fault k
          | OutOfFuel => OutOfFuel
          end).
  Proof.
    intros single bc t ts m0 r Hr G Hrd Htg. destruct r as [[[|] m2]|k|]; try exact G.
    pose proof (exec_op_ctl _ _ _ _ _ _ Hr) as Hctl. unfold ctl in Hctl. inv Hctl.
    destruct G as [G1 G2]. specialize (G2 (or_introl eq_refl)).
    destruct single; [|split; [assumption|intros _; assumption]].
    destruct (bc =? CODE_EXIT); [split; [assumption|intros _; assumption]|].
    eapply single_tail_good; [assumption|congruence|rewrite H2; eassumption].
  Qed.

  Lemma exec_instr_good : forall single m t ts, inv c p e m = true -> m_ready m = true -> m_targets m = t :: ts ->
    depth m <> t -> segment_done p m = Ok false -> good (exec_instr true single p e t m).
  Proof.
    intros single m t ts H Hr Ht Hd Hsd.
    assert (Hne : m_targets m <> []) by (rewrite Ht; discriminate).
    destruct (loop_state m t ts H Hr Ht Hd) as [w [ip [fr [Hfr Htl]]]].
    destruct (top_facts c p e Hc _ _ _ _ H Hfr) as [sw [seg [Hw [Hsg [Hck [Hs [Hct [Hpos [Hnx Hch]]]]]]]]].
    rewrite (segdone_eq p m w ip fr seg Hfr Hsg) in Hsd. inv Hsd.
    pose proof (Hsegs c p Hc) as Hsg'.
    (* the cell at ip exists *)
    assert (Hcell : exists bc, znth seg ip = Some bc).
    { apply znth_some. split; [|clear - H1; lia].
      destruct (memz (zlen fr + 1) (ddepths (m_dos m))).
      - destruct (mid_not_done c p Hc _ _ _ Hck Hpos) as [bc [Hbc _]]. apply znth_range in Hbc. lia.
      - unfold check_seg in Hck. bsplit. pose proof (forallb_memz _ _ _ H3 Hpos) as Hx. cbv beta in Hx. bsplit.
        match goal with Hq : (0 <=? ip) = true |- _ => clear - Hq; lia end. }
    destruct Hcell as [bc Hbc].
    unfold exec_instr, fetch_instr. rewrite Hfr, Hsg, Hbc.
    destruct (m_dos m) as [|[[dd dstop] di] dos'] eqn:Edos.
    { (* no do-loop at all *)
      cbn [ddepths map memz existsb] in Hpos.
      assert (G0 : good (exec_op true single p e (set_frames m ((w, ip + 1) :: fr)) bc)).
      { eapply (exec_op_good c p e Hc m w ip fr sw seg); try eassumption. rewrite Edos. reflexivity. }
      exact (after_op_good single bc t ts _ _ eq_refl G0 Hr Ht). }
    rewrite ddepths_cons in *. unfold depth. rewrite Hfr, zlen_cons.
    destruct (abs_depth dd =? zlen fr + 1) eqn:Etop.
    - (* the loop header of this frame *)
      assert (abs_depth dd = zlen fr + 1) by (clear - Etop; lia). rewrite H0 in *. rewrite memz_cons, Z.eqb_refl in Hpos. cbn [orb] in Hpos.
      destruct (mid_not_done c p Hc _ _ _ Hck Hpos) as [bc' [Hbc' [Hge [Hchild HB]]]].
      rewrite Hbc in Hbc'. inv Hbc'.
      destruct (dstop <=? di).
      + cbn. split; [assumption|]. intros _. apply inv_mk; [exact Hs|].
        cbn [m_frames m_dos m_targets m_ready set_frames set_dos]. eapply (T_loopend c p Hsg'); eassumption.
      + refine (after_op_good single bc' t ts m _ eq_refl _ Hr Ht).
        unfold exec_op. replace (bc' <? 0) with false by (clear - Hge; unfold BOUND_DICTIONARY in Hge; lia).
        replace (BOUND_DICTIONARY <=? bc') with true by (clear - Hge; lia).
        unfold push_frame. destruct (depth m =? p_rec_max p); [apply good_stop; [assumption|discriminate]|].
        cbn. split; [assumption|]. intros _. apply inv_mk; [exact Hs|].
        cbn [m_frames m_dos m_targets m_ready set_frames]. rewrite Hfr, Edos, ddepths_cons, H0.
        eapply (T_docall c p Hsg'); try eassumption. rewrite memz_cons, Z.eqb_refl. reflexivity.
    - (* a do-loop of an outer frame *)
      assert (Hm : memz (zlen fr + 1) (abs_depth dd :: ddepths dos') = false) by (apply chain_head_notin; [assumption|clear - Etop; lia]).
      rewrite Hm in Hpos.
      assert (G0 : good (exec_op true single p e (set_frames m ((w, ip + 1) :: fr)) bc)).
      { eapply (exec_op_good c p e Hc m w ip fr sw seg); try eassumption. rewrite Edos, ddepths_cons. assumption. }
      exact (after_op_good single bc t ts _ _ eq_refl G0 Hr Ht).
  Qed.

  Definition goodR (r : result machine) : Prop :=
    match r with
    | Ok m1 => m_targets m1 <> [] /\ (m_err m1 = E_none -> inv c p e m1 = true)
    | Fault k => k = F_count
    | OutOfFuel => True
    end.

  Lemma irun_good : forall f single m t ts, inv c p e m = true -> m_ready m = true -> m_targets m = t :: ts ->
    goodR (internal_run f true single p e t m).
  Proof.
    induction f as [|f IH]; intros single m t ts H Hr Ht; [exact I|].
    assert (Hne : m_targets m <> []) by (rewrite Ht; discriminate).
    rewrite IR_S. destruct (depth m =? t) eqn:Ed; [cbn; split; [assumption|intros _; assumption]|].
    destruct (loop_state m t ts H Hr Ht ltac:(lia)) as [w [ip [fr [Hfr Htl]]]].
    destruct (top_facts c p e Hc _ _ _ _ H Hfr) as [sw [seg [Hw [Hsg _]]]].
    pose proof (segdone_eq p m w ip fr seg Hfr Hsg) as Hsd. rewrite Hsd.
    destruct (negb (ip <? zlen seg)) eqn:Eb.
    - pose proof (done_not_mid m w ip fr H Hfr Hsd) as Hm.
      pose proof (pop_incr_good c p e Hc m w ip fr H Hfr Hm Htl Hne) as G.
      destruct (pop_incr m) as [[[|] m']|k|] eqn:Ep; [| |exact G|exact I].
      + apply pop_incr_ctl in Ep. unfold ctl in Ep. injection Ep as He1 He2 He3. destruct G as [_ G]. specialize (G (or_introl eq_refl)).
        eapply IH; [assumption|rewrite He2; assumption|rewrite He3; eassumption].
      + destruct G as [G1 G2]. split; [assumption|]. intro He. apply G2. right. assumption.
    - pose proof (exec_instr_good single m t ts H Hr Ht ltac:(lia) Hsd) as G.
      destruct (exec_instr true single p e t m) as [[[|] m']|k|] eqn:Ep; [| |exact G|exact I].
      + apply exec_instr_ctl in Ep. unfold ctl in Ep. injection Ep as He1 He2 He3. destruct G as [_ G]. specialize (G (or_introl eq_refl)).
        eapply IH; [assumption|rewrite He2; assumption|rewrite He3; eassumption].
      + destruct G as [G1 G2]. split; [assumption|]. intro He. apply G2. right. assumption.
  Qed.
End Run.
