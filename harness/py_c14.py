"""Python-side runner of the C14 from_iter stream.  Run with /venv/bin/python (pyshim makes the REAL /repo/src/awkward Python
layer -- ak.from_iter, ak.ArrayBuilder, ak.to_list -- executable over the libawkward built from /repo).  One case per stdin
line: `ID<TAB>PYTHON-LITERAL` (a list of values); output `ID<TAB>ok<TAB>repr(to_list(from_iter(values)))` or
`ID<TAB>err<TAB>ExceptionClass`.  No oracle here: it only transports values."""
import sys
import warnings

sys.path.insert(0, '/verif')


def main():
    from pyshim.install import install
    install()
    import awkward as ak
    for line in sys.stdin:
        line = line.rstrip('\n')
        if not line:
            continue
        cid, text = line.split('\t', 1)
        try:
            vals = eval(text, {'__builtins__': {}}, {'nan': float('nan'), 'inf': float('inf')})
            with warnings.catch_warnings():
                warnings.simplefilter('ignore')
                out = ak.to_list(ak.from_iter(vals))
            sys.stdout.write('%s\tok\t%r\n' % (cid, out))
        except Exception as e:      # noqa: BLE001
            sys.stdout.write('%s\terr\t%s\n' % (cid, type(e).__name__))
        sys.stdout.flush()


if __name__ == '__main__':
    main()
