(** C11 (closure), part 8: sort along a NON-innermost axis ([Ops_SortAxes.sort_axes_model]) and the wrapper
    [sort_model_all] produce valid layouts from valid layouts: every valid layout, every axis, NO fragment hypothesis
    ([Proofs_SortAxes2.sax_all] gives validity of the answer only together with the refinement, i.e. for layouts that
    have a value, of type [saxty], inside [frag1], with in-range groups; here validity alone is carried through
    [sax]: the gather back is [carry], closed by [Proofs_Closure7.carry_valid_full]). *)
From Coq Require Import ZArith List Bool Lia ZifyBool.
From AwkV Require Import Base Layout LayoutInd Valid Types AtAxis Carry Ops_Struct Ops_Sort Ops_SortAxes Ops_Reduce
                         Typing Proofs_Typing Proofs_C11 Proofs_Lists Proofs_ToList Proofs_Carry Proofs_CarryValid
                         Proofs_AtAxis Proofs_AtAxisOps Proofs_Reduce Proofs_Closure Proofs_Closure4
                         Proofs_SortAxes Proofs_SortAxes2 Proofs_Closure6 Proofs_Closure7.
Import ListNotations.
Open Scope Z_scope.
Ltac Zify.zify_post_hook ::= Z.to_euclidean_division_equations.

(* ---------------------------------------------------------------- lengths of the pieces of [sax] *)
Lemma sumZ_app l m : sumZ (l ++ m) = sumZ l + sumZ m.
Proof.
  induction l as [|x l IH]; [reflexivity|]. cbn [app]. change (sumZ (x :: l ++ m)) with (x + sumZ (l ++ m)).
  change (sumZ (x :: l)) with (x + sumZ l). rewrite IH. ring.
Qed.

Lemma sax_number_zlen cols : forall base, zlen (sax_number base cols) = zlen cols.
Proof. induction cols as [|g r IH]; intros base; [reflexivity|]. cbn [sax_number]. rewrite !zlen_cons, IH. reflexivity. Qed.

Lemma sax_maxlen_ge sub jse : In jse sub -> seglen jse <= sax_maxlen sub.
Proof.
  intros Hin. unfold sax_maxlen. apply (proj2 (Proofs_SortCols.fold_max_ge _ 0)).
  apply in_map_iff. exists jse. split; [reflexivity|exact Hin].
Qed.
Lemma sax_cols_zlen sub : zlen (sax_cols sub) = sax_maxlen sub.
Proof. unfold sax_cols. rewrite zlen_map, zlen_iota; [reflexivity|]. unfold sax_maxlen. apply Proofs_Closure4.fold_max_ge. Qed.

(* the outcarry has one entry per element of every row *)
Lemma sax_back_zlen subs : forall base oc,
  sax_back base subs = Ok oc -> Forall (Forall (fun jse => 0 <= seglen jse)) subs ->
  zlen oc = sumZ (map seglen (concat subs)).
Proof.
  induction subs as [|sub r IH]; intros base oc H Hs.
  - cbn [sax_back] in H. inversion H. reflexivity.
  - rewrite sax_back_cons in H. apply bind_Ok in H as (rows & Hrows & H). apply bind_Ok in H as (rest & Hrest & H).
    inversion H; subst. inversion Hs as [|? ? Hsub Hr]; subst.
    cbn [concat]. rewrite map_app, sumZ_app, zlen_app, (IH _ _ Hrest Hr). f_equal.
    rewrite <- sumZ_zlen_concat. f_equal.
    clear - Hrows Hsub.
    assert (Hgen : forall (sub0 : list (Z * (Z * Z))) rows0,
              (forall jse, In jse sub0 -> In jse sub) ->
              mapM (fun jse : Z * (Z * Z) =>
                      mapM (fun qc : Z * list (Z * Z) => assocZ (fst jse) (snd qc))
                           (zip (iota (seglen jse)) (sax_number base (sax_cols sub)))) sub0 = Ok rows0 ->
              map zlen rows0 = map seglen sub0).
    { induction sub0 as [|jse sub0 IH0]; intros rows0 Hincl Hm; cbn [mapM] in Hm.
      - inversion Hm. reflexivity.
      - apply bind_Ok in Hm as (row & Hrow & Hm). apply bind_Ok in Hm as (rows1 & Hrows1 & Hm). inversion Hm; subst.
        cbn [map]. f_equal; [|apply IH0; [intros x Hx; apply Hincl; right; exact Hx|exact Hrows1]].
        rewrite (mapM_zlen _ _ _ Hrow), zlen_zip, sax_number_zlen, sax_cols_zlen.
        assert (Hin : In jse sub) by (apply Hincl; left; reflexivity).
        pose proof (sax_maxlen_ge sub jse Hin). rewrite Forall_forall in Hsub. specialize (Hsub jse Hin).
        rewrite zlen_iota by exact Hsub. lia. }
    apply (Hgen sub rows); [auto|exact Hrows].
Qed.

(* rows read off a list node of a valid layout have non-negative lengths *)
Lemma subs_seglen_nonneg lc (bs : list (Z * Z)) groups subs :
  Forall (pair_ok lc) bs -> mapM (gatherG bs) groups = Ok subs ->
  Forall (Forall (fun jse => 0 <= seglen jse)) subs.
Proof.
  intros Hp H. apply Forall_forall. intros sub Hsub. apply Forall_forall. intros [j se] Hjse.
  destruct (mapM_In_inv _ _ _ _ H Hsub) as (G & _ & HG).
  destruct (gatherG_In _ _ _ _ _ HG Hjse) as (q & _ & Hq). apply get_In in Hq.
  rewrite Forall_forall in Hp. specialize (Hp se Hq). unfold pair_ok in Hp. unfold seglen. cbn [fst snd]. lia.
Qed.

Lemma gatherG_zlen {A} (xs : list A) G l : gatherG xs G = Ok l -> zlen l = zlen G.
Proof. apply mapM_zlen. Qed.
Lemma gatherGs_zlens {A} (xs : list A) groups subs :
  mapM (gatherG xs) groups = Ok subs -> map zlen subs = map zlen groups.
Proof.
  revert subs. induction groups as [|G r IH]; intros subs H; cbn [mapM] in H.
  - inversion H. reflexivity.
  - apply bind_Ok in H as (l & Hl & H). apply bind_Ok in H as (ls & Hls & H). inversion H; subst.
    cbn [map]. rewrite (gatherG_zlen _ _ _ Hl), (IH _ Hls). reflexivity.
Qed.

Lemma seglens_nonneg subs :
  Forall (Forall (fun jse => 0 <= seglen jse)) subs -> Forall (fun n => 0 <= n) (map seglen (concat subs)).
Proof.
  intros H. apply Forall_map. apply Forall_forall. intros jse Hin. apply in_concat in Hin as (sub & Hsub & Hin).
  rewrite Forall_forall in H. specialize (H sub Hsub). rewrite Forall_forall in H. apply H, Hin.
Qed.

(* ---------------------------------------------------------------- [sax] keeps validity *)
(* the answer is valid and lists as many rows as it was given *)
Definition sax_fits (groups : list (list (Z * Z))) (c' : content) : Prop :=
  Valid None c' /\ clen c' = sumZ (map zlen groups).

Lemma sax_leaf_fits asc p c groups c' : leaf_node c = true -> sax asc p c groups = Ok c' -> sax_fits groups c'.
Proof.
  intros Hleaf H. rewrite (sax_leaf_eq _ _ _ _ Hleaf) in H. apply bind_Ok in H as (ks & _ & H).
  apply bind_Ok in H as (per & Hper & H). inversion H; subst.
  destruct (content_of_keys_valid (leaf_dtype c) (concat per)) as (A & B & _). split; [exact A|]. rewrite B.
  rewrite <- sumZ_zlen_concat. f_equal.
  clear - Hper. revert per Hper. induction groups as [|G r IH]; intros per Hper; cbn [mapM] in Hper.
  - inversion Hper. reflexivity.
  - apply bind_Ok in Hper as (x & Hx & Hper). apply bind_Ok in Hper as (xs & Hxs & Hper). inversion Hper; subst.
    cbn [map]. rewrite (IH _ Hxs). f_equal. apply bind_Ok in Hx as (seg & Hseg & Hx).
    replace x with (sort_keys asc false (leaf_dtype c) seg) by congruence.
    unfold zlen. rewrite sort_keys_length. fold (zlen seg). apply (mapM_zlen _ _ _ Hseg).
Qed.

Lemma sax_list_fits asc p c cc groups c' :
  list_content c = Some cc -> Valid p c ->
  (forall g' r, Valid None cc -> sax asc None cc g' = Ok r -> sax_fits g' r) ->
  sax asc p c groups = Ok c' -> sax_fits groups c'.
Proof.
  intros Hc HV IH H. rewrite (sax_list_eq _ _ _ _ _ Hc) in H. destruct (is_strk p) eqn:Es; [discriminate|].
  apply bind_Ok in H as ([bs cc0] & Hb & H). cbn [fst] in H. apply bind_Ok in H as (subs & Hsubs & H).
  apply bind_Ok in H as (inner & Hin & H). apply bind_Ok in H as (oc & Hoc & H). apply bind_Ok in H as (out & Hout & H).
  inversion H; subst.
  destruct (list_bounds_valid _ _ _ _ HV Hb) as (Hc0 & _ & Hp & Hvc). rewrite Hc in Hc0. inversion Hc0; subst cc0.
  destruct (IH _ _ (Hvc Es) Hin) as (A & _).
  destruct (carry_valid_len inner oc out A Hout) as (B1 & B2 & _).
  pose proof (subs_seglen_nonneg _ _ _ _ Hp Hsubs) as Hnn.
  pose proof (sax_back_zlen _ _ _ Hoc Hnn) as Hz.
  split.
  - apply offsets_valid; [apply seglens_nonneg, Hnn|rewrite B2, Hz; lia|exact B1].
  - cbn [clen]. rewrite zlen_offsets_from, zlen_map, <- sumZ_zlen_concat, (gatherGs_zlens _ _ _ Hsubs). lia.
Qed.

Lemma sax_valid_all asc c : forall p groups c', Valid p c -> sax asc p c groups = Ok c' -> sax_fits groups c'.
Proof.
  induction c as [dt shape data| |w o c IHc|w s e c IHc|c size zl IHc|w ix c IHc|w ix c IHc|m vw c IHc
                 |m vw lsb n c IHc|c IHc|w t ix cs IHcs|cs ks n IHcs|arr rn c IHc] using content_ind';
    intros p groups c' HV H.
  - eapply sax_leaf_fits; [|exact H]; reflexivity.
  - eapply sax_leaf_fits; [|exact H]; reflexivity.
  - eapply sax_list_fits; [| | |exact H]; [reflexivity|exact HV|]. intros g' r Hv Hr. exact (IHc None g' r Hv Hr).
  - eapply sax_list_fits; [| | |exact H]; [reflexivity|exact HV|]. intros g' r Hv Hr. exact (IHc None g' r Hv Hr).
  - eapply sax_list_fits; [| | |exact H]; [reflexivity|exact HV|]. intros g' r Hv Hr. exact (IHc None g' r Hv Hr).
  - rewrite sax_Indexed_eq in H. apply bind_Ok in H as (gs & Hgs & H). inversion HV; subst.
    match goal with Hv : Valid None c |- _ => destruct (IHc None gs c' Hv H) as [A B] end.
    split; [exact A|]. rewrite B, (gatherGs_zlens _ _ _ Hgs). reflexivity.
  - eapply sax_leaf_fits; [|exact H]; reflexivity.
  - eapply sax_leaf_fits; [|exact H]; reflexivity.
  - eapply sax_leaf_fits; [|exact H]; reflexivity.
  - eapply sax_leaf_fits; [|exact H]; reflexivity.
  - discriminate.
  - discriminate.
  - cbn [sax] in H. inversion HV; subst. eapply IHc; eassumption.
Qed.

(* ---------------------------------------------------------------- the list node at the axis *)
Lemma sort_axes_Hgv asc u p c cc c' :
  Valid p c -> list_content c = Some cc -> Qtrue u p c = true -> (is_strk p = true -> false = true) ->
  sort_axes_g asc p c = Ok c' -> Valid None c' /\ clen c <= clen c' /\ uplain u c'.
Proof.
  intros HV Hc _ Hs H. unfold sort_axes_g in H. apply bind_Ok in H as ([bs cc0] & Hb & H). cbn [fst snd] in H.
  destruct (negb (saxty (type_of cc0))); [discriminate|]. apply bind_Ok in H as (out & Hout & H). inversion H; subst.
  destruct (list_bounds_valid _ _ _ _ HV Hb) as (Hc0 & Hn & Hp & Hvc). rewrite Hc in Hc0. inversion Hc0; subst cc0.
  assert (Hstr : is_strk p = false) by (destruct (is_strk p); [discriminate (Hs eq_refl)|reflexivity]).
  destruct (sax_valid_all asc (expand cc) None _ out (expand_valid_p cc None (Hvc Hstr)) Hout) as [A B].
  split; [|split; [|split; reflexivity]].
  - apply offsets_valid; [apply zlens_nonneg|rewrite B; lia|exact A].
  - cbn [clen]. rewrite zlen_offsets_from, !zlen_map. lia.
Qed.

(* ---------------------------------------------------------------- the operations *)
(* every valid layout (unions, strings, n-d leaves), every axis: whatever the model answers is valid *)
Theorem sort_axes_preserves_valid : forall asc axis c c',
  Valid None c -> sort_axes_model asc axis c = Ok c' -> Valid None c'.
Proof.
  intros asc axis c c' HV H. unfold sort_axes_model in H. apply bind_Ok in H as (ax & _ & H).
  destruct (negb (sortable (type_of c))); [discriminate|]. destruct (ax =? 0).
  - destruct (saxty (type_of c)); [|discriminate].
    exact (proj1 (sax_valid_all asc (expand c) None _ c' (expand_valid_p c None HV) H)).
  - destruct (model_ax (sort_axes_g asc) (Ok Empty) false c ax) as [r|e] eqn:E.
    + inversion H; subst.
      exact (proj1 (model_ax_valid (sort_axes_g asc) (Ok Empty) false Qtrue (sort_axes_Hgv asc) unk_empty c ax c' HV
                      (ax_all_Qtrue _ _ _ _ _) E)).
    + destruct e; try discriminate. destruct (check_ax _ _ _ _ _ _); discriminate.
Qed.

(* the sort entry point for every axis *)
Theorem sort_all_preserves_valid : forall asc argsort axis c c',
  Valid None c -> sort_model_all asc argsort axis c = Ok c' -> Valid None c'.
Proof.
  intros asc argsort axis c c' HV H. unfold sort_model_all in H. destruct argsort.
  - eapply sort_preserves_valid; eassumption.
  - destruct (sort_model asc false axis c) as [r|e] eqn:E.
    + inversion H; subst. eapply sort_preserves_valid; eassumption.
    + destruct e; try discriminate. eapply sort_axes_preserves_valid; eassumption.
Qed.

(* sort refuses records and unions ([sortable]); nested lists below option-type and indexed nodes, option leaves, an
   n-d leaf: axis 1 of three (non-innermost) and axis 0, both orders, and the wrapper on every axis *)
Example sort_axes_preserves_valid_ex :
  let x := ListOffset I64 [0; 2; 3; 3]
             (ListA I64 [0; 3; 5] [3; 5; 6]
                (IndexedOption I64 [2; -1; 0; 1; 3; -1] (Numpy DInt64 [4] [DZ 5; DZ 1; DZ 9; DZ 4]))) in
  let y := Regular (Regular (Numpy DFloat64 [2; 3] [DZ 1; DNaN; DZ 3; DZ 0; DZ 7; DZ 2]) 1 2) 2 1 in
  let c := ByteMasked [1; 0; 1] true x in
  let d := Indexed I64 [2; 0; 0; 1] x in
  let r := Record [x; Indexed I64 [0; 0; 0] y] (Some [[120]; [121]]) 3 in
  let ok := fun r : res content => match r with Ok c' => valid_b c' | Err _ => false end in
  valid_b c = true /\ valid_b d = true /\ valid_b r = true /\ sort_axes_model true 1 r = Err EValue /\
  forallb ok [sort_axes_model true 1 x; sort_axes_model false (-2) x; sort_axes_model true 0 x; sort_axes_model true 1 y;
              sort_axes_model true 1 c; sort_axes_model false 1 d; sort_axes_model false 0 d; sort_model_all true false 1 c;
              sort_model_all false false 2 c; sort_model_all true false 0 d; sort_model_all true true 2 c] = true.
Proof. vm_compute. repeat split. Qed.
