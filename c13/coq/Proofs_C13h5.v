(** Proofs_C13h5.v -- k_safe for awkward_NumpyArray_unique_strings_uint8 and k_spec for awkward_UnionArray_project
    (models of Kernels2.v). *)
From Coq Require Import ZArith List Bool Lia ZifyBool.
From AwkV Require Import Base.
From AwkKernels Require Import Kernels KLemmas Proofs_C13 Proofs_C13b Proofs_C13c Proofs_C13d.
From AwkKernels Require Export Kernels2.
From AwkKernels Require Import Proofs_C13e Proofs_C13f Proofs_C13g Proofs_C13h Proofs_C13h2 Proofs_C13h3.
Import ListNotations.
Open Scope Z_scope.

Ltac Zify.zify_post_hook ::= Z.to_euclidean_division_equations.

(* ================================================================================================ *)
(** * awkward_NumpyArray_unique_strings_uint8: in-place compaction; the write position never overtakes the read
      position when the offsets are monotone and start at a non-negative position *)
Theorem NumpyArray_unique_strings_safe toptr offsets offsetslength tolength :
  offsetslength <= zlen offsets -> 1 <= zlen tolength ->
  (forall i, 0 <= i < offsetslength - 1 -> 0 <= at_ offsets i <= at_ offsets (i + 1) /\ at_ offsets (i + 1) <= zlen toptr) ->
  NumpyArray_unique_strings toptr offsets offsetslength tolength <> KOob.
Proof.
  intros H1 H2 Ho. unfold NumpyArray_unique_strings. apply (np_noob _ (fun _ => True)).
  apply np_bind_kfor with
    (P := fun i (st : list Z * Z * Z * Z * Z) =>
            let '(buf, slen, index, counter, start) := st in
            zlen buf = zlen toptr /\ 0 <= index /\ (0 < i -> index <= at_ offsets i) /\ (i = 0 -> index = 0) /\
            0 <= start /\ 0 <= slen /\ start + slen <= zlen toptr).
  - repeat split; try lia. pose proof (zlen_nonneg toptr). lia.
  - intros i [[[[buf slen] index] counter] start] Hi (L & I0 & I1 & I2 & S0 & S1 & S2). red_st.
    destruct (Ho i) as (O1 & O2); [lia|]. do 2 np_step.
    set (a := at_ offsets i) in *. set (b := at_ offsets (i + 1)) in *.
    assert (Ia : index <= a) by (destruct (Z.eq_dec i 0); [lia|apply I1; lia]).
    apply np_bind with (R := fun d : bool => d = false -> b - a = slen).
    + destruct (negb (b - a =? slen)) eqn:En; [apply np_ret; congruence|].
      apply np_kmap. eapply np_weaken.
      * apply np_kfor with (P := fun j (s : bool * Z) => snd s = j - a); [cbn [snd]; lia|].
        intros j [d k] Hj K. cbn [snd] in K. red_st. np_auto. cbn [snd]. lia.
      * intros; lia.
    + intros differ Hd.
      apply np_bind with (R := fun st1 : list Z * Z * Z * Z =>
        let '(buf1, index1, counter1, start1) := st1 in
        zlen buf1 = zlen toptr /\ 0 <= index1 <= b /\ 0 <= start1 /\ start1 + (b - a) <= zlen toptr).
      * destruct differ.
        -- apply np_bind_kfor with
             (P := fun j (s : list Z * Z * Z) => let '(buf', index', st') := s in
                     zlen buf' = zlen toptr /\ index' = index + (j - a) /\ (st' = a \/ st' = start /\ j = a)).
           ++ repeat split; lia.
           ++ intros j [[buf' index'] st'] Hj (L' & I' & St'). red_st. np_auto. red_st. rewrite zlen_set_nth. repeat split; lia.
           ++ intros [[buf' index'] st'] (L' & I' & St'). red_st. apply np_ret.
              rewrite Z.max_r in I', St' by lia. repeat split; lia.
        -- apply np_ret. specialize (Hd eq_refl). repeat split; lia.
      * intros [[[buf1 index1] counter1] start1] (L1 & I1' & S1' & S2'). red_st. apply np_ret.
        repeat split; try lia.
  - intros [[[[buf slen] index] counter] start] _. red_st. np_auto. auto.
Qed.

Example NumpyArray_unique_strings_example :
  NumpyArray_unique_strings [1; 2; 1; 2; 3; 3] [0; 2; 4; 5; 6] 5 [9] = KOk ([1; 2; 3; 2; 3; 3], [3]).
Proof. vm_compute. reflexivity. Qed.

(* ================================================================================================ *)
(** * awkward_UnionArray_project: tocarry = the index entries at the positions with tag [which], in order;
      lenout = their number *)
Lemma set_nth_split (l : list Z) n v : (n < length l)%nat -> set_nth l n v = firstn n l ++ v :: skipn (S n) l.
Proof.
  revert n; induction l as [|h t IH]; intros n H; cbn [length] in H; [lia|].
  destruct n; cbn [set_nth firstn skipn app]; auto. f_equal. apply IH. lia.
Qed.
Lemma set_nth_splice (l : list Z) p v : 0 <= p < zlen l -> set_nth l (Z.to_nat p) v = splice p [v] l.
Proof.
  intros H. unfold splice. rewrite set_nth_split by (unfold zlen in H; lia). cbn [app].
  do 3 f_equal. unfold zlen. cbn [length]. lia.
Qed.
Lemma zlen_filter_le {A} (p : A -> bool) l : zlen (filter p l) <= zlen l.
Proof. induction l; cbn [filter]; [lia|]. destruct (p a); rewrite ?zlen_cons; lia. Qed.

Definition proj_sel (fromtags fromindex : list Z) (which n : Z) : list Z :=
  map (at_ fromindex) (filter (fun i => at_ fromtags i =? which) (iota n)).

Theorem UnionArray_project_spec lenout tocarry fromtags fromindex n which :
  0 <= n -> n <= zlen fromtags -> n <= zlen fromindex -> 1 <= zlen lenout -> n <= zlen tocarry ->
  UnionArray_project lenout tocarry fromtags fromindex n which
  = KOk (set_nth lenout 0 (zlen (proj_sel fromtags fromindex which n)),
         proj_sel fromtags fromindex which n ++ skipn (Z.to_nat (zlen (proj_sel fromtags fromindex which n))) tocarry).
Proof.
  intros H0 H1 H2 H3 H4. unfold UnionArray_project. rewrite kupd_ok by lia. cbn [kbind Z.to_nat].
  assert (Ls : forall j, 0 <= j -> zlen (proj_sel fromtags fromindex which j) <= j).
  { intros j Hj. unfold proj_sel. rewrite zlen_map. etransitivity; [apply zlen_filter_le|]. rewrite zlen_iota_; lia. }
  match goal with |- kfor 0 n ?b ?s0 = _ =>
    destruct (kfor_inv b (fun j (st : list Z * list Z) =>
      st = (set_nth lenout 0 (zlen (proj_sel fromtags fromindex which j)), splice 0 (proj_sel fromtags fromindex which j) tocarry))
      0 n s0) as (s' & E & P); auto end.
  - intros j [lo tc] Hj Est. inversion Est; subst lo tc. red_st. specialize (Ls j (proj1 Hj)).
    set (sel := proj_sel fromtags fromindex which j) in *. pose proof (zlen_nonneg sel) as Sn.
    assert (Sj : proj_sel fromtags fromindex which (j + 1)
                 = sel ++ (if at_ fromtags j =? which then [at_ fromindex j] else [])).
    { unfold sel, proj_sel. rewrite iota_snoc by lia. rewrite filter_app, map_app. cbn [filter].
      destruct (at_ fromtags j =? which); reflexivity. }
    rewrite (kget_at fromtags) by lia. cbn [kbind]. rewrite Sj.
    destruct (at_ fromtags j =? which).
    + rewrite (kget_at (set_nth lenout 0 _)) by (rewrite zlen_set_nth; lia). cbn [kbind].
      rewrite at_set_nth_0 by lia. rewrite (kget_at fromindex) by lia. cbn [kbind].
      rewrite kupd_ok by (rewrite zlen_splice; lia). cbn [kbind].
      rewrite kupd_ok by (rewrite zlen_set_nth; lia). cbn [kbind Z.to_nat]. rewrite set_nth_0_twice.
      eexists; split; [reflexivity|]. f_equal.
      * f_equal. rewrite zlen_app, zlen_cons, zlen_nil. lia.
      * rewrite set_nth_splice by (rewrite zlen_splice; lia).
        pose proof (splice_snoc 0 sel [at_ fromindex j] tocarry) as SS. rewrite !Z.add_0_l in SS.
        apply SS; [lia|]. rewrite zlen_cons, zlen_nil. lia.
    + eexists; split; [reflexivity|]. now rewrite app_nil_r.
  - rewrite E, P. reflexivity.
Qed.

Example UnionArray_project_example :
  UnionArray_project [9] [9; 9; 9; 9] [0; 1; 0; 1] [5; 6; 7; 8] 4 1 = KOk ([2], [6; 8; 9; 9]).
Proof. vm_compute. reflexivity. Qed.
