(** C14 — the property theorems (proved here and in Proofs_C14b.v, restated in Props_C14.v). *)
From Coq Require Import ZArith List Bool Lia.
From AwkV Require Import Base Layout.
From AwkBuilder Require Import Builder Spec GbLemmas Invariant StepLemmas AtomStep Push OpenClose Roundtrip ToList Same.
Import ListNotations.
Open Scope Z_scope.

(* ================================================================== (a) round trip *)
(* FULL STATEMENT:
     forall o vs, good_opts o -> forallb pywf vs = true ->
       exists b, run o ab_init (encode_all vs) = Ok b /\ observe b = Ok (unify vs).
   It is PROVED IN FULL in Proofs_C14b.v ([builder_roundtrip], session form [from_iter_session_full]) through the
   ghost-history representation relation RecInv.rep (files RecInv, RecRep, RecFwd, RecAtom, RecStatic, RecOpen,
   RecInner, RecRoundtrip): tuples, records with any field sets / names, any nesting, unions.
   HERE: the first, value-level proof for the fragment [no_struct] — None, booleans, integers, reals (with the
   int->float conversion of the buffer), strings and bytestrings, arbitrarily nested lists, arbitrarily heterogeneous
   (every UnknownBuilder, OptionBuilder, UnionBuilder, ListBuilder, BoolBuilder, Int64Builder, Float64Builder,
   StringBuilder transition), for all options that make GrowableBuffer grow — kept as [builder_roundtrip_partial]
   (a corollary of the full theorem, with an independent proof through Invariant.wf / bvals). *)

Lemma coerce_no_struct v : no_struct v = true -> forall p, coerce p v = val_of v.
Proof.
  induction v using pyval_ind'; intros Hn p; destruct p as [lst tups recs]; try reflexivity; try discriminate.
  cbn [coerce val_of]. f_equal. cbn [no_struct] in Hn. rewrite forallb_forall in Hn.
  apply map_ext_in. intros x Hx. rewrite Forall_forall in H. apply H; auto.
Qed.

Lemma unify_no_struct vs : forallb no_struct vs = true -> unify vs = map val_of vs.
Proof.
  intro Hn. unfold unify. apply map_ext_in. intros v Hv. apply coerce_no_struct.
  rewrite forallb_forall in Hn. auto.
Qed.

Theorem builder_roundtrip_partial o vs :
  good_opts o -> forallb no_struct vs = true ->
  exists b, run o ab_init (encode_all vs) = Ok b /\ observe b = Ok (unify vs).
Proof.
  intros Ho Hn. destruct (feed_values o Ho vs Hn) as (b & E & W & A & V).
  exists b. split; [exact E|]. destruct (bvals_correct b W) as (c & Es & Et).
  unfold observe. rewrite Es. cbn [bind]. rewrite Et, V, unify_no_struct by exact Hn. reflexivity.
Qed.

Example builder_roundtrip_example :
  let o := {| initial := 1; grow := fun r => r + 1; junk := 7 |} in
  let vs := [PInt 1; PList [PFloat 2; PNone; PList [PStr true [97]]]; PBool true; PNone; PList []; PStr false [0; 255]] in
  good_opts o /\ forallb no_struct vs = true /\
  (do b <- run o ab_init (encode_all vs); observe b) = Ok (unify vs).
Proof. cbv zeta. split; [split; cbn; [lia|intros; lia]|split; [reflexivity|vm_compute; reflexivity]]. Qed.

(* ================================================================== (c) equal states, equal snapshots *)
Lemma same_all_snapshots cs :
  Forall (fun b1 => forall b2, same b1 b2 -> snapshot b1 = snapshot b2) cs ->
  forall cs',
  (fix all (l m : list builder) : Prop :=
     match l, m with [], [] => True | x :: t, y :: u => same x y /\ all t u | _, _ => False end) cs cs' ->
  mapMs snapshot cs = mapMs snapshot cs' /\ length cs = length cs'.
Proof.
  induction 1 as [|x t Hx _ IH]; intros [|y u] Hs; try contradiction; [split; reflexivity|].
  destruct Hs as [H1 H2]. destruct (IH u H2) as [E L]. cbn [mapMs length]. rewrite (Hx y H1), E, L. split; reflexivity.
Qed.

Theorem equal_states_equal_snapshots b1 : forall b2, same b1 b2 -> snapshot b1 = snapshot b2.
Proof.
  induction b1 using builder_ind'; intros b2 S; destruct b2; cbn [same] in S; try contradiction.
  - subst. reflexivity.
  - destruct S as [L N]. cbn [snapshot]. unfold numpy1. now rewrite L, N.
  - destruct S as [L N]. cbn [snapshot]. unfold numpy1. now rewrite L, N.
  - destruct S as [L N]. cbn [snapshot]. unfold numpy1. now rewrite L, N.
  - destruct S as (-> & [L1 N1] & [L2 N2]). cbn [snapshot]. unfold numpy1. now rewrite L1, L2, N2.
  - destruct S as ([L N] & S). cbn [snapshot]. now rewrite L, (IHb1 _ S).
  - destruct S as ([L N] & S & ->). cbn [snapshot]. now rewrite L, (IHb1 _ S).
  - destruct S as (S & -> & -> & -> & -> & -> & -> & ->).
    destruct (same_all_snapshots cs H _ S) as [E L]. cbn [snapshot]. now rewrite E, L.
  - destruct S as (S & -> & -> & ->).
    destruct (same_all_snapshots cs H _ S) as [E L]. cbn [snapshot]. now rewrite E.
  - destruct S as ([L1 N1] & [L2 N2] & S & ->).
    destruct (same_all_snapshots cs H _ S) as [E L]. cbn [snapshot]. now rewrite E, L1, L2.
Qed.

Example equal_states_example :
  let g1 := {| gid := 3%nat; gdata := [5; 6; 0; 0]; glen := 2; gres := 4 |} in
  let g2 := {| gid := 9%nat; gdata := [5; 6; 1]; glen := 2; gres := 3 |} in
  same (BOption g1 (BInt g1)) (BOption g2 (BInt g2)) /\ g1 <> g2.
Proof. cbv zeta. split; [vm_compute; repeat split|discriminate]. Qed.

(* ================================================================== (d) ill-nested calls *)
Definition closing_or_inner (c : cmd) : Prop := kind_of c = KEnd \/ kind_of c = KInner.

(* no open bracket anywhere: every end / index / field is refused and nothing changes *)
Lemma inactive_rejects o b c :
  active b = false -> closing_or_inner c -> step o b c = SErr EValue b.
Proof.
  intros A Hk. destruct b; cbn [active] in A; try subst begun.
  - cbn [step]. destruct Hk as [-> | ->]; reflexivity.
  - destruct c; destruct Hk as [Hk|Hk]; try discriminate Hk; reflexivity.
  - destruct c; destruct Hk as [Hk|Hk]; try discriminate Hk; reflexivity.
  - destruct c; destruct Hk as [Hk|Hk]; try discriminate Hk; reflexivity.
  - destruct c; destruct Hk as [Hk|Hk]; try discriminate Hk; reflexivity.
  - cbn [step]. rewrite A. cbn [negb]. destruct Hk as [-> | ->]; reflexivity.
  - destruct c; destruct Hk as [Hk|Hk]; try discriminate Hk; reflexivity.
  - destruct c; destruct Hk as [Hk|Hk]; try discriminate Hk; reflexivity.
  - destruct c; destruct Hk as [Hk|Hk]; try discriminate Hk; reflexivity.
  - cbn [step]. rewrite A. destruct Hk as [-> | ->]; reflexivity.
Qed.

Definition wrong_closer (c : cmd) : Prop :=
  match c with CEndTuple | CEndRecord | CIndex _ | CField _ => True | _ => False end.

Lemma fwd_err o K : forall b e c,
  wrong_closer c -> active b = true -> step o b c = SErr e b -> step o (plug K b) c = SErr e (plug K b).
Proof.
  induction K as [|f K IH]; intros b e c Hc Ab E; [exact E|].
  specialize (IH b e c Hc Ab E). pose proof (plug_active K b Ab) as AX.
  destruct f; cbn [plug].
  - cbn [step negb]. destruct c; try contradiction; rewrite IH; reflexivity.
  - cbn [step]. rewrite AX. cbn [negb]. destruct c; try contradiction; cbn [kind_of]; rewrite IH; reflexivity.
  - cbn [step]. pose proof (zlen_nonneg pre).
    replace (zlen pre =? -1) with false by (symmetry; apply Z.eqb_neq; lia). cbn [negb].
    rewrite nth_z_app, to_nat_zlen, at_nth_app, IH.
    destruct c; try contradiction; cbn [kind_of dr]; cbv beta iota; rewrite ?upd_nth_app; reflexivity.
Qed.

(* inside an open list (at any depth, below options and unions): closing with the wrong bracket, or index / field *)
Lemma open_list_rejects o K offs ct c :
  active ct = false -> wrong_closer c ->
  step o (plug K (BList offs ct true)) c = SErr EValue (plug K (BList offs ct true)).
Proof.
  intros A Hc. apply fwd_err; auto.
  assert (closing_or_inner c) as Hk by (destruct c; try contradiction; cbv; auto).
  cbn [step negb]. destruct c; try contradiction; rewrite (inactive_rejects o ct _ A Hk); reflexivity.
Qed.

(* a tuple that is waiting for an index: out-of-range index; a value before any index *)
Lemma tuple_bad_index o cs len i :
  i < 0 \/ zlen cs <= i ->
  step o (BTuple cs len true (-1)) (CIndex i) = SErr EValue (BTuple cs len true (-1)).
Proof.
  intro H. cbn [step negb]. change (-1 =? -1) with true. cbv iota.
  replace ((i <? 0) || (zlen cs <=? i)) with true; [reflexivity|].
  symmetry. apply orb_true_iff. destruct H; [left; apply Z.ltb_lt|right; apply Z.leb_le]; lia.
Qed.

Definition starts_value (c : cmd) : Prop :=
  match c with
  | CNull | CBool _ | CInt _ | CReal _ | CStr _ _ | CBeginList => True
  | _ => False
  end.

Lemma tuple_value_before_index o cs len c :
  starts_value c -> step o (BTuple cs len true (-1)) c = SErr EValue (BTuple cs len true (-1)).
Proof. intro H. destruct c; try contradiction; reflexivity. Qed.

Lemma record_value_before_field o cs keys rn nullp len ntt c :
  starts_value c ->
  step o (BRecord cs keys rn nullp len true (-1) ntt) c = SErr EValue (BRecord cs keys rn nullp len true (-1) ntt).
Proof. intro H. destruct c; try contradiction; reflexivity. Qed.

Theorem ill_nested_errors o :
  (* unbalanced end, field / index outside a record / tuple: refused, state unchanged *)
  (forall b c, active b = false -> closing_or_inner c -> ab_step o b c = (b, Some EValue)) /\
  (* wrong closer inside an open list at any depth *)
  (forall K offs ct c, active ct = false -> wrong_closer c ->
     ab_step o (plug K (BList offs ct true)) c = (plug K (BList offs ct true), Some EValue)) /\
  (* tuple index out of range (also negative), value before index / field *)
  (forall cs len i, i < 0 \/ zlen cs <= i ->
     ab_step o (BTuple cs len true (-1)) (CIndex i) = (BTuple cs len true (-1), Some EValue)) /\
  (forall cs len c, starts_value c ->
     ab_step o (BTuple cs len true (-1)) c = (BTuple cs len true (-1), Some EValue)) /\
  (forall cs keys rn nullp len ntt c, starts_value c ->
     ab_step o (BRecord cs keys rn nullp len true (-1) ntt) c = (BRecord cs keys rn nullp len true (-1) ntt, Some EValue)).
Proof.
  unfold ab_step. repeat split; intros.
  - now rewrite inactive_rejects.
  - now rewrite open_list_rejects.
  - now rewrite tuple_bad_index.
  - now rewrite tuple_value_before_index.
  - now rewrite record_value_before_field.
Qed.

Example ill_nested_example :
  let o := {| initial := 1; grow := fun r => r + 1; junk := 0 |} in
  (* [1, [2 ... : endrecord inside the open list is refused and the list can still be completed *)
  let b := feed o ab_init [CInt 1; CBeginList; CInt 2] in
  active b = true /\
  (exists K offs ct, b = plug K (BList offs ct true) /\ active ct = false) /\
  snd (ab_step o b CEndRecord) = Some EValue /\
  observe (feed o b [CEndRecord; CEndList]) = Ok [VNum (DZ 1); VList [VNum (DZ 2)]].
Proof.
  cbv zeta. split; [vm_compute; reflexivity|split; [|split; vm_compute; reflexivity]].
  eexists [FUni _ _ [_] []], _, _. vm_compute. split; reflexivity.
Qed.

(* ================================================================== (e) growth is not observable *)
(* FULL STATEMENT (goal): for all command sequences cs, good o1, good o2: the events of run_session o1 and of
   run_session o2 coincide.  PROVED: on the fragment of (a), as a consequence of (a): whatever the initial
   capacity, the resize policy and the contents of freshly allocated memory, the observed values are the same. *)
Theorem growth_irrelevant_partial o1 o2 vs :
  good_opts o1 -> good_opts o2 -> forallb no_struct vs = true ->
  exists b1 b2, run o1 ab_init (encode_all vs) = Ok b1 /\ run o2 ab_init (encode_all vs) = Ok b2 /\
                observe b1 = observe b2.
Proof.
  intros H1 H2 Hn.
  destruct (builder_roundtrip_partial o1 vs H1 Hn) as (b1 & E1 & O1).
  destruct (builder_roundtrip_partial o2 vs H2 Hn) as (b2 & E2 & O2).
  exists b1, b2. rewrite O1, O2. auto.
Qed.

Example growth_irrelevant_example :
  let o1 := {| initial := 1; grow := fun r => r + 1; junk := 7 |} in
  let o2 := {| initial := 1024; grow := fun r => 2 * r; junk := -1 |} in
  let cs := encode_all [PList [PInt 1; PInt 2; PInt 3]; PNone; PFloat 4] in
  good_opts o1 /\ good_opts o2 /\
  (do b <- run o1 ab_init cs; observe b) = (do b <- run o2 ab_init cs; observe b) /\
  (do b <- run o1 ab_init cs; snapshot b) = (do b <- run o2 ab_init cs; snapshot b).
Proof. cbv zeta. repeat split; cbn [initial grow]; try lia; try (intros; lia); vm_compute; reflexivity. Qed.

(* ================================================================== (b) snapshots are immutable: value half *)
(* Whatever is appended later, the events (errors and snapshots) produced by a prefix of a session are exactly the
   events of that prefix: the continuation only adds events behind them.  Holds for ALL sessions, well- or ill-nested,
   with clear, for all options. *)
Lemma run_session_app o cs1 : forall b pos cs2,
  fst (run_session o b pos (cs1 ++ cs2)) =
  fst (run_session o b pos cs1) ++ fst (run_session o (snd (run_session o b pos cs1)) (pos + length cs1)%nat cs2).
Proof.
  induction cs1 as [|c t IH]; intros b pos cs2.
  - cbn [app run_session fst snd length]. now rewrite Nat.add_0_r.
  - cbn [app length]. replace (pos + S (length t))%nat with (S pos + length t)%nat by lia.
    destruct c as [c| |]; cbn [run_session].
    + destruct (ab_step o b c) as [b' [e|]]; specialize (IH b' (S pos) cs2);
        destruct (run_session o b' (S pos) (t ++ cs2)) as [evs bf];
        destruct (run_session o b' (S pos) t) as [evs1 bf1]; cbn [fst snd] in *; rewrite IH; reflexivity.
    + specialize (IH b (S pos) cs2).
      destruct (run_session o b (S pos) (t ++ cs2)) as [evs bf];
        destruct (run_session o b (S pos) t) as [evs1 bf1]; cbn [fst snd] in *; rewrite IH; reflexivity.
    + destruct (clear o b) as [b'|e].
      * apply IH.
      * specialize (IH b (S pos) cs2).
        destruct (run_session o b (S pos) (t ++ cs2)) as [evs bf];
          destruct (run_session o b (S pos) t) as [evs1 bf1]; cbn [fst snd] in *; rewrite IH; reflexivity.
Qed.

Theorem snapshot_stable_values o cs1 cs2 :
  exists later, fst (run_session o ab_init 0 (cs1 ++ cs2)) = fst (run_session o ab_init 0 cs1) ++ later.
Proof. eexists. apply run_session_app. Qed.

(* ================================================================== (a) in the form the sessions are run *)
Lemma run_session_SC o cs : forall b b' pos tail,
  run o b cs = Ok b' ->
  run_session o b pos (map SC cs ++ tail) = run_session o b' (pos + length cs)%nat tail.
Proof.
  induction cs as [|c t IH]; intros b b' pos tail H; cbn [run map app length] in *.
  - inversion H. now rewrite Nat.add_0_r.
  - cbn [run_session]. destruct (ab_step o b c) as [b1 [e|]]; [discriminate|].
    rewrite (IH b1 b' (S pos) tail H). replace (S pos + length t)%nat with (pos + S (length t))%nat by lia.
    destruct (run_session o b' (pos + S (length t)) tail). reflexivity.
Qed.

(* a whole from_iter session followed by a snapshot: no error event, one snapshot, of the right length and value *)
Theorem from_iter_session o vs :
  good_opts o -> forallb no_struct vs = true ->
  exists c, fst (run_session o ab_init 0 (map SC (encode_all vs) ++ [SSnapshot]))
            = [EvSnap (length (encode_all vs)) (zlen vs) (Ok c)] /\ to_list c = Ok (unify vs).
Proof.
  intros Ho Hn. destruct (feed_values o Ho vs Hn) as (b & E & W & A & V).
  destruct (bvals_correct b W) as (c & Es & Et). exists c.
  rewrite (run_session_SC o _ ab_init b 0 [SSnapshot] E). cbn [run_session fst Nat.add].
  rewrite Es, <- (bvals_len b W), V, zlen_map, Et, V, unify_no_struct by exact Hn. split; reflexivity.
Qed.
