(** C14 — records and tuples: the commands an open ListBuilder / TupleBuilder / RecordBuilder handles itself
    (index, field, and its own end with the None-filling loop). *)
From Coq Require Import ZArith List Bool Lia.
From AwkV Require Import Base Layout.
From AwkBuilder Require Import Builder Spec GbLemmas Invariant StepLemmas AtomStep Push OpenClose
  RecInv RecRep RecFwd RecAtom RecOpen.
Import ListNotations.
Open Scope Z_scope.

(* the node is waiting for index / field / end: nothing selected yet, or the selected child is complete *)
Definition nready (cs : list builder) (ni : Z) : Prop :=
  ni = -1 \/ exists x, nth_z cs ni = Some x /\ active x = false.

Lemma here_ready cs ni :
  nready cs ni ->
  (if ni =? -1 then Some true
   else match nth_z cs ni with Some x => Some (negb (active x)) | None => None end) = Some true.
Proof.
  intros [->|(x & E & A)]; [reflexivity|]. destruct (ni =? -1); [reflexivity|]. now rewrite E, A.
Qed.

Lemma nready_at pre c post : active c = false -> nready (pre ++ c :: post) (zlen pre).
Proof. intro A. right. exists c. split; [apply nth_z_app|exact A]. Qed.

(* ------------------------------------------------------------------ find_key / rr_find *)
Lemma find_key_some k keys : forall i0 i,
  find_key k keys i0 = Some i -> exists pre post, keys = pre ++ k :: post /\ i = i0 + zlen pre.
Proof.
  induction keys as [|x t IH]; intros i0 i H; [discriminate|]. cbn [find_key] in H.
  destruct (name_eqb x k) eqn:E.
  - apply name_eqb_eq in E. subst x. inversion H; subst. exists [], t. split; [reflexivity|]. cbn. lia.
  - destruct (IH _ _ H) as (pre & post & -> & ->). exists (x :: pre), post. split; [reflexivity|].
    rewrite zlen_cons. lia.
Qed.

Lemma find_key_none k keys : forall i0, find_key k keys i0 = None -> ~ In k keys.
Proof.
  induction keys as [|x t IH]; intros i0 H; [intros []|]. cbn [find_key] in H.
  destruct (name_eqb x k) eqn:E; [discriminate|]. apply name_eqb_neq in E.
  intros [->|Hin]; [congruence|]. exact (IH _ H Hin).
Qed.

Lemma rr_find_some k keys ntt i :
  0 <= ntt -> rr_find k keys ntt = Some i -> exists pre post, keys = pre ++ k :: post /\ i = zlen pre.
Proof.
  intros Hn H. unfold rr_find in H.
  destruct (find_key k (drop ntt keys) ntt) as [j|] eqn:F.
  - inversion H; subst j. destruct (find_key_some _ _ _ _ F) as (pre & post & E & ->).
    assert (ntt <= zlen keys) as Hl.
    { destruct (Z_le_gt_dec ntt (zlen keys)) as [?|G]; [assumption|].
      unfold drop in E. rewrite skipn_all2 in E by (unfold zlen in G; lia). destruct pre; discriminate E. }
    destruct (split_at keys ntt) as [Es El]; [lia|].
    exists (take ntt keys ++ pre), post. split.
    + rewrite Es at 1. rewrite E, <- app_assoc. reflexivity.
    + rewrite zlen_app, El. reflexivity.
  - destruct (find_key_some _ _ _ _ H) as (pre & post & E & ->).
    assert (exists post', keys = pre ++ k :: post') as [post' E'].
    { unfold take in E. exists (post ++ skipn (Z.to_nat ntt) keys).
      rewrite <- (firstn_skipn (Z.to_nat ntt) keys) at 1. rewrite E, <- app_assoc. reflexivity. }
    exists pre, post'. split; [exact E'|lia].
Qed.

Lemma rr_find_none k keys ntt : rr_find k keys ntt = None -> ~ In k keys.
Proof.
  intro H. unfold rr_find in H.
  destruct (find_key k (drop ntt keys) ntt) eqn:F; [discriminate|].
  apply find_key_none in F. apply find_key_none in H. intro Hin.
  rewrite <- (firstn_skipn (Z.to_nat ntt) keys) in Hin. apply in_app_or in Hin. destruct Hin; [apply H|apply F]; assumption.
Qed.

Section WithOpts.
Variable o : opts.
Hypothesis Ho : good_opts o.

(* ------------------------------------------------------------------ list *)
Lemma list_end offs c0' ws0 h0 l :
  gbwf offs -> ListH (gb_list offs) ws0 h0 -> rep c0' (ws0 ++ l) ->
  exists offs', step o (BList offs c0' true) CEndList = SOk (BList offs' c0' false) None /\
                rep (BList offs' c0' false) (h0 ++ [PList l]).
Proof.
  intros W H R. cbn [step negb]. rewrite (rep_inactive _ _ R). cbn [negb].
  destruct (gb_append_ok o offs (blen c0') Ho W) as (g' & E' & W' & L' & _). rewrite E'. cbn [withgb].
  exists g'. split; [reflexivity|]. cbn [rep]. refine (conj eq_refl (conj W' _)). exists (ws0 ++ l). split; [|exact R].
  rewrite L', (rep_len _ _ R), zlen_app. now constructor.
Qed.

(* ------------------------------------------------------------------ tuple *)
Lemma tuple_index cs len ni i :
  nready cs ni -> 0 <= i < zlen cs ->
  step o (BTuple cs len true ni) (CIndex i) = SOk (BTuple cs len true i) None.
Proof.
  intros Hr Hi. cbn [step negb]. rewrite (here_ready cs ni Hr).
  replace ((i <? 0) || (zlen cs <=? i)) with false; [reflexivity|].
  symmetry. apply orb_false_iff. split; [apply Z.ltb_ge|apply Z.leb_gt]; lia.
Qed.

Lemma fill_loop_full f len cs : Forall (fun c => blen c = len + 1) cs -> fill_loop f len cs = (cs, None).
Proof.
  induction 1 as [|c t Hc _ IH]; [reflexivity|]. cbn [fill_loop]. rewrite Hc.
  replace (len + 1 =? len) with false by (symmetry; apply Z.eqb_neq; lia).
  rewrite Hc, Z.eqb_refl. cbn [negb]. rewrite IH. reflexivity.
Qed.

Lemma tuple_end cs len ni :
  nready cs ni -> Forall (fun c => blen c = len + 1) cs ->
  step o (BTuple cs len true ni) CEndTuple = SOk (BTuple cs (len + 1) false ni) None.
Proof.
  intros Hr F. cbn [step negb]. rewrite (here_ready cs ni Hr), (fill_loop_full _ len cs F). reflexivity.
Qed.

(* ------------------------------------------------------------------ record *)
Lemma fresh_field len :
  0 <= len ->
  exists nb,
    (if len =? 0 then Ok (BUnknown 0) else do idx <- gb_full o (-1) len; Ok (BOption idx (BUnknown 0))) = Ok nb /\
    rep nb (repeat PNone (Z.to_nat len)).
Proof.
  intro H. destruct (len =? 0) eqn:E.
  - apply Z.eqb_eq in E. subst. exists (BUnknown 0). split; [reflexivity|apply rep_unknown0].
  - destruct (gb_full_ok o (-1) len Ho H) as (g & Eg & W & L & _). rewrite Eg. cbn [bind].
    exists (BOption g (BUnknown 0)). split; [reflexivity|]. cbn [rep]. split; [exact W|]. exists [].
    rewrite L. split; [now apply OptH_nulls|apply rep_unknown0].
Qed.

Lemma record_field cs keys rn nullp len ni ntt k :
  nready cs ni -> 0 <= ntt -> 0 <= len -> length cs = length keys ->
  exists pre c post kpre kpost ntt',
    step o (BRecord cs keys rn nullp len true ni ntt) (CField k)
    = SOk (BRecord (pre ++ c :: post) (kpre ++ k :: kpost) rn nullp len true (zlen pre) ntt') None /\
    length pre = length kpre /\ 0 <= ntt' /\
    ((cs = pre ++ c :: post /\ keys = kpre ++ k :: kpost) \/
     (~ In k keys /\ pre = cs /\ post = [] /\ kpre = keys /\ kpost = [] /\ rep c (repeat PNone (Z.to_nat len)))).
Proof.
  intros Hr Hn Hl EL. cbn [step negb]. rewrite (here_ready cs ni Hr).
  destruct (rr_find k keys ntt) as [i|] eqn:F.
  - destruct (rr_find_some k keys ntt i Hn F) as (kpre & kpost & -> & ->).
    assert (exists pre c post, cs = pre ++ c :: post /\ length pre = length kpre) as (pre & c & post & -> & Lp).
    { exists (firstn (length kpre) cs). rewrite app_length in EL. cbn [length] in EL.
      destruct (skipn (length kpre) cs) as [|c post] eqn:Es.
      - exfalso. assert (length (skipn (length kpre) cs) = 0%nat) as Z0 by now rewrite Es.
        rewrite skipn_length in Z0. lia.
      - exists c, post. split; [now rewrite <- Es, firstn_skipn|]. rewrite firstn_length. lia. }
    exists pre, c, post, kpre, kpost, (zlen kpre + 1).
    replace (zlen pre) with (zlen kpre) by (unfold zlen; now rewrite Lp).
    split; [reflexivity|split; [exact Lp|split; [pose proof (zlen_nonneg kpre); lia|left; auto]]].
  - destruct (fresh_field len Hl) as (nb & En & Rn). rewrite En. cbn [withb].
    exists cs, nb, [], keys, [], 0.
    replace (zlen cs) with (zlen keys) by (unfold zlen; now rewrite EL).
    split; [reflexivity|split; [exact EL|split; [lia|right]]].
    pose proof (rr_find_none _ _ _ F). auto 10.
Qed.

Lemma fill_loop_rec len cs hs :
  Forall2 (fun c h => rep c h /\ (zlen h = len \/ zlen h = len + 1)) cs hs ->
  exists cs', fill_loop (fun x => step o x CNull) len cs = (cs', None) /\
              Forall2 (fun c' h => rep c' (if zlen h =? len then h ++ [PNone] else h)) cs' hs.
Proof.
  induction 1 as [|c h t ht [Rc Hc] _ (t' & Et & Ft)]; [exists []; split; [reflexivity|constructor]|].
  cbn [fill_loop]. rewrite (rep_len c h Rc). destruct (zlen h =? len) eqn:E.
  - destruct (xatom_step o Ho c PNone CNull h Rc eq_refl) as (s & r & Es & Rs). rewrite Es.
    cbv iota beta. rewrite (rep_len _ _ Rs), zlen_snoc. apply Z.eqb_eq in E. rewrite E, Z.eqb_refl. cbn [negb]. rewrite Et.
    exists (pick s r :: t'). split; [reflexivity|]. constructor; [|exact Ft]. rewrite <- E, Z.eqb_refl. exact Rs.
  - apply Z.eqb_neq in E. destruct Hc as [Hc|Hc]; [contradiction|]. cbv iota beta. rewrite (rep_len c h Rc), Hc, Z.eqb_refl. cbn [negb]. rewrite Et.
    exists (c :: t'). split; [reflexivity|]. constructor; [|exact Ft].
    replace (zlen h =? len) with false by (symmetry; apply Z.eqb_neq; lia). exact Rc.
Qed.

Lemma record_end cs cs' keys rn nullp len ni ntt :
  nready cs ni -> fill_loop (fun x => step o x CNull) len cs = (cs', None) ->
  step o (BRecord cs keys rn nullp len true ni ntt) CEndRecord
  = SOk (BRecord cs' keys rn nullp (len + 1) false ni ntt) None.
Proof. intros Hr F. cbn [step negb]. rewrite (here_ready cs ni Hr), F. reflexivity. Qed.

End WithOpts.
