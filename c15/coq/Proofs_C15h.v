(** C15 — corruption of a structural byte, general form: replaced by ANY other byte, or deleted; and the witness
    that the statement cannot be extended to non-structural bytes ("1.0" -> "1e0" is the same value).  New file. *)
From Coq Require Import ZArith List Bool Lia ZifyBool.
From AwkV Require Import Base Layout LayoutInd Valid.
From AwkJson Require Import Json Proofs_C15 Proofs_C15b Proofs_C15c.
Import ListNotations.
Open Scope Z_scope.

(* the skeleton of the text with the byte at a structural position replaced by [x] (a list: [] = deleted) *)
Lemma corrupted_outcome evs A b B t' :
  wf evs = true -> printable evs = true -> render evs = A ++ b :: B -> run Out A = Out -> is_struct b = true ->
  (forall rest, go Out A ++ b :: go Out B ++ go Out rest <> go Out t') ->
  parse t' = Err EValue \/ exists evs' rest, parse t' = Ok (evs', rest) /\ wf evs' = true /\ evs' <> evs.
Proof.
  intros W P Hr R Hb Hdiff.
  destruct (parse t') as [[evs' rest]|e] eqn:Ep.
  - right. exists evs', rest. split; [reflexivity|].
    destruct (parse_sound_lemma _ _ _ Ep) as (W' & u & Hu & _ & Sk & Ru). split; [exact W'|].
    intros ->. pose proof (skeleton_render evs P) as S0. unfold skeleton in *.
    rewrite Hr, go_struct_here in S0 by assumption.
    apply (Hdiff rest). rewrite Hu at 1. rewrite go_app, Sk, Ru, <- S0, <- app_assoc. reflexivity.
  - left. pose proof (parse_total_lemma t') as T. rewrite Ep in T.
    unfold parse in Ep. destruct (parse1 t'); try discriminate; injection Ep as <-; [reflexivity | congruence].
Qed.

(** one structural byte replaced by ANY other byte (structural, quote, digit, space, ...): the JSON error, or a
    well-formed event sequence different from the original *)
Theorem structural_byte_replaced_lemma evs A b B b' :
  wf evs = true -> printable evs = true ->
  render evs = A ++ b :: B -> run Out A = Out -> is_struct b = true -> b' <> b ->
  parse (A ++ b' :: B) = Err EValue \/
  exists evs' rest, parse (A ++ b' :: B) = Ok (evs', rest) /\ wf evs' = true /\ evs' <> evs.
Proof.
  intros W P Hr R Hb Hne. eapply corrupted_outcome; try eassumption.
  intros rest E. rewrite go_app, R in E. cbn [go] in E.
  destruct (b' =? 34) eqn:E34.
  - apply app_inv_head in E. injection E as E _. unfold is_struct in Hb. lia.
  - destruct (is_struct b') eqn:Es.
    + apply app_inv_head in E. injection E as E _. congruence.
    + apply app_inv_head in E. apply (f_equal (@length Z)) in E. cbn [length] in E. rewrite app_length in E. lia.
Qed.

(** one structural byte deleted *)
Theorem structural_byte_deleted_lemma evs A b B :
  wf evs = true -> printable evs = true ->
  render evs = A ++ b :: B -> run Out A = Out -> is_struct b = true ->
  parse (A ++ B) = Err EValue \/
  exists evs' rest, parse (A ++ B) = Ok (evs', rest) /\ wf evs' = true /\ evs' <> evs.
Proof.
  intros W P Hr R Hb. eapply corrupted_outcome; try eassumption.
  intros rest E. rewrite go_app, R in E.
  apply app_inv_head in E. apply (f_equal (@length Z)) in E. cbn [length] in E. rewrite app_length in E. lia.
Qed.

(* every structural byte of the text of ex_events replaced by a quote, a digit, a space, 'e', a backslash; and deleted *)
Example structural_byte_replaced_ex :
  let t := render ex_events in
  forallb (fun k => forallb (fun b' =>
     match parse (corrupt_at t k b') with
     | Err EValue => true
     | Ok (evs', _) => wf evs' && negb (list_eqb (fun x y => list_eqb Z.eqb (tok x) (tok y)) evs' ex_events)
     | _ => false end) [34; 49; 32; 101; 92] &&
     match parse (firstn k t ++ skipn (S k) t) with
     | Err EValue => true
     | Ok (evs', _) => wf evs' && negb (list_eqb (fun x y => list_eqb Z.eqb (tok x) (tok y)) evs' ex_events)
     | _ => false end) (struct_positions t) = true.
Proof. vm_compute. reflexivity. Qed.

(** the statement cannot be extended to NON-structural bytes: in "[1.0]" the '.' replaced by 'e' gives "[1e0]", which
    is the same value (same events) *)
Theorem nonstructural_byte_corruption_refuted_thm :
  exists evs A b B b', wf evs = true /\ printable evs = true /\ render evs = A ++ b :: B /\ run Out A = Out /\
                       is_struct b = false /\ b' <> b /\ parse (A ++ b' :: B) = Ok (evs, []).
Proof.
  exists [ESA; EReal (RZ 1); EEA], [91; 49], 46, [48; 93], 101.
  repeat split; try reflexivity. discriminate.
Qed.
