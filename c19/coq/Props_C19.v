(* C19 — AwkwardForth: the property theorems.  Statements only; every proof is `exact <lemma of Proofs_C19>`.
   `fixed = true` is the single-step path of the CURRENT code (/repo since commit a6624ec; see Forth.v, single_tail /
   exec_exit) — the property theorems are stated for it; `fixed = false` is the tree before that fix, kept for the
   `_refuted` theorems (history). *)
From Coq Require Import ZArith Bool List.
From AwkForth Require Import Forth Proofs_C19.
Import ListNotations.
Open Scope Z_scope.

(* (a) running to completion (resume through pauses, `complete`) = iterating guarded single steps from the same
   state; the final state is one from which nothing continues, so extra steps do not change it. *)
Theorem run_is_iterated_step : forall p e n f m mf,
  complete n f true p e m = Ok mf ->
  can_go mf = false /\ exists k, forall k', iter_step true p e (k + k') m = Ok mf.
Proof. exact run_is_iterated_step_stable_proof. Qed.
Print Assumptions run_is_iterated_step.

(* (a) any split of an execution into (guarded) step / resume segments ends in the same final outcome
   (final state, or the same undefined-behaviour fault). *)
Theorem pause_resume_compose : forall p e segs m m1 r, r <> OutOfFuel ->
  apply_segs true p e segs m = Ok m1 ->
  ((exists n f, complete n f true p e m = r) <-> (exists n f, complete n f true p e m1 = r)).
Proof. exact pause_resume_compose_proof. Qed.
Print Assumptions pause_resume_compose.

(* run / resume / call (single_step = false) were not affected by the fix *)
Theorem run_mode_unpatched : forall f fixed p e t m,
  internal_run f fixed false p e t m = internal_run f true false p e t m.
Proof. exact run_mode_unpatched_proof. Qed.
Print Assumptions run_mode_unpatched.

(* HISTORY — (a) was REFUTED before the fix (fixed = false): `3 0 do i loop` with a 4-cell stack — one call ends with 0 1 2 and no error,
   13 single steps end in stack_overflow with 0 0 0 0 (the loop counter never advances), and nothing continues
   from there. *)
Theorem run_is_iterated_step_refuted :
  exists p m0 mf ms k,
    prog_do_loop = COk p /\ api_begin p (mkEnv []) (init_machine p) = Ok m0 /\
    complete 2 100 false p (mkEnv []) m0 = Ok mf /\ m_stack mf = [2; 1; 0] /\ m_err mf = E_none /\ is_done mf = true /\
    iter_step false p (mkEnv []) k m0 = Ok ms /\ can_go ms = false /\ m_err ms = E_overflow /\ m_stack ms = [0; 0; 0; 0].
Proof. exact run_is_iterated_step_refuted_proof. Qed.
Print Assumptions run_is_iterated_step_refuted.

(* HISTORY — (a) REFUTED before the fix, second defect: `: f 10 -1 if exit then 20 ; f` — one call leaves 10,
   single-stepping leaves 10 20 (`exit` does not leave the word when it is single-stepped). *)
Theorem step_exit_refuted :
  exists p m0 mf ms k,
    prog_exit = COk p /\ api_begin p (mkEnv []) (init_machine p) = Ok m0 /\
    complete 2 100 false p (mkEnv []) m0 = Ok mf /\ m_stack mf = [10] /\ is_done mf = true /\
    iter_step false p (mkEnv []) k m0 = Ok ms /\ is_done ms = true /\ m_err ms = E_none /\ m_stack ms = [20; 10].
Proof. exact step_exit_refuted_proof. Qed.
Print Assumptions step_exit_refuted.

(* HISTORY — before the fix the statement held under the precise side condition that no step boundary falls at the end
   of a do-loop body (or would pop at the target depth) and no `exit` is single-stepped: `clean_run k p e m` checks,
   along the trajectory, `step_clean` = the instruction executed by the step is not `exit` and, after it,
   `end_of_step_plain` (the finished segment that single-stepping pops eagerly is not a do-loop body). *)
Theorem run_is_iterated_step_pinned_partial : forall p e n f m mf,
  complete n f false p e m = Ok mf ->
  exists k, forall k', clean_run (k + k') p e m = true -> iter_step false p e (k + k') m = Ok mf.
Proof. exact run_is_iterated_step_pinned_partial_proof. Qed.
Print Assumptions run_is_iterated_step_pinned_partial.

(* (b) step() is total on every state of every program (before and after the fix): it never runs out of its own fuel
   (the outcome is a new state, possibly with an error code, or an identified undefined behaviour of the C++) *)
Theorem step_total : forall fixed p e m, api_step fixed p e m <> OutOfFuel.
Proof. exact step_total_proof. Qed.
Print Assumptions step_total.

(* (b) faults are documented error codes; after an error nothing executes until reset / begin.
   PARTIAL: does not exclude the outcome `Fault k` (see Proofs_C19, section 9). *)
Theorem faults_are_errors_partial :
  (forall fixed p e m m', doc_err (m_err m) -> api_step fixed p e m = Ok m' -> doc_err (m_err m')) /\
  (forall f fixed p e m m', doc_err (m_err m) -> api_resume f fixed p e m = Ok m' -> doc_err (m_err m')) /\
  (forall f fixed p e m s m', doc_err (m_err m) -> api_call f fixed p e m s = Ok m' -> doc_err (m_err m')) /\
  (forall fixed p e m m', m_err m <> E_none -> api_step fixed p e m = Ok m' -> same_data m m') /\
  (forall f fixed p e m m', m_err m <> E_none -> api_resume f fixed p e m = Ok m' -> same_data m m') /\
  (forall f fixed p e m s m', m_err m <> E_none -> api_call f fixed p e m s = Ok m' -> same_data m m') /\
  (forall p m, m_err (api_reset p m) = E_none /\ m_ready (api_reset p m) = false) /\
  (forall p e m m', api_begin p e m = Ok m' -> can_go m' = true /\ m_stack m' = []).
Proof. exact faults_are_errors_partial_proof. Qed.
Print Assumptions faults_are_errors_partial.

(* (c) the growable output array (any initial size >= 1, any growth function that strictly increases the
   reservation) refines the list semantics used by the machine model ... *)
Theorem growth_refines_lists : forall grow junk initial ops, grow_ok grow -> 1 <= initial ->
  g_obs (g_run grow junk (g_new initial junk) ops) = Some (buf_run [] ops).
Proof. exact growth_refines_lists_proof. Qed.
Print Assumptions growth_refines_lists.

(* ... hence the observable output content does not depend on output_initial_size / output_resize_factor *)
Theorem growth_irrelevant : forall grow1 grow2 junk1 junk2 initial1 initial2 ops,
  grow_ok grow1 -> grow_ok grow2 -> 1 <= initial1 -> 1 <= initial2 ->
  g_obs (g_run grow1 junk1 (g_new initial1 junk1) ops) = g_obs (g_run grow2 junk2 (g_new initial2 junk2) ops).
Proof. exact growth_irrelevant_proof. Qed.
Print Assumptions growth_irrelevant.

(* (d) `/`, `mod`, `/mod` (forth_floor_div / forth_floor_mod) are floor division and modulo for ALL in-range cells with
   d <> 0: r = n mod d has the sign of d, q is n / d reduced to the cell width (it wraps only for INT_MIN / -1),
   and q*d + r = n modulo 2^w — exactly, outside that one case *)
Theorem floor_div_mod_spec : forall w n d, 0 < w -> d <> 0 ->
  - 2 ^ (w - 1) <= n < 2 ^ (w - 1) -> - 2 ^ (w - 1) <= d < 2 ^ (w - 1) ->
  let q := forth_div w n d in let r := forth_mod w n d in
  r = n mod d /\ q = wrap w (n / d) /\ (0 <= r < d \/ d < r <= 0) /\ wrap w (q * d + r) = n /\
  (~ (n = - 2 ^ (w - 1) /\ d = -1) -> q = n / d /\ q * d + r = n).
Proof. exact floor_div_mod_spec_proof. Qed.
Print Assumptions floor_div_mod_spec.

(* (d) the arithmetic words deliver the exact integer result reduced to the cell width *)
Theorem wraparound_spec : forall p e m a b s, 0 < p_w p -> m_stack m = b :: a :: s ->
  let w := p_w p in
  exec_builtin p e m CODE_ADD = continue (set_stack m (wrap w (a + b) :: s)) /\
  exec_builtin p e m CODE_SUB = continue (set_stack m (wrap w (a - b) :: s)) /\
  exec_builtin p e m CODE_MUL = continue (set_stack m (wrap w (a * b) :: s)) /\
  exec_builtin p e m CODE_NEGATE = continue (set_stack m (wrap w (- b) :: a :: s)) /\
  exec_builtin p e m CODE_ADD1 = continue (set_stack m (wrap w (b + 1) :: a :: s)) /\
  exec_builtin p e m CODE_SUB1 = continue (set_stack m (wrap w (b - 1) :: a :: s)) /\
  exec_builtin p e m CODE_ABS = continue (set_stack m (wrap w (Z.abs b) :: a :: s)) /\
  exec_builtin p e m CODE_LSHIFT = continue (set_stack m (wrap w (a * 2 ^ (b mod w)) :: s)) /\
  (forall z, - 2 ^ (w - 1) <= wrap w z < 2 ^ (w - 1) /\ (exists k, wrap w z = z + k * 2 ^ w) /\
             (- 2 ^ (w - 1) <= z < 2 ^ (w - 1) -> wrap w z = z)).
Proof. exact wraparound_spec_proof. Qed.
Print Assumptions wraparound_spec.

(* (e) the model is a function *)
Theorem deterministic : forall fuel fixed p given segs r1 r2,
  session fuel fixed p given segs = r1 -> session fuel fixed p given segs = r2 -> r1 = r2.
Proof. exact deterministic_proof. Qed.
Print Assumptions deterministic.
