(** C17 proofs, part 9: Form -> JSON TEXT -> Form.  The compact text rj::Writer emits for Form::tojson is read back by
    the reference JSON reader of Proofs_C17b_ParseX_Json to the same JSON value, hence to the same form: the round
    trip of theorem form_json_roundtrip holds at the level of the text, and the text determines the form. *)
From Coq Require Import ZArith List Bool Lia String.
From AwkV Require Import Base Layout.
From AwkTypes Require Import Json Forms TypeStr Proofs_Json Proofs_Parse Proofs_C17b_Exact Proofs_C17b_ParseX_Json.
Import ListNotations.
Open Scope Z_scope.

Definition jm_ok (m : list (bytes * json)) : bool := forallb (fun kv => key_ok (fst kv) && json_ok (snd kv)) m.

Lemma jm_ok_app a b : jm_ok (a ++ b) = jm_ok a && jm_ok b.
Proof. apply forallb_app. Qed.

Lemma obj_ok fixed tail : jm_ok fixed = true -> jm_ok tail = true -> json_ok (JObj (fixed ++ tail)) = true.
Proof. intros H1 H2. rewrite json_ok_obj. fold (jm_ok (fixed ++ tail)). rewrite jm_ok_app, H1, H2. reflexivity. Qed.

Lemma key_ok_cstr k : key_ok k = true -> key_ok (cstr k) = true.
Proof.
  induction k as [|c k IH]; [reflexivity|]. rewrite key_ok_cons. intros H. apply andb_true_iff in H as [Hc Hk].
  cbn [cstr]. destruct (c =? 0); [reflexivity|]. rewrite key_ok_cons, Hc, (IH Hk). reflexivity.
Qed.

(* parameters and form key are byte strings / JSON values of the fragment (no doubles) *)
Definition meta_text_ok (m : fmeta) : bool :=
  jm_ok (m_params m) && match m_key m with Some k => key_ok k | None => true end.

Fixpoint form_text_ok (f : form) : bool :=
  match f with
  | FNumpy m _ _ format _ => meta_text_ok m && key_ok format
  | FEmpty m => meta_text_ok m
  | FListOffset m _ c | FList m _ _ c | FRegular m c _ | FIndexed m _ c | FIndexedOption m _ c
  | FByteMasked m _ c _ | FBitMasked m _ c _ _ | FUnmasked m c => meta_text_ok m && form_text_ok c
  | FUnion m _ _ cs => meta_text_ok m && forallb form_text_ok cs
  | FRecord m ks cs =>
      meta_text_ok m && forallb form_text_ok cs && match ks with Some ks => forallb key_ok ks | None => true end
  | FVirtual m g _ => meta_text_ok m && match g with Some g' => form_text_ok g' | None => true end
  end.

Lemma params_obj_ok (ps : params) : jm_ok ps = true -> json_ok (JObj (map (fun kv => (cstr (fst kv), snd kv)) ps)) = true.
Proof.
  intros H. rewrite json_ok_obj. induction ps as [|[k v] ps IH]; [reflexivity|].
  cbn [jm_ok forallb fst snd] in H. apply andb_true_iff in H as [H1 H2]. apply andb_true_iff in H1 as [Hk Hv].
  cbn [map forallb fst snd]. rewrite (key_ok_cstr k Hk), Hv. exact (IH H2).
Qed.

Lemma tail_ok v m : meta_text_ok m = true -> jm_ok (j_tail v m) = true.
Proof.
  unfold meta_text_ok. intros H. apply andb_true_iff in H as [Hp Hk].
  unfold j_tail. rewrite !jm_ok_app. apply andb_true_iff. split; [|apply andb_true_iff; split].
  - unfold j_identities. destruct (v || m_hid m); [destruct (m_hid m)|]; reflexivity.
  - unfold j_parameters. destruct (m_params m) as [|kv ps] eqn:E.
    + destruct v; reflexivity.
    + cbn [jm_ok forallb fst snd]. change (key_ok k_parameters) with true. cbn [andb].
      rewrite (params_obj_ok (kv :: ps) Hp). reflexivity.
  - unfold j_form_key. destruct (m_key m) as [k|].
    + cbn [jm_ok forallb fst snd json_ok]. rewrite Hk. reflexivity.
    + destruct v; reflexivity.
Qed.

Lemma ints_ok l : json_ok (JArr (map JInt l)) = true.
Proof. cbn [json_ok]. induction l; simpl; auto. Qed.

Lemma form2str_ok o : key_ok (form2str o) = true.
Proof. destruct o; reflexivity. Qed.

Lemma dtype_name_ok dt : key_ok (dtype_to_name dt) = true.
Proof. destruct dt as [[]| | | | | | | |]; reflexivity. Qed.

Lemma rec_fields_ok (sub : form -> json) cs : Forall (fun c => json_ok (sub c) = true) cs ->
  forall ks, forallb key_ok ks = true ->
  jm_ok ((fix go (cs : list form) (ks : list bytes) {struct cs} : list (bytes * json) :=
            match cs, ks with
            | c :: cs', k :: ks' => (cstr k, sub c) :: go cs' ks'
            | _, _ => []
            end) cs ks) = true.
Proof.
  induction 1 as [|c cs Hc _ IH]; intros ks Hk; [reflexivity|].
  destruct ks as [|k ks]; [reflexivity|]. simpl in Hk. apply andb_true_iff in Hk as [Hk1 Hk2].
  cbn [jm_ok forallb fst snd]. rewrite (key_ok_cstr k Hk1), Hc. cbn [andb]. exact (IH ks Hk2).
Qed.

Lemma arr_ok (sub : form -> json) cs : Forall (fun c => json_ok (sub c) = true) cs -> json_ok (JArr (map sub cs)) = true.
Proof. cbn [json_ok]. induction 1 as [|c cs Hc _ IH]; [reflexivity|]. cbn [map forallb]. rewrite Hc. exact IH. Qed.

Definition tok (f : form) : Prop := form_text_ok f = true -> forall v top, json_ok (form_tojson_part v top f) = true.

Ltac fixed_ok := cbn [jm_ok forallb fst snd json_ok andb]; rewrite ?form2str_ok; try reflexivity.

Lemma forall_tok cs : Forall tok cs -> forallb form_text_ok cs = true -> forall v,
  Forall (fun c => json_ok (form_tojson_part v false c) = true) cs.
Proof.
  induction 1 as [|c cs Hc _ IH]; intros H v; [constructor|]. simpl in H. apply andb_true_iff in H as [H1 H2].
  constructor; [exact (Hc H1 v false)|exact (IH H2 v)].
Qed.

Theorem form_text_ok_all f : tok f.
Proof.
  induction f as [m inner itemsize format dt|m|m o c IH|m s e c IH|m c size IH|m i c IH|m i c IH|m k c vw IH
                 |m k c vw lsb IH|m c IH|m t i cs IH|m ks cs IH|m hl|m g hl IH] using form_ind';
    intros H v top; cbn [form_text_ok] in H.
  - apply andb_true_iff in H as [Hm Hf]. cbn [form_tojson_part].
    destruct (v || top || negb match inner with [] => true | _ :: _ => false end || negb (is_plain_meta m)).
    + rewrite !app_assoc. apply obj_ok; [|exact (tail_ok v m Hm)].
      rewrite !jm_ok_app. cbn [jm_ok forallb fst snd json_ok andb]. rewrite Hf, dtype_name_ok.
      destruct (v || negb match inner with [] => true | _ :: _ => false end); [|reflexivity].
      cbn [jm_ok forallb fst snd]. rewrite ints_ok. reflexivity.
    + cbn [json_ok]. apply dtype_name_ok.
  - cbn [form_tojson_part]. change ((k_class, JStr c_EmptyArray) :: j_tail v m) with ([(k_class, JStr c_EmptyArray)] ++ j_tail v m).
    apply obj_ok; [reflexivity|exact (tail_ok v m H)].
  - apply andb_true_iff in H as [Hm Hc]. cbn [form_tojson_part]. apply obj_ok; [|exact (tail_ok v m Hm)].
    fixed_ok. rewrite (IH Hc v false). destruct o; reflexivity.
  - apply andb_true_iff in H as [Hm Hc]. cbn [form_tojson_part]. apply obj_ok; [|exact (tail_ok v m Hm)].
    fixed_ok. rewrite (IH Hc v false). destruct s; reflexivity.
  - apply andb_true_iff in H as [Hm Hc]. cbn [form_tojson_part]. apply obj_ok; [|exact (tail_ok v m Hm)].
    fixed_ok. rewrite (IH Hc v false). reflexivity.
  - apply andb_true_iff in H as [Hm Hc]. cbn [form_tojson_part]. apply obj_ok; [|exact (tail_ok v m Hm)].
    fixed_ok. rewrite (IH Hc v false). destruct i; reflexivity.
  - apply andb_true_iff in H as [Hm Hc]. cbn [form_tojson_part]. apply obj_ok; [|exact (tail_ok v m Hm)].
    fixed_ok. rewrite (IH Hc v false). destruct i; reflexivity.
  - apply andb_true_iff in H as [Hm Hc]. cbn [form_tojson_part]. apply obj_ok; [|exact (tail_ok v m Hm)].
    fixed_ok. rewrite (IH Hc v false). reflexivity.
  - apply andb_true_iff in H as [Hm Hc]. cbn [form_tojson_part]. apply obj_ok; [|exact (tail_ok v m Hm)].
    fixed_ok. rewrite (IH Hc v false). reflexivity.
  - apply andb_true_iff in H as [Hm Hc]. cbn [form_tojson_part]. apply obj_ok; [|exact (tail_ok v m Hm)].
    fixed_ok. rewrite (IH Hc v false). reflexivity.
  - apply andb_true_iff in H as [Hm Hc]. cbn [form_tojson_part]. apply obj_ok; [|exact (tail_ok v m Hm)].
    cbn [jm_ok forallb fst snd]. rewrite (arr_ok _ cs (forall_tok cs IH Hc v)).
    cbn [json_ok]. rewrite !form2str_ok. destruct i; reflexivity.
  - apply andb_true_iff in H as [H Hks]. apply andb_true_iff in H as [Hm Hc].
    pose proof (forall_tok cs IH Hc v) as HF.
    destruct ks as [ks|]; cbn [form_tojson_part]; (apply obj_ok; [|exact (tail_ok v m Hm)]); cbn [jm_ok forallb fst snd].
    + rewrite json_ok_obj. fold (jm_ok ((fix go (cs : list form) (ks : list bytes) {struct cs} : list (bytes * json) :=
            match cs, ks with
            | c :: cs', k :: ks' => (cstr k, form_tojson_part v false c) :: go cs' ks'
            | _, _ => []
            end) cs ks)).
      rewrite (rec_fields_ok _ cs HF ks Hks). reflexivity.
    + rewrite (arr_ok _ cs HF). reflexivity.
  - cbn [form_tojson_part]. apply obj_ok; [|apply tail_ok; apply andb_true_iff in H; tauto]. destruct hl; reflexivity.
  - apply andb_true_iff in H as [Hm Hc]. cbn [form_tojson_part]. apply obj_ok; [|exact (tail_ok v m Hm)].
    cbn [jm_ok forallb fst snd]. rewrite (IH Hc v false). destruct hl; reflexivity.
Qed.

(* the JSON of a form whose strings are byte strings and whose parameters hold no doubles is in the fragment the
   reference JSON reader inverts *)
Theorem form_json_ok_thm f v : form_text_ok f = true -> json_ok (form_tojson v f) = true.
Proof. intros H. exact (form_text_ok_all f H v true). Qed.

(* Form -> JSON text -> Form *)
Definition form_fromtext (s : bytes) : res form := do j <- json_parse_top s; form_fromjson j.
Definition form_totext (verbose : bool) (f : form) : bytes := json_print (form_tojson verbose f).

Theorem form_text_roundtrip_thm f v : form_wf f = true -> form_text_ok f = true ->
  form_fromtext (form_totext v f) = Ok f.
Proof.
  intros Hw Ht. unfold form_fromtext, form_totext. rewrite (json_roundtrip _ (form_json_ok_thm f v Ht)). cbn [bind].
  exact (form_json_roundtrip_thm f v Hw).
Qed.

(* the text determines the form (across verbosities) *)
Theorem form_text_injective_thm f g v w :
  form_wf f = true -> form_text_ok f = true -> form_wf g = true -> form_text_ok g = true ->
  form_totext v f = form_totext w g -> f = g.
Proof.
  intros Hf Tf Hg Tg E. pose proof (form_text_roundtrip_thm f v Hf Tf) as R. rewrite E, (form_text_roundtrip_thm g w Hg Tg) in R.
  inversion R. reflexivity.
Qed.

(* ---------------------------------------------------------------- example, and the excluded shape *)
Definition ex_form_text : form :=
  FRecord (mkmeta true [(k_record, JStr [80; 116]); ([122], JArr [JInt 1; JObj [([97; 34], JBool true); ([98], JNull)]; JInt (-12345678901234567890)])]
                  (Some [107; 10]))
          (Some [[97]; [98; 34; 99]])
          [FListOffset meta0 Fi64 (FNumpy meta0 [2; 0; 3] 8 (dtype_to_format (FD DFloat64)) (FD DFloat64));
           FUnion meta0 Fi8 Fu32 [FEmpty meta0; FVirtual meta0 None true;
                                  FBitMasked meta0 Fu8 (FNumpy meta0 [] 1 [63] (FD DBool)) false true]].

Example ex_form_text_ok : form_wf ex_form_text = true /\ form_text_ok ex_form_text = true.
Proof. split; vm_compute; reflexivity. Qed.
Example ex_form_text_roundtrip : forall v, form_fromtext (form_totext v ex_form_text) = Ok ex_form_text.
Proof. intros v. apply form_text_roundtrip_thm; vm_compute; reflexivity. Qed.
Example ex_form_text_compact : form_totext false (FListOffset meta0 Fi64 (FNumpy meta0 [] 8 [108] (FD DInt64))) =
  bytes_of_string "{""class"":""ListOffsetArray64"",""offsets"":""i64"",""content"":""int64""}"%string.
Proof. vm_compute. reflexivity. Qed.

(* a double in the parameters is carried in the model as the text rj::Writer prints; a text that is a number token with
   a fraction or an exponent is inside the fragment ... *)
Example form_text_double_inside :
  let f := FEmpty (mkmeta false [([120], JDbl [49; 46; 53])] None) in
  form_wf f = true /\ form_text_ok f = true /\ form_fromtext (form_totext false f) = Ok f.
Proof. cbv zeta. repeat split; vm_compute; reflexivity. Qed.

(* ... outside: a "double" whose text is an integer token reads back as that integer (the model's JDbl text is
   unconstrained; rj::Writer never prints a double that way) *)
Example form_text_double_outside :
  let f := FEmpty (mkmeta false [([120], JDbl [49])] None) in
  form_wf f = true /\ form_text_ok f = false /\
  form_fromtext (form_totext false f) = Ok (FEmpty (mkmeta false [([120], JInt 1)] None)).
Proof. cbv zeta. repeat split; vm_compute; reflexivity. Qed.
