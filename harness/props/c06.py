"""C06: sort / argsort order every list along the axis without moving data between lists."""
import common as C
import gen as G

THEOREMS = ['sort_result', 'sort_permutation', 'sort_sorted', 'sort_stable', 'nan_first_both_directions',
            'cmp_strict_weak_order', 'sort_refines_spec_partial', 'sort_modelled_on_innermost_axis',
            'last_axis_is_innermost', 'sort_refines_spec_innermost_axis', 'sort_refines_spec_axis_minus_one',
            'sort_model_reads_and_writes_keys', 'sort_model_preserves_lengths', 'sort_model_no_cross_list_movement',
            'str_cmp_irrefl', 'str_cmp_trans', 'str_cmp_total', 'str_cmp_lexicographic', 'str_cmp_ignores_flags',
            'str_cmp_direction', 'str_cmp_strict_weak_order', 'sort_result_strings', 'strings_sort_as_units',
            'sort_strings_equiv_is_same_bytes', 'sort_strings_ascending', 'sort_strings_descending',
            'str_prefix_before_extension', 'sort_leaves_length', 'sortcols_ids', 'sortcols_rows', 'sortcols_columns',
            'sortcols_columns_nonempty', 'sortcols_columns_empty', 'enumv_NoDup', 'sortcols_shape_partial',
            'sort_spec_preserves_lengths_partial', 'no_cross_list_movement', 'sort_spec_no_cross_list_movement',
            'argsort_realises_sort', 'argsort_positions', 'argsort_realises_sort_cols',
            # layout-level model of sort along the NON-innermost axes (Ops_SortAxes.v) = specification
            'sortcols_total_on_handled_types', 'sort_axes_groups_refine_sortcols', 'sort_axes_refines_spec_partial', 'sort_axes_modelled_on_fragment', 'sort_axes_refines_spec_on_fragment', 'sort_axes_never_out_of_bounds', 'layout_independent_sort_axes', 'layout_independent_sort_axes_on_fragment', 'sort_all_refines_spec_partial', 'sort_all_modelled_on_fragment', 'sort_all_refines_spec_on_fragment']
RULE = ('value-first random layouts (numeric incl. NaN/inf floats, bool, strings; options at leaf and list level) x '
        '(sort | argsort) x axis x ascending x stable; in that stream argsort is run with stable=True; a second stream of '
        'long lists (17-70 numbers with many NaN / equal keys) runs sort and argsort stable and UNSTABLE, the unstable '
        'argsort judged by: positions are a permutation of each list and carrying by them gives the sorted list. non-trivial = some list along the axis has >= 2 elements; distinct by case text')
ASSUMPTIONS = ['the layout-level model covers sort along every axis (innermost: sort_model; others: sort_axes_model, lists over '
               'numbers with option nodes on the leaves) and argsort along the innermost axis; elsewhere the implementation is '
               'compared with the value-level specification only (verdict agree ... nomodel, counted)',
               'records and unions are outside the specification (the library refuses or treats fields separately)']
LEAVES = ['int64'] * 3 + ['float64'] * 3 + ['bool', 'int8', 'uint8', 'int32', 'uint16', 'float32', 'uint64']


def cases(rng, tier):
    n = 15000 if tier == 'quick' else 300000
    out = []
    for i in range(n):
        a = G.gen_array(rng, depth=rng.choice([1, 2, 2, 3, 3]), canonical_too=False,
                        type_kw=dict(allow_union=False, allow_rec=False, leaf_dtypes=LEAVES),
                        enc_kw=dict(strided=0.15, weird_empty=0.05))
        t = a['type']
        op = rng.choice(['sort', 'argsort'])
        mn, mx = G.list_depth(t)
        r = rng.random()
        strs = G.has_kind(t, 'str')
        if r < 0.6 or (strs and r < 0.9):
            axis = -1            # strings can only be sorted with axis=-1
        elif r < 0.9:
            axis = rng.randint(0, mx - 1)
        else:
            axis = rng.choice(([mx] if not strs else []) + [-mx - 1, -mx - 2])
        asc = rng.choice([0, 1])
        stable = 1 if op == 'argsort' else rng.choice([0, 1])
        tags = dict(op=op, axis=axis, asc=asc, stable=stable, innermost=bool(axis == -1 or axis == mx - 1))
        out.append(C.Case('c%d' % i, op, [str(axis), str(asc), str(stable)], [G.sx(a['layout'])],
                          dict(nontrivial=True, tags=tags, type=t)))
    return out + long_cases(rng, n // 15)


def long_cases(rng, n):
    """long lists (17-70 items: std::sort leaves its insertion-sort regime above 16) of numbers with several NaN / equal
    keys, flat or one level down, sorted and argsorted in both directions, stable and UNSTABLE.  An unstable argsort has no
    unique answer: it is judged in run() by 'the positions are a permutation of each list and carrying the input by them
    gives the sorted list'."""
    out = []
    for i in range(n):
        dt = rng.choice(['float64', 'float64', 'float32', 'int64', 'int8'])
        depth2 = rng.random() < 0.5
        nl = rng.choice([1, 2, 3]) if depth2 else 1
        lists = []
        for _ in range(nl):
            m = rng.choice([17, 18, 20, 33, 41, 64, 70, 0, 3])
            pool = [rng.randint(-3, 3) for _ in range(rng.choice([2, 3, 6]))]
            vs = []
            for _ in range(m):
                r = rng.random()
                if dt.startswith('float') and r < 0.25:
                    vs.append('nan')
                elif dt.startswith('float') and r < 0.3:
                    vs.append(rng.choice(['inf', '-inf']))
                else:
                    vs.append(str(rng.choice(pool) if rng.random() < 0.6 else rng.randint(-100, 100)))
            lists.append(vs)
        flat = [v for l in lists for v in l]
        np_ = '(np %s (%d) (%s))' % (dt, len(flat), ' '.join(flat))
        if depth2:
            offs = [0]
            for l in lists:
                offs.append(offs[-1] + len(l))
            lay = '(lo i64 (%s) %s)' % (' '.join(map(str, offs)), np_)
        else:
            lay = np_
        op = rng.choice(['sort', 'argsort', 'argsort'])
        asc = rng.choice([0, 1])
        stable = rng.choice([0, 0, 1])
        tags = dict(op=op, axis=-1, asc=asc, stable=stable, innermost=True, stream='long')
        out.append(C.Case('L%d' % i, op, ['-1', str(asc), str(stable)], [lay],
                          dict(nontrivial=True, tags=tags, type=None, unstable_argsort=(op == 'argsort' and not stable))))
    return out


def _parse_val(s):
    """value text of modelrun ('(l (l 1 nan) ...)') -> nested Python lists of atoms"""
    toks = s.replace('(', ' ( ').replace(')', ' ) ').split()
    pos = [0]

    def go():
        t = toks[pos[0]]
        pos[0] += 1
        if t == '(':
            out = []
            while toks[pos[0]] != ')':
                out.append(go())
            pos[0] += 1
            return out
        return t
    return go()


def run(cases, tier, rng):
    import check
    import sys
    mod = sys.modules[__name__]
    plain = [c for c in cases if not c.meta.get('unstable_argsort')]
    unst = [c for c in cases if c.meta.get('unstable_argsort')]
    s = check.default_run(mod, plain, tier)
    if not unst:
        return s
    # unstable argsort: positions P (implementation), sorted values S (implementation, same arguments through sort),
    # input values X: every list of P is a permutation of 0..n-1 and X carried by P equals S
    lines, ids = [], {}
    for c in unst:
        lines.append(c.line())
        c2 = C.Case(c.id + 's', 'sort', c.args, c.layouts)
        lines.append(c2.line())
    res, errs = C.run_driver(lines, san=(tier == 'thorough'))
    dumps = {}
    for c in unst:
        dumps[c.id] = res.get(c.id, 'crash missing')
        dumps[c.id + 's'] = res.get(c.id + 's', 'crash missing')
        dumps[c.id + 'x'] = 'ok ' + c.layouts[0]
    vals = C.values_of(dumps)
    ok = True
    nagree = 0
    for c in unst:
        r = dumps[c.id]
        problem = None
        if not r.startswith('ok '):
            problem = 'unstable argsort %s' % r[:200]
            kind = 'crash' if (r.startswith('crash') or r.startswith('timeout')) else 'viol'
        else:
            kind = 'viol'
            try:
                P, S, X = _parse_val(vals[c.id]), _parse_val(vals[c.id + 's']), _parse_val(vals[c.id + 'x'])

                def lists_of(v):
                    v = v[1:]        # drop the 'l' head
                    return [x[1:] for x in v] if v and isinstance(v[0], list) else [v]
                for pl, sl, xl in zip(lists_of(P), lists_of(S), lists_of(X)):
                    idx = [int(q) for q in pl]
                    if sorted(idx) != list(range(len(xl))):
                        problem = 'positions %s are not a permutation of 0..%d' % (pl[:40], len(xl) - 1)
                        break
                    if [xl[q] for q in idx] != sl:
                        problem = 'carrying the list by the positions gives %s, the sorted list is %s' % ([xl[q] for q in idx][:40], sl[:40])
                        break
            except Exception as e:      # unreadable result: fail closed
                problem = 'could not judge the unstable argsort result: %r' % (e,)
        if problem is None:
            nagree += 1
            continue
        ok = False
        s['findings'].insert(0, dict(kind=kind, what='argsort(stable=False): %s' % problem,
                                     case_lines=[c.line(), '# impl: ' + r[:600]] + (['# stderr: ' + errs.get(c.id, '')[:1500].replace(chr(10), chr(10) + '# ')] if errs.get(c.id) else []),
                                     signature=None, size=len(c.line())))
    s['corr_obligations']['impl:unstable-argsort-realises-sort'] = ok
    s['evaluations'] += len(unst)
    s['verdicts']['agree-unstable-argsort'] = nagree
    s['distinct_nontrivial'] += nagree
    return s


def _optlist_under_list(t, under=False):
    if t[0] == 'list':
        return _optlist_under_list(t[1], True)
    if t[0] == 'opt':
        if t[1][0] == 'list' and under:
            return True
        return _optlist_under_list(t[1], under)
    return False


def _opt_of_str(t):
    if t[0] == 'opt':
        return t[1][0] == 'str' or _opt_of_str(t[1])
    if t[0] == 'list':
        return _opt_of_str(t[1])
    return False


def _optlist_anywhere(t):
    if t[0] == 'opt':
        return t[1][0] == 'list' or _optlist_anywhere(t[1])
    if t[0] == 'list':
        return _optlist_anywhere(t[1])
    return False


def signature(c, impl, v):
    tg = c.meta.get('tags', {})
    t = c.meta.get('type')
    if t is not None:
        if tg.get('op') == 'argsort' and not tg.get('innermost') and not v.startswith('viol closure'):
            return 'argsort-nonlocal-positions'
        if tg.get('op') == 'argsort' and _opt_of_str(t):
            return 'argsort-option-strings-positions'
        if _optlist_under_list(t) or (not tg.get('innermost') and _optlist_anywhere(t)):
            return 'sort-option-lists-above-axis'
    lay = c.layouts[0]
    if (lay.startswith('(par string') or lay.startswith('(par bytestring')) and \
            impl in ('ok (par char none (np uint8 (0) ()))', 'ok (par byte none (np uint8 (0) ()))'):
        return 'sort-empty-string-array'
    return None
