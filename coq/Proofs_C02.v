(** T6 (property C02, layout independence): two valid layouts with the same value and type give the
    same observable result under num / local_index / pad_none / combinations / carry.  Immediate from
    the refinement theorems: the result is a function of (type, value) only. *)
From Coq Require Import ZArith List Bool Lia.
From AwkV Require Import Base Layout Valid Types Carry AtAxis Ops_Struct
                         Proofs_Lists Proofs_ToList Proofs_Carry Proofs_AtAxis Proofs_AtAxisOps.
Import ListNotations.
Open Scope Z_scope.

(* The statements as first written,
     layout_independent_num : Valid None a -> Valid None b -> frag a = true -> frag b = true ->
       to_list a = to_list b -> type_of a = type_of b -> obs (num_model axis a) = obs (num_model axis b),
   are FALSE of the model when the common "value" is an error: validity does not look below a string
   node (see Proofs_ToList), so two valid strings with an unusable character buffer both have
   to_list = Err EValue and the same type, yet different list lengths. *)
Example layout_independent_num_counterexample :
  let bad := Par (Some AChar) None (Numpy DUInt8 [5] []) in
  let a := Par (Some AString) None (ListOffset I64 [0; 1] bad) in
  let b := Par (Some AString) None (ListOffset I64 [0; 2] bad) in
  validb None a = true /\ validb None b = true /\ frag a = true /\ frag b = true /\
  to_list a = to_list b /\ type_of a = type_of b /\
  obs (num_model 1 a) = Ok [VNum (DZ 1)] /\ obs (num_model 1 b) = Ok [VNum (DZ 2)].
Proof. vm_compute. repeat split. Qed.

(* strongest true variants: the two layouts HAVE a (common) value *)
Section Indep.
  Variables a b : content.
  Variable vs : list value.
  Hypothesis HVa : Valid None a.
  Hypothesis HVb : Valid None b.
  Hypothesis Hfa : frag a = true.
  Hypothesis Hfb : frag b = true.
  Hypothesis Hla : to_list a = Ok vs.
  Hypothesis Hlb : to_list b = Ok vs.
  Hypothesis Hty : type_of a = type_of b.

  Theorem layout_independent_num_partial axis : obs (num_model axis a) = obs (num_model axis b).
  Proof. rewrite (num_refines a axis vs), (num_refines b axis vs), Hty by assumption. reflexivity. Qed.
  Theorem layout_independent_localindex_partial axis : obs (localindex_model axis a) = obs (localindex_model axis b).
  Proof. rewrite (localindex_refines a axis vs), (localindex_refines b axis vs), Hty by assumption. reflexivity. Qed.
  Theorem layout_independent_rpad_partial target axis : obs (rpad_model target axis a) = obs (rpad_model target axis b).
  Proof. rewrite (rpad_refines target a axis vs), (rpad_refines target b axis vs), Hty by assumption. reflexivity. Qed.
  Theorem layout_independent_rpadclip_partial target axis :
    obs (rpadclip_model target axis a) = obs (rpadclip_model target axis b).
  Proof. rewrite (rpadclip_refines target a axis vs), (rpadclip_refines target b axis vs), Hty by assumption. reflexivity. Qed.
  Theorem layout_independent_combinations_partial n repl axis :
    obs (comb_model n repl axis a) = obs (comb_model n repl axis b).
  Proof. rewrite (combinations_refines n repl a axis vs), (combinations_refines n repl b axis vs), Hty by assumption. reflexivity. Qed.
End Indep.

(* carry needs neither the fragment nor equal types *)
Theorem layout_independent_carry_partial : forall a b vs ix,
  Valid None a -> Valid None b -> to_list a = Ok vs -> to_list b = Ok vs ->
  Forall (fun i => 0 <= i < zlen vs) ix ->
  obs (carry a ix) = obs (carry b ix).
Proof.
  intros a b vs ix HVa HVb Hla Hlb Hix.
  destruct (carry_spec a vs ix HVa Hla) as (a' & Ha & Hla' & _); [rewrite <- (to_list_len _ _ Hla); exact Hix|].
  destruct (carry_spec b vs ix HVb Hlb) as (b' & Hb & Hlb' & _); [rewrite <- (to_list_len _ _ Hlb); exact Hix|].
  rewrite Ha, Hb. cbn [obs]. congruence.
Qed.

(* with sound character buffers ([chars_ok], vacuous without strings) the value exists, and the
   statements hold in their original form *)
Section IndepTotal.
  Variables a b : content.
  Hypothesis HVa : Valid None a.
  Hypothesis HVb : Valid None b.
  Hypothesis Hfa : frag a = true.
  Hypothesis Hfb : frag b = true.
  Hypothesis Hca : chars_ok a = true.
  Hypothesis Hl : to_list a = to_list b.
  Hypothesis Hty : type_of a = type_of b.

  Lemma common_value : exists vs, to_list a = Ok vs /\ to_list b = Ok vs.
  Proof. destruct (valid_to_list_total_partial a None HVa Hca) as [vs Hv]. exists vs. split; [exact Hv|congruence]. Qed.

  Theorem layout_independent_num axis : obs (num_model axis a) = obs (num_model axis b).
  Proof. destruct common_value as (vs & Ha & Hb). eapply layout_independent_num_partial; eassumption. Qed.
  Theorem layout_independent_localindex axis : obs (localindex_model axis a) = obs (localindex_model axis b).
  Proof. destruct common_value as (vs & Ha & Hb). eapply layout_independent_localindex_partial; eassumption. Qed.
  Theorem layout_independent_rpad target axis : obs (rpad_model target axis a) = obs (rpad_model target axis b).
  Proof. destruct common_value as (vs & Ha & Hb). eapply layout_independent_rpad_partial; eassumption. Qed.
  Theorem layout_independent_rpadclip target axis : obs (rpadclip_model target axis a) = obs (rpadclip_model target axis b).
  Proof. destruct common_value as (vs & Ha & Hb). eapply layout_independent_rpadclip_partial; eassumption. Qed.
  Theorem layout_independent_combinations n repl axis : obs (comb_model n repl axis a) = obs (comb_model n repl axis b).
  Proof. destruct common_value as (vs & Ha & Hb). eapply layout_independent_combinations_partial; eassumption. Qed.
End IndepTotal.

(* a non-trivial instance: the same value as ListOffset-over-2-d-Numpy and as ListArray-with-gaps over an
   IndexedArray of a RegularArray *)
Example layout_independent_ex :
  let a := ListOffset I64 [0; 2; 3] (Numpy DInt64 [3; 2] [DZ 1; DZ 2; DZ 3; DZ 4; DZ 5; DZ 6]) in
  let b := ListA I64 [1; 3] [3; 4] (Indexed I64 [0; 2; 1; 0]
             (Regular (Numpy DInt64 [6] [DZ 5; DZ 6; DZ 3; DZ 4; DZ 1; DZ 2]) 2 0)) in
  validb None a = true /\ validb None b = true /\ frag a = true /\ frag b = true /\
  chars_ok a = true /\ to_list a = to_list b /\ type_of a = type_of b /\
  to_list a = Ok [VList [VList [VNum (DZ 1); VNum (DZ 2)]; VList [VNum (DZ 3); VNum (DZ 4)]]; VList [VList [VNum (DZ 5); VNum (DZ 6)]]] /\
  obs (comb_model 2 false 1 a) = obs (comb_model 2 false 1 b) /\
  obs (carry a [1; 1; 0]) = obs (carry b [1; 1; 0]).
Proof. vm_compute. repeat split. Qed.
