(** Proofs_C13d10.v -- kernels that are specialisations of a loop already verified under another name:
    awkward_reduce_argmin_bool_64 / awkward_reduce_argmax_bool_64 (the loop of awkward_reduce_argmin / _argmax on 0/1 data),
    awkward_reduce_sum_int32_bool_64 / awkward_reduce_sum_int64_bool_64 (the loop of awkward_reduce_countnonzero) *)
From Coq Require Import ZArith List Bool Lia ZifyBool.
From AwkV Require Import Base.
From AwkKernels Require Import Kernels KLemmas Proofs_C13 Proofs_C13b Proofs_C13c Proofs_C13d Proofs_C13d2 Proofs_C13d3.
Import ListNotations.
Open Scope Z_scope.

Theorem reduce_argmin_bool_64_safe toptr fromptr parents n ol :
  red_pre toptr fromptr parents n ol -> reduce_argmin toptr fromptr parents n ol <> KOob.
Proof. apply reduce_argmin_safe. Qed.
Theorem reduce_argmin_bool_64_spec toptr fromptr parents n ol :
  red_pre toptr fromptr parents n ol ->
  exists out, reduce_argmin toptr fromptr parents n ol = KOk out /\ zlen out = zlen toptr /\
    forall q, 0 <= q -> if q <? ol then is_argmin parents fromptr n q (at_ out q) else at_ out q = at_ toptr q.
Proof. apply reduce_argmin_spec. Qed.
Theorem reduce_argmax_bool_64_safe toptr fromptr parents n ol :
  red_pre toptr fromptr parents n ol -> reduce_argmax toptr fromptr parents n ol <> KOob.
Proof. apply reduce_argmax_safe. Qed.
Theorem reduce_argmax_bool_64_spec toptr fromptr parents n ol :
  red_pre toptr fromptr parents n ol ->
  exists out, reduce_argmax toptr fromptr parents n ol = KOk out /\ zlen out = zlen toptr /\
    forall q, 0 <= q -> if q <? ol then is_argmax parents fromptr n q (at_ out q) else at_ out q = at_ toptr q.
Proof. apply reduce_argmax_spec. Qed.
Example reduce_argmax_bool_64_example :
  reduce_argmax [9; 9; 9] [0; 1; 1; 0] [0; 0; 0; 2] 4 3 = KOk [1; -1; 3].
Proof. vm_compute. reflexivity. Qed.

Theorem reduce_sum_int32_bool_64_safe toptr fromptr parents n ol :
  red_pre toptr fromptr parents n ol -> reduce_countnonzero toptr fromptr parents n ol <> KOob.
Proof. apply reduce_countnonzero_safe. Qed.
Theorem reduce_sum_int32_bool_64_spec toptr fromptr parents n ol :
  red_pre toptr fromptr parents n ol ->
  exists out, reduce_countnonzero toptr fromptr parents n ol = KOk out /\ zlen out = zlen toptr /\
    forall q, 0 <= q ->
      at_ out q = if q <? ol then red_upto i64 0 (fun _ cur x => cur + (if x =? 0 then 0 else 1)) parents fromptr (Z.to_nat n) q
                  else at_ toptr q.
Proof. apply reduce_countnonzero_spec. Qed.
Theorem reduce_sum_int64_bool_64_safe toptr fromptr parents n ol :
  red_pre toptr fromptr parents n ol -> reduce_countnonzero toptr fromptr parents n ol <> KOob.
Proof. apply reduce_countnonzero_safe. Qed.
Theorem reduce_sum_int64_bool_64_spec toptr fromptr parents n ol :
  red_pre toptr fromptr parents n ol ->
  exists out, reduce_countnonzero toptr fromptr parents n ol = KOk out /\ zlen out = zlen toptr /\
    forall q, 0 <= q ->
      at_ out q = if q <? ol then red_upto i64 0 (fun _ cur x => cur + (if x =? 0 then 0 else 1)) parents fromptr (Z.to_nat n) q
                  else at_ toptr q.
Proof. apply reduce_countnonzero_spec. Qed.
Example reduce_sum_int64_bool_64_example :
  reduce_countnonzero [9; 9; 9] [0; 1; 1; 1] [0; 0; 0; 2] 4 3 = KOk [2; 0; 1].
Proof. vm_compute. reflexivity. Qed.

(* awkward_IndexedArray_getitem_nextcarry_outindex_mask: the same loop as awkward_IndexedArray_getitem_nextcarry_outindex *)
Theorem IndexedArray_getitem_nextcarry_outindex_mask_spec tocarry toindex fromindex lenindex lencontent :
  0 <= lenindex -> lenindex <= zlen fromindex -> lenindex <= zlen toindex ->
  cnt_upto nonneg fromindex lenindex <= zlen tocarry ->
  (forall i, 0 <= i < lenindex -> at_ fromindex i < lencontent) ->
  exists tc ti,
    IndexedArray_getitem_nextcarry_outindex TIdeal tocarry toindex fromindex lenindex lencontent = KOk (tc, ti) /\
    zlen tc = zlen tocarry /\ zlen ti = zlen toindex /\
    (forall q, 0 <= q -> at_ ti q = if q <? lenindex
                                    then (if at_ fromindex q <? 0 then -1 else cnt_upto nonneg fromindex q)
                                    else at_ toindex q) /\
    (forall q, 0 <= q < lenindex -> 0 <= at_ fromindex q -> at_ tc (cnt_upto nonneg fromindex q) = at_ fromindex q) /\
    (forall c, cnt_upto nonneg fromindex lenindex <= c -> at_ tc c = at_ tocarry c).
Proof. apply IndexedArray_getitem_nextcarry_outindex_spec. Qed.
