# Content node classes (see nodes.py for Index / Identities / buffer helpers).
import json
import operator

import numpy

from pyshim import core
from pyshim.nodes import *  # noqa
from pyshim.nodes import (
    span_view, _Index, _Identities, _as_index, _check_identities, _span_bytes, _safe_dtname, FILENAME_SUFFIX,
)
from pyshim.core import (
    hx, unhx, unhx_str, e_int, e_optint, e_bool, e_str, e_optstr, e_strs, e_typestrs, e_ints,
    d_int, d_bool, d_str, d_strs, dbl,
)


def _span_extent(arr):
    low = 0
    high = 0
    for n, s in zip(arr.shape, arr.strides):
        ext = (n - 1) * s
        if ext < 0:
            low += ext
        else:
            high += ext
    return low, high + arr.itemsize - low


def tosx(obj, skel=False):
    return obj._sx(skel)


class kernel_lib(object):
    cpu = 0
    cuda = 1


# ------------------------------------------------------------------ result decoding
def fromsx(t):
    h = t[0]
    if h == "none":
        return None
    if h == "scalar":
        return _scalar(t)
    if h == "record":
        return Record._wrap(fromsx(t[2]), int(t[1]))
    return _NODE_READERS[h](t)


def _scalar(t):
    dtname, fmt, data = t[1], unhx_str(t[2]), unhx(t[3])
    dt = dtype_from(dtname, fmt, len(data))
    v = numpy.frombuffer(data, dtype=dt)[0]
    if dt.kind in "Mm":
        return v
    return v.item()


def d_content(t):
    return fromsx(t)


def d_array(t):
    return fromsx(t)


def d_index(t):
    return rd_index(t)


def d_json(t):
    return json.loads(unhx_str(t))


# ------------------------------------------------------------------ Content base
class Content(object):
    _identities = None
    _params = None

    def _init_base(self, identities, parameters):
        self._identities = _check_identities(identities)
        self._params = dict2parameters(parameters)

    # -- forwarding
    def _call(self, method, *args, **kw):
        skel = kw.get("skel", False)
        with core.request_scope():
            body = "call " + method + " " + self._sx(skel)
            if args:
                body += " " + " ".join(args)
            return core.request(body)

    def _callc(self, method, *args):
        with core.request_scope():
            body = "call " + method + " " + self._sx(False)
            if args:
                body += " " + " ".join(args)
            return fromsx(core.request(body))

    def _PI(self, skel):
        ids = self._identities
        return sx_params(self._params) + " " + ("-" if ids is None else ids._sx(skel))

    # -- parameters
    @property
    def parameters(self):
        return parameters2dict(self._params)

    @parameters.setter
    def parameters(self, value):
        self._params = dict2parameters(value)

    def setparameter(self, key, value):
        if not isinstance(key, str):
            raise TypeError("key must be a string")
        self._params[key] = json.dumps(value)

    def withparameter(self, key, value):
        out = self._shallow_copy()
        out._params = dict(self._params)
        out._params[key] = json.dumps(value)
        return out

    def parameter(self, key):
        if not isinstance(key, str):
            raise TypeError("key must be a string")
        return json.loads(self._params.get(key, "null"))

    def purelist_parameter(self, key):
        return json.loads(d_str(self._call("purelist_parameter", e_str(key), skel=True)))

    def _shallow_copy(self):
        out = type(self).__new__(type(self))
        out.__dict__.update(self.__dict__)
        out._params = dict(self._params)
        return out

    # -- identities
    @property
    def identities(self):
        return self._identities

    @identities.setter
    def identities(self, value):
        self.setidentities(value)

    def setidentities(self, *args):
        if len(args) == 0:
            with core.request_scope():
                new = fromsx(core.request("call setidentities " + self._sx(False)))
        elif len(args) == 1:
            ids = _check_identities(args[0])
            with core.request_scope():
                new = fromsx(core.request("call setidentities_to " + self._sx(False) + " " + ("-" if ids is None else ids._sx())))
        else:
            raise TypeError("setidentities takes at most one argument")
        self._adopt_identities(new)
        if len(args) == 1 and args[0] is not None and self._identities is not None:
            mine, given = self._identities, args[0]
            if (type(mine) is type(given) and mine._ref == given._ref and mine._fieldloc == given._fieldloc
                    and mine._array.shape == given._array.shape and (mine._array == given._array).all()):
                self._identities = given  # C++ keeps the very object it was given (shared buffer)

    def _children(self):
        return []

    def _adopt_identities(self, other):
        self._identities = other._identities
        mine, theirs = self._children(), other._children()
        for a, b in zip(mine, theirs):
            a._adopt_identities(b)

    @property
    def identity(self):
        out = self._call("identity")
        return tuple(int(x) if not x.startswith("x") else unhx_str(x) for x in out)

    # -- description
    def __repr__(self):
        return d_str(self._call("tostring"))

    def type(self, typestrs):
        from pyshim import typesforms

        return typesforms.rd_type(self._call("type", e_typestrs(typestrs), skel=True))

    @property
    def form(self):
        from pyshim import typesforms

        return typesforms.form_from_json(d_str(self._call("form", skel=True)))

    kernels = "cpu"
    ptr_lib = "cpu"

    @property
    def caches(self):
        out = []
        self._caches(out)
        return out

    def _caches(self, out):
        for c in self._children():
            c._caches(out)

    @property
    def nbytes(self):
        largest = {}
        self._nbytes_part(largest)
        return sum(largest.values())

    def _nbytes_part(self, largest):
        for x in self._buffers():
            a = x._array
            base = a
            while isinstance(getattr(base, "base", None), numpy.ndarray):
                base = base.base
            key = base.ctypes.data if isinstance(base, numpy.ndarray) else id(base)
            end = (a.ctypes.data - key) + a.nbytes if isinstance(base, numpy.ndarray) else a.nbytes
            largest[key] = max(largest.get(key, 0), end)
        if self._identities is not None:
            a = self._identities._array
            largest[a.ctypes.data] = max(largest.get(a.ctypes.data, 0), a.nbytes)
        for c in self._children():
            c._nbytes_part(largest)

    def _buffers(self):
        return []

    def tojson(self, *args, **kwargs):
        names1 = ["pretty", "maxdecimals", "nan_string", "infinity_string", "minus_infinity_string",
                  "complex_real_string", "complex_imag_string"]
        names2 = ["destination", "pretty", "maxdecimals", "buffersize", "nan_string", "infinity_string",
                  "minus_infinity_string", "complex_real_string", "complex_imag_string"]
        tofile = ("destination" in kwargs) or (len(args) > 0 and isinstance(args[0], str))
        names = names2 if tofile else names1
        if len(args) > len(names):
            raise TypeError("tojson(): too many arguments")
        opts = dict(zip(names, args))
        for k, v in kwargs.items():
            if k not in names or k in opts:
                raise TypeError("tojson(): incompatible function arguments (%s)" % k)
            opts[k] = v
        maxdecimals = opts.get("maxdecimals", None)
        if maxdecimals is None:
            md = "-1"
        else:
            try:
                md = str(operator.index(maxdecimals))
            except TypeError:
                raise ValueError("maxdecimals must be None or an integer" + FILENAME_SUFFIX)
        out = d_str(self._call(
            "tojson", e_bool(opts.get("pretty", False)), md,
            e_optstr(opts.get("nan_string")), e_optstr(opts.get("infinity_string")),
            e_optstr(opts.get("minus_infinity_string")), e_optstr(opts.get("complex_real_string")),
            e_optstr(opts.get("complex_imag_string"))))
        if tofile:
            destination = opts["destination"]
            try:
                f = open(destination, "wb")
            except (IOError, OSError):
                raise ValueError('file "' + destination + '" could not be opened for writing' + FILENAME_SUFFIX)
            with f:
                f.write(out.encode("utf-8", "surrogateescape"))
            return None
        return out

    def deep_copy(self, copyarrays=True, copyindexes=True, copyidentities=True):
        return self._callc("deep_copy", e_bool(copyarrays), e_bool(copyindexes), e_bool(copyidentities))

    # -- structure (skeleton calls: only the tree shape matters)
    @property
    def numfields(self):
        return d_int(self._call("numfields", skel=True))

    def fieldindex(self, key):
        return d_int(self._call("fieldindex", e_str(key), skel=True))

    def key(self, fieldindex):
        return d_str(self._call("key", e_int(fieldindex), skel=True))

    def haskey(self, key):
        return d_bool(self._call("haskey", e_str(key), skel=True))

    def keys(self):
        return d_strs(self._call("keys", skel=True))

    @property
    def purelist_isregular(self):
        return d_bool(self._call("purelist_isregular", skel=True))

    @property
    def purelist_depth(self):
        return d_int(self._call("purelist_depth", skel=True))

    @property
    def branch_depth(self):
        t = self._call("branch_depth", skel=True)
        return (d_bool(t[0]), int(t[1]))

    @property
    def minmax_depth(self):
        t = self._call("minmax_depth", skel=True)
        return (int(t[0]), int(t[1]))

    def axis_wrap_if_negative(self, axis):
        return d_int(self._call("axis_wrap_if_negative", e_int(axis), skel=True))

    # -- element access
    def __iter__(self):
        return Iterator(self)

    def __getitem__(self, where):
        from pyshim import slicing

        return slicing.getitem(self, where)

    def getitem_nothing(self):
        return self._callc("getitem_nothing")

    def getitem_at_nowrap(self, at):
        return self._callc("getitem_at_nowrap", e_int(at))

    def getitem_range_nowrap(self, start, stop):
        return self._callc("getitem_range_nowrap", e_int(start), e_int(stop))

    @property
    def _persistent_shared_ptr(self):
        return _PersistentSharedPtr(self)

    # -- operations
    def validityerror(self):
        out = d_str(self._call("validityerror"))
        return None if out == "" else out

    def fillna(self, value):
        return self._callc("fillna", _content_arg(value)._sx(False))

    def num(self, axis=1):
        return self._callc("num", e_int(axis))

    def flatten(self, axis=1):
        return self._callc("flatten", e_int(axis))

    def offsets_and_flatten(self, axis=1):
        t = self._call("offsets_and_flatten", e_int(axis))
        return (rd_index(t[0]), fromsx(t[1]))

    def rpad(self, length, axis):
        return self._callc("rpad", e_int(length), e_int(axis))

    def rpad_and_clip(self, length, axis):
        return self._callc("rpad_and_clip", e_int(length), e_int(axis))

    def mergeable(self, other, mergebool=False):
        return d_bool(self._call("mergeable", _content_arg(other)._sx(False), e_bool(mergebool)))

    def merge(self, other):
        return self._callc("merge", _content_arg(other)._sx(False))

    def merge_as_union(self, other):
        return self._callc("merge_as_union", _content_arg(other)._sx(False))

    def mergemany(self, others):
        return self._callc("mergemany", "(" + " ".join(_content_arg(x)._sx(False) for x in others) + ")")

    def _reduce(self, name, axis, mask, keepdims, initial="-"):
        return self._callc("reduce", hx(name), e_int(axis), e_bool(mask), e_bool(keepdims), initial)

    def count(self, axis=-1, mask=False, keepdims=False):
        return self._reduce("count", axis, mask, keepdims)

    def count_nonzero(self, axis=-1, mask=False, keepdims=False):
        return self._reduce("count_nonzero", axis, mask, keepdims)

    def sum(self, axis=-1, mask=False, keepdims=False):
        return self._reduce("sum", axis, mask, keepdims)

    def prod(self, axis=-1, mask=False, keepdims=False):
        return self._reduce("prod", axis, mask, keepdims)

    def any(self, axis=-1, mask=False, keepdims=False):
        return self._reduce("any", axis, mask, keepdims)

    def all(self, axis=-1, mask=False, keepdims=False):
        return self._reduce("all", axis, mask, keepdims)

    @staticmethod
    def _initial(initial):
        if initial is None:
            return "-"
        f = float(initial)
        if f > 0:
            u = int(initial)
            if not (0 <= u < 2 ** 64):
                raise RuntimeError("Unable to cast Python instance to C++ type (uint64_t)")
        else:
            u = 0
        try:
            i = operator.index(initial)
        except TypeError:
            raise RuntimeError("Unable to cast Python instance to C++ type (int64_t)")
        if not (-2 ** 63 <= i < 2 ** 63):
            raise RuntimeError("Unable to cast Python instance to C++ type (int64_t)")
        return "(" + dbl(f) + " " + str(u) + " " + str(i) + ")"

    def min(self, axis=-1, mask=True, keepdims=False, initial=None):
        return self._reduce("min", axis, mask, keepdims, self._initial(initial))

    def max(self, axis=-1, mask=True, keepdims=False, initial=None):
        return self._reduce("max", axis, mask, keepdims, self._initial(initial))

    def argmin(self, axis=-1, mask=True, keepdims=False):
        return self._reduce("argmin", axis, mask, keepdims)

    def argmax(self, axis=-1, mask=True, keepdims=False):
        return self._reduce("argmax", axis, mask, keepdims)

    def localindex(self, axis=1):
        return self._callc("localindex", e_int(axis))

    def combinations(self, n, replacement=False, keys=None, parameters=None, axis=1):
        k = "-" if keys is None else e_strs(list(keys))
        return self._callc("combinations", e_int(n), e_bool(replacement), k,
                           sx_params(dict2parameters(parameters)), e_int(axis))

    def sort(self, axis, ascending, stable):
        return self._callc("sort", e_int(axis), e_bool(ascending), e_bool(stable))

    def argsort(self, axis, ascending, stable):
        return self._callc("argsort", e_int(axis), e_bool(ascending), e_bool(stable))

    def numbers_to_type(self, name):
        return self._callc("numbers_to_type", e_str(name))

    def is_unique(self):
        return d_bool(self._call("is_unique"))

    def unique(self):
        return self._callc("unique")

    def copy_to(self, ptr_lib):
        return self._callc("copy_to", e_str(ptr_lib))

    def carry(self, carry, allow_lazy):
        return self._callc("carry", _as_index(Index64, carry, "carry")._sx(), e_bool(allow_lazy))

    def simplify(self):
        return self._callc("simplify")


def _stoi(s):
    """std::stoi: optional whitespace, optional sign, decimal digits; trailing text ignored; ValueError if none"""
    import re

    m = re.match(r"\s*([+-]?\d+)", s)
    if m is None:
        raise ValueError("stoi")
    v = int(m.group(1))
    if not (-2 ** 31 <= v < 2 ** 31):
        raise IndexError("stoi: out of range")
    return v


def _content_arg(obj):
    if isinstance(obj, Record):
        raise ValueError("content argument must be a Content subtype (excluding Record)" + FILENAME_SUFFIX)
    if isinstance(obj, Content):
        return obj
    raise ValueError("content argument must be a Content subtype" + FILENAME_SUFFIX)


def _ctor_content(obj):
    # unbox_content() hands a shallow copy to the C++ constructor: later parameter/identity changes of
    # the Python object passed in are not seen by the new parent (buffers and children stay shared)
    return _content_arg(obj)._shallow_copy()


class _PersistentSharedPtr(object):
    def __init__(self, layout):
        self._layout = layout

    def layout(self):
        return self._layout

    def ptr(self):
        return id(self._layout)


class Iterator(object):
    """ak::Iterator works on its own shallow copy of the content; items are fetched at construction
    (one request) -- by value this is indistinguishable from fetching them one by one."""

    def __init__(self, content):
        c = _content_arg(content)
        self._at = 0
        if isinstance(c, RecordArray):
            self._records = c._shallow_copy()
            self._items = None
            self._n = len(c)
            self._rows = None
            if len(c._contents) != 0 and self._n != 0:
                # one request for all rows of all fields: Record.field(j) of the yielded records is answered
                # from it (same values as contents[j].getitem_at_nowrap(at), without re-sending the array per row)
                with core.request_scope():
                    t = core.request("call iter_fields " + c._sx(False))
                    self._rows = [[fromsx(x) for x in col] for col in t]
        else:
            self._records = None
            with core.request_scope():
                t = core.request("call iter_all " + c._sx(False))
                self._items = [fromsx(x) for x in t]
            self._n = len(self._items)

    def __iter__(self):
        return self

    def __next__(self):
        if self._at >= self._n:
            raise StopIteration
        i = self._at
        self._at += 1
        if self._records is not None:
            rec = Record._wrap(self._records, i)
            if self._rows is not None:
                rec._fields_cache = [col[i] for col in self._rows]
            return rec
        return self._items[i]

    next = __next__

    def __repr__(self):
        return "<Iterator at=\"%d\"/>" % (self._at,)


# ------------------------------------------------------------------ NumpyArray
class NumpyArray(Content):
    def __init__(self, array, identities=None, parameters=None):
        mod = type(array).__module__ or ""
        if mod.startswith("cupy."):
            raise RuntimeError("pyshim: CuPy arrays are not supported")
        if isinstance(array, NumpyArray):
            arr = array._array
        elif isinstance(array, _Index):
            arr = array._array
        else:
            arr = numpy.asarray(array)
        if arr.ndim == 0:
            raise ValueError("NumpyArray must not be scalar; try array.reshape(1)" + FILENAME_SUFFIX)
        self._owner = arr  # keeps the caller's array alive exactly like the pybind11 class does
        self._array = arr.view(numpy.ndarray)
        self._format = None
        self._init_base(identities, parameters)

    @classmethod
    def _wrap(cls, array, fmt, identities, params):
        self = cls.__new__(cls)
        self._array = array
        self._format = fmt
        self._identities = identities
        self._params = params
        return self

    def __buffer__(self, flags):
        return memoryview(self._array)

    def __len__(self):
        return self._array.shape[0]

    shape = property(lambda self: list(self._array.shape))
    strides = property(lambda self: list(self._array.strides))
    itemsize = property(lambda self: self._array.itemsize)
    ndim = property(lambda self: self._array.ndim)
    isscalar = property(lambda self: self._array.ndim == 0)
    isempty = property(lambda self: self._array.size == 0)
    ptr = property(lambda self: self._array.ctypes.data)

    @property
    def format(self):
        if self._format is None:
            self._format = format_of(self._array.dtype)
        return self._format

    @property
    def iscontiguous(self):
        x = self._array.itemsize
        for n, s in zip(reversed(self._array.shape), reversed(self._array.strides)):
            if x != s:
                return False
            x *= n
        return True

    def contiguous(self):
        return self._callc("contiguous")

    def toRegularArray(self):
        return self._callc("toRegularArray")

    @property
    def view_int64(self):
        if self._array.itemsize != 8:
            raise ValueError("NumpyArray itemsize != 8" + FILENAME_SUFFIX)
        return NumpyArray._wrap(self._array.view(numpy.int64), None, self._identities, dict(self._params))

    @staticmethod
    def from_cupy(array, identities=None, parameters=None):
        raise RuntimeError("pyshim: CuPy is not available")

    @staticmethod
    def from_jax(array, identities=None, parameters=None):
        return NumpyArray(numpy.asarray(array), identities, parameters)

    def to_cupy(self):
        raise ValueError("NumpyArray resides in main memory, must be converted to NumPy or copied to the GPU with ak.copy_to(array, \"cuda\") first" + FILENAME_SUFFIX)

    def to_jax(self):
        import jax.numpy

        return jax.numpy.asarray(self._array)

    def _buffers(self):
        return [self]

    def _sx(self, skel=False):
        a = self._array
        if skel:
            shape = (0,) + tuple(a.shape[1:])
            off, data = 0, b""
        else:
            shape = a.shape
            m = core.memo()
            if m is not None and a.size != 0:
                low, nbytes = _span_extent(a)
                key, first = m.key_for(a, a.ctypes.data + low, nbytes)
                off = -low
                if first:
                    import ctypes as _ct

                    data = _ct.string_at(a.ctypes.data + low, nbytes)
                    tail = " " + key
                else:
                    data = b""
                    tail = " " + key
                return "(np %s %s %s (%s) (%s) %d x%s %d%s)" % (
                    self._PI(skel), _safe_dtname(a.dtype), hx(self.format),
                    " ".join(str(x) for x in shape), " ".join(str(x) for x in a.strides), off, data.hex(), a.itemsize, tail)
            off, data = _span_bytes(a)
        return "(np %s %s %s (%s) (%s) %d x%s %d)" % (
            self._PI(skel), _safe_dtname(a.dtype), hx(self.format),
            " ".join(str(x) for x in shape), " ".join(str(x) for x in a.strides), off, data.hex(), a.itemsize)


def _rd_np(t):
    params = rd_params(t[1])
    ids = rd_ident(t[2])
    dtname, fmt = t[3], unhx_str(t[4])
    shape = [int(x) for x in t[5]]
    strides = [int(x) for x in t[6]]
    off = int(t[7])
    itemsize = int(t[9])
    dt = dtype_from(dtname, fmt, itemsize)
    if isinstance(t[8], list):  # (ref KEY spanoffset nbytes): a view of an input buffer
        u8 = span_view(t[8][1], int(t[8][2]), int(t[8][3]))
        arr = numpy.ndarray(shape=tuple(shape), dtype=dt, buffer=u8, offset=off, strides=tuple(strides))
    else:
        arr = ndarray_from(dt, shape, strides, off, bytes.fromhex(t[8][1:]))
    return NumpyArray._wrap(arr, fmt, ids, params)


# ------------------------------------------------------------------ EmptyArray
class EmptyArray(Content):
    def __init__(self, identities=None, parameters=None):
        self._init_base(identities, parameters)

    def __len__(self):
        return 0

    def toNumpyArray(self):
        return self._callc("toNumpyArray")

    def _sx(self, skel=False):
        return "(empty " + self._PI(skel) + ")"


def _rd_empty(t):
    self = EmptyArray.__new__(EmptyArray)
    self._params = rd_params(t[1])
    self._identities = rd_ident(t[2])
    return self


# ------------------------------------------------------------------ lists
class _ListMethods(object):
    def compact_offsets64(self, start_at_zero=True):
        return rd_index(self._call("compact_offsets64", e_bool(start_at_zero)))

    def broadcast_tooffsets64(self, offsets):
        return self._callc("broadcast_tooffsets64", _as_index(Index64, offsets, "offsets")._sx())

    def toListOffsetArray64(self, start_at_zero):
        return self._callc("toListOffsetArray64", e_bool(start_at_zero))

    def toRegularArray(self):
        return self._callc("toRegularArray")


class _ListOffsetArray(_ListMethods, Content):
    _ix = None

    def __init__(self, offsets, content, identities=None, parameters=None):
        self._offsets = _as_index(self._ix, offsets, "offsets")
        self._content = _ctor_content(content)
        self._init_base(identities, parameters)
        if len(self._offsets) == 0:
            raise ValueError("ListOffsetArray offsets length must be at least 1" + FILENAME_SUFFIX)

    offsets = property(lambda self: self._offsets)
    content = property(lambda self: self._content)

    @property
    def starts(self):
        return self._ix._wrap(self._offsets._array[:-1])

    @property
    def stops(self):
        return self._ix._wrap(self._offsets._array[1:])

    def __len__(self):
        return len(self._offsets) - 1

    def _children(self):
        return [self._content]

    def _buffers(self):
        return [self._offsets]

    def _sx(self, skel=False):
        return "(lo %s %s %s)" % (self._PI(skel), self._offsets._sx_empty(1) if skel else self._offsets._sx(), self._content._sx(skel))


class _ListArray(_ListMethods, Content):
    _ix = None

    def __init__(self, starts, stops, content, identities=None, parameters=None):
        self._starts = _as_index(self._ix, starts, "starts")
        self._stops = _as_index(self._ix, stops, "stops")
        self._content = _ctor_content(content)
        self._init_base(identities, parameters)
        if len(self._stops) < len(self._starts):
            raise ValueError("ListArray stops must not be shorter than its starts" + FILENAME_SUFFIX)

    starts = property(lambda self: self._starts)
    stops = property(lambda self: self._stops)
    content = property(lambda self: self._content)

    def __len__(self):
        return len(self._starts)

    def _children(self):
        return [self._content]

    def _buffers(self):
        return [self._starts, self._stops]

    def _sx(self, skel=False):
        if skel:
            return "(la %s %s %s %s)" % (self._PI(skel), self._starts._sx_empty(), self._stops._sx_empty(), self._content._sx(skel))
        return "(la %s %s %s %s)" % (self._PI(skel), self._starts._sx(), self._stops._sx(), self._content._sx(skel))


class RegularArray(_ListMethods, Content):
    def __init__(self, content, size, zeros_length=0, identities=None, parameters=None):
        self._content = _ctor_content(content)
        self._size = operator.index(size)
        zeros_length = operator.index(zeros_length)
        self._init_base(identities, parameters)
        if self._size < 0:
            raise ValueError("RegularArray size must be non-negative" + FILENAME_SUFFIX)
        self._length = (len(self._content) // self._size) if self._size != 0 else zeros_length
        if self._length < 0:
            raise ValueError("RegularArray zeros_length must be non-negative (only checked if size == 0)" + FILENAME_SUFFIX)

    size = property(lambda self: self._size)
    content = property(lambda self: self._content)

    def __len__(self):
        return self._length

    def _children(self):
        return [self._content]

    def _sx(self, skel=False):
        return "(reg %s %d %d %s)" % (self._PI(skel), self._size, 0 if skel else self._length, self._content._sx(skel))


# ------------------------------------------------------------------ option types / indexed
class _OptionMethods(object):
    def project(self, mask=None):
        if mask is None:
            return self._callc("project")
        return self._callc("project", _as_index(Index8, mask, "mask")._sx())

    def bytemask(self):
        return rd_index(self._call("bytemask"))


class _IndexedArray(_OptionMethods, Content):
    _ix = None
    _head = "ix"
    isoption = False

    def __init__(self, index, content, identities=None, parameters=None):
        self._index = _as_index(self._ix, index, "index")
        self._content = _ctor_content(content)
        self._init_base(identities, parameters)

    index = property(lambda self: self._index)
    content = property(lambda self: self._content)

    def __len__(self):
        return len(self._index)

    def _children(self):
        return [self._content]

    def _buffers(self):
        return [self._index]

    def _sx(self, skel=False):
        return "(%s %s %s %s)" % (self._head, self._PI(skel), self._index._sx_empty() if skel else self._index._sx(), self._content._sx(skel))


class ByteMaskedArray(_OptionMethods, Content):
    def __init__(self, mask, content, valid_when, identities=None, parameters=None):
        self._mask = _as_index(Index8, mask, "mask")
        self._content = _ctor_content(content)
        self._valid_when = bool(valid_when)
        self._init_base(identities, parameters)
        if len(self._content) < len(self._mask):
            raise ValueError("ByteMaskedArray content must not be shorter than its mask" + FILENAME_SUFFIX)

    mask = property(lambda self: self._mask)
    content = property(lambda self: self._content)
    valid_when = property(lambda self: self._valid_when)

    def __len__(self):
        return len(self._mask)

    def toIndexedOptionArray64(self):
        return self._callc("toIndexedOptionArray64")

    def _children(self):
        return [self._content]

    def _buffers(self):
        return [self._mask]

    def _sx(self, skel=False):
        return "(bym %s %s %d %s)" % (self._PI(skel), self._mask._sx_empty() if skel else self._mask._sx(), int(self._valid_when), self._content._sx(skel))


class BitMaskedArray(_OptionMethods, Content):
    def __init__(self, mask, content, valid_when, length, lsb_order, identities=None, parameters=None):
        self._mask = _as_index(IndexU8, mask, "mask")
        self._content = _ctor_content(content)
        self._valid_when = bool(valid_when)
        self._length = operator.index(length)
        self._lsb_order = bool(lsb_order)
        self._init_base(identities, parameters)
        bitlength = self._length // 8 + (1 if self._length % 8 != 0 else 0)
        if len(self._mask) < bitlength:
            raise ValueError("BitMaskedArray mask must not be shorter than its ceil(length / 8.0)" + FILENAME_SUFFIX)
        if len(self._content) < self._length:
            raise ValueError("BitMaskedArray content must not be shorter than its length" + FILENAME_SUFFIX)

    mask = property(lambda self: self._mask)
    content = property(lambda self: self._content)
    valid_when = property(lambda self: self._valid_when)
    lsb_order = property(lambda self: self._lsb_order)

    def __len__(self):
        return self._length

    def toIndexedOptionArray64(self):
        return self._callc("toIndexedOptionArray64")

    def toByteMaskedArray(self):
        return self._callc("toByteMaskedArray")

    def _children(self):
        return [self._content]

    def _buffers(self):
        return [self._mask]

    def _sx(self, skel=False):
        return "(bim %s %s %d %d %d %s)" % (
            self._PI(skel), self._mask._sx_empty() if skel else self._mask._sx(), int(self._valid_when),
            0 if skel else self._length, int(self._lsb_order), self._content._sx(skel))


class UnmaskedArray(_OptionMethods, Content):
    def __init__(self, content, identities=None, parameters=None):
        self._content = _ctor_content(content)
        self._init_base(identities, parameters)

    content = property(lambda self: self._content)

    def __len__(self):
        return len(self._content)

    def toIndexedOptionArray64(self):
        return self._callc("toIndexedOptionArray64")

    def toByteMaskedArray(self):
        return self._callc("toByteMaskedArray")

    def _children(self):
        return [self._content]

    def _sx(self, skel=False):
        return "(unm %s %s)" % (self._PI(skel), self._content._sx(skel))


# ------------------------------------------------------------------ UnionArray
class _UnionArray(Content):
    _ix = None
    _w = None

    def __init__(self, tags, index, contents, identities=None, parameters=None):
        self._tags = _as_index(Index8, tags, "tags")
        self._index = _as_index(self._ix, index, "index")
        self._contents = [_ctor_content(x) for x in contents]
        self._init_base(identities, parameters)
        if len(self._contents) == 0:
            raise ValueError("UnionArray must have at least one content")
        if len(self._index) < len(self._tags):
            raise ValueError("UnionArray index must not be shorter than its tags" + FILENAME_SUFFIX)

    tags = property(lambda self: self._tags)
    index = property(lambda self: self._index)
    contents = property(lambda self: list(self._contents))
    numcontents = property(lambda self: len(self._contents))

    def content(self, i):
        i = operator.index(i)
        if not (0 <= i < len(self._contents)):
            raise ValueError("index " + str(i) + " out of range for UnionArray with " + str(len(self._contents)) + " contents" + FILENAME_SUFFIX)
        return self._contents[i]

    def __len__(self):
        return len(self._tags)

    def project(self, index):
        return self._callc("project", e_int(index))

    def simplify(self, merge=True, mergebool=False):
        return self._callc("simplify", e_bool(merge), e_bool(mergebool))

    @classmethod
    def sparse_index(cls, len):
        return rd_index(core.request("static sparse_index %s %s" % (cls._w, e_int(len))))

    @classmethod
    def regular_index(cls, tags):
        return rd_index(core.request("static regular_index %s %s" % (cls._w, _as_index(Index8, tags, "tags")._sx())))

    @classmethod
    def nested_tags_index(cls, offsets, counts):
        t = core.request("static nested_tags_index %s %s (%s)" % (
            cls._w, _as_index(Index64, offsets, "offsets")._sx(),
            " ".join(_as_index(Index64, c, "counts")._sx() for c in counts)))
        return (rd_index(t[0]), rd_index(t[1]))

    def _children(self):
        return list(self._contents)

    def _buffers(self):
        return [self._tags, self._index]

    def _sx(self, skel=False):
        if skel:
            head = "(un %s %s %s" % (self._PI(skel), self._tags._sx_empty(), self._index._sx_empty())
        else:
            head = "(un %s %s %s" % (self._PI(skel), self._tags._sx(), self._index._sx())
        return head + "".join(" " + c._sx(skel) for c in self._contents) + ")"


# ------------------------------------------------------------------ RecordArray / Record
class RecordArray(Content):
    def __init__(self, contents, *args, **kwargs):
        if isinstance(contents, dict):
            names = ["length", "identities", "parameters"]
            keys = list(contents.keys())
            cs = list(contents.values())
        else:
            names = ["keys", "length", "identities", "parameters"]
            keys = None
            cs = list(contents)
        if len(args) > len(names):
            raise TypeError("RecordArray(): too many arguments")
        opts = dict(zip(names, args))
        for k, v in kwargs.items():
            if k not in names or k in opts:
                raise TypeError("RecordArray(): incompatible constructor arguments (%s)" % k)
            opts[k] = v
        if "keys" in opts and opts["keys"] is not None:
            keys = list(opts["keys"])
        self._contents = [_ctor_content(x) for x in cs]
        if keys is not None:
            for k in keys:
                if not isinstance(k, str):
                    raise TypeError("RecordArray keys must be strings")
            if len(keys) != len(self._contents):
                raise ValueError("if provided, 'keys' must have the same length as 'types'" + FILENAME_SUFFIX)
        self._recordlookup = keys
        length = opts.get("length")
        if length is None:
            if len(self._contents) == 0:
                self._length = 0
            else:
                self._length = min(len(x) for x in self._contents)
        else:
            self._length = operator.index(length)
        self._init_base(opts.get("identities"), opts.get("parameters"))

    @classmethod
    def _wrap(cls, contents, recordlookup, length, identities, params):
        self = cls.__new__(cls)
        self._contents = contents
        self._recordlookup = recordlookup
        self._length = length
        self._identities = identities
        self._params = params
        return self

    @property
    def recordlookup(self):
        return None if self._recordlookup is None else list(self._recordlookup)

    istuple = property(lambda self: self._recordlookup is None)
    contents = property(lambda self: list(self._contents))

    def __len__(self):
        return self._length

    def setitem_field(self, where, what):
        what = _content_arg(what)
        if where is None:
            w = "-"
        elif isinstance(where, str):
            w = e_str(where)
        else:
            try:
                w = str(operator.index(where))
            except TypeError:
                raise ValueError("where must be None, int, or str" + FILENAME_SUFFIX)
        return self._callc("setitem_field", w, what._sx(False))

    def field(self, where):
        if isinstance(where, str):
            return self._contents[self.fieldindex(where)]
        i = operator.index(where)
        if i >= len(self._contents):
            raise ValueError("fieldindex %d for record with only %d fields" % (i, len(self._contents)) + FILENAME_SUFFIX)
        return self._contents[i]

    def fields(self):
        return list(self._contents)

    def fielditems(self):
        return list(zip(self.keys(), self._contents))

    # RecordArray's own field bookkeeping is util::fieldindex/key/haskey/keys over (recordlookup, numfields):
    # plain list look-ups, done natively (they are hit once per record when iterating)
    @property
    def numfields(self):
        return len(self._contents)

    def keys(self):
        if self._recordlookup is not None:
            return list(self._recordlookup)
        return [str(j) for j in range(len(self._contents))]

    def fieldindex(self, key):
        if not isinstance(key, str):
            raise TypeError("fieldindex(): key must be a string")
        n = len(self._contents)
        if self._recordlookup is not None:
            for i, k in enumerate(self._recordlookup):
                if k == key:
                    return i
        try:
            out = _stoi(key)
        except ValueError:
            raise ValueError("key " + json.dumps(key) + " does not exist (not in record)" + FILENAME_SUFFIX)
        if not (0 <= out < n):
            raise ValueError("key interpreted as fieldindex " + key + " for records with only " + str(n) + " fields" + FILENAME_SUFFIX)
        return out

    def key(self, fieldindex):
        i = operator.index(fieldindex)
        n = len(self._contents)
        if i >= n:
            raise ValueError("fieldindex " + str(i) + " for records with only " + str(n) + " fields" + FILENAME_SUFFIX)
        if self._recordlookup is not None:
            return self._recordlookup[i]
        return str(i)

    def haskey(self, key):
        try:
            self.fieldindex(key)
        except ValueError:
            return False
        return True

    def purelist_parameter(self, key):
        # Content::purelist_parameter -> RecordForm::purelist_parameter == parameter(key)
        return self.parameter(key)

    @property
    def astuple(self):
        return RecordArray._wrap(list(self._contents), None, self._length, self._identities, dict(self._params))

    def _children(self):
        return list(self._contents)

    def _sx(self, skel=False):
        keys = "tuple" if self._recordlookup is None else e_strs(self._recordlookup)
        return "(rec %s %d %s%s)" % (self._PI(skel), 0 if skel else self._length, keys,
                                     "".join(" " + c._sx(skel) for c in self._contents))


def _rd_rec(t):
    params = rd_params(t[1])
    ids = rd_ident(t[2])
    length = int(t[3])
    lookup = None if t[4] == "tuple" else [unhx_str(k) for k in t[4]]
    return RecordArray._wrap([fromsx(x) for x in t[5:]], lookup, length, ids, params)


class Record(object):
    def __init__(self, array, at):
        if not isinstance(array, RecordArray):
            raise TypeError("Record: array must be a RecordArray")
        at = operator.index(at)
        if not (0 <= at < len(array)):
            raise ValueError("at=%d is out of range for recordarray" % at + FILENAME_SUFFIX)
        self._array = array
        self._at = at

    @classmethod
    def _wrap(cls, array, at):
        self = cls.__new__(cls)
        self._array = array
        self._at = at
        return self

    array = property(lambda self: self._array)
    at = property(lambda self: self._at)
    istuple = property(lambda self: self._array.istuple)
    kernels = "cpu"

    def _sx(self, skel=False):
        if skel:
            # a Record needs one row to exist; keep the one row it refers to
            return "(record 0 %s)" % self._trimmed()._sx(False)
        return "(record %d %s)" % (self._at, self._array._sx(False))

    def _trimmed(self):
        return self._array.getitem_range_nowrap(self._at, self._at + 1)

    def _call(self, method, *args, **kw):
        with core.request_scope():
            body = "call " + method + " " + self._sx(False)
            if args:
                body += " " + " ".join(args)
            return core.request(body)

    def _callc(self, method, *args):
        return fromsx(self._call(method, *args))

    def __repr__(self):
        return d_str(self._call("tostring"))

    @property
    def identities(self):
        ids = self._array._identities
        if ids is None:
            return None
        return ids[self._at:self._at + 1]

    @property
    def identity(self):
        out = self._call("identity")
        return tuple(int(x) if not x.startswith("x") else unhx_str(x) for x in out)

    def __getitem__(self, where):
        from pyshim import slicing

        return slicing.getitem(self, where)

    def type(self, typestrs):
        from pyshim import typesforms

        return typesforms.rd_type(self._array._call("type", e_typestrs(typestrs), skel=True))

    @property
    def parameters(self):
        return self._array.parameters

    @parameters.setter
    def parameters(self, value):
        self._array.parameters = value

    def setparameter(self, key, value):
        self._array.setparameter(key, value)

    def parameter(self, key):
        return self._array.parameter(key)

    def purelist_parameter(self, key):
        return self._array.purelist_parameter(key)

    @property
    def caches(self):
        return self._array.caches

    tojson = Content.tojson

    numfields = property(lambda self: self._array.numfields)

    def fieldindex(self, key):
        return self._array.fieldindex(key)

    def key(self, fieldindex):
        return self._array.key(fieldindex)

    def haskey(self, key):
        return self._array.haskey(key)

    def keys(self):
        return self._array.keys()

    _fields_cache = None  # filled by Iterator (values of Record::field(j), fetched in bulk)

    def field(self, where):
        if self._fields_cache is not None:
            j = self._array.fieldindex(where) if isinstance(where, str) else operator.index(where)
            if 0 <= j < len(self._fields_cache):
                return self._fields_cache[j]
        return self._array.field(where).getitem_at_nowrap(self._at)

    def fields(self):
        if self._fields_cache is not None:
            return list(self._fields_cache)
        return [c.getitem_at_nowrap(self._at) for c in self._array._contents]

    def fielditems(self):
        return list(zip(self._array.keys(), self.fields()))

    @property
    def astuple(self):
        return Record._wrap(self._array.astuple, self._at)

    def deep_copy(self, copyarrays=True, copyindexes=True, copyidentities=True):
        return self._callc("deep_copy", e_bool(copyarrays), e_bool(copyindexes), e_bool(copyidentities))

    def simplify(self):
        return self._callc("simplify")

    def copy_to(self, ptr_lib):
        return self._callc("copy_to", e_str(ptr_lib))


# ------------------------------------------------------------------ concrete classes
def _mk(name, base, **attrs):
    return type(name, (base,), attrs)


ListOffsetArray32 = _mk("ListOffsetArray32", _ListOffsetArray, _ix=Index32)
ListOffsetArrayU32 = _mk("ListOffsetArrayU32", _ListOffsetArray, _ix=IndexU32)
ListOffsetArray64 = _mk("ListOffsetArray64", _ListOffsetArray, _ix=Index64)
ListArray32 = _mk("ListArray32", _ListArray, _ix=Index32)
ListArrayU32 = _mk("ListArrayU32", _ListArray, _ix=IndexU32)
ListArray64 = _mk("ListArray64", _ListArray, _ix=Index64)
IndexedArray32 = _mk("IndexedArray32", _IndexedArray, _ix=Index32)
IndexedArrayU32 = _mk("IndexedArrayU32", _IndexedArray, _ix=IndexU32)
IndexedArray64 = _mk("IndexedArray64", _IndexedArray, _ix=Index64)
IndexedOptionArray32 = _mk("IndexedOptionArray32", _IndexedArray, _ix=Index32, _head="ixo", isoption=True)
IndexedOptionArray64 = _mk("IndexedOptionArray64", _IndexedArray, _ix=Index64, _head="ixo", isoption=True)
UnionArray8_32 = _mk("UnionArray8_32", _UnionArray, _ix=Index32, _w="i32")
UnionArray8_U32 = _mk("UnionArray8_U32", _UnionArray, _ix=IndexU32, _w="u32")
UnionArray8_64 = _mk("UnionArray8_64", _UnionArray, _ix=Index64, _w="i64")

_LO = {"i32": ListOffsetArray32, "u32": ListOffsetArrayU32, "i64": ListOffsetArray64}
_LA = {"i32": ListArray32, "u32": ListArrayU32, "i64": ListArray64}
_IX = {"i32": IndexedArray32, "u32": IndexedArrayU32, "i64": IndexedArray64}
_IXO = {"i32": IndexedOptionArray32, "i64": IndexedOptionArray64}
_UN = {"i32": UnionArray8_32, "u32": UnionArray8_U32, "i64": UnionArray8_64}


def _new(cls, t, **fields):
    self = cls.__new__(cls)
    self._params = rd_params(t[1])
    self._identities = rd_ident(t[2])
    self.__dict__.update(fields)
    return self


def _rd_lo(t):
    return _new(_LO[t[3][0]], t, _offsets=rd_index(t[3]), _content=fromsx(t[4]))


def _rd_la(t):
    return _new(_LA[t[3][0]], t, _starts=rd_index(t[3]), _stops=rd_index(t[4]), _content=fromsx(t[5]))


def _rd_reg(t):
    return _new(RegularArray, t, _size=int(t[3]), _length=int(t[4]), _content=fromsx(t[5]))


def _rd_ix(t):
    return _new(_IX[t[3][0]], t, _index=rd_index(t[3]), _content=fromsx(t[4]))


def _rd_ixo(t):
    return _new(_IXO[t[3][0]], t, _index=rd_index(t[3]), _content=fromsx(t[4]))


def _rd_bym(t):
    return _new(ByteMaskedArray, t, _mask=rd_index(t[3]), _valid_when=(t[4] != "0"), _content=fromsx(t[5]))


def _rd_bim(t):
    return _new(BitMaskedArray, t, _mask=rd_index(t[3]), _valid_when=(t[4] != "0"), _length=int(t[5]),
                _lsb_order=(t[6] != "0"), _content=fromsx(t[7]))


def _rd_unm(t):
    return _new(UnmaskedArray, t, _content=fromsx(t[3]))


def _rd_un(t):
    return _new(_UN[t[4][0]], t, _tags=rd_index(t[3]), _index=rd_index(t[4]), _contents=[fromsx(x) for x in t[5:]])


def _rd_virt(t):
    from pyshim import virtual

    return virtual.rd_virt(t)


_NODE_READERS = {
    "np": _rd_np, "empty": _rd_empty, "lo": _rd_lo, "la": _rd_la, "reg": _rd_reg, "ix": _rd_ix, "ixo": _rd_ixo,
    "bym": _rd_bym, "bim": _rd_bim, "unm": _rd_unm, "un": _rd_un, "rec": _rd_rec, "virt": _rd_virt,
}
