// forthdrv: runs AwkwardForth sessions of /repo's libawkward (ForthMachine32/64) through the public API.
// One session per line on stdin:
//   (id forth64|forth32 (src B...) (inputs (NAME (B...))...) (settings STACK RECURSION OUT_INITIAL OUT_RESIZE_TENTHS)
//       (segs SEG...))
//   SEG ::= run | begin | reset | step | (steps K) | resume | (call NAME) | (stepall K) | (finish K)
// Output:
//   (id ok (stack V...) (vars (NAME V)...) (inpos (NAME P|none)...) (outs (NAME DTYPE (V...))|(NAME none) ...)
//          (err E) (ready R) (done D) (rets E...) (decomp B...))
//   (id err compile)              the constructor threw std::invalid_argument (compile-time fault)
//   (id err value|runtime|other)  an API call threw
#include "drv_common.h"
#include "awkward/forth/ForthMachine.h"
#include "awkward/forth/ForthInputBuffer.h"
#include "awkward/forth/ForthOutputBuffer.h"

using namespace drv;

struct CompileError {};
struct CompileOther {};

static std::string dump_out(const std::shared_ptr<ForthOutputBuffer>& ob) {
  ContentPtr c = ob->toNumpyArray();
  const NumpyArray* r = dynamic_cast<const NumpyArray*>(c.get());
  util::dtype d = r->dtype();
  int64_t n = ob->len();
  const void* p = ob->ptr().get();
  std::string o = dtype_name(d) + " (";
  for (int64_t i = 0; i < n; i++) {
    if (i) o += " ";
    if (d == util::dtype::boolean) o += std::to_string((unsigned)((const uint8_t*)p)[i]);   // raw byte
    else o += load(d, p, i);
  }
  return o + ")";
}

// current_error_ has no getter; maybe_throw (public) throws iff current_error_ is not in the ignore set.
template <typename M>
static int current_error(const M& vm) {
  for (int e = 1; e < (int)util::ForthError::size; e++) {
    std::set<util::ForthError> ignore;
    for (int k = 0; k < (int)util::ForthError::size; k++) if (k != e) ignore.insert((util::ForthError)k);
    try { vm.maybe_throw(util::ForthError::none, ignore); }
    catch (std::invalid_argument&) { return e; }
  }
  return 0;
}

template <typename M>
static std::string session(const Sx& cs) {
  const Sx& s0 = cs[2];
  const Sx& inp = cs[3];
  const Sx& set = cs[4];
  const Sx& segs = cs[5];
  if (s0.head() != "src" || inp.head() != "inputs" || set.head() != "settings" || segs.head() != "segs")
    throw std::logic_error("expected (src ...) (inputs ...) (settings ...) (segs ...)");
  std::string src;
  for (size_t i = 1; i < s0.size(); i++) src.push_back((char)(unsigned char)to_i64(s0[i]));
  int64_t stack = to_i64(set[1]), rec = to_i64(set[2]), oinit = to_i64(set[3]);
  double resize = (double)to_i64(set[4]) / 10.0;
  if (stack < 0 || rec < 0 || oinit < 1 || resize <= 1.0) throw std::logic_error("settings out of the supported range");

  std::unique_ptr<M> vm;
  try {
    vm.reset(new M(src, stack, rec, oinit, resize));
  } catch (std::invalid_argument&) {
    throw CompileError();
  } catch (std::exception&) {       // e.g. std::out_of_range from std::stoul on a huge literal
    throw CompileOther();
  }

  std::vector<std::pair<std::string, std::vector<uint8_t>>> raw;
  for (size_t i = 1; i < inp.size(); i++) {
    std::vector<uint8_t> b;
    for (auto& e : inp[i][1].l) b.push_back((uint8_t)to_i64(e));
    raw.push_back(std::make_pair(inp[i][0].a, b));
  }
  auto fresh_inputs = [&]() {
    std::map<std::string, std::shared_ptr<ForthInputBuffer>> m;
    for (auto& pr : raw) {
      size_t n = pr.second.size();
      std::shared_ptr<void> ptr = kernel::malloc<void>(kernel::lib::cpu, (int64_t)(n > 0 ? n : 1));
      if (n) std::memcpy(ptr.get(), pr.second.data(), n);
      m[pr.first] = std::make_shared<ForthInputBuffer>(ptr, 0, (int64_t)n);
    }
    return m;
  };

  std::string rets = "(rets";
  auto ret = [&](util::ForthError e) { rets += " " + std::to_string((int)e); };
  for (size_t i = 1; i < segs.size(); i++) {
    const Sx& s = segs[i];
    if (s.is("run")) ret(vm->run(fresh_inputs()));
    else if (s.is("begin")) vm->begin(fresh_inputs());
    else if (s.is("reset")) vm->reset();
    else if (s.is("step")) ret(vm->step());
    else if (s.is("resume")) ret(vm->resume());
    else if (s.head() == "steps") {
      int64_t k = to_i64(s[1]);
      for (int64_t j = 0; j < k; j++) ret(vm->step());
    }
    else if (s.head() == "stepall" || s.head() == "finish") {
      // step / resume while the machine is ready, not done and has no error, at most K times
      int64_t k = to_i64(s[1]);
      int last = current_error(*vm);
      for (int64_t j = 0; j < k; j++) {
        if (!vm->is_ready() || vm->is_done() || last != 0) break;
        util::ForthError e = (s.head() == "stepall") ? vm->step() : vm->resume();
        ret(e);
        last = (int)e;
      }
    }
    else if (s.head() == "call") ret(vm->call(s[1].a));
    else throw std::logic_error("unknown segment " + s.str());
  }
  rets += ")";

  std::string o = "(stack";
  for (auto v : vm->stack()) o += " " + std::to_string((int64_t)v);
  o += ") (vars";
  {
    std::vector<std::string> names = vm->variable_index();
    for (size_t i = 0; i < names.size(); i++)
      o += " (" + names[i] + " " + std::to_string((int64_t)vm->variable_at((int64_t)i)) + ")";
  }
  o += ") (inpos";
  for (auto& pr : raw) {
    std::string p;
    try { p = std::to_string(vm->input_position_at(pr.first)); }
    catch (std::invalid_argument&) { p = "none"; }   // not declared by the program, or no inputs attached
    o += " (" + pr.first + " " + p + ")";
  }
  o += ") (outs";
  for (auto& name : vm->output_index()) {
    std::string d;
    try { d = dump_out(vm->output_at(name)); }
    catch (std::invalid_argument&) { d = "none"; }   // no outputs attached (before begin / after reset)
    o += " (" + name + " " + d + ")";
  }
  o += ") (err " + std::to_string(current_error(*vm)) + ")";
  o += std::string(" (ready ") + (vm->is_ready() ? "1" : "0") + ")";
  o += std::string(" (done ") + (vm->is_done() ? "1" : "0") + ") ";
  o += rets;
  o += " (decomp";
  for (unsigned char ch : vm->decompiled()) o += " " + std::to_string((int)ch);
  o += ")";
  return o;
}

int main() {
  std::ios::sync_with_stdio(false);
  std::string line;
  while (std::getline(std::cin, line)) {
    if (line.empty() || line[0] == '#') continue;
    std::string id = "?";
    try {
      Sx cs = parse_line(line);
      id = cs[0].a;
      std::string out;
      if (cs[1].is("forth64")) out = session<ForthMachine64>(cs);
      else if (cs[1].is("forth32")) out = session<ForthMachine32>(cs);
      else throw std::logic_error("unknown machine " + cs[1].str());
      std::cout << "(" << id << " ok " << out << ")" << std::endl;
    } catch (CompileError&) {
      std::cout << "(" << id << " err compile)" << std::endl;
    } catch (CompileOther&) {
      std::cout << "(" << id << " err compile-other)" << std::endl;
    } catch (std::invalid_argument&) {
      std::cout << "(" << id << " err value)" << std::endl;
    } catch (std::logic_error& e) {
      std::cout << "(" << id << " bad (" << e.what() << "))" << std::endl;
    } catch (std::runtime_error&) {
      std::cout << "(" << id << " err runtime)" << std::endl;
    } catch (std::exception&) {
      std::cout << "(" << id << " err other)" << std::endl;
    }
  }
  return 0;
}
