(* C19 — fault freedom, part 3: the data instructions keep the shape of the attached data and do not touch the
   control part; the only undefined behaviour they can run into is F_count (repeat count * item size overflow). *)
From Coq Require Import ZArith Bool List Lia ZifyBool.
From AwkForth Require Import Forth Proofs_C19 Proofs_C19_SafeDefs Proofs_C19_Safe.
Import ListNotations.
Open Scope Z_scope.

Section Data.
  Variables (p : prog) (e : env).

  Definition ds (m m1 : machine) : Prop :=
    m_frames m1 = m_frames m /\ m_dos m1 = m_dos m /\ m_targets m1 = m_targets m /\ m_ready m1 = m_ready m /\
    (shape_ok p e m = true -> shape_ok p e m1 = true).

  Definition gres (m : machine) (r : step_result) : Prop :=
    match r with Ok (_, m1) => ds m m1 | Fault k => k = F_count | OutOfFuel => True end.

  Lemma ds_refl : forall m, ds m m.
  Proof. intro m. repeat split; auto. Qed.
  Lemma ds_trans : forall a b c, ds a b -> ds b c -> ds a c.
  Proof. unfold ds. intros a b c [A1 [A2 [A3 [A4 A5]]]] [B1 [B2 [B3 [B4 B5]]]]. repeat split; try congruence. auto. Qed.
  Lemma ds_stack : forall m s, ds m (set_stack m s).
  Proof. intros. repeat split; auto. Qed.
  Lemma ds_err : forall m z, ds m (set_err m z).
  Proof. intros. repeat split; auto. Qed.
  Lemma ds_stack_err : forall m s z, ds m (set_err (set_stack m s) z).
  Proof. intros. repeat split; auto. Qed.

  Lemma gres_trans : forall m m1 r, ds m m1 -> gres m1 r -> gres m r.
  Proof. intros m m1 r H G. destruct r as [[fl m2]|k|]; cbn in *; auto. eapply ds_trans; eassumption. Qed.

  Lemma shape_unpack : forall m, shape_ok p e m = true ->
    zlen (m_vars m) = zlen (p_vars p) /\ zlen (m_inpos m) = zlen (p_ins p) /\ zlen (e_inputs e) = zlen (p_ins p) /\
    zlen (m_outs m) = zlen (p_outs p) /\ forallb (fun x => 0 <=? x) (m_inpos m) = true.
  Proof. intros m H. unfold shape_ok in H. bsplit. repeat split; try assumption; lia. Qed.

  Lemma shape_pack : forall m,
    zlen (m_vars m) = zlen (p_vars p) -> zlen (m_inpos m) = zlen (p_ins p) -> zlen (e_inputs e) = zlen (p_ins p) ->
    zlen (m_outs m) = zlen (p_outs p) -> forallb (fun x => 0 <=? x) (m_inpos m) = true -> shape_ok p e m = true.
  Proof. intros m H1 H2 H3 H4 H5. unfold shape_ok. rewrite H5. lia. Qed.

  Lemma push_ds : forall m v, gres m (push p m v).
  Proof. intros. unfold push. destruct (can_push p m); cbn; [apply ds_stack|apply ds_err]. Qed.

  Lemma push_items_ds : forall vs m, gres m (push_items p m vs).
  Proof.
    induction vs as [|v vs IH]; intro m; cbn [push_items]; [apply ds_refl|].
    destruct (can_push p m); [|apply ds_err]. eapply gres_trans; [apply ds_stack|apply IH].
  Qed.

  Lemma firstn1_skipn : forall (data : list Z) pos, 0 <= pos -> pos + 1 <= zlen data ->
    exists b, firstn 1 (skipn (Z.to_nat pos) data) = [b].
  Proof.
    intros data pos H0 H1. destruct (skipn (Z.to_nat pos) data) as [|b r] eqn:E.
    - assert (Hl : length (skipn (Z.to_nat pos) data) = 0%nat) by (rewrite E; reflexivity).
      rewrite skipn_length in Hl. unfold zlen in H1. lia.
    - exists b. reflexivity.
  Qed.

  Lemma input_read_ds : forall m inp nb, shape_ok p e m = true -> in_range inp (n_ins p) = true ->
    match input_read e m inp nb with
    | Ok (r, m1) => ds m m1 /\ (nb = 1 -> forall bs, r = Some bs -> exists b, bs = [b])
    | Fault k => k = F_count
    | OutOfFuel => False
    end.
  Proof.
    intros m inp nb Hs Hi. destruct (shape_unpack _ Hs) as [S1 [S2 [S3 [S4 S5]]]].
    unfold in_range, n_ins in Hi. unfold input_read.
    destruct (znth_some _ (e_inputs e) inp) as [data Hd]; [lia|].
    destruct (znth_some _ (m_inpos m) inp) as [pos Hp]; [lia|]. rewrite Hd, Hp.
    assert (Hpos : 0 <= pos).
    { rewrite forallb_forall in S5. specialize (S5 pos (znth_In _ _ _ _ Hp)). lia. }
    destruct ((nb <? 0) || (2 ^ 63 <=? nb)) eqn:Eb; [reflexivity|].
    destruct (zlen data <? pos + nb) eqn:El.
    - split; [apply ds_refl|]. intros _ bs Hbs. discriminate.
    - destruct (zupd_some _ (m_inpos m) inp (pos + nb)) as [ip Hip]; [lia|]. rewrite Hip. split.
      + repeat split; auto. intros _. apply shape_pack; cbn [m_vars m_inpos m_outs set_inpos]; try assumption.
        * rewrite (zupd_len _ _ _ _ _ Hip). assumption.
        * eapply zupd_forallb; [eassumption|assumption|]. apply orb_false_iff in Eb. lia.
      + intros Hn bs Hbs. subst nb. inv Hbs. change (Z.to_nat 1) with 1%nat. apply firstn1_skipn; lia.
  Qed.

  Lemma buf_apply_nofault : forall b op k, buf_apply b op <> BFault k.
  Proof.
    intros b op k. destruct op; cbn [buf_apply]; try discriminate.
    - destruct b; [discriminate|]. destruct (0 <? n); discriminate.
    - destruct ((n <? 0) || (zlen b - n <? 0)); discriminate.
  Qed.

  Lemma out_apply_ds : forall m o op, shape_ok p e m = true -> in_range o (n_outs p) = true -> gres m (out_apply m o op).
  Proof.
    intros m o op Hs Hi. destruct (shape_unpack _ Hs) as [S1 [S2 [S3 [S4 S5]]]].
    unfold in_range, n_outs in Hi. unfold out_apply.
    destruct (znth_some _ (m_outs m) o) as [b Hb]; [lia|]. rewrite Hb.
    destruct (buf_apply b op) as [b'|err|k] eqn:Ea.
    - destruct (zupd_some _ (m_outs m) o b') as [os Hos]; [lia|]. rewrite Hos. cbn.
      repeat split; auto. intros _. apply shape_pack; cbn [m_vars m_inpos m_outs set_outs]; try assumption.
      rewrite (zupd_len _ _ _ _ _ Hos). assumption.
    - cbn. apply ds_err.
    - exfalso. eapply buf_apply_nofault; eassumption.
  Qed.

  Lemma out_write_ds : forall m o vs, shape_ok p e m = true -> in_range o (n_outs p) = true ->
    match out_write m o vs with Ok m1 => ds m m1 | _ => False end.
  Proof.
    intros m o vs Hs Hi. unfold out_write. pose proof (out_apply_ds m o (BWrite vs) Hs Hi) as G.
    unfold out_apply in *. destruct (znth (m_outs m) o) as [b|]; [|cbn in G; discriminate].
    cbn [buf_apply] in *. destruct (zupd (m_outs m) o (vs ++ b)); cbn in *; [assumption|discriminate].
  Qed.

  Lemma out_dtype_some : forall o, in_range o (n_outs p) = true -> exists d, out_dtype p o = Some d.
  Proof.
    intros o Hi. unfold in_range, n_outs in Hi. unfold out_dtype.
    destruct (znth_some _ (p_outs p) o) as [[nm d] Hd]; [lia|]. rewrite Hd. eexists; reflexivity.
  Qed.

  Definition direct_ok (direct : option Z) : Prop := forall o, direct = Some o -> in_range o (n_outs p) = true.

  Lemma deliver_ds : forall m direct sv ov, shape_ok p e m = true -> direct_ok direct -> gres m (deliver p m direct sv ov).
  Proof.
    intros m direct sv ov Hs Hd. unfold deliver. destruct direct as [o|]; [|apply push_ds].
    specialize (Hd o eq_refl). destruct (out_dtype_some o Hd) as [d Hdt]. rewrite Hdt.
    pose proof (out_write_ds m o [cast_out d ov] Hs Hd) as G.
    destruct (out_write m o [cast_out d ov]); [assumption|destruct G|destruct G].
  Qed.

  Lemma ds_shape : forall m m1, ds m m1 -> shape_ok p e m = true -> shape_ok p e m1 = true.
  Proof. intros m m1 H. apply H. Qed.

  Lemma read_varint_ds : forall fuel m inp sh acc, shape_ok p e m = true -> in_range inp (n_ins p) = true ->
    match read_varint fuel e m inp sh acc with Ok (_, m1) => ds m m1 | Fault k => k = F_count | OutOfFuel => True end.
  Proof.
    induction fuel as [|f IH]; intros m inp sh acc Hs Hi; cbn [read_varint]; [exact I|].
    pose proof (input_read_ds m inp 1 Hs Hi) as G.
    destruct (input_read e m inp 1) as [[[bs|] m2]|k|]; [| |assumption|destruct G].
    - destruct G as [G1 G2]. destruct (G2 eq_refl bs eq_refl) as [b ->].
      destruct (sh =? 63); [assumption|]. destruct (Z.land b 128 =? 0); [assumption|].
      specialize (IH m2 inp (sh + 7) (Z.lor acc (Z.shiftl (Z.land b 127) sh)) (ds_shape _ _ G1 Hs) Hi).
      destruct (read_varint f e m2 inp _ _) as [[r m3]|k|]; auto. eapply ds_trans; eassumption.
    - destruct G as [G1 _]. assumption.
  Qed.

  Lemma read_varints_ds : forall zz n m inp direct, shape_ok p e m = true -> in_range inp (n_ins p) = true ->
    direct_ok direct -> gres m (read_varints zz p e n m inp direct).
  Proof.
    induction n as [|n IH]; intros m inp direct Hs Hi Hd; cbn [read_varints]; [apply ds_refl|].
    pose proof (read_varint_ds 11 m inp 0 0 Hs Hi) as G.
    destruct (read_varint 11 e m inp 0 0) as [[[r|er] m1]|k|]; [| |assumption|exact I].
    - pose proof (deliver_ds m1 direct (if zz then wrap (p_w p) (zigzag r) else wrap (p_w p) r)
                             (if zz then wrap (p_w p) (zigzag r) else r) (ds_shape _ _ G Hs) Hd) as G2.
      destruct (deliver p m1 direct _ _) as [[[|] m2]|k|]; cbn in G2; cbn.
      + eapply gres_trans; [eapply ds_trans; eassumption|]. apply IH; try assumption.
        eapply ds_shape; [eassumption|]. eapply ds_shape; eassumption.
      + eapply ds_trans; eassumption.
      + assumption.
      + exact I.
    - cbn. eapply ds_trans; [eassumption|apply ds_err].
  Qed.

  Lemma read_nbits_ds : forall fuel m inp direct flip bw mask wl wr rem data,
    shape_ok p e m = true -> in_range inp (n_ins p) = true -> direct_ok direct ->
    gres m (read_nbits fuel p e m inp direct flip bw mask wl wr rem data).
  Proof.
    induction fuel as [|f IH]; intros m inp direct flip bw mask wl wr rem data Hs Hi Hd; cbn [read_nbits]; [exact I|].
    destruct (rem =? 0); [apply ds_refl|]. destruct (8 <=? wr); [apply IH; assumption|].
    destruct (bw <=? wl - wr).
    - pose proof (deliver_ds m direct (wrap (p_w p) (Z.land (Z.shiftr data wr) mask))
                             (wrap (p_w p) (Z.land (Z.shiftr data wr) mask)) Hs Hd) as G2.
      destruct (deliver p m direct _ _) as [[[|] m2]|k|]; cbn in G2; cbn; try assumption.
      eapply gres_trans; [eassumption|]. apply IH; try assumption. eapply ds_shape; eassumption.
    - pose proof (input_read_ds m inp 1 Hs Hi) as G.
      destruct (input_read e m inp 1) as [[[bs|] m2]|k|]; [| |assumption|destruct G].
      + destruct G as [G1 G2]. destruct (G2 eq_refl bs eq_refl) as [b ->].
        eapply gres_trans; [eassumption|]. apply IH; try assumption. eapply ds_shape; eassumption.
      + destruct G as [G1 _]. cbn. eapply ds_trans; [eassumption|apply ds_err].
  Qed.
End Data.
