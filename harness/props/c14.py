"""C14: ArrayBuilder reproduces the appended values; snapshots are immutable; ill-nested calls raise.

implementation side : impl/drv/builddrv.cpp   (awkward::ArrayBuilder of the rebuilt libawkward, growth forced)
model / spec side   : c14/coq/{Builder,Spec}.v extracted -> c14/ocaml/buildrun  (verdict per session)
"""
import fcntl
import os
import subprocess

import common as C
from props import c14lb as LB

THEOREMS = ['builder_roundtrip', 'from_iter_session_full', 'builder_roundtrip_partial', 'from_iter_session',
            'builder_roundtrip_tuples_partial', 'builder_roundtrip_records_partial', 'snapshot_immutable',
            'snapshot_stable_values', 'equal_states_equal_snapshots', 'ill_nested_errors', 'growth_irrelevant',
            'lb_roundtrip', 'lb_type', 'lb_misfit_errors', 'lb_prefix_snapshot']
COQ_DIR = os.path.join(C.VERIF, 'c14', 'coq')
COQ_LOGICAL = '-R %s/coq AwkV -R . AwkBuilder' % C.VERIF
NEEDS_SAN = True
DRIVERS = ('builddrv', 'lbdrv', 'pydrv')
PROPS_FILES = ['Props_C14.v', 'Props_C14lb.v']
RULE = ('sessions = command sequences over {null,bool,int,real,str,bytes,beginlist,endlist,begintuple,index,endtuple,'
        'beginrecord(name|unnamed),field,endrecord,snapshot,clear}; 70% are the from_iter encoding of random nested '
        'values drawn from a random schema (ints/floats mixed, None anywhere, records with missing fields and varying '
        'field order, tuples, nested tuples, deviations from the schema forcing unions, strings/bytestrings) with '
        'snapshots at random positions and a final snapshot; 30% are such sequences mutated (delete / insert / swap / '
        'duplicate a command, bad tuple index, bad numfields, stray end/field/index) ; initial in {1,2,3}, '
        'resize in {1.01,1.1,1.5,2} so that every buffer is reallocated at (almost) every size. non-trivial = the '
        'session has >= 1 snapshot of length >= 1 and >= 1 bracket command; distinct by session text. '
        'Form-driven builder (LayoutBuilder, driver lbdrv, specification LBuilder.lb_run): random Forms over every node '
        'class (NumpyForm of every dtype, EmptyForm, ListOffsetForm i32/u32/i64 also string/bytestring, ListForm, '
        'RegularForm, IndexedForm, IndexedOptionForm i32/i64, ByteMasked/BitMasked/UnmaskedForm, UnionForm, RecordForm '
        'with keys / tuple), depth <= 3; 70% of the sessions are lb_encode of random conforming values (the encoding is '
        're-derived by the extracted lb_encode and must round-trip through lb_run) with snapshots at element boundaries '
        'or anywhere, 30% are such sessions mutated (delete / insert / swap / duplicate / replace by null, bool, int, '
        'real, str, bytes, beginlist, endlist, tag, index: wrong command for the form, unbalanced end_list, wrong tag); '
        'a Form on which a registered known deviation applies is drawn only while that finding is open in '
        'known_findings.json (c14lb.features); verdict per session agree / viol / skip(unspecified)')
ASSUMPTIONS = [
    'theorems: builder_roundtrip / from_iter_session_full are the FULL round trip: every list of well-formed Python values '
    '(Spec.pywf = distinct keys in one dict): None/bool/int/real/string/bytestring, lists, tuples of any arity, records '
    'named or unnamed with any field sets and orders, arbitrarily nested and heterogeneous (all Unknown/Option/Union/'
    'List/Tuple/Record/Bool/Int64/Float64/String builder transitions), for all growth options; the model follows the '
    'repaired RecordBuilder::beginrecord (75cafad: a record named "" no longer merges into an unnamed one); '
    'builder_roundtrip_partial / _tuples_partial / _records_partial are the staged fragments (corollaries); '
    'snapshot_immutable, growth_irrelevant, equal_states_equal_snapshots hold for ALL sessions and builder classes; '
    'ill_nested_errors lists the refusal cases proved (state unchanged)',
    'complex leaves are exercised only through the ak.from_iter stream (real Python layer under pyshim: values of one type each must come back from to_list unchanged), not by the command sessions / the model; datetime / timedelta and append / extend (IndexedBuilder) are not exercised',
    'only integer-valued reals (DESIGN 2.6); *_fast entry points (C-string pointer identity) not exercised',
    'simplify_uniontype / simplify_optiontype applied at snapshot time are not modelled: values are compared exactly, '
    'types modulo the normalisation norm_ty of buildrun.ml (numeric union alternatives collapse, unknown vanishes; '
    'types with alternatives that simplify_uniontype may merge are not compared)',
    'the specification (Spec.unify) is applied to value sessions (also to what follows a clear at a value boundary); for '
    'ill-nested sessions the oracle is the Rocq model (error positions, values, types) plus the implementation against '
    'itself (snapshot dumped when taken = dumped at the end) plus validity of every snapshot (core valid_b)',
    'snapshot_immutable is a theorem about the model with allocation identities (Phys*.v); that each C++ '
    'GrowableBuffer object has a single owner (no two builders share one buffer) is read off the code, and checked on '
    'the implementation only through the re-dump of all snapshots at the end of every session (also under ASan/UBSan)',
    'extern "C" entry points not driven',
    'Form-driven LayoutBuilder (1.4.0 has the single class LayoutBuilder over ForthMachine32; no 32/64-bit variants): '
    'lb_run is a SPECIFICATION (what a Form-driven builder must return), not a model of the Forth program; theorems '
    'lb_roundtrip (all forms of all supported node classes, all conforming values; needs `unambiguous`: below an option '
    'node no element begins with null -- refuted otherwise, LBProofs.ex_ambiguous_refuted), lb_type (every completed '
    'element of ANY session has the type of the form), lb_misfit_errors (a command no element may begin with, after any '
    'conforming values: error or unspecified, never a value), lb_prefix_snapshot (commands up to an element boundary = '
    'the completed elements); not proved: that the fuel (= number of commands) always suffices, and the mid-element '
    'LPartial answer for all sessions (only run + Example)',
    'LayoutBuilder: what the C++ does not check is LUnspec and not compared from that command on: begin_list/end_list on '
    'a NumpyForm leaf (no-ops), a non-tag command where a UnionForm expects its tag (dropped), string commands on uint8 '
    'leaves / empty strings / string vs bytestring, index (categorical), EmptyForm below a node, ListForm (constructor '
    'always raises), RecordForm without fields, RegularForm size <= 0, integers outside int64; leaves other than '
    'bool/int64/float64 have no command and refuse everything; complex() is not driven (16-byte datum into the 8-byte '
    'input buffer: heap overflow, reported); initial < 8 likewise only from the corpus',
    'LayoutBuilder misfits: the specification reports the FIRST offending command; the implementation must raise at that '
    'call, at a later call or at the next snapshot (tag/begin_list/end_list/index call the Forth machine without '
    'looking at its error state) -- what is checked is that no snapshot returns a value after a misfit without an '
    'error having been raised; positions and messages are not compared; after the first error nothing is compared',
    'LayoutBuilder known deviations (registered findings lb-*): sessions on Forms where one applies are classified by the '
    'FIRST applicable signature of c14lb.features (shape of the Form), which can mask a different defect on the same Form; '
    'LayoutBuilder::length() (constant 8) is compared with the snapshot length and reported under lb-length-constant only',
]
TRUSTED_BASE = [
    'Rocq kernel: coqc 8.16.1; no axioms (Print Assumptions parsed on this run)',
    'extraction: ExtrOcamlBasic only, Z/positive/nat inductive; OCaml 4.13.1; readers/printers ocaml/sx.ml, ocaml/rd.ml, '
    'c14/ocaml/buildrun.ml (verdict logic, type normalisation)',
    'C++ driver impl/drv/builddrv.cpp + drv_common.h (layout dumper); impl/drv/lbdrv.cpp (Form construction from text)',
    'c14/ocaml/lbrun.ml (verdict logic of the LayoutBuilder sessions), harness/props/c14lb.py (Form/value generator, '
    'encoder mirror checked against the extracted lb_encode, classification of known deviations by Form shape)',
    'LBuilder.v is a hand-written specification read off src/libawkward/layoutbuilder/*.cpp, tied by differential testing only',
    'generator / mutation / classification in harness/props/c14.py',
    'RapidJSON substitute impl/rapidjson_shim (libawkward is compiled against it; not used by the builders)',
    'Builder.v is a hand-written model of src/libawkward/builder/*.cpp, tied by differential testing only',
]
BLD = os.path.join(C.BUILD, 'c14')
CORPUS = os.path.join(C.VERIF, 'corpus', 'C14')


# ------------------------------------------------------------------ build
def build():
    os.makedirs(BLD, exist_ok=True)
    lock = open(os.path.join(C.BUILD, '.lock-c14'), 'w')
    fcntl.flock(lock, fcntl.LOCK_EX)
    try:
        r = C.sh('cd %s && ([ -f Makefile.coq ] || coq_makefile -f _CoqProject -o Makefile.coq) >/dev/null 2>&1 '
                 '&& timeout 3000 make -f Makefile.coq -j8 2>&1 | tail -30' % COQ_DIR)
        if r.returncode != 0 or 'Error' in r.stdout:
            raise C.BuildError('C14 Rocq build failed:\n' + r.stdout[-4000:])
        r = C.sh('make -s -C %s/c14/ocaml VERIF=%s' % (C.VERIF, C.VERIF))
        if r.returncode != 0 or not os.path.exists(os.path.join(BLD, 'buildrun')):
            raise C.BuildError('buildrun build failed:\n' + r.stdout[-4000:])
        if not os.path.exists(os.path.join(BLD, 'lbrun')):
            raise C.BuildError('lbrun build failed:\n' + r.stdout[-4000:])
    finally:
        fcntl.flock(lock, fcntl.LOCK_UN)
        lock.close()


# ------------------------------------------------------------------ values
NAMES = ['x', 'y', 'z', 'pt', 'id']
RNAMES = [None, None, None, 'P', 'Q']


def gen_schema(rng, depth):
    r = rng.random()
    if depth <= 0 or r < 0.38:
        return (rng.choice(['int', 'int', 'float', 'num', 'num', 'bool', 'str', 'bytes']),)
    r = rng.random()
    if r < 0.42:
        return ('list', gen_schema(rng, depth - 1))
    if r < 0.62:
        return ('tuple', [gen_schema(rng, depth - 1) for _ in range(rng.choice([0, 1, 1, 2, 2, 3]))])
    if r < 0.90:
        ks = rng.sample(NAMES, rng.choice([0, 1, 2, 2, 3]))
        return ('rec', rng.choice(RNAMES), [(k, gen_schema(rng, depth - 1)) for k in ks])
    return ('alt', [gen_schema(rng, depth - 1) for _ in range(2)])


def small_int(rng):
    return rng.choice([0, 1, 2, 3, 5, -1, -7, 12, 100, 255, 2 ** 40, -2 ** 40])


def gen_bytes(rng):
    return [rng.choice([97, 98, 99, 0, 32, 200, 255, 65]) for _ in range(rng.choice([0, 1, 2, 3]))]


def gen_value(rng, s, p):
    """p: dict(none=, dev=, miss=, shuffle=)"""
    if rng.random() < p['none']:
        return None
    if rng.random() < p['dev']:
        return gen_value(rng, gen_schema(rng, 1), dict(p, dev=0.0))
    k = s[0]
    if k == 'int':
        return ('i', small_int(rng))
    if k == 'float':
        return ('f', small_int(rng))
    if k == 'num':
        return (rng.choice(['i', 'f']), small_int(rng))
    if k == 'bool':
        return rng.random() < 0.5
    if k == 'str':
        return ('s', gen_bytes(rng))
    if k == 'bytes':
        return ('b', gen_bytes(rng))
    if k == 'list':
        return ('l', [gen_value(rng, s[1], p) for _ in range(rng.choice([0, 0, 1, 1, 2, 3, 4]))])
    if k == 'tuple':
        return ('t', [gen_value(rng, x, p) for x in s[1]])
    if k == 'rec':
        fs = [(kk, gen_value(rng, x, p)) for kk, x in s[2] if rng.random() >= p['miss']]
        if rng.random() < p['shuffle']:
            rng.shuffle(fs)
        return ('r', s[1], fs)
    if k == 'alt':
        return gen_value(rng, rng.choice(s[1]), p)
    raise ValueError(s)


def encode(v, out):
    if v is None:
        out.append('null')
    elif v is True or v is False:
        out.append('(bool %d)' % (1 if v else 0))
    elif v[0] == 'i':
        out.append('(int %d)' % v[1])
    elif v[0] == 'f':
        out.append('(real %d)' % v[1])
    elif v[0] == 's':
        out.append('(str%s)' % ''.join(' %d' % b for b in v[1]))
    elif v[0] == 'b':
        out.append('(bytes%s)' % ''.join(' %d' % b for b in v[1]))
    elif v[0] == 'l':
        out.append('beginlist')
        for x in v[1]:
            encode(x, out)
        out.append('endlist')
    elif v[0] == 't':
        out.append('(begintuple %d)' % len(v[1]))
        for i, x in enumerate(v[1]):
            out.append('(index %d)' % i)
            encode(x, out)
        out.append('endtuple')
    elif v[0] == 'r':
        out.append('(beginrecord %s)' % (v[1] or 'none'))
        for k, x in v[2]:
            out.append('(field %s)' % k)
            encode(x, out)
        out.append('endrecord')
    else:
        raise ValueError(v)


def val_sx(v):
    if v is None:
        return 'none'
    if v is True:
        return 'true'
    if v is False:
        return 'false'
    if v[0] in 'if':
        return '(%s %d)' % v
    if v[0] in 'sb':
        return '(%s%s)' % (v[0], ''.join(' %d' % b for b in v[1]))
    if v[0] in 'lt':
        return '(%s%s)' % (v[0], ''.join(' ' + val_sx(x) for x in v[1]))
    return '(r %s%s)' % (v[1] or 'none', ''.join(' (%s %s)' % (k, val_sx(x)) for k, x in v[2]))


def has_struct(v):
    return isinstance(v, tuple) and v[0] in 'ltr'


STRAY = ['endlist', 'endtuple', 'endrecord', '(index 0)', '(index 1)', '(index 5)', '(index -1)', '(index -2)',
         '(field x)', '(field q)', 'beginlist', '(begintuple 2)', '(begintuple 0)', '(begintuple -1)',
         '(beginrecord none)', '(beginrecord P)', 'null', '(int 7)', '(real 7)', '(bool 1)', '(str 97)', '(bytes 98)']


def mutate(rng, cmds):
    cmds = list(cmds)
    for _ in range(rng.choice([1, 1, 2, 3])):
        m = rng.random()
        if m < 0.3 and cmds:
            del cmds[rng.randrange(len(cmds))]
        elif m < 0.65:
            cmds.insert(rng.randrange(len(cmds) + 1), rng.choice(STRAY))
        elif m < 0.8 and len(cmds) >= 2:
            i = rng.randrange(len(cmds) - 1)
            cmds[i], cmds[i + 1] = cmds[i + 1], cmds[i]
        elif m < 0.9 and cmds:
            i = rng.randrange(len(cmds))
            cmds.insert(i, cmds[i])
        elif cmds:
            i = rng.randrange(len(cmds))
            if cmds[i].startswith('(index'):
                cmds[i] = '(index %d)' % rng.choice([-3, -2, -1, 4, 9])
            elif cmds[i].startswith('(begintuple'):
                cmds[i] = '(begintuple %d)' % rng.choice([-2, -1, 0, 1, 5])
            else:
                cmds[i] = rng.choice(STRAY)
    return cmds


def sprinkle(rng, cmds, what, n):
    cmds = list(cmds)
    for _ in range(n):
        cmds.insert(rng.randrange(len(cmds) + 1), what)
    return cmds


def gen_session(rng, maxlen):
    target = rng.choice([3, 6, 10, 15, 25, 40, maxlen])
    target = min(target, maxlen)
    schema = gen_schema(rng, rng.choice([1, 2, 2, 3, 3, 4]))
    p = dict(none=rng.choice([0, 0.05, 0.15, 0.3]), dev=rng.choice([0, 0, 0.03, 0.1, 0.25]),
             miss=rng.choice([0, 0.1, 0.3]), shuffle=rng.choice([0, 0.3, 1.0]))
    vals, cmds = [], []
    for _ in range(200):
        v = gen_value(rng, schema, p)
        e = []
        encode(v, e)
        if cmds and len(cmds) + len(e) > target:
            break
        if len(e) > maxlen:
            continue
        vals.append(v)
        cmds += e
        if len(cmds) >= target:
            break
    return schema, vals, cmds


def make_case(cid, opts, cmds, vals, tags, key='vals'):
    args = ['(opts %d %d)' % opts, '(cmds%s)' % ''.join(' ' + c for c in cmds)]
    if vals is not None:
        args.append('(%s%s)' % (key, ''.join(' ' + val_sx(v) for v in vals)))
    nontriv = any(c.startswith('begin') or c.startswith('(begin') for c in cmds) and 'snapshot' in cmds
    return C.Case(cid, 'build', args, [], dict(nontrivial=nontriv, tags=tags))


def corpus_cases():
    out = []
    if os.path.isdir(CORPUS):
        for fn in sorted(os.listdir(CORPUS)):
            if fn.endswith('.case'):
                out += replay_cases(os.path.join(CORPUS, fn), prefix='k_' + fn[:-5] + '_')
            elif fn.endswith('.lbcase'):
                # sessions of the Form-driven builder; lb-<signature>.lbcase holds the minimal sessions of a known
                # deviation and is run once that signature is registered (open) in known_findings.json
                sig = fn[:-7]
                if sig.startswith('lb-') and sig in LB.SIGNATURES and sig not in LB.registered():
                    continue
                out += replay_cases(os.path.join(CORPUS, fn), prefix='k_' + fn[:-7] + '_')
    return out


def replay_cases(path, prefix=''):
    import re
    out = []
    for ln in open(path):
        ln = ln.strip()
        if not ln or ln.startswith('#'):
            continue
        m = re.match(r'^\((\S+) (\S+) (.*)\)$', ln)
        if m:
            out.append(C.Case(prefix + m.group(1), m.group(2), [m.group(3)], [], dict(nontrivial=True, tags=dict(stream='corpus'))))
    return out


def cases(rng, tier):
    n = 1500 if tier == 'quick' else 30000
    maxlen = 60 if tier == 'quick' else 400
    out = corpus_cases()
    for i in range(n):
        opts = (rng.choice([1, 1, 1, 2, 3]), rng.choice([110, 110, 101, 150, 200]))
        schema, vals, cmds = gen_session(rng, maxlen if rng.random() < 0.3 else min(maxlen, 60))
        tags = dict(opts='%d/%d' % opts)
        if rng.random() < 0.7:
            stream = 'values'
            if rng.random() < 0.12 and len(vals) >= 2:
                # clear at a value boundary: the specification applies to what follows
                cut = rng.randrange(1, len(vals))
                pre = []
                for v in vals[:cut]:
                    encode(v, pre)
                post = []
                for v in vals[cut:]:
                    encode(v, post)
                pre = sprinkle(rng, pre, 'snapshot', rng.choice([0, 1, 2]))
                post = sprinkle(rng, post, 'snapshot', rng.choice([0, 1, 2]))
                full = pre + ['snapshot', 'clear', 'snapshot'] + post + ['snapshot']
                out.append(make_case('s%d' % i, opts, full, vals[cut:], dict(tags, stream='values+clear'), key='valsafterclear'))
                continue
            full = sprinkle(rng, cmds, 'snapshot', rng.choice([0, 1, 2, 4])) + ['snapshot']
            out.append(make_case('s%d' % i, opts, full, vals, dict(tags, stream=stream)))
        else:
            m = mutate(rng, cmds)
            if rng.random() < 0.15:
                m = sprinkle(rng, m, 'clear', 1)
            full = sprinkle(rng, m, 'snapshot', rng.choice([1, 2, 4])) + ['snapshot']
            out.append(make_case('m%d' % i, opts, full, None, dict(tags, stream='mutated')))
    # the Form-driven builder (LayoutBuilder): random forms x (encoded conforming values | mutated sessions)
    out += LB.gen_sessions(rng, 5000 if tier == 'quick' else 40000, 40 if tier == 'quick' else 200, LB.registered())
    return out


# ------------------------------------------------------------------ run
def run_buildrun(lines):
    exe = os.path.join(BLD, 'buildrun')
    p = subprocess.run('ulimit -s unlimited 2>/dev/null; exec ' + exe, shell=True, input='\n'.join(lines) + '\n',
                       stdout=subprocess.PIPE, stderr=subprocess.PIPE, text=True, timeout=3600)
    out = {}
    for ol in p.stdout.splitlines():
        m = C.LINE_ID.match(ol)
        if m:
            out[m.group(1)] = ol[len(m.group(1)) + 2:-1]
    if p.returncode != 0:
        raise RuntimeError('buildrun failed rc=%s: %s' % (p.returncode, p.stderr[-2000:]))
    return out


def evaluate(cases, san=False):
    """-> list of (case, impl_text, verdict_text, stderr_tail)"""
    lines = [c.line() for c in cases]
    res, errs = C.run_driver(lines, drv='builddrv', san=san)
    mlines = []
    for c in cases:
        r = res.get(c.id, 'crash missing')
        if r.startswith('ok '):
            isx = '(impl ok %s)' % r[3:]
        elif r.startswith('err '):
            isx = '(impl %s)' % r
        elif r.startswith('timeout'):
            isx = '(impl timeout)'
        elif r.startswith('bad'):
            isx = None
        else:
            isx = '(impl crash)'
        if isx is not None:
            mlines.append('(%s %s %s)' % (c.id, c.body(), isx))
    verd = run_buildrun(mlines) if mlines else {}
    out = []
    for c in cases:
        r = res.get(c.id, 'crash missing')
        v = verd.get(c.id) or ('bad (driver: %s)' % r[:200])
        out.append((c, r, v, errs.get(c.id, '')))
    return out


def kind_of(v):
    return v.split(' ', 1)[0]


def signature(c, impl, v):
    return None


def parse_cmds(line):
    """split '(id build (opts a b) (cmds ...) ...)' -> (opts_text, [cmd...]) ; None when it has vals"""
    import re
    m = re.match(r'^\((\S+) build (\(opts [^)]*\)) \(cmds(.*?)\)( \(vals.*\))?\)$', line)
    if not m:
        return None
    body = m.group(3)
    cmds, depth, cur = [], 0, ''
    for ch in body:
        if ch == '(':
            depth += 1
        if ch == ' ' and depth == 0:
            if cur:
                cmds.append(cur)
            cur = ''
            continue
        cur += ch
        if ch == ')':
            depth -= 1
    if cur:
        cmds.append(cur)
    return m.group(2), cmds, m.group(4)


def minimise(c, kind, san, budget=120):
    """greedy command deletion keeping the verdict kind (sessions without a (vals ...) oracle only)"""
    pc = parse_cmds(c.line())
    if pc is None or pc[2]:
        return c.line()
    opts, cmds, _ = pc
    n = 0

    def bad(cs):
        line = '(min build %s (cmds%s))' % (opts, ''.join(' ' + x for x in cs))
        r = evaluate([C.Case('min', 'build', [opts, '(cmds%s)' % ''.join(' ' + x for x in cs)], [], {})], san=san)
        return kind_of(r[0][2]) == kind

    chunk = max(1, len(cmds) // 2)
    while chunk >= 1 and n < budget:
        i = 0
        changed = False
        while i < len(cmds) and n < budget:
            trial = cmds[:i] + cmds[i + chunk:]
            n += 1
            if trial and bad(trial):
                cmds = trial
                changed = True
            else:
                i += chunk
        if not changed:
            chunk //= 2
    return '(%s build %s (cmds%s))' % (c.id, opts, ''.join(' ' + x for x in cmds))


def run(cases, tier, rng):
    lbcases = [c for c in cases if c.op == 'lb']
    out = run_build([c for c in cases if c.op != 'lb'], tier, rng)
    out = run_lb(lbcases, tier, out)
    return run_fromiter(tier, rng, out)


# ---------------------------------------------------------------- ak.from_iter through the real Python layer (pyshim)
def _fi_type(rng, depth):
    """a type whose values need no unification: from_iter(values) must come back from to_list unchanged"""
    r = rng.random()
    if depth <= 0 or r < 0.3:
        return ('leaf', rng.choice(['complex', 'complex', 'int', 'float', 'bool', 'str', 'bytes']))
    if r < 0.55:
        return ('list', _fi_type(rng, depth - 1))
    if r < 0.7:
        t = _fi_type(rng, depth - 1)
        return t if t[0] == 'opt' else ('opt', t)
    if r < 0.85:
        return ('tuple', [_fi_type(rng, depth - 1) for _ in range(rng.choice([1, 2, 2, 3]))])
    keys = rng.sample(['x', 'y', 'z', 'w'], rng.choice([1, 2, 3]))
    return ('rec', [(k, _fi_type(rng, depth - 1)) for k in keys])


def _fi_value(rng, t):
    k = t[0]
    if k == 'leaf':
        d = t[1]
        if d == 'complex':
            return complex(rng.randint(-9, 9), rng.randint(-9, 9))
        if d == 'int':
            return rng.randint(-99, 99)
        if d == 'float':
            return rng.randint(-99, 99) + 0.5
        if d == 'bool':
            return rng.random() < 0.5
        s = ''.join(rng.choice('abcxyz') for _ in range(rng.choice([0, 1, 2, 3])))
        return s if d == 'str' else s.encode()
    if k == 'list':
        return [_fi_value(rng, t[1]) for _ in range(rng.choice([0, 1, 2, 3]))]
    if k == 'opt':
        return None if rng.random() < 0.3 else _fi_value(rng, t[1])
    if k == 'tuple':
        return tuple(_fi_value(rng, x) for x in t[1])
    return {key: _fi_value(rng, x) for key, x in t[1]}


def _strict_equal(a, b):
    if type(a) is not type(b):
        return False
    if isinstance(a, (list, tuple)):
        return len(a) == len(b) and all(_strict_equal(x, y) for x, y in zip(a, b))
    if isinstance(a, dict):
        return list(a) == list(b) and all(_strict_equal(a[k], b[k]) for k in a)
    return a == b


def run_fromiter(tier, rng, out):
    """ak.from_iter (the ArrayBuilder behind the real Python layer, incl. complex leaves, which the command sessions above do
    not drive) on values of one type each (no unification needed): to_list must return the values themselves"""
    import subprocess
    import time
    n = 1500 if tier == 'quick' else 30000
    cases = []
    for i in range(n):
        t = _fi_type(rng, rng.choice([1, 2, 2, 3]))
        vals = [_fi_value(rng, t) for _ in range(rng.choice([1, 2, 3, 4]))]
        if t[0] == 'opt' and all(v is None for v in vals):
            vals.append(_fi_value(rng, t[1]))          # (a list of only None has no element type)
        cases.append(('f%d' % i, vals, t))
    import pyhalves as P
    P.build(impl=True)                                  # pydrv behind pyshim, rebuilt from /repo
    env = dict(os.environ, PYTHONHASHSEED='0', PYTHONDONTWRITEBYTECODE='1')
    t0 = time.time()
    try:
        p = subprocess.run(['/venv/bin/python', os.path.join(C.VERIF, 'harness', 'py_c14.py')],
                           input=''.join('%s\t%r\n' % (cid, vals) for cid, vals, _ in cases),
                           stdout=subprocess.PIPE, stderr=subprocess.PIPE, text=True, timeout=900, env=env)
        lines = p.stdout.splitlines()
    except subprocess.TimeoutExpired:
        lines = []
    got = {}
    for ln in lines:
        parts = ln.split('\t', 2)
        if len(parts) == 3:
            got[parts[0]] = (parts[1], parts[2])
    C.log('from_iter: %d calls in %.1fs' % (len(got), time.time() - t0))
    ok = True
    nagree = 0
    kinds = {}
    best = None
    for cid, vals, t in cases:
        st = got.get(cid)
        problem = None
        if st is None:
            problem = 'the runner gave no answer (crash / hang)'
        elif st[0] != 'ok':
            problem = 'from_iter / to_list raised %s' % st[1]
        else:
            try:
                back = eval(st[1], {'__builtins__': {}}, {'nan': float('nan'), 'inf': float('inf')})
            except Exception as e:      # noqa: BLE001
                back, problem = None, 'unreadable answer %r' % (e,)
            if problem is None and not _strict_equal(back, vals):
                problem = 'to_list(from_iter(values)) = %s' % st[1][:400]
        if problem is None:
            nagree += 1
            continue
        ok = False
        line = '# from_iter %s  values=%r' % (cid, vals)
        if best is None or len(line) < len(best[0]):
            best = (line, problem)
    out['corr_obligations']['corr:py:from_iter-identity'] = ok
    out['verdicts']['from_iter:agree'] = nagree
    out['evaluations'] += len(cases)
    out['distinct_nontrivial'] += nagree
    if best is not None:
        out['findings'].insert(0, dict(kind='viol', what='ak.from_iter: values of one type do not come back from to_list unchanged: ' + best[1][:300],
                                       case_lines=[best[0], '# ' + best[1]], signature=None, size=len(best[0])))
    return out


def run_lb(cases, tier, out):
    """the Form-driven builder sessions; merges into the summary `out` of the ArrayBuilder sessions"""
    import re
    import time
    t = time.time()
    results = LB.evaluate(cases, san=False)
    C.log('lb: std evaluated %d sessions in %.1fs' % (len(cases), time.time() - t))
    san_results = []
    if tier == 'thorough' and os.path.exists(os.path.join(C.SAN, 'lbdrv')):
        t = time.time()
        san_results = LB.evaluate(cases, san=True)
        C.log('lb: san evaluated %d sessions in %.1fs' % (len(cases), time.time() - t))
    reg = LB.registered()
    corr = out['corr_obligations']
    corr.update({'corr:lb-values-vs-spec': True, 'corr:lb-misfit-reported': True, 'corr:lb-snapshot-immutable-impl': True})
    verd, dist = out['verdicts'], out['distribution']
    findings, distinct = [], set()
    ncmp = nblen = 0
    blen_case = None
    for which, rs in (('std', results), ('san', san_results)):
        for c, impl, v, err in rs:
            k = kind_of(v)
            verd['lb-' + which + ':' + k] = verd.get('lb-' + which + ':' + k, 0) + 1
            if which == 'std':
                for k2, v2 in (c.meta.get('tags') or {}).items():
                    dist.setdefault('lb_' + k2, {})
                    dist['lb_' + k2][str(v2)] = dist['lb_' + k2].get(str(v2), 0) + 1
                for cl in c.meta.get('classes', []):
                    dist.setdefault('lb_node_classes', {})
                    dist['lb_node_classes'][cl] = dist['lb_node_classes'].get(cl, 0) + 1
                m = re.search(r'\(ncmp (\d+)\)', v)
                if m:
                    ncmp += int(m.group(1))
                m = re.search(r'\(blen (\d+)', v)
                if m:
                    nblen += int(m.group(1))
                    if blen_case is None or len(c.line()) < len(blen_case[0].line()):
                        blen_case = (c, impl, v)
            if k in ('agree', 'skip'):
                if k == 'agree' and which == 'std' and c.meta.get('nontrivial', True):
                    distinct.add(c.body())
                    if sum(1 for x in out['samples'] if ' lb ' in x) < 2:
                        out['samples'].append(c.line()[:400])
                continue
            if k == 'bad':
                corr['corr:lb-values-vs-spec'] = False
                findings.append(dict(kind='bad', what='C14 LayoutBuilder session could not be evaluated: %s' % v[:300],
                                     case_lines=[c.line()], signature=None, no_input=True, size=len(c.line())))
                continue
            sig = LB.signature(c, impl, v)
            if sig is None:
                if 'snapshot-changed' in v:
                    corr['corr:lb-snapshot-immutable-impl'] = False
                elif 'misfit-not-reported' in v:
                    corr['corr:lb-misfit-reported'] = False
                else:
                    corr['corr:lb-values-vs-spec'] = False
            findings.append(dict(kind='viol', what='LayoutBuilder (%s build): %s' % (which, v[:700]),
                                 case_lines=[c.line(), '# impl: ' + impl[:1500], '# verdict: ' + v[:1500]] +
                                 (['# stderr: ' + err.replace('\n', '\n# ')] if err else []),
                                 signature=sig, size=len(c.line())))
    if nblen and blen_case is not None and 'lb-length-constant' in reg:
        c, impl, v = blen_case
        findings.append(dict(kind='viol', what='LayoutBuilder::length() differs from the length of the snapshot taken at the same moment: %s' % v[:300],
                             case_lines=[c.line(), '# impl: ' + impl[:1500], '# verdict: ' + v[:1500]],
                             signature='lb-length-constant', size=len(c.line())))
    best = {}
    for f in findings:
        m = re.search(r'\((value|type|conforming-prefix-raised|misfit-not-reported|partial-value|partial-invalid|snapshot-[a-z-]+|crash|timeout|constructor-raised)', f['what'])
        key = (f['kind'], m.group(1) if m and f['signature'] is None else '', str(f['signature']))
        if key not in best or f['size'] < best[key]['size']:
            best[key] = f
    out['findings'] = list(out['findings']) + sorted(best.values(), key=lambda f: (f.get('no_input', False), f['size']))
    out['evaluations'] += len(cases) + len(san_results)
    out['distinct_nontrivial'] += len(distinct)
    dist['lb_observations_compared'] = {'n': ncmp}
    dist['lb_length_differs_from_snapshot'] = {'n': nblen, 'reported_as_finding': 'lb-length-constant' in reg}
    dist['lb_known_deviation_streams_enabled'] = {s: (s in reg) for s in sorted(LB.SIGNATURES)}
    return out


def run_build(cases, tier, rng):
    import time
    t = time.time()
    results = evaluate(cases, san=False)
    C.log('std evaluated %d sessions in %.1fs' % (len(cases), time.time() - t))
    san_results = []
    if tier == 'thorough' and os.path.exists(os.path.join(C.SAN, 'builddrv')):
        t = time.time()
        sub = cases[:min(len(cases), 30100)]
        san_results = evaluate(sub, san=True)
        C.log('san evaluated %d sessions in %.1fs' % (len(sub), time.time() - t))
    verd, dist, findings, samples = {}, {}, [], []
    distinct = set()
    corr = {'corr:snapshot-values': True, 'corr:error-positions': True, 'corr:snapshot-immutable-impl': True,
            'corr:values-vs-spec': True}
    nsnap = nerr = 0
    import re
    for which, rs in (('std', results), ('san', san_results)):
        for c, impl, v, err in rs:
            k = kind_of(v)
            verd[which + ':' + k] = verd.get(which + ':' + k, 0) + 1
            if which == 'std':
                for k2, v2 in (c.meta.get('tags') or {}).items():
                    dist.setdefault(k2, {})
                    dist[k2][str(v2)] = dist[k2].get(str(v2), 0) + 1
                m = re.search(r'\(nsnap (\d+)\) \(nerr (\d+)\)', v)
                if m:
                    nsnap += int(m.group(1))
                    nerr += int(m.group(2))
                    if int(m.group(2)):
                        dist.setdefault('sessions_with_errors', {'n': 0})['n'] += 1
            if k == 'agree':
                if which == 'std' and c.meta.get('nontrivial', True):
                    distinct.add(c.body())
                    if len(samples) < 6:
                        samples.append(c.line()[:400])
                continue
            sig = signature(c, impl, v)
            if k == 'bad':
                corr['corr:snapshot-values'] = False
                findings.append(dict(kind='bad', what='C14 session could not be evaluated: %s' % v[:300],
                                     case_lines=[c.line()], signature=None, no_input=True, size=len(c.line())))
                continue
            if 'snapshot-changed' in v:
                corr['corr:snapshot-immutable-impl'] = False
            if k == 'viol':
                what = 'ArrayBuilder (%s build): %s' % (which, v[:700])
                if sig is None:
                    corr['corr:values-vs-spec'] = False
                findings.append(dict(kind='viol', what=what, case=c, san=(which == 'san'),
                                     case_lines=[c.line(), '# impl: ' + impl[:1500], '# verdict: ' + v[:1500]] +
                                     (['# stderr: ' + err.replace('\n', '\n# ')] if err else []),
                                     signature=sig, size=len(c.line())))
            else:
                if 'error-only' in v:
                    corr['corr:error-positions'] = False
                else:
                    corr['corr:snapshot-values'] = False
                findings.append(dict(kind='modeldiff', what='correspondence builder model vs ArrayBuilder broken (%s): %s' % (which, v[:700]),
                                     case=c, san=(which == 'san'),
                                     case_lines=[c.line(), '# impl: ' + impl[:1500], '# verdict: ' + v[:1500]],
                                     signature=sig, no_input=True, size=len(c.line())))
    # smallest representative per (kind, first problem word, signature); minimise it
    best = {}
    for f in findings:
        m = re.search(r'\((snapshot-[a-z-]+|error-only-in-[a-z]+|value|well-nested-session-raised|model-[a-z-]+|crash|timeout)', f['what'])
        key = (f['kind'], m.group(1) if m else '', str(f['signature']))
        if key not in best or f['size'] < best[key]['size']:
            best[key] = f
    fl = sorted(best.values(), key=lambda f: (f.get('no_input', False), f['size']))
    for f in fl[:6]:
        if 'case' in f and f['kind'] in ('viol', 'modeldiff'):
            try:
                small = minimise(f['case'], f['kind'], f.get('san', False))
                if len(small) < len(f['case_lines'][0]):
                    f['case_lines'] = [small, '# minimised from: ' + f['case_lines'][0][:2000]] + f['case_lines'][1:]
            except Exception as e:  # minimisation is best effort
                f['case_lines'].append('# minimisation failed: %r' % e)
    for f in fl:
        f.pop('case', None)
    dist['snapshots_compared'] = {'n': nsnap}
    dist['error_events_compared'] = {'n': nerr}
    return dict(findings=fl, corr_obligations=corr, evaluations=len(cases) + len(san_results),
                distinct_nontrivial=len(distinct), samples=samples, distribution=dist, verdicts=verd,
                extra=dict(checker_cmd='cd /verif/c14/coq && coqc %s Props_C14.v (after make of /verif/coq and /verif/c14/coq); '
                                       'bin/check C14 --tier %s' % (COQ_LOGICAL, tier)))
