(** C16 proofs, part 4: from_buffers(to_buffers c) has the value of c (fragment). *)
From Coq Require Import ZArith List Bool Lia ZifyBool.
From AwkV Require Import Base Layout LayoutInd Valid Types Proofs_Lists Proofs_C11 Proofs_Typing Proofs_ToList Proofs_Carry.
From AwkBuffers Require Import Buffers Proofs_C16 Proofs_C16b.
Import ListNotations.
Open Scope Z_scope.

(* nodes that come back whole whatever length their parent asks for (their own buffers are kept in full) *)
Fixpoint resets (c : content) : bool :=
  match c with
  | Numpy _ _ _ | ListOffset _ _ _ | ListA _ _ _ _ | Indexed _ _ _ | IndexedOption _ _ _ | ByteMasked _ _ _ => true
  | Union _ _ _ _ => true
  | Empty => true
  | Regular c' size _ => negb (size =? 0) && resets c'
  | Unmasked c' | Par _ _ c' => resets c'
  | _ => false
  end.

(* the fragment: NumpyArray (any number of dimensions, inner dimensions positive), EmptyArray, ListOffsetArray (offsets inside the content), ListArray and ByteMaskedArray over
   nodes that come back whole, BitMaskedArray over such nodes, RegularArray, IndexedArray, IndexedOptionArray, UnmaskedArray, RecordArray
   (tuples and keyed), UnionArray over nodes that come back whole, parameters (strings, bytestrings, record names) *)
Fixpoint frag16 (c : content) : bool :=
  match c with
  | Numpy _ shape _ => match shape with [] => false | _ :: dims => forallb (fun d => 0 <? d) dims end
  | ListOffset _ o c' => frag16 c' && forallb (fun x => (0 <=? x) && (x <=? clen c')) o
  | ListA _ _ _ c' => frag16 c' && resets c'
  | Regular c' size _ => (0 <=? size) && frag16 c'
  | Empty => true
  | Indexed _ _ c' | IndexedOption _ _ c' | Unmasked c' | Par _ _ c' => frag16 c'
  | ByteMasked _ _ c' | BitMasked _ _ _ _ c' => frag16 c' && resets c'
  | Record cs _ _ => (fix all (l : list content) : bool := match l with [] => true | x :: xs => frag16 x && all xs end) cs
  | Union _ _ _ cs => (fix all (l : list content) : bool := match l with [] => true | x :: xs => frag16 x && resets x && all xs end) cs
  end.
Lemma frag16_all cs :
  (fix all (l : list content) : bool := match l with [] => true | x :: xs => frag16 x && all xs end) cs = forallb frag16 cs.
Proof. induction cs as [|x xs IH]; [reflexivity|]. cbn [forallb]. rewrite IH. reflexivity. Qed.

Definition efflen (t : option Z) (c : content) : Z := match t with None => clen c | Some k => k end.
Definition trim_ok (t : option Z) (c : content) : Prop := match t with None => True | Some k => 0 <= k <= clen c end.

Definition rt_concl (c : content) (t : option Z) (len : Z) (vs : list value) : Prop :=
  exists c', of_ftree false (to_ftree c t) len = Ok c' /\ len <= clen c' <= efflen t c /\
             to_list c' = Ok (take (clen c') vs) /\ (resets c = true -> clen c' = efflen t c).
Definition rt_at (c : content) : Prop :=
  forall p t len vs, Valid p c -> frag16 c = true -> trim_ok t c -> 0 <= len <= efflen t c -> to_list c = Ok vs ->
  rt_concl c t len vs.
(* without validity (the character buffer of a string is not checked by Valid, its shape is fixed by ParamOk) *)
Definition rt_core (c : content) : Prop :=
  forall t len vs, frag16 c = true -> trim_ok t c -> 0 <= len <= efflen t c -> to_list c = Ok vs -> rt_concl c t len vs.

Lemma to_list_clen c vs : to_list c = Ok vs -> zlen vs = clen c /\ 0 <= clen c.
Proof. intros H. pose proof (to_list_len c vs H). pose proof (zlen_nonneg vs). lia. Qed.

(* ---------------------------------------------------------------- leaves *)
Lemma nest_prefix dims n rows (L vs : list value) :
  Forall (fun d => 0 <= d) dims -> 0 <= rows <= n -> zlen L = n * prodZ dims -> nest dims n L = Ok vs ->
  nest dims rows (take (rows * prodZ dims) L) = Ok (take rows vs).
Proof.
  intros Hd Hr HL Hn. pose proof (prodZ_nonneg dims Hd) as Hp.
  set (L1 := take (rows * prodZ dims) L). set (L2 := drop (rows * prodZ dims) L).
  assert (HL1 : zlen L1 = rows * prodZ dims) by (unfold L1; rewrite zlen_take_min; nia).
  assert (HL2 : zlen L2 = (n - rows) * prodZ dims) by (unfold L2; rewrite zlen_drop; nia).
  destruct (nest_total dims rows L1 Hd ltac:(lia)) as (x & Hx). destruct (nest_total dims (n - rows) L2 Hd ltac:(lia)) as (y & Hy).
  pose proof (nest_app dims rows (n - rows) L1 L2 x y Hd ltac:(lia) ltac:(lia) HL1 HL2 Hx Hy) as Happ.
  replace (rows + (n - rows)) with n in Happ by lia. unfold L1, L2 in Happ. rewrite take_drop_id in Happ.
  rewrite Hn in Happ. injection Happ as ->. fold L1. rewrite Hx. f_equal.
  pose proof (nest_zlen dims rows L1 x Hx Hd ltac:(lia) HL1) as Hzx. symmetry. apply take_app_exact. exact Hzx.
Qed.

Lemma rt_core_Numpy dt shape data : rt_core (Numpy dt shape data).
Proof.
  intros t len vs Hf Ht Hlen Hvs. cbn [frag16] in Hf. destruct shape as [|n dims]; [discriminate Hf|].
  assert (Hdims : Forall (fun d => 0 < d) dims).
  { apply Forall_forall. intros d Hd. rewrite forallb_forall in Hf. specialize (Hf d Hd). lia. }
  assert (Hd0 : Forall (fun d => 0 <= d) dims) by (eapply Forall_impl; [|exact Hdims]; cbn; intros; lia).
  assert (Hp : 0 < prodZ dims) by (clear - Hdims; induction Hdims as [|d ds Hd _ IH]; [reflexivity|rewrite prodZ_cons; nia]).
  rewrite to_list_Numpy in Hvs. destruct (existsb (fun d => d <? 0) (n :: dims)) eqn:En; [discriminate Hvs|].
  destruct (zlen data <? prodZ (n :: dims)) eqn:Ed; [discriminate Hvs|]. rewrite prodZ_cons in *.
  assert (Hn : 0 <= n) by (cbn [existsb] in En; apply orb_false_iff in En as [En _]; lia).
  assert (Hd : n * prodZ dims <= zlen data) by lia.
  set (isz := prodZ dims) in *. unfold rt_concl.
  set (rows := match t with None => n | Some k => k end).
  assert (Hrows : 0 <= rows <= n /\ len <= rows /\ rows = efflen t (Numpy dt (n :: dims) data)).
  { unfold rows, efflen, trim_ok in *. cbn [clen] in *. destruct t; lia. }
  destruct Hrows as (Hr & Hlr & Hre).
  exists (Numpy dt (rows :: dims) (take (rows * isz) data)). cbn [to_ftree of_ftree tl]. fold rows. fold isz.
  assert (Hz : zlen (take (rows * isz) data) = rows * isz) by (rewrite zlen_take_min; nia).
  rewrite Hz. replace (isz =? 0) with false by lia.
  assert (En' : existsb (fun d => d <? 0) dims = false) by (apply Forall_nonneg_existsb; exact Hd0).
  rewrite En'. rewrite Z.div_mul, Z.mod_mul by lia. replace (rows <? len) with false by lia. cbn [negb Z.eqb].
  split; [reflexivity|]. cbn [clen]. split; [lia|]. split; [|intros _; lia].
  rewrite to_list_Numpy. cbn [existsb]. rewrite En'. replace (rows <? 0) with false by lia. cbn [orb].
  rewrite prodZ_cons. fold isz. rewrite Hz. replace (rows * isz <? rows * isz) with false by lia.
  rewrite take_take by lia.
  assert (EL : map (leaf dt) (take (rows * isz) data) = take (rows * isz) (map (leaf dt) (take (n * isz) data))).
  { rewrite <- map_take. rewrite take_take by nia. reflexivity. }
  rewrite EL. apply (nest_prefix dims n rows); [exact Hd0|lia| |exact Hvs]. rewrite zlen_map, zlen_take_min; nia.
Qed.
Lemma rt_Numpy dt shape data : rt_at (Numpy dt shape data).
Proof. intros p t len vs _. apply rt_core_Numpy. Qed.

Lemma rt_core_Par a r c : rt_core c -> rt_core (Par a r c).
Proof.
  intros IH t len vs Hf Ht Hlen Hvs. cbn [frag16] in Hf.
  rewrite to_list_Par in Hvs. apply bind_Ok in Hvs as (cvs & Hcvs & Hvs).
  destruct (IH t len cvs Hf Ht Hlen Hcvs) as (c1 & Hof & Hb & Hl1 & Hr).
  exists (Par a r c1). cbn [to_ftree of_ftree]. rewrite Hof. cbn [bind]. split; [reflexivity|]. cbn [clen].
  split; [exact Hb|]. split; [|exact Hr].
  rewrite to_list_Par, Hl1. cbn [bind].
  destruct a as [[]|]; first [apply mapM_take; exact Hvs | injection Hvs as <-; reflexivity].
Qed.
Lemma rt_Par a r c : rt_at c -> rt_at (Par a r c).
Proof.
  intros IH p t len vs HV Hf Ht Hlen Hvs. apply Valid_Par_inv in HV.
  apply (rt_core_Par a r c); try assumption. intros t' len' vs' Hf' Ht' Hlen' Hvs'. exact (IH a t' len' vs' HV Hf' Ht' Hlen' Hvs').
Qed.

(* the content of a list node: valid, or the character buffer of a string *)
Lemma child_rt p c c' : rt_at c' -> ParamOk p c -> list_content c = Some c' -> (is_strk p = false -> Valid None c') -> rt_core c'.
Proof.
  intros IH HP Hl Hc. destruct (is_strk p) eqn:Es.
  - destruct (ParamOk_str p c HP Es) as (c'' & k & rn & n & d & H1 & H2 & _). rewrite Hl in H1. injection H1 as <-. subst c'.
    apply rt_core_Par. apply rt_core_Numpy.
  - intros t len vs. exact (IH None t len vs (Hc eq_refl)).
Qed.

(* ---------------------------------------------------------------- helpers *)
Lemma pairs_In o a b : In (a, b) (pairs o) -> In a o /\ In b o.
Proof.
  induction o as [|x o IH]; [intros []|]. destruct o as [|y o]; [intros []|].
  change (pairs (x :: y :: o)) with ((x, y) :: pairs (y :: o)). intros [E|Hin].
  - injection E as -> ->. split; [left; reflexivity|right; left; reflexivity].
  - destruct (IH Hin) as [H1 H2]. split; right; assumption.
Qed.
Lemma last_In' {A} (l : list A) d : l <> [] -> In (last l d) l.
Proof.
  induction l as [|x l IH]; [congruence|]. intros _. destruct l as [|y l]; [left; reflexivity|].
  right. change (last (x :: y :: l) d) with (last (y :: l) d). apply IH. discriminate.
Qed.
Lemma In_take {A} (x : A) k l : In x (take k l) -> In x l.
Proof. apply In_firstn. Qed.
Lemma trim_as_take {A} t (l : list A) k : (t = None -> k = zlen l) -> (forall j, t = Some j -> k = j) -> trim t l = take k l.
Proof.
  intros H1 H2. destruct t as [j|]; cbn [trim].
  - rewrite (H2 j eq_refl). reflexivity.
  - rewrite take_all; [reflexivity|]. rewrite (H1 eq_refl). lia.
Qed.
Lemma take_nil_iff {A} (l : list A) k : l <> [] -> 0 < k -> take k l <> [].
Proof. intros Hl Hk. destruct l; [congruence|]. unfold take. destruct (Z.to_nat k) eqn:E; [lia|]. discriminate. Qed.

Lemma cut_ne {A} (vs : list A) o : o <> [] -> cut vs o = mapM (cut1 vs) (pairs o).
Proof. destruct o; [congruence|reflexivity]. Qed.

Lemma rt_ListOffset w o c : rt_at c -> rt_at (ListOffset w o c).
Proof.
  intros IH p t len vs HV Hf Ht Hlen Hvs.
  cbn [frag16] in Hf. apply andb_true_iff in Hf as [Hfc Hoff].
  apply Valid_ListOffset_inv in HV as (HP & Ho1 & Hpairs & Hc).
  pose proof (child_rt p (ListOffset w o c) c IH HP eq_refl Hc) as IHc. clear IH Hc HP.
  rewrite to_list_ListOffset in Hvs. apply bind_Ok in Hvs as (cvs & Hcvs & Hvs). apply rmap_Ok in Hvs as (ls & Hcut & ->).
  destruct (to_list_clen c cvs Hcvs) as [Hzc Hc0].
  set (k := efflen t (ListOffset w o c)) in *.
  assert (Hk : 0 <= k <= zlen o - 1) by (unfold k, efflen, trim_ok in *; cbn [clen] in *; destruct t; lia).
  assert (Eo : trim1 t o = take (k + 1) o).
  { unfold k, efflen. destruct t as [j|]; cbn [trim1 clen]; [reflexivity|]. rewrite take_all; [reflexivity|lia]. }
  assert (Hone : o <> []) by (intros ->; cbn in Ho1; lia).
  set (o' := take (k + 1) o) in *.
  assert (Ho' : o' <> []) by (apply take_nil_iff; [exact Hone|lia]).
  assert (Hzo' : zlen o' = k + 1) by (unfold o'; rewrite zlen_take_min; lia).
  set (d := last o' 0).
  assert (Hd : 0 <= d <= clen c).
  { assert (Hin : In d o) by (apply (In_take d (k + 1)); apply last_In'; exact Ho').
    rewrite forallb_forall in Hoff. specialize (Hoff d Hin). lia. }
  destruct (IHc None d cvs Hfc I ltac:(cbn; lia) Hcvs) as (c1 & Hof & Hb & Hl1 & _). cbn [efflen] in Hb.
  exists (ListOffset w o' c1). cbn [to_ftree of_ftree]. rewrite Eo. fold o'.
  replace (zlen o' - 1 <? len) with false by (unfold k, efflen in *; cbn [clen] in *; lia).
  rewrite (last_z_last o' 0 Ho'). cbn [bind]. fold d. rewrite Hof. cbn [bind].
  split; [reflexivity|]. cbn [clen]. split; [lia|]. split; [|intros _; lia].
  rewrite to_list_ListOffset, Hl1. cbn [bind].
  (* cut of the prefix *)
  rewrite (cut_ne cvs o Hone) in Hcut.
  assert (Hm : mapM (cut1 cvs) (pairs o') = Ok (take k ls)).
  { unfold o'. rewrite pairs_take by lia. apply mapM_take. exact Hcut. }
  assert (Hmono : Forall (fun ab : Z * Z => fst ab <= snd ab) (pairs o')).
  { unfold o'. rewrite pairs_take by lia. apply Forall_forall. intros ab Hin. apply In_take in Hin.
    rewrite Forall_forall in Hpairs. specialize (Hpairs ab Hin). unfold pair_ok in Hpairs. lia. }
  assert (Hpre : mapM (cut1 (take (clen c1) cvs)) (pairs o') = Ok (take k ls)).
  { apply mapM_cut1_prefix; [exact Hm| |lia]. apply Forall_forall. intros [a b] Hin. cbn [fst snd].
    destruct (pairs_In o' a b Hin) as [_ Hb']. pose proof (pairs_mono_last o' Hmono b Hb') as Hlast.
    assert (E : last o' b = d).
    { unfold d. clear - Ho'. induction o' as [|x l IHl]; [congruence|]. destruct l as [|y l]; [reflexivity|].
      change (last (x :: y :: l) b) with (last (y :: l) b). change (last (x :: y :: l) 0) with (last (y :: l) 0). apply IHl. discriminate. }
    rewrite E in Hlast. right. lia. }
  rewrite (cut_ne _ o' Ho'), Hpre. cbn [rmap].
  f_equal. replace (zlen o' - 1) with k by lia. apply map_take.
Qed.

Lemma live_stops_bounds s e lc : Forall (pair_ok lc) (zip s e) -> Forall (fun x => 0 <= x <= lc) (live_stops s e).
Proof.
  intros HF. unfold live_stops. apply Forall_forall. intros x Hin. apply in_map_iff in Hin as ([a b] & <- & Hin).
  apply filter_In in Hin as [Hin Hne]. rewrite Forall_forall in HF. specialize (HF (a, b) Hin). unfold pair_ok in HF.
  cbn [fst snd] in *. lia.
Qed.

Lemma rt_ListA w s e c : rt_at c -> rt_at (ListA w s e c).
Proof.
  intros IH p t len vs HV Hf Ht Hlen Hvs.
  cbn [frag16] in Hf. apply andb_true_iff in Hf as [Hfc Hres].
  apply Valid_ListA_inv in HV as (HP & Hse & Hpairs & Hc).
  pose proof (child_rt p (ListA w s e c) c IH HP eq_refl Hc) as IHc. clear IH Hc HP.
  rewrite to_list_ListA in Hvs. apply bind_Ok in Hvs as (cvs & Hcvs & Hvs). apply rmap_Ok in Hvs as (ls & Hcut & ->).
  destruct (to_list_clen c cvs Hcvs) as [Hzc Hc0].
  unfold cut2 in Hcut. replace (zlen e <? zlen s) with false in Hcut by lia.
  set (k := efflen t (ListA w s e c)) in *.
  assert (Hk : 0 <= k <= zlen s) by (unfold k, efflen, trim_ok in *; cbn [clen] in *; pose proof (zlen_nonneg s); destruct t; lia).
  set (s' := trim t s). set (e' := trim t e).
  assert (Hzs' : zlen s' = k).
  { unfold s', k, efflen. destruct t as [j|]; cbn [trim clen]; [|reflexivity]. cbn in Ht. rewrite zlen_take_min; lia. }
  assert (Hze' : k <= zlen e').
  { unfold e', k, efflen. destruct t as [j|]; cbn [trim clen]; [|lia]. cbn in Ht. rewrite zlen_take_min; lia. }
  assert (Hzip : zip s' e' = take k (zip s e)).
  { unfold s', e', k, efflen. destruct t as [j|]; cbn [trim clen]; [apply zip_take|].
    rewrite take_all; [reflexivity|]. rewrite zlen_zip. lia. }
  set (need := max_or0 (live_stops (take len s') (take len e'))).
  assert (Hneed : 0 <= need <= clen c).
  { apply max_or0_bounds; [lia|]. apply live_stops_bounds. rewrite zip_take, Hzip. apply Forall_forall. intros ab Hin.
    apply In_take in Hin. apply In_take in Hin. rewrite Forall_forall in Hpairs. exact (Hpairs ab Hin). }
  destruct (IHc None need cvs Hfc I ltac:(cbn; lia) Hcvs) as (c1 & Hof & Hb & Hl1 & Hr). cbn [efflen] in Hb, Hr.
  specialize (Hr Hres). rewrite Hr in Hl1. rewrite take_all in Hl1 by lia.
  exists (ListA w s' e' c1). cbn [to_ftree of_ftree]. fold s' e'.
  replace (zlen s' <? len) with false by (unfold k, efflen in *; cbn [clen] in *; lia).
  replace (zlen e' <? len) with false by (unfold k, efflen in *; cbn [clen] in *; lia).
  fold need. rewrite Hof. cbn [bind]. replace (zlen e' <? zlen s') with false by lia.
  split; [reflexivity|]. cbn [clen]. split; [lia|]. split; [|intros _; lia].
  rewrite to_list_ListA, Hl1. cbn [bind]. unfold cut2. replace (zlen e' <? zlen s') with false by lia.
  rewrite Hzip, (mapM_take _ _ _ k Hcut). cbn [rmap]. f_equal. rewrite Hzs'. apply map_take.
Qed.

Lemma mapM_get_prefix {A} (vs : list A) ix m : Forall (fun i => i < m) ix -> mapM (get (take m vs)) ix = mapM (get vs) ix.
Proof.
  intros HF. apply mapM_ext_in. intros i Hin. rewrite Forall_forall in HF. apply get_take. exact (HF i Hin).
Qed.

Lemma rt_Indexed w ix c : rt_at c -> rt_at (Indexed w ix c).
Proof.
  intros IH p t len vs HV Hf Ht Hlen Hvs. cbn [frag16] in Hf.
  apply Valid_Indexed_inv in HV as (Hix & _ & Hc).
  rewrite to_list_Indexed in Hvs. apply bind_Ok in Hvs as (cvs & Hcvs & Hvs).
  destruct (to_list_clen c cvs Hcvs) as [Hzc Hc0].
  set (k := efflen t (Indexed w ix c)) in *.
  assert (Hk : 0 <= k <= zlen ix) by (unfold k, efflen, trim_ok in *; cbn [clen] in *; pose proof (zlen_nonneg ix); destruct t; lia).
  assert (Eix : trim t ix = take k ix) by (apply trim_as_take; unfold k, efflen; cbn [clen]; [intros ->; reflexivity|intros j ->; reflexivity]).
  set (ix' := take k ix) in *.
  assert (Hzix : zlen ix' = k) by (unfold ix'; rewrite zlen_take_min; lia).
  assert (Hix' : Forall (fun i => 0 <= i < clen c) ix').
  { apply Forall_forall. intros i Hin. apply In_take in Hin. rewrite Forall_forall in Hix. exact (Hix i Hin). }
  set (need := match ix' with [] => 0 | _ => max_or0 ix' + 1 end).
  assert (Hneed : 0 <= need <= clen c /\ Forall (fun i => i < need) ix').
  { unfold need. destruct ix' as [|i0 r] eqn:E; [split; [lia|constructor]|]. rewrite <- E in *.
    assert (Hne : ix' <> []) by (rewrite E; discriminate).
    pose proof (max_or0_nonempty_in ix' Hne) as Hin. rewrite Forall_forall in Hix'. pose proof (Hix' _ Hin).
    split; [lia|]. apply Forall_forall. intros i Hi. pose proof (max_or0_ge ix' i Hi). lia. }
  destruct Hneed as [Hneed Hlt].
  destruct (IH None None need cvs Hc Hf I ltac:(cbn; lia) Hcvs) as (c1 & Hof & Hb & Hl1 & _). cbn [efflen] in Hb.
  exists (Indexed w ix' c1). cbn [to_ftree of_ftree]. rewrite Eix. fold ix'.
  replace (zlen ix' <? len) with false by (unfold k, efflen in *; cbn [clen] in *; lia).
  fold need. rewrite Hof. cbn [bind].
  split; [reflexivity|]. cbn [clen]. split; [lia|]. split; [|intros _; lia].
  rewrite to_list_Indexed, Hl1. cbn [bind]. rewrite Hzix.
  rewrite mapM_get_prefix; [apply mapM_take; exact Hvs|].
  eapply Forall_impl; [|exact Hlt]. cbn. intros; lia.
Qed.

Lemma rt_IndexedOption w ix c : rt_at c -> rt_at (IndexedOption w ix c).
Proof.
  intros IH p t len vs HV Hf Ht Hlen Hvs. cbn [frag16] in Hf.
  apply Valid_IndexedOption_inv in HV as (Hix & _ & Hc).
  rewrite to_list_IndexedOption in Hvs. apply bind_Ok in Hvs as (cvs & Hcvs & Hvs).
  destruct (to_list_clen c cvs Hcvs) as [Hzc Hc0].
  set (k := efflen t (IndexedOption w ix c)) in *.
  assert (Hk : 0 <= k <= zlen ix) by (unfold k, efflen, trim_ok in *; cbn [clen] in *; pose proof (zlen_nonneg ix); destruct t; lia).
  assert (Eix : trim t ix = take k ix) by (apply trim_as_take; unfold k, efflen; cbn [clen]; [intros ->; reflexivity|intros j ->; reflexivity]).
  set (ix' := take k ix) in *.
  assert (Hzix : zlen ix' = k) by (unfold ix'; rewrite zlen_take_min; lia).
  assert (Hix' : Forall (fun i => i < clen c) ix').
  { apply Forall_forall. intros i Hin. apply In_take in Hin. rewrite Forall_forall in Hix. exact (Hix i Hin). }
  set (need := match ix' with [] => 0 | _ => Z.max 0 (max_or0 ix' + 1) end).
  assert (Hneed : 0 <= need <= clen c /\ Forall (fun i => i < need) ix').
  { unfold need. destruct ix' as [|i0 r] eqn:E; [split; [lia|constructor]|]. rewrite <- E in *.
    assert (Hne : ix' <> []) by (rewrite E; discriminate).
    pose proof (max_or0_nonempty_in ix' Hne) as Hin. rewrite Forall_forall in Hix'. pose proof (Hix' _ Hin).
    split; [lia|]. apply Forall_forall. intros i Hi. pose proof (max_or0_ge ix' i Hi). lia. }
  destruct Hneed as [Hneed Hlt].
  destruct (IH None None need cvs Hc Hf I ltac:(cbn; lia) Hcvs) as (c1 & Hof & Hb & Hl1 & _). cbn [efflen] in Hb.
  exists (IndexedOption w ix' c1). cbn [to_ftree of_ftree]. rewrite Eix. fold ix'.
  replace (zlen ix' <? len) with false by (unfold k, efflen in *; cbn [clen] in *; lia).
  fold need. rewrite Hof. cbn [bind].
  split; [reflexivity|]. cbn [clen]. split; [lia|]. split; [|intros _; lia].
  rewrite to_list_IndexedOption, Hl1. cbn [bind]. rewrite Hzix.
  rewrite <- (mapM_take _ _ _ k Hvs). fold ix'. apply mapM_ext_in. intros i Hin.
  unfold pick_opt. destruct (0 <=? i); [|reflexivity]. apply get_take.
  rewrite Forall_forall in Hlt. pose proof (Hlt i Hin). lia.
Qed.

Lemma rt_Regular0 c zl : rt_at c -> rt_at (Regular c 0 zl).
Proof.
  intros IH p t len vs HV Hf Ht Hlen Hvs. unfold rt_concl.
  cbn [frag16] in Hf. apply andb_true_iff in Hf as [_ Hfc].
  apply Valid_Regular_inv in HV as (HP & _ & Hzl & Hc).
  pose proof (child_rt p (Regular c 0 zl) c IH HP eq_refl Hc) as IHc. clear IH Hc HP.
  rewrite to_list_Regular in Hvs. apply bind_Ok in Hvs as (cvs & Hcvs & Hvs). apply rmap_Ok in Hvs as (ch & Hch & ->).
  destruct (to_list_clen c cvs Hcvs) as [Hzc Hc0].
  unfold chunks in Hch. cbn in Hch. replace (zl <? 0) with false in Hch by lia. injection Hch as <-.
  assert (Ek : efflen t (Regular c 0 zl) <= zl /\ 0 <= len <= efflen t (Regular c 0 zl)).
  { unfold efflen, trim_ok in *. cbn [clen] in *. cbn in *. destruct t; lia. }
  destruct (IHc (tmul t 0) 0 cvs Hfc) as (c1 & Hof & Hb & Hl1 & _).
  { unfold tmul, trim_ok. destruct t; [lia|exact I]. }
  { unfold tmul, efflen. destruct t; lia. }
  { exact Hcvs. }
  exists (Regular c1 0 len). cbn [to_ftree of_ftree]. rewrite Z.mul_0_r. rewrite Hof. cbn [bind]. cbn [Z.ltb Z.compare].
  split; [reflexivity|]. cbn [clen]. cbn [Z.eqb]. split; [lia|]. split; [|cbn; discriminate].
  rewrite to_list_Regular, Hl1. cbn [bind]. unfold chunks. cbn [Z.ltb Z.compare Z.eqb]. replace (len <? 0) with false by lia.
  cbn [rmap]. f_equal. rewrite <- map_take. f_equal. rewrite <- map_take. rewrite iota_take by lia. reflexivity.
Qed.

Lemma rt_Regular c size zl : rt_at c -> rt_at (Regular c size zl).
Proof.
  destruct (size =? 0) eqn:E0; [replace size with 0 by lia; apply rt_Regular0|].
  intros IH p t len vs HV Hf Ht Hlen Hvs.
  cbn [frag16] in Hf. apply andb_true_iff in Hf as [Hs Hfc]. assert (Hs' : 0 < size) by lia. clear Hs.
  apply Valid_Regular_inv in HV as (HP & _ & _ & Hc).
  pose proof (child_rt p (Regular c size zl) c IH HP eq_refl Hc) as IHc. clear IH Hc HP.
  rewrite to_list_Regular in Hvs. apply bind_Ok in Hvs as (cvs & Hcvs & Hvs). apply rmap_Ok in Hvs as (ch & Hch & ->).
  destruct (to_list_clen c cvs Hcvs) as [Hzc Hc0].
  unfold chunks in Hch. replace (size <? 0) with false in Hch by lia. replace (size =? 0) with false in Hch by lia.
  injection Hch as <-.
  assert (Ecl : clen (Regular c size zl) = clen c / size) by (cbn [clen]; replace (size =? 0) with false by lia; reflexivity).
  set (k := efflen t (Regular c size zl)) in *.
  assert (Hk : 0 <= k <= clen c / size).
  { unfold k, efflen, trim_ok in *. rewrite Ecl in *. pose proof (Z.div_pos (clen c) size ltac:(lia) Hs'). destruct t; lia. }
  pose proof (Z.mul_div_le (clen c) size Hs') as Hmd.
  set (tc := tmul t size).
  assert (Htc : trim_ok tc c) by (unfold tc, tmul, trim_ok in *; rewrite Ecl in *; destruct t as [j|]; [nia|exact I]).
  assert (Hec : efflen tc c = match t with None => clen c | Some j => j * size end) by (unfold tc; destruct t; reflexivity).
  assert (Hnd : 0 <= len * size <= efflen tc c).
  { rewrite Hec. unfold k, efflen in *. rewrite Ecl in *. destruct t; nia. }
  assert (Hle : efflen tc c <= clen c).
  { rewrite Hec. unfold k, efflen, trim_ok in *. rewrite Ecl in *. destruct t; nia. }
  destruct (IHc tc (len * size) cvs Hfc Htc Hnd Hcvs) as (c1 & Hof & Hb & Hl1 & Hr).
  set (m := clen c1) in *.
  assert (Hm0 : 0 <= m <= zlen cvs) by lia.
  exists (Regular c1 size len). cbn [to_ftree of_ftree]. fold tc. rewrite Hof. cbn [bind].
  replace (size <? 0) with false by lia.
  assert (Ecl' : clen (Regular c1 size len) = m / size) by (cbn [clen]; replace (size =? 0) with false by lia; reflexivity).
  rewrite Ecl'.
  assert (Hlo : len <= m / size) by (apply Z.div_le_lower_bound; lia).
  assert (Hhi : m / size <= k).
  { unfold k, efflen. rewrite Ecl. rewrite Hec in Hb. destruct t as [j|].
    - apply Z.div_le_upper_bound; lia.
    - apply Z.div_le_mono; lia. }
  split; [reflexivity|]. split; [lia|]. split.
  - rewrite to_list_Regular, Hl1. cbn [bind]. unfold chunks.
    replace (size <? 0) with false by lia. replace (size =? 0) with false by lia. cbn [rmap]. f_equal.
    assert (Hzm : zlen (take m cvs) = m) by (rewrite zlen_take_min; lia).
    rewrite Hzm. rewrite <- map_take. f_equal. unfold take at 2.
    apply chunks_nat_prefix; [exact Hs'| | |].
    + apply Z2Nat.inj_le; [lia|apply Z.div_pos; lia|]. apply Z.div_le_mono; lia.
    + rewrite Z2Nat.id by lia. pose proof (Z.mul_div_le m size Hs'). lia.
    + lia.
  - cbn [resets]. rewrite E0. cbn [negb andb]. intros Hres. specialize (Hr Hres). fold m in Hr. rewrite Hr, Hec. unfold k, efflen. rewrite Ecl.
    destruct t as [j|]; [apply Z.div_mul; lia|reflexivity].
Qed.

Lemma rt_ByteMasked m vw c : rt_at c -> rt_at (ByteMasked m vw c).
Proof.
  intros IH p t len vs HV Hf Ht Hlen Hvs.
  cbn [frag16] in Hf. apply andb_true_iff in Hf as [Hfc Hres].
  apply Valid_ByteMasked_inv in HV as (Hmc & _ & Hc).
  rewrite to_list_ByteMasked in Hvs. apply bind_Ok in Hvs as (cvs & Hcvs & Hvs).
  destruct (to_list_clen c cvs Hcvs) as [Hzc Hc0].
  set (k := efflen t (ByteMasked m vw c)) in *.
  assert (Hk : 0 <= k <= zlen m) by (unfold k, efflen, trim_ok in *; cbn [clen] in *; pose proof (zlen_nonneg m); destruct t; lia).
  assert (Em : trim t m = take k m) by (apply trim_as_take; unfold k, efflen; cbn [clen]; [intros ->; reflexivity|intros j ->; reflexivity]).
  set (m' := take k m) in *.
  assert (Hzm : zlen m' = k) by (unfold m'; rewrite zlen_take_min; lia).
  assert (Htc : trim_ok t c) by (unfold trim_ok, k, efflen in *; cbn [clen] in *; destruct t; [lia|exact I]).
  assert (Hec : k <= efflen t c <= clen c) by (unfold k, efflen, trim_ok in *; cbn [clen] in *; destruct t; lia).
  destruct (IH None t len cvs Hc Hfc Htc ltac:(lia) Hcvs) as (c1 & Hof & Hb & Hl1 & Hr). specialize (Hr Hres).
  exists (ByteMasked m' vw c1). cbn [to_ftree of_ftree]. rewrite Em. fold m'.
  replace (zlen m' <? len) with false by (unfold k, efflen in *; cbn [clen] in *; lia).
  rewrite Hof. cbn [bind]. replace (clen c1 <? zlen m') with false by lia.
  split; [reflexivity|]. cbn [clen]. split; [lia|]. split; [|intros _; lia].
  rewrite to_list_ByteMasked, Hl1. cbn [bind]. rewrite Hzm.
  assert (Ez : zip (iota k) m' = take k (zip (iota (zlen m)) m)).
  { unfold m'. rewrite <- (iota_take (zlen m) k) by lia. apply zip_take. }
  rewrite <- (mapM_take _ _ _ k Hvs). rewrite <- Ez. apply mapM_ext_in. intros [i b] Hin.
  apply zip_In in Hin as [Hi _]. apply iota_In' in Hi.
  unfold pick_opt. destruct (Bool.eqb _ _); [|reflexivity]. apply get_take. lia.
Qed.

(* ---------------------------------------------------------------- bit masks *)
Lemma zlen_byte_bits lsb b : zlen (byte_bits lsb b) = 8.
Proof. unfold byte_bits. rewrite zlen_map. reflexivity. Qed.
Lemma zlen_unpack lsb m : zlen (unpack_bits lsb m) = 8 * zlen m.
Proof.
  induction m as [|b m IH]; [reflexivity|]. unfold unpack_bits in *. cbn [flat_map]. rewrite zlen_app, zlen_byte_bits, IH, zlen_cons. lia.
Qed.
Lemma get_unpack lsb : forall m i, 0 <= i < 8 * zlen m ->
  get (unpack_bits lsb m) i = do b <- bit_at m lsb i; Ok (if b : bool then 1 else 0).
Proof.
  induction m as [|byte m IH]; intros i Hi; [change (zlen (@nil Z)) with 0 in Hi; lia|].
  unfold unpack_bits. cbn [flat_map]. fold (unpack_bits lsb m). rewrite zlen_cons in Hi. unfold bit_at.
  destruct (i <? 8) eqn:E.
  - rewrite get_app1 by (rewrite zlen_byte_bits; lia). replace (i / 8) with 0 by (symmetry; apply Z.div_small; lia).
    rewrite get_cons_0. cbn [bind]. rewrite Z.mod_small by lia. unfold byte_bits. rewrite get_map, get_iota by lia. reflexivity.
  - rewrite get_app2 by (rewrite zlen_byte_bits; lia). rewrite zlen_byte_bits. rewrite IH by lia. unfold bit_at.
    replace (i / 8) with ((i - 8) / 8 + 1) by (replace i with ((i - 8) + 1 * 8) at 2 by lia; rewrite Z.div_add by lia; reflexivity).
    rewrite get_cons_S by (apply Z.div_pos; lia).
    replace (i mod 8) with ((i - 8) mod 8) by (replace i with ((i - 8) + 1 * 8) at 2 by lia; rewrite Z.mod_add by lia; reflexivity).
    reflexivity.
Qed.

Lemma rt_BitMasked m vw lsb n c : rt_at c -> rt_at (BitMasked m vw lsb n c).
Proof.
  intros IH p t len vs HV Hf Ht Hlen Hvs.
  cbn [frag16] in Hf. apply andb_true_iff in Hf as [Hfc Hres].
  apply Valid_BitMasked_inv in HV as (Hn0 & Hnm & Hnc & _ & Hc).
  rewrite to_list_BitMasked in Hvs. apply bind_Ok in Hvs as (cvs & Hcvs & Hvs). replace (n <? 0) with false in Hvs by lia.
  destruct (to_list_clen c cvs Hcvs) as [Hzc Hc0].
  unfold rt_concl. destruct t as [k|]; unfold efflen, trim_ok in *; cbn [clen] in *.
  - (* a range slice: the node becomes a ByteMaskedArray over the unpacked bits *)
    set (m' := take k (take n (unpack_bits lsb m))).
    assert (Hm' : m' = take k (unpack_bits lsb m)) by (unfold m'; apply take_take; lia).
    assert (Hzm : zlen m' = k) by (rewrite Hm', zlen_take_min, zlen_unpack; lia).
    destruct (IH None (Some k) len cvs Hc Hfc ltac:(cbn; lia) ltac:(cbn; lia) Hcvs) as (c1 & Hof & Hb & Hl1 & Hr).
    specialize (Hr Hres). cbn [efflen] in Hb, Hr.
    exists (ByteMasked m' vw c1). cbn [to_ftree of_ftree]. fold m'.
    replace (zlen m' <? len) with false by lia. rewrite Hof. cbn [bind]. replace (clen c1 <? zlen m') with false by lia.
    split; [reflexivity|]. cbn [clen resets]. split; [lia|]. split; [|discriminate].
    rewrite to_list_ByteMasked, Hl1. cbn [bind]. rewrite Hzm, Hr.
    rewrite <- (mapM_take _ _ _ k Hvs). rewrite iota_take by lia. symmetry.
    apply mapM_pointwise_eq; [rewrite zlen_zip, Hzm, zlen_iota by lia; lia|].
    intros j Hj. rewrite zlen_iota in Hj by lia. rewrite get_zip, get_iota by (rewrite ?zlen_iota, ?Hzm by lia; lia).
    cbn [bind]. rewrite Hm', get_take by lia. rewrite get_unpack by lia.
    destruct (bit_at m lsb j) as [b|e]; [|reflexivity]. cbn [bind].
    unfold pick_opt. replace (Bool.eqb (negb ((if b then 1 else 0) =? 0)) vw) with (Bool.eqb b vw) by (destruct b; reflexivity).
    destruct (Bool.eqb b vw); [|reflexivity]. symmetry. apply get_take. lia.
  - destruct (IH None None len cvs Hc Hfc I ltac:(cbn; lia) Hcvs) as (c1 & Hof & Hb & Hl1 & _). cbn [efflen] in Hb.
    exists (BitMasked m vw lsb len c1). cbn [to_ftree of_ftree]. rewrite Hof. cbn [bind].
    replace (zlen m * 8 <? len) with false by lia. replace (clen c1 <? len) with false by lia.
    split; [reflexivity|]. cbn [clen resets]. split; [lia|]. split; [|discriminate].
    rewrite to_list_BitMasked, Hl1. cbn [bind]. replace (len <? 0) with false by lia.
    rewrite <- (mapM_take _ _ _ len Hvs). rewrite iota_take by lia. apply mapM_ext_in. intros i Hi. apply iota_In' in Hi.
    destruct (bit_at m lsb i) as [b|e]; [|reflexivity]. cbn [bind]. unfold pick_opt. destruct (Bool.eqb b vw); [|reflexivity].
    apply get_take. lia.
Qed.

(* ---------------------------------------------------------------- records *)
Definition col_prefix (len : Z) (col1 col : list value) : Prop := exists m, len <= m /\ col1 = take m col.

Lemma rt_fields cs t' len : Forall rt_at cs -> forall vss,
  Forall (Valid None) cs -> forallb frag16 cs = true -> Forall (fun x => trim_ok t' x /\ 0 <= len <= efflen t' x) cs ->
  mapM to_list cs = Ok vss ->
  exists cs1 vss1, of_all_rec false (to_ftree_all cs t') len = Ok cs1 /\ Forall (fun c1 => len <= clen c1) cs1 /\
                   mapM to_list cs1 = Ok vss1 /\ Forall2 (col_prefix len) vss1 vss.
Proof.
  induction 1 as [|x xs Hx _ IH]; intros vss HV Hf Ht Hvss.
  - cbn in Hvss. injection Hvss as <-. exists [], []. cbn. repeat split; constructor.
  - cbn [mapM] in Hvss. apply bind_Ok in Hvss as (v & Hv & Hvss). apply bind_Ok in Hvss as (vs' & Hvs' & Hvss). injection Hvss as <-.
    inversion HV as [|? ? HVx HVxs]; subst. cbn [forallb] in Hf. apply andb_true_iff in Hf as [Hfx Hfxs].
    inversion Ht as [|? ? [Htx Hlx] Htxs]; subst.
    destruct (Hx None t' len v HVx Hfx Htx Hlx Hv) as (c1 & Hof & Hb & Hl1 & _).
    destruct (IH vs' HVxs Hfxs Htxs Hvs') as (cs1 & vss1 & Hofs & Hbs & Hls & HF2).
    exists (c1 :: cs1), (take (clen c1) v :: vss1). cbn [to_ftree_all of_all_rec mapM]. rewrite Hof, Hofs, Hl1, Hls. cbn [bind].
    repeat split.
    + constructor; [lia|exact Hbs].
    + constructor; [|exact HF2]. exists (clen c1). split; [lia|reflexivity].
Qed.

Lemma cols_get len vss1 vss i : Forall2 (col_prefix len) vss1 vss -> i < len ->
  mapM (fun col : list value => get col i) vss1 = mapM (fun col : list value => get col i) vss.
Proof.
  induction 1 as [|c1 c l1 l (m & Hm & ->) _ IH]; intros Hi; [reflexivity|].
  cbn [mapM]. rewrite get_take by lia. rewrite (IH Hi). reflexivity.
Qed.

Lemma rt_Record cs ks n : Forall rt_at cs -> rt_at (Record cs ks n).
Proof.
  intros IH p t len vs HV Hf Ht Hlen Hvs.
  cbn [frag16] in Hf. rewrite frag16_all in Hf.
  apply Valid_Record_inv in HV as (Hn & Hlens & Hcs).
  rewrite to_list_Record, all_lists_mapM in Hvs. apply bind_Ok in Hvs as (vss & Hvss & Hvs).
  replace (n <? 0) with false in Hvs by lia.
  set (k := efflen t (Record cs ks n)) in *.
  assert (Hk : 0 <= len <= k /\ k <= n) by (unfold k, efflen, trim_ok in *; cbn [clen] in *; destruct t; lia).
  set (t' := rec_trim ks n t).
  assert (Ht' : Forall (fun x => trim_ok t' x /\ 0 <= len <= efflen t' x) cs).
  { apply Forall_forall. intros x Hin. rewrite Forall_forall in Hlens. specialize (Hlens x Hin).
    unfold t', rec_trim, trim_ok, k in *. unfold efflen in *. cbn [clen] in *.
    destruct ks; destruct t as [j|]; try destruct (j =? n) eqn:E; cbn; lia. }
  destruct (rt_fields cs t' len IH vss Hcs Hf Ht' Hvss) as (cs1 & vss1 & Hof & Hb & Hl1 & HF2).
  exists (Record cs1 ks len). rewrite to_ftree_Record, of_ftree_Record. fold t'. rewrite Hof. cbn [bind].
  assert (Hres : match cs1 with
                 | [] => if len <? 0 then Err EValue else Ok (Record [] ks len)
                 | c0 :: rest => if min_list (clen c0) (map clen rest) <? len then Err EValue
                                 else if len <? 0 then Err EValue else Ok (Record cs1 ks len)
                 end = Ok (Record cs1 ks len)).
  { destruct cs1 as [|c0 rest]; [replace (len <? 0) with false by lia; reflexivity|].
    inversion Hb as [|? ? Hc0 Hrest]; subst.
    assert (len <= min_list (clen c0) (map clen rest)).
    { apply min_list_ge; [exact Hc0|]. apply Forall_forall. intros z Hz. apply in_map_iff in Hz as (y & <- & Hy).
      rewrite Forall_forall in Hrest. exact (Hrest y Hy). }
    replace (min_list (clen c0) (map clen rest) <? len) with false by lia. replace (len <? 0) with false by lia. reflexivity. }
  rewrite Hres. split; [reflexivity|]. cbn [clen]. split; [lia|]. split; [|cbn [resets]; discriminate].
  rewrite to_list_Record, all_lists_mapM, Hl1. cbn [bind]. replace (len <? 0) with false by lia.
  rewrite <- (mapM_take _ _ _ len Hvs). rewrite iota_take by lia.
  apply mapM_ext_in. intros i Hi. apply iota_In' in Hi. unfold row. rewrite (cols_get len vss1 vss i HF2) by lia. reflexivity.
Qed.

(* ---------------------------------------------------------------- unions *)
Lemma frag16_union_all cs :
  (fix all (l : list content) : bool := match l with [] => true | x :: xs => frag16 x && resets x && all xs end) cs =
  forallb (fun x => frag16 x && resets x) cs.
Proof. induction cs as [|x xs IH]; [reflexivity|]. cbn [forallb]. rewrite IH. reflexivity. Qed.

Lemma Valid_Union_inv2 p w tg ix cs : Valid p (Union w tg ix cs) ->
  Forall (fun ti : Z * Z => 0 <= fst ti /\ 0 <= snd ti /\ exists lc, get (map clen cs) (fst ti) = Ok lc /\ snd ti < lc) (zip tg ix).
Proof. inversion 1; subst; auto. Qed.

Lemma mine_In tg ix i x : In x (mine tg ix i) -> In (i, x) (zip tg ix).
Proof.
  unfold mine. intros H. apply in_map_iff in H as ([a b] & <- & H). apply filter_In in H as [H E]. cbn [fst snd] in *.
  replace i with a by lia. exact H.
Qed.

Lemma rt_union_children tg ix cs : Forall rt_at cs -> forall i vss,
  Forall (Valid None) cs -> forallb (fun x => frag16 x && resets x) cs = true -> mapM to_list cs = Ok vss -> 0 <= i ->
  (forall j c, nth_error cs j = Some c -> forall x, In x (mine tg ix (i + Z.of_nat j)) -> 0 <= x < clen c) ->
  exists cs1, of_all_un false tg ix (to_ftree_all cs None) i = Ok cs1 /\ mapM to_list cs1 = Ok vss.
Proof.
  induction 1 as [|c cs Hc _ IH]; intros i vss HV Hf Hvss Hi Hb.
  - cbn in Hvss. injection Hvss as <-. exists []. split; reflexivity.
  - cbn [mapM] in Hvss. apply bind_Ok in Hvss as (v & Hv & Hvss). apply bind_Ok in Hvss as (vs' & Hvs' & Hvss). injection Hvss as <-.
    inversion HV as [|? ? HVc HVcs]; subst. cbn [forallb] in Hf. apply andb_true_iff in Hf as [Hfc Hfcs].
    apply andb_true_iff in Hfc as [Hfc Hrc].
    destruct (to_list_clen c v Hv) as [Hzv Hc0].
    set (need := match mine tg ix i with [] => 0 | l' => max_or0 l' + 1 end).
    assert (Hneed : 0 <= need <= clen c).
    { unfold need. destruct (mine tg ix i) as [|x0 r] eqn:E; [lia|]. rewrite <- E.
      assert (Hne : mine tg ix i <> []) by (rewrite E; discriminate).
      pose proof (max_or0_nonempty_in _ Hne) as Hin. specialize (Hb 0%nat c eq_refl (max_or0 (mine tg ix i))).
      rewrite Z.add_0_r in Hb. specialize (Hb Hin). lia. }
    destruct (Hc None None need v HVc Hfc I ltac:(cbn; lia) Hv) as (c1 & Hof & Hbd & Hl1 & Hr). specialize (Hr Hrc). cbn [efflen] in Hr.
    rewrite Hr, take_all in Hl1 by lia.
    destruct (IH (i + 1) vs' HVcs Hfcs Hvs' ltac:(lia)) as (cs1 & Hofs & Hls).
    { intros j c' Hj x Hx. apply (Hb (S j) c' Hj x). replace (i + Z.of_nat (S j)) with (i + 1 + Z.of_nat j) by lia. exact Hx. }
    exists (c1 :: cs1). cbn [to_ftree_all of_all_un mapM]. fold need. rewrite Hof, Hofs, Hl1, Hls. cbn [bind]. split; reflexivity.
Qed.

Lemma rt_Union w tg ix cs : Forall rt_at cs -> rt_at (Union w tg ix cs).
Proof.
  intros IH p t len vs HV Hf Ht Hlen Hvs. unfold rt_concl.
  cbn [frag16] in Hf. rewrite frag16_union_all in Hf.
  pose proof (Valid_Union_inv2 p w tg ix cs HV) as Hti. apply Valid_Union_inv in HV as (Hlti & Hcs).
  rewrite to_list_Union, all_lists_mapM in Hvs. apply bind_Ok in Hvs as (vss & Hvss & Hvs).
  replace (zlen ix <? zlen tg) with false in Hvs by lia.
  set (k := efflen t (Union w tg ix cs)) in *.
  assert (Hk : 0 <= k <= zlen tg) by (unfold k, efflen, trim_ok in *; cbn [clen] in *; pose proof (zlen_nonneg tg); destruct t; lia).
  set (tg' := trim t tg). set (ix' := trim t ix).
  assert (Hztg : zlen tg' = k).
  { unfold tg', k, efflen. destruct t as [j|]; cbn [trim clen]; [|reflexivity]. cbn in Ht. rewrite zlen_take_min; lia. }
  assert (Hzix : k <= zlen ix').
  { unfold ix', k, efflen. destruct t as [j|]; cbn [trim clen]; [|lia]. cbn in Ht. rewrite zlen_take_min; lia. }
  assert (Hzip : zip tg' ix' = take k (zip tg ix)).
  { unfold tg', ix', k, efflen. destruct t as [j|]; cbn [trim clen]; [apply zip_take|].
    rewrite take_all; [reflexivity|]. rewrite zlen_zip. lia. }
  destruct (rt_union_children (take len tg') (take len ix') cs IH 0 vss Hcs Hf Hvss ltac:(lia)) as (cs1 & Hof & Hls).
  { intros j c Hj x Hx. rewrite Z.add_0_l in Hx. apply mine_In in Hx. rewrite zip_take, Hzip in Hx.
    apply In_take in Hx. apply In_take in Hx. rewrite Forall_forall in Hti. destruct (Hti _ Hx) as (_ & Hx0 & lc & Hg & Hlt).
    cbn [fst snd] in *. rewrite get_map in Hg. unfold get in Hg. destruct (Z.of_nat j <? 0) eqn:E; [lia|].
    rewrite Nat2Z.id, Hj in Hg. cbn in Hg. injection Hg as <-. lia. }
  exists (Union w tg' ix' cs1). rewrite to_ftree_Union, of_ftree_Union. fold tg' ix'.
  replace (zlen tg' <? len) with false by (unfold k, efflen in *; cbn [clen] in *; lia).
  replace (zlen ix' <? len) with false by (unfold k, efflen in *; cbn [clen] in *; lia).
  cbv zeta. rewrite Hof. cbn [bind]. replace (zlen ix' <? zlen tg') with false by lia.
  split; [reflexivity|]. cbn [clen]. split; [unfold k, efflen in *; cbn [clen] in *; lia|]. split; [|intros _; lia].
  rewrite to_list_Union, all_lists_mapM, Hls. cbn [bind]. replace (zlen ix' <? zlen tg') with false by lia.
  rewrite Hzip, Hztg. apply mapM_take. exact Hvs.
Qed.

(* ---------------------------------------------------------------- assembling *)
Lemma rt_Unmasked c : rt_at c -> rt_at (Unmasked c).
Proof.
  intros IH p t len vs HV Hf Ht Hlen Hvs. cbn [frag16] in Hf. apply Valid_Unmasked_inv in HV as (_ & Hc).
  rewrite to_list_Unmasked in Hvs.
  destruct (IH None t len vs Hc Hf Ht Hlen Hvs) as (c1 & Hof & Hb & Hl1 & Hr).
  exists (Unmasked c1). cbn [to_ftree of_ftree]. rewrite Hof. cbn [bind]. split; [reflexivity|]. cbn [clen].
  split; [exact Hb|]. split; [rewrite to_list_Unmasked; exact Hl1|exact Hr].
Qed.
Lemma rt_Empty : rt_at Empty.
Proof.
  intros p t len vs _ _ Ht Hlen Hvs. cbn in Hvs. injection Hvs as <-.
  assert (len = 0) by (unfold efflen, trim_ok in *; cbn [clen] in *; destruct t; lia). subst len.
  exists Empty. cbn [to_ftree of_ftree]. split; [reflexivity|]. cbn [clen]. unfold efflen, trim_ok in *. cbn [clen] in *.
  split; [destruct t; lia|]. split; [reflexivity|]. intros _. destruct t; lia.
Qed.

Lemma rt_all c : rt_at c.
Proof.
  induction c using content_ind'.
  - apply rt_Numpy.
  - apply rt_Empty.
  - apply rt_ListOffset; assumption.
  - apply rt_ListA; assumption.
  - apply rt_Regular; assumption.
  - apply rt_Indexed; assumption.
  - apply rt_IndexedOption; assumption.
  - apply rt_ByteMasked; assumption.
  - apply rt_BitMasked; assumption.
  - apply rt_Unmasked; assumption.
  - apply rt_Union; assumption.
  - apply rt_Record; assumption.
  - apply rt_Par; assumption.
Qed.

(** from_buffers(to_buffers(c)) reproduces c on the fragment: it succeeds, and the result has the same value
    (to_list), the same type and the same length.
    FULL STATEMENT (not proved, and false for the pinned code, see [buffers_roundtrip_refuted]):
      forall c, Valid None c -> exists c', from_buffers (to_buffers c) = Ok c' /\ to_list c' = to_list c /\ type_of c' = type_of c.
    [chars_ok]: the character buffers of strings are sound (1-d uint8 data as long as its shape says; Valid does not look
    into them).  Missing from the fragment: NumpyArray with a zero inner dimension, UnionArray whose contents do not come back whole,
    ListArray / ByteMaskedArray / BitMaskedArray whose content is a RecordArray (possibly inside RegularArrays, UnmaskedArrays), offsets
    beyond the content for all-empty lists. *)
Theorem buffers_roundtrip_partial_thm c : Valid None c -> frag16 c = true -> chars_ok c = true ->
  exists c', from_buffers (to_buffers c) = Ok c' /\ to_list c' = to_list c /\ type_of c' = type_of c /\ clen c' = clen c.
Proof.
  intros HV Hf Hch. destruct (valid_to_list_total_partial c None HV Hch) as (vs & Hvs).
  destruct (to_list_clen c vs Hvs) as [Hz Hc].
  destruct (rt_all c None None (clen c) vs HV Hf I ltac:(cbn; lia) Hvs) as (c' & Hof & Hb & Hl & _). cbn [efflen] in Hb.
  exists c'. unfold from_buffers. rewrite from_buffers_is_of_ftree. split; [exact Hof|].
  split; [rewrite Hl, Hvs; f_equal; apply take_all; lia|]. split; [|lia].
  eapply from_buffers_type_thm. rewrite from_buffers_is_of_ftree. exact Hof.
Qed.

(* the fragment is inhabited by non-trivial layouts: offsets not starting at zero, unreachable content, gaps, records *)
Example buffers_roundtrip_ex :
  let c := Record [ListOffset I32 [1; 3; 3; 4] (Numpy DInt64 [6] [DZ 9; DZ 1; DZ 2; DZ 3; DZ 4; DZ 7]);
                   IndexedOption I64 [2; -1; 0] (Regular (Numpy DFloat64 [7] [DZ 1; DZ 2; DZ 3; DZ 4; DZ 5; DZ 6; DNaN]) 2 0);
                   ByteMasked [1; 0; 1; 1] true (ListA U32 [3; 0; 0; 1] [5; 0; 0; 2; 9] (Numpy DUInt8 [5] [DZ 1; DZ 2; DZ 3; DZ 4; DZ 5]));
                   Par (Some AString) None (ListOffset I64 [1; 3; 3; 4; 6] (Par (Some AChar) None (Numpy DUInt8 [6] [DZ 0; DZ 104; DZ 105; DZ 33; DZ 97; DZ 0])))]
                  (Some [[120]; [121]; [122]; [115]]) 3 in
  validb None c = true /\ frag16 c = true /\ chars_ok c = true /\
  exists c', from_buffers (to_buffers c) = Ok c' /\ to_list c' = to_list c /\ c' <> c.
Proof.
  cbv zeta. split; [vm_compute; reflexivity|]. split; [vm_compute; reflexivity|]. split; [vm_compute; reflexivity|].
  eexists. split; [vm_compute; reflexivity|]. split; [vm_compute; reflexivity|]. discriminate.
Qed.

(** The pinned code does not satisfy the full statement: a valid ListOffsetArray over a ByteMaskedArray over a
    RecordArray with unreachable content is refused (the RecordArray comes back with the 3 rows the offsets need, the
    mask keeps its 5 entries: "ByteMaskedArray content must not be shorter than its mask"). *)
Theorem buffers_roundtrip_refuted_thm :
  exists c, Valid None c /\ from_buffers (to_buffers c) = Err EValue /\ exists vs, to_list c = Ok vs.
Proof.
  exists (ListOffset I64 [0; 2; 3]
            (ByteMasked [1; 1; 0; 1; 1] true (Record [Numpy DInt64 [5] [DZ 0; DZ 1; DZ 2; DZ 3; DZ 4]] (Some [[120]]) 5))).
  split; [apply validity_exact_gen; vm_compute; reflexivity|]. split; [vm_compute; reflexivity|].
  eexists. vm_compute. reflexivity.
Qed.

(** With the proposed repair (children are asked for what the whole rebuilt parent indexes: [fixed] = true) the same
    layout comes back with its value. *)
Example buffers_roundtrip_fixed_ex :
  let c := ListOffset I64 [0; 2; 3]
             (ByteMasked [1; 1; 0; 1; 1] true (Record [Numpy DInt64 [5] [DZ 0; DZ 1; DZ 2; DZ 3; DZ 4]] (Some [[120]]) 5)) in
  exists c', from_buffers_gen true (to_buffers c) = Ok c' /\ to_list c' = to_list c.
Proof. eexists. split; vm_compute; reflexivity. Qed.

(* every node class occurs in the fragment *)
Example buffers_roundtrip_all_nodes_ex :
  let c := Record [Union I32 [1; 0; 1; 0] [0; 1; 2; 0; 7]
                     [Numpy DFloat64 [3; 2] [DZ 1; DZ 2; DZ 3; DZ 4; DZ 5; DZ 6; DNaN];
                      ListOffset U32 [2; 2; 3; 5; 5] (Numpy DInt8 [6] [DZ 9; DZ 8; DZ 7; DZ 6; DZ 5; DZ 4])];
                   BitMasked [5; 255] true false 3 (ListOffset I64 [0; 0; 1; 1; 2] (Indexed I64 [1; 0] (Numpy DBool [2] [DZ 1; DZ 0])));
                   Unmasked (Regular Empty 0 4);
                   Regular (IndexedOption I32 [-1; 0] (Numpy DInt16 [1] [DZ 5])) 0 7;
                   BitMasked [6] false true 4 (ListA I64 [1; 0; 0; 2] [2; 0; 0; 3] (Numpy DInt64 [3] [DZ 1; DZ 2; DZ 3]))]
                  None 3 in
  validb None c = true /\ frag16 c = true /\ chars_ok c = true /\
  exists c', from_buffers (to_buffers c) = Ok c' /\ to_list c' = to_list c /\ c' <> c /\ exists vs, to_list c = Ok vs.
Proof.
  cbv zeta. split; [vm_compute; reflexivity|]. split; [vm_compute; reflexivity|]. split; [vm_compute; reflexivity|].
  eexists. split; [vm_compute; reflexivity|]. split; [vm_compute; reflexivity|]. split; [discriminate|].
  eexists. vm_compute. reflexivity.
Qed.
