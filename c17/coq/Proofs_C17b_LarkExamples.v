(** C17: examples for the theorems of Proofs_C17b_Lark.v, and the OPEN findings lark-* of known_findings.json as
    refutations: printed types the repository's parser (model Lark.v) does not bring back in either mode.
    Every string used here is in /verif/.build/c17b_lark/hand.txt and agrees with the oracle (larkvote.py). *)
From Coq Require Import ZArith List Bool String.
From AwkV Require Import Base Layout.
From AwkTypes Require Import Json Forms TypeStr Lark Proofs_C17b_Lark.
Import ListNotations.
Open Scope Z_scope.

Definition i64 := RNum [] [] (FD DInt64).
Definition b1 := RNum [] [] (FD DBool).
Definition named (w : string) (ks : option (list bytes)) (l : list rty) := RRec [(k_record, JStr (bs w))] [] ks l.

(* ---------------------------------------------------------------- the theorems on non-trivial types *)
(* low-level mode: var * union[?{"x": 3 * float64, "y": string}, (int64, bool), unknown] *)
Definition ex_ll : rty :=
  RList [] [] (RUnion [] [] [ROpt [] [] (RRec [] [] (Some [bs "x"; bs "y"]) [RReg [] [] 3 (RNum [] [] (FD DFloat64)); t_string]);
                             RRec [] [] None [i64; b1]; RUnk [] []]).
(* high-level mode: var * Point["x": option[var * float64], "tag": union[bytes, ?pt["t": int8]]] *)
Definition ex_hl : rty :=
  RList [] [] (named "Point" (Some [bs "x"; bs "tag"])
                 [ROpt [] [] (RList [] [] (RNum [] [] (FD DFloat64)));
                  RUnion [] [] [t_bytes; ROpt [] [] (named "pt" (Some [bs "t"]) [RNum [] [] (FD DInt8)])]]).

Example ex_ll_ok : lark_ok false ex_ll = true /\ lark_ok true ex_ll = false.
Proof. split; vm_compute; reflexivity. Qed.
Example ex_hl_ok : lark_ok true ex_hl = true /\ lark_ok false ex_hl = false.
Proof. split; vm_compute; reflexivity. Qed.
Example ex_ll_roundtrip : lark_parse false (type_tostring ex_ll) = Ok ex_ll.
Proof. apply lark_roundtrip. vm_compute. reflexivity. Qed.
Example ex_hl_roundtrip : lark_parse true (type_tostring ex_hl) = Ok ex_hl.
Proof. apply lark_roundtrip. vm_compute. reflexivity. Qed.
Example ex_ll_other_mode : lark_parse true (type_tostring ex_ll) = Err EOob.        (* ArrayType inside *)
Proof. vm_compute. reflexivity. Qed.
Example ex_hl_other_mode : lark_parse false (type_tostring ex_hl) = Err EValue.     (* assert high_level *)
Proof. vm_compute. reflexivity. Qed.
Example ex_ll_reference : lark_parse false (type_tostring ex_ll) = type_parse (type_tostring ex_ll).
Proof. apply lark_agrees_with_reference. vm_compute. reflexivity. Qed.
Example ex_hl_printable : printable ex_hl = true.
Proof. apply (lark_ok_printable true). vm_compute. reflexivity. Qed.
Example ex_some_mode : lark_parse false (type_tostring ex_hl) = Ok ex_hl \/ lark_parse true (type_tostring ex_hl) = Ok ex_hl.
Proof. apply lark_roundtrip_some_mode. vm_compute. reflexivity. Qed.

(* ---------------------------------------------------------------- the findings *)
Definition not_back (t : rty) : Prop :=
  lark_parse false (type_tostring t) <> Ok t /\ lark_parse true (type_tostring t) <> Ok t.
Ltac refute := split; vm_compute; intros H; discriminate H.

(* signature lark-empty-record-or-union: (), {}, union[], Name[] *)
Example lark_empty_record_or_union_refuted :
  printable (RRec [] [] None []) = true /\ not_back (RRec [] [] None []) /\
  not_back (RRec [] [] (Some []) []) /\ not_back (RUnion [] [] []) /\ not_back (named "Name" (Some []) []) /\
  lark_parse false (bs "()") = Err EValue /\ lark_parse true (bs "()") = Err EValue.
Proof. split; [reflexivity|]. repeat (split; [refute|]). split; vm_compute; reflexivity. Qed.

(* signature lark-named-tuple: Pt[int64, bool] *)
Example lark_named_tuple_refuted :
  printable (named "Pt" None [i64; b1]) = true /\ not_back (named "Pt" None [i64; b1]) /\
  lark_parse true (bs "Pt[int64, bool]") = Err EValue.
Proof. split; [reflexivity|]. split; [refute|vm_compute; reflexivity]. Qed.

(* signature lark-record-name-charset: Vec3["x": int64], P_1["x": int64] *)
Example lark_record_name_charset_refuted :
  printable (named "Vec3" (Some [bs "x"]) [i64]) = true /\ not_back (named "Vec3" (Some [bs "x"]) [i64]) /\
  not_back (named "P_1" (Some [bs "x"]) [i64]) /\
  lark_parse true (bs "Vec3[""x"": int64]") = Err EValue.
Proof. split; [reflexivity|]. split; [refute|]. split; [refute|vm_compute; reflexivity]. Qed.

(* signature lark-string-escapes-not-decoded: {"a\"b": int64} comes back with the key a\"b (4 bytes) *)
Example lark_string_escapes_not_decoded_refuted :
  printable (RRec [] [] (Some [[97; 34; 98]]) [i64]) = true /\ not_back (RRec [] [] (Some [[97; 34; 98]]) [i64]) /\
  lark_parse false (type_tostring (RRec [] [] (Some [[97; 34; 98]]) [i64])) = Ok (RRec [] [] (Some [[97; 92; 34; 98]]) [i64]).
Proof. split; [reflexivity|]. split; [refute|vm_compute; reflexivity]. Qed.

(* signature lark-dtype-not-in-grammar: float16 float128 complex64 complex128 complex256 datetime64 timedelta64 *)
Example lark_dtype_not_in_grammar_refuted :
  printable (RNum [] [] FFloat16) = true /\
  Forall (fun dt => not_back (RNum [] [] dt) /\ lark_parse false (dtype_to_name dt) = Err EValue)
         [FFloat16; FFloat128; FComplex64; FComplex128; FComplex256; FDatetime64; FTimedelta64].
Proof. split; [reflexivity|]. repeat (apply Forall_cons; [split; [refute|vm_compute; reflexivity]|]). apply Forall_nil. Qed.

(* signature lark-highlevel-turns-regular-into-arraytype: option[3 * var * int64] needs high_level (option[...]) and
   low level (N * T) at once; 3 * int64 alone is an ArrayType in high-level mode *)
Example lark_highlevel_turns_regular_into_arraytype_refuted :
  printable (ROpt [] [] (RReg [] [] 3 (RList [] [] i64))) = true /\
  not_back (ROpt [] [] (RReg [] [] 3 (RList [] [] i64))) /\
  lark_parse false (bs "option[3 * var * int64]") = Err EValue /\
  lark_parse true (bs "option[3 * var * int64]") = Err EOob /\
  lark_parse true (bs "3 * int64") = Err EOob /\ lark_parse false (bs "3 * int64") = Ok (RReg [] [] 3 i64).
Proof. split; [reflexivity|]. split; [refute|]. repeat split; vm_compute; reflexivity. Qed.

(* signature lark-parameters: "__categorical__": false is a parameter the printer hides (int64[parameters={}] reads back
   without it); 1e30 is read with int("1e30") *)
Example lark_parameters_refuted :
  not_back (RNum [(k_categorical, JBool false)] [] (FD DInt64)) /\
  lark_parse false (type_tostring (RNum [(k_categorical, JBool false)] [] (FD DInt64))) = Ok i64 /\
  not_back (RNum [(bs "a", JDbl (bs "1e30"))] [] (FD DInt64)) /\
  lark_parse false (bs "int64[parameters={""a"": 1e30}]") = Err EValue /\
  lark_parse true (bs "int64[parameters={""a"": 1e30}]") = Err EValue.
Proof. split; [refute|]. split; [vm_compute; reflexivity|]. split; [refute|]. split; vm_compute; reflexivity. Qed.

(* signature lark-other: a record named like a keyword of the grammar (byte["c": int8]); the printer is not injective:
   a tuple-record named "union" prints like a UnionType *)
Example lark_other_refuted :
  not_back (named "byte" (Some [bs "c"]) [RNum [] [] (FD DInt8)]) /\
  type_tostring (named "byte" (Some [bs "c"]) [RNum [] [] (FD DInt8)]) = bs "byte[""c"": int8]" /\
  lark_parse true (bs "byte[""c"": int8]") = Err EValue /\
  not_back (named "union" None [i64; b1]) /\
  lark_parse false (type_tostring (named "union" None [i64; b1])) = Ok (RUnion [] [] [i64; b1]).
Proof. split; [refute|]. split; [vm_compute; reflexivity|]. split; [vm_compute; reflexivity|]. split; [refute|vm_compute; reflexivity]. Qed.

(* signature lark-typestr-hides-node-class: the word "string" printed for a primitive node carrying __array__ = "string"
   reads back as the list-of-char type *)
Example lark_typestr_hides_node_class_refuted :
  not_back (RNum [(k_array, JStr s_string)] p_string (FD DUInt8)) /\
  type_tostring (RNum [(k_array, JStr s_string)] p_string (FD DUInt8)) = p_string /\
  lark_parse false p_string = Ok t_string.
Proof. split; [refute|]. split; vm_compute; reflexivity. Qed.

(* ---------------------------------------------------------------- (c) the fragment is not needlessly small: each
   condition of [lark_ok] is violated by a printable type that does not come back in that mode *)
Example lark_ok_tight_regular_hl : lark_parse true (type_tostring (RReg [] [] 3 i64)) = Err EOob.
Proof. vm_compute. reflexivity. Qed.
Example lark_ok_tight_negative_size : printable (RReg [] [] (-3) i64) = false /\
  lark_parse false (type_tostring (RReg [] [] (-3) i64)) = Ok (RReg [] [] (-3) i64).   (* outside printable only *)
Proof. split; vm_compute; reflexivity. Qed.
Example lark_ok_tight_option_ll : lark_parse false (type_tostring (ROpt [] [] (RList [] [] i64))) = Err EValue.
Proof. vm_compute. reflexivity. Qed.
Example lark_ok_tight_named_ll : lark_parse false (type_tostring (named "Vec" (Some [bs "x"]) [i64])) = Err EValue.
Proof. vm_compute. reflexivity. Qed.
Example lark_ok_tight_key_control : printable (RRec [] [] (Some [[10]]) [i64]) = true /\
  lark_parse false (type_tostring (RRec [] [] (Some [[10]]) [i64])) = Ok (RRec [] [] (Some [[92; 110]]) [i64]).
Proof. split; vm_compute; reflexivity. Qed.
Example lark_ok_tight_key_backslash : printable (RRec [] [] (Some [[92]]) [i64]) = true /\
  lark_parse false (type_tostring (RRec [] [] (Some [[92]]) [i64])) = Err EValue.      (* "\\" is not a Lark string *)
Proof. split; vm_compute; reflexivity. Qed.
Example lark_ok_tight_name_keyword_prefix : printable (named "variable" (Some [bs "x"]) [i64]) = true /\
  lark_parse true (type_tostring (named "variable" (Some [bs "x"]) [i64])) = Err EValue /\
  lark_parse true (type_tostring (named "stringy" (Some [bs "x"]) [i64])) = Err EValue.
Proof. repeat split; vm_compute; reflexivity. Qed.
(* a member of a union whose name starts with "parameters" is lexed as the keyword *)
Example lark_ok_tight_name_parameters :
  lark_parse true (type_tostring (RUnion [] [] [i64; named "parametersX" (Some [bs "x"]) [i64]])) = Err EValue /\
  lark_parse true (type_tostring (named "parametersX" (Some [bs "x"]) [i64])) = Ok (named "parametersX" (Some [bs "x"]) [i64]).
Proof. split; vm_compute; reflexivity. Qed.
(* the one place where [lark_ok] is smaller than necessary: a name that is a proper prefix of a keyword ("in" of
   "int8") is excluded by [lname_ok] although the parser accepts it *)
Example lark_ok_not_exact_name_prefix_of_keyword :
  lname_ok (bs "in") = false /\
  lark_parse true (type_tostring (named "in" (Some [bs "x"]) [i64])) = Ok (named "in" (Some [bs "x"]) [i64]).
Proof. split; vm_compute; reflexivity. Qed.

(* the statements exposed in Props, on printed types *)
Example lark_highlevel_arraytype_both_modes :
  lark_parse false (type_tostring (ROpt [] [] (RReg [] [] 3 (RList [] [] (RNum [] [] (FD DInt64)))))) = Err EValue /\
  lark_parse true (type_tostring (ROpt [] [] (RReg [] [] 3 (RList [] [] (RNum [] [] (FD DInt64)))))) = Err EOob.
Proof. split; vm_compute; reflexivity. Qed.

(* the second alternative of the string terminal: the two characters backslash-apostrophe are a string token whose
   value is empty, so {\': int64} is accepted and is the record {"": int64} (checked against the oracle) *)
Example lark_backslash_apostrophe_key :
  lark_parse false [123; 92; 39; 58; 32; 105; 110; 116; 54; 52; 125] = Ok (RRec [] [] (Some [[]]) [RNum [] [] (FD DInt64)]).
Proof. vm_compute. reflexivity. Qed.
