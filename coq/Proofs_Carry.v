(** T3: [carry] (gather by index) indexes the value; [crange] slices it. *)
From Coq Require Import ZArith List Bool Lia ZifyBool.
From AwkV Require Import Base Layout LayoutInd Valid Types Carry Typing Proofs_Typing Proofs_Lists Proofs_ToList.
Import ListNotations.
Open Scope Z_scope.

(* ---------------------------------------------------------------- more list lemmas *)
(* two mapM's over lists of equal length agree if they agree position by position *)
Lemma mapM_pointwise_eq {A A' B} (F : A -> res B) (F' : A' -> res B) l l' :
  zlen l = zlen l' ->
  (forall j, 0 <= j < zlen l -> (do x <- get l j; F x) = (do x' <- get l' j; F' x')) ->
  mapM F l = mapM F' l'.
Proof.
  revert l'. induction l as [|a l IH]; intros [|a' l'] Hlen Hp.
  - reflexivity.
  - rewrite zlen_cons, zlen_nil in Hlen. pose proof (zlen_nonneg l'). lia.
  - rewrite zlen_cons, zlen_nil in Hlen. pose proof (zlen_nonneg l). lia.
  - rewrite !zlen_cons in Hlen. pose proof (zlen_nonneg l).
    cbn [mapM]. assert (H0 := Hp 0). rewrite zlen_cons in H0. cbn in H0. rewrite H0 by lia.
    rewrite (IH l'); [reflexivity|lia|]. intros j Hj. specialize (Hp (j + 1)). rewrite zlen_cons in Hp.
    rewrite !get_cons_S in Hp by lia. apply Hp. lia.
Qed.

Lemma gather_iota n ix : Forall (fun i => 0 <= i < n) ix -> mapM (get (iota n)) ix = Ok ix.
Proof.
  induction 1 as [|i ix Hi _ IH]; [reflexivity|]. cbn [mapM]. rewrite get_iota by lia. rewrite IH. reflexivity.
Qed.

Lemma mapM_guard {A} (P : Z -> bool) (h : Z -> A) e ix :
  Forall (fun i => P i = true) ix -> mapM (fun i => if P i then Ok (h i) else Err e) ix = Ok (map h ix).
Proof.
  induction 1 as [|i ix Hi _ IH]; [reflexivity|]. cbn [mapM map]. rewrite Hi, IH. reflexivity.
Qed.
Lemma mapM_guard_res {A} (P : Z -> bool) (h : Z -> res A) e ix :
  Forall (fun i => P i = true) ix -> mapM (fun i => if P i then h i else Err e) ix = mapM h ix.
Proof. intros H. apply mapM_ext_in. intros i Hi. rewrite Forall_forall in H. rewrite (H i Hi). reflexivity. Qed.

Lemma zlen_concat_const {A} (ls : list (list A)) size :
  Forall (fun l => zlen l = size) ls -> zlen (concat ls) = zlen ls * size.
Proof.
  induction 1 as [|l ls Hl _ IH]; [reflexivity|]. cbn [concat]. rewrite zlen_app, zlen_cons, IH, Hl. ring.
Qed.

(* take / drop across an append *)
Lemma take_app_le {A} (l m : list A) n : 0 <= n <= zlen l -> take n (l ++ m) = take n l.
Proof.
  intros H. unfold take. rewrite firstn_app. replace (Z.to_nat n - length l)%nat with O by (unfold zlen in H; lia).
  cbn. apply app_nil_r.
Qed.
Lemma drop_app_le {A} (l m : list A) n : 0 <= n <= zlen l -> drop n (l ++ m) = drop n l ++ m.
Proof.
  intros H. unfold drop. rewrite skipn_app. replace (Z.to_nat n - length l)%nat with O by (unfold zlen in H; lia).
  reflexivity.
Qed.

Lemma skipn_skipn' {A} (l : list A) n m : skipn n (skipn m l) = skipn (m + n) l.
Proof.
  revert l. induction m as [|m IH]; intros l; [reflexivity|]. destruct l; cbn [skipn Nat.add].
  - destruct n; reflexivity.
  - apply IH.
Qed.
Lemma drop_drop {A} (l : list A) a b : 0 <= a -> 0 <= b -> drop a (drop b l) = drop (b + a) l.
Proof. intros Ha Hb. unfold drop. rewrite skipn_skipn'. f_equal. lia. Qed.

(* ---------------------------------------------------------------- chunks *)
Lemma chunks_nat_get {A} d : 0 < d -> forall k (vs : list A) i,
  Z.of_nat k * d <= zlen vs -> 0 <= i < Z.of_nat k ->
  get (chunks_nat vs d k) i = Ok (take d (drop (i * d) vs)).
Proof.
  intros Hd. induction k as [|k IH]; intros vs i Hk Hi; [lia|].
  cbn [chunks_nat]. destruct (Z.eq_dec i 0) as [->|Hn].
  - reflexivity.
  - rewrite get_cons_pos by lia. rewrite IH; [|rewrite zlen_drop; nia|lia].
    rewrite drop_drop by nia. do 3 f_equal. nia.
Qed.

Lemma chunks_get {A} (vs : list A) size zl ch i :
  chunks vs size zl = Ok ch -> 0 <= i < zlen ch -> get ch i = slice vs (i * size) ((i + 1) * size).
Proof.
  intros H Hi. pose proof (chunks_zlen _ _ _ _ H) as [Hs Hz]. unfold chunks in H.
  destruct (size <? 0) eqn:E0; [discriminate|]. destruct (size =? 0) eqn:E1.
  - destruct (zl <? 0) eqn:E2; [discriminate|]. rewrite Hz in Hi. inversion H; subst. apply Z.eqb_eq in E1. subst size.
    rewrite get_map, get_iota by lia. cbn [rmap].
    rewrite !Z.mul_0_r. rewrite slice_ok by (pose proof (zlen_nonneg vs); lia). reflexivity.
  - rewrite Hz in Hi. inversion H; subst. pose proof (zlen_nonneg vs).
    assert (Hq : 0 <= zlen vs / size) by (apply Z.div_pos; lia).
    assert (Hm : size * (zlen vs / size) <= zlen vs) by (apply Z.mul_div_le; lia).
    rewrite chunks_nat_get; [|lia|lia|lia].
    rewrite slice_ok by nia. do 2 f_equal. lia.
Qed.

Lemma chunks_nat_concat {A} (ls : list (list A)) size :
  Forall (fun l => zlen l = size) ls -> chunks_nat (concat ls) size (length ls) = ls.
Proof.
  induction 1 as [|l ls Hl _ IH]; [reflexivity|]. cbn [concat length chunks_nat].
  rewrite take_app_exact, drop_app_exact by exact Hl. rewrite IH. reflexivity.
Qed.
Lemma chunks_concat {A} (ls : list (list A)) size :
  0 <= size -> Forall (fun l => zlen l = size) ls -> chunks (concat ls) size (zlen ls) = Ok ls.
Proof.
  intros Hs HF. unfold chunks. destruct (size <? 0) eqn:E0; [lia|]. destruct (size =? 0) eqn:E1.
  - pose proof (zlen_nonneg ls). destruct (zlen ls <? 0) eqn:E2; [lia|]. f_equal.
    apply Z.eqb_eq in E1. subst size. apply get_ext.
    + rewrite zlen_map, zlen_iota by lia. reflexivity.
    + intros i Hi. rewrite zlen_map, zlen_iota in Hi by lia. rewrite get_map, get_iota by lia. cbn [rmap].
      destruct (get_ok ls i Hi) as [l Hl]. rewrite Hl. f_equal. symmetry. apply zlen_0_nil.
      apply get_In in Hl. rewrite Forall_forall in HF. apply HF, Hl.
  - rewrite (zlen_concat_const _ _ HF), Z.div_mul by lia. unfold zlen. rewrite Nat2Z.id.
    rewrite chunks_nat_concat by exact HF. reflexivity.
Qed.

Lemma chunks_nat_app {A} d (x y : list A) k m :
  0 <= d -> zlen x = Z.of_nat k * d -> chunks_nat (x ++ y) d (k + m) = chunks_nat x d k ++ chunks_nat y d m.
Proof.
  intros Hd. revert x. induction k as [|k IH]; intros x Hx.
  - cbn [Z.of_nat] in Hx. apply zlen_0_nil in Hx. subst x. reflexivity.
  - cbn [Nat.add chunks_nat app]. rewrite take_app_le, drop_app_le by nia. f_equal.
    apply IH. rewrite zlen_drop by nia. nia.
Qed.

Lemma map_const_ext {A B} (b : B) (l l' : list A) : length l = length l' -> map (fun _ => b) l = map (fun _ => b) l'.
Proof. revert l'. induction l; intros [|? l'] H; cbn in *; try discriminate; [reflexivity|]. f_equal. auto. Qed.

Lemma chunks_app {A} (x y : list A) d a b cx cy :
  0 <= a -> 0 <= b -> zlen x = a * d -> zlen y = b * d ->
  chunks x d a = Ok cx -> chunks y d b = Ok cy -> chunks (x ++ y) d (a + b) = Ok (cx ++ cy).
Proof.
  intros Ha Hb Hx Hy. unfold chunks. destruct (d <? 0) eqn:E0; [discriminate|]. destruct (d =? 0) eqn:E1.
  - destruct (a <? 0) eqn:Ea; [discriminate|]. destruct (b <? 0) eqn:Eb; [discriminate|].
    destruct (a + b <? 0) eqn:Eab; [lia|]. intros H1 H2. inversion H1; inversion H2; subst. f_equal.
    rewrite <- map_app. apply map_const_ext. rewrite app_length. unfold iota. rewrite !iota_nat_length'. lia.
  - intros H1 H2. inversion H1; inversion H2; subst. f_equal.
    rewrite zlen_app, Hx, Hy. rewrite !Z.div_mul by lia.
    replace ((a * d + b * d) / d) with (a + b) by (rewrite <- Z.mul_add_distr_r, Z.div_mul; lia).
    rewrite Z2Nat.inj_add by lia. apply chunks_nat_app; lia.
Qed.

(* ---------------------------------------------------------------- nest is a homomorphism on row-aligned blocks *)
Lemma nest_app : forall dims a b u v x y,
  Forall (fun d => 0 <= d) dims -> 0 <= a -> 0 <= b ->
  zlen u = a * prodZ dims -> zlen v = b * prodZ dims ->
  nest dims a u = Ok x -> nest dims b v = Ok y -> nest dims (a + b) (u ++ v) = Ok (x ++ y).
Proof.
  induction dims as [|d ds IH]; intros a b u v x y Hd Ha Hb Hu Hv Hx Hy; cbn [nest] in *.
  - inversion Hx; inversion Hy; subst. reflexivity.
  - inversion Hd as [|? ? Hd0 Hds]; subst. rewrite prodZ_cons in Hu, Hv.
    apply bind_Ok in Hx as (x' & Hx' & Hx). apply bind_Ok in Hx as (cx & Hcx & Hx). inversion Hx; subst.
    apply bind_Ok in Hy as (y' & Hy' & Hy). apply bind_Ok in Hy as (cy & Hcy & Hy). inversion Hy; subst.
    replace ((a + b) * d) with (a * d + b * d) by ring.
    rewrite (IH (a * d) (b * d) u v x' y'); try assumption; try nia.
    cbn [bind].
    assert (Hlx : zlen x' = a * d) by (eapply nest_zlen; [exact Hx'|assumption|nia|nia]).
    assert (Hly : zlen y' = b * d) by (eapply nest_zlen; [exact Hy'|assumption|nia|nia]).
    rewrite (chunks_app x' y' d a b cx cy) by assumption. cbn [bind]. rewrite map_app. reflexivity.
Qed.

(* the i-th row of an n-d leaf comes from the i-th block of the flat data *)
Lemma nest_get dims n w vs i :
  Forall (fun d => 0 <= d) dims -> 0 <= i < n -> zlen w = n * prodZ dims -> nest dims n w = Ok vs ->
  exists y, nest dims 1 (take (prodZ dims) (drop (i * prodZ dims) w)) = Ok [y] /\ get vs i = Ok y.
Proof.
  intros Hd Hi Hw Hn. set (rs := prodZ dims) in *. assert (Hrs : 0 <= rs) by (apply prodZ_nonneg, Hd).
  set (w1 := take (i * rs) w). set (w23 := drop (i * rs) w). set (w2 := take rs w23). set (w3 := drop rs w23).
  assert (Hl1 : zlen w1 = i * rs) by (apply zlen_take; nia).
  assert (Hl23 : zlen w23 = (n - i) * rs) by (unfold w23; rewrite zlen_drop; nia).
  assert (Hl2 : zlen w2 = 1 * rs) by (unfold w2; rewrite zlen_take; nia).
  assert (Hl3 : zlen w3 = (n - i - 1) * rs) by (unfold w3; rewrite zlen_drop; nia).
  destruct (nest_total dims i w1 Hd) as [X HX]; [lia|].
  destruct (nest_total dims 1 w2 Hd) as [Y HY]; [lia|].
  destruct (nest_total dims (n - i - 1) w3 Hd) as [Z HZ]; [lia|].
  assert (HYZ : nest dims (1 + (n - i - 1)) (w2 ++ w3) = Ok (Y ++ Z)) by (apply nest_app; auto; lia).
  assert (HXYZ : nest dims (i + (1 + (n - i - 1))) (w1 ++ (w2 ++ w3)) = Ok (X ++ (Y ++ Z))).
  { apply nest_app; auto; try lia. rewrite zlen_app, Hl2, Hl3. fold rs. ring. }
  replace (i + (1 + (n - i - 1))) with n in HXYZ by ring.
  unfold w2, w3 in HXYZ. rewrite take_drop_id in HXYZ. unfold w1, w23 in HXYZ. rewrite take_drop_id in HXYZ.
  rewrite Hn in HXYZ. inversion HXYZ; subst vs.
  assert (HlX : zlen X = i) by (eapply nest_zlen; [exact HX|assumption|lia|exact Hl1]).
  assert (HlY : zlen Y = 1) by (eapply nest_zlen; [exact HY|assumption|lia|exact Hl2]).
  destruct Y as [|y Y']; [rewrite zlen_nil in HlY; lia|].
  destruct Y' as [|y2 Y'']; [|rewrite !zlen_cons in HlY; pose proof (zlen_nonneg Y''); lia].
  exists y. split; [exact HY|]. rewrite get_app2 by lia. rewrite HlX, Z.sub_diag. reflexivity.
Qed.

(* gathering rows of the nested value = nesting the gathered blocks *)
Lemma nest_gather dims n w vs ix :
  Forall (fun d => 0 <= d) dims -> zlen w = n * prodZ dims -> nest dims n w = Ok vs ->
  Forall (fun i => 0 <= i < n) ix ->
  nest dims (zlen ix) (concat (map (fun i => take (prodZ dims) (drop (i * prodZ dims) w)) ix)) = mapM (get vs) ix.
Proof.
  intros Hd Hw Hn. induction 1 as [|i ix Hi Hix IH].
  - cbn [map concat mapM]. rewrite zlen_nil.
    destruct (nest_total dims 0 (@nil value) Hd) as [out Ho]; [lia|]. rewrite Ho. f_equal.
    apply zlen_0_nil. eapply nest_zlen; [exact Ho|assumption|lia|reflexivity].
  - destruct (nest_get dims n w vs i Hd Hi Hw Hn) as (y & Hy & Hg).
    cbn [map concat mapM]. rewrite Hg. cbn [bind]. rewrite <- IH.
    set (rs := prodZ dims) in *. assert (Hrs : 0 <= rs) by (apply prodZ_nonneg, Hd).
    set (rest := concat (map (fun i0 => take rs (drop (i0 * rs) w)) ix)) in *.
    destruct (nest_total dims (zlen ix) rest Hd) as [R HR]; [apply zlen_nonneg|]. rewrite HR. cbn [bind].
    rewrite zlen_cons. replace (zlen ix + 1) with (1 + zlen ix) by ring.
    change (y :: R) with ([y] ++ R). apply nest_app; auto; try lia; try apply zlen_nonneg.
    + rewrite zlen_take; [fold rs; lia|]. rewrite zlen_drop by nia. nia.
    + unfold rest. fold rs.
      rewrite (zlen_concat_const _ rs); [rewrite zlen_map; reflexivity|].
      apply Forall_forall. intros l Hl. apply in_map_iff in Hl as (j & <- & Hj).
      rewrite Forall_forall in Hix. specialize (Hix j Hj).
      rewrite zlen_take; [reflexivity|]. rewrite zlen_drop by nia. nia.
Qed.

(* ---------------------------------------------------------------- Numpy leaf *)
Lemma take_drop_take {A} (X : list A) a b P :
  0 <= a -> 0 <= b -> a + b <= P -> take b (drop a (take P X)) = take b (drop a X).
Proof.
  intros Ha Hb HP. unfold take, drop. rewrite skipn_firstn_comm, firstn_firstn. f_equal. lia.
Qed.

Lemma carry_numpy dt shape data vs ix :
  to_list (Numpy dt shape data) = Ok vs -> Forall (fun i => 0 <= i < clen (Numpy dt shape data)) ix ->
  exists c', carry (Numpy dt shape data) ix = Ok c' /\ to_list c' = mapM (get vs) ix /\ clen c' = zlen ix.
Proof.
  intros Hl Hix. apply to_list_Numpy_inv in Hl as (n & dims & -> & Hs & Hd & Hn).
  inversion Hs as [|? ? Hn0 Hds]; subst. cbn [clen] in Hix. cbn [carry].
  set (rs := prodZ dims) in *. assert (Hrs : 0 <= rs) by (apply prodZ_nonneg, Hds).
  rewrite prodZ_cons in Hd, Hn. fold rs in Hd, Hn.
  set (rows := map (fun i => take rs (drop (i * rs) data)) ix).
  assert (Hrows : mapM (fun i => if (0 <=? i) && (i <? n) then slice data (i * rs) ((i + 1) * rs) else Err EOob) ix = Ok rows).
  { rewrite mapM_guard_res by (eapply Forall_impl; [|exact Hix]; cbv beta; intros; lia).
    unfold rows. rewrite <- mapM_pure. apply mapM_ext_in. intros i Hi. rewrite Forall_forall in Hix. specialize (Hix i Hi).
    rewrite slice_ok by nia. do 2 f_equal. ring. }
  rewrite Hrows. cbn [bind]. eexists. split; [reflexivity|]. split; [|reflexivity].
  assert (Hlen : zlen (concat rows) = zlen ix * rs).
  { rewrite (zlen_concat_const _ rs); [unfold rows; rewrite zlen_map; reflexivity|].
    apply Forall_forall. intros l Hl. apply in_map_iff in Hl as (i & <- & Hi).
    rewrite Forall_forall in Hix. specialize (Hix i Hi). rewrite zlen_take; [reflexivity|]. rewrite zlen_drop by nia. nia. }
  rewrite to_list_Numpy.
  rewrite Forall_nonneg_existsb by (constructor; [apply zlen_nonneg|exact Hds]).
  rewrite prodZ_cons. fold rs. destruct (zlen (concat rows) <? zlen ix * rs) eqn:E; [lia|].
  rewrite take_all by lia.
  set (w := map (leaf dt) (take (n * rs) data)) in *.
  assert (Hw : zlen w = n * rs) by (unfold w; rewrite zlen_map, zlen_take; [reflexivity|nia]).
  rewrite <- (nest_gather dims n w vs ix Hds Hw Hn Hix). fold rs. f_equal.
  unfold rows. rewrite concat_map, map_map. f_equal. apply map_ext_in. intros i Hi.
  rewrite Forall_forall in Hix. specialize (Hix i Hi).
  unfold w. rewrite !map_take, map_drop. rewrite take_drop_take by nia. reflexivity.
Qed.

(* ---------------------------------------------------------------- option masks, records *)
Lemma bytemasked_gather vs0 ws m m' vw ix out :
  mapM (get vs0) ix = Ok ws -> mapM (get m) ix = Ok m' ->
  mapM (fun im : Z * Z => let (i, b) := im in pick_opt vs0 (Bool.eqb (negb (b =? 0)) vw) i) (zip (iota (zlen m)) m) = Ok out ->
  mapM (fun im : Z * Z => let (i, b) := im in pick_opt ws (Bool.eqb (negb (b =? 0)) vw) i) (zip (iota (zlen m')) m')
  = mapM (get out) ix.
Proof.
  intros Hws Hm' Hout. rewrite (mapM_gather _ _ out ix Hout).
  pose proof (gather_range_inv _ _ _ Hm') as Hr.
  rewrite gather_zip, gather_iota, Hm' by exact Hr. cbn [bind].
  pose proof (mapM_zlen _ _ _ Hm') as Hl. pose proof (zlen_nonneg ix).
  apply mapM_pointwise_eq.
  - rewrite !zlen_zip, zlen_iota by lia. lia.
  - intros j Hj. rewrite zlen_zip, zlen_iota in Hj by lia.
    rewrite !get_zip, get_iota by lia. cbn [bind].
    destruct (get_ok ix j) as [i Hi]; [lia|]. destruct (get_ok m' j) as [b Hb]; [lia|].
    rewrite Hi, Hb. cbn [bind]. unfold pick_opt. destruct (Bool.eqb _ _); [|reflexivity].
    rewrite (mapM_get _ _ _ j Hws), Hi. reflexivity.
Qed.

Lemma bitmask_as_bytemask vs0 m vw lsb n bm :
  bytemask_of_bits m lsb n = Ok bm -> 0 <= n ->
  mapM (fun i => do b <- bit_at m lsb i; pick_opt vs0 (Bool.eqb b vw) i) (iota n) =
  mapM (fun im : Z * Z => let (i, b) := im in pick_opt vs0 (Bool.eqb (negb (b =? 0)) vw) i) (zip (iota (zlen bm)) bm).
Proof.
  intros Hbm Hn. unfold bytemask_of_bits in Hbm. pose proof (mapM_zlen _ _ _ Hbm) as Hl. rewrite zlen_iota in Hl by lia.
  apply mapM_pointwise_eq.
  - rewrite zlen_zip, !zlen_iota by lia. lia.
  - intros j Hj. rewrite zlen_iota in Hj by lia. rewrite get_zip, Hl, !get_iota by lia. cbn [bind].
    rewrite (mapM_get _ _ _ j Hbm), get_iota by lia. cbn [bind].
    destruct (bit_at m lsb j) as [b|]; [|reflexivity]. cbn [bind]. destruct b; reflexivity.
Qed.

Lemma rows_gather ks vss vss' ix :
  mapM (fun col : list value => mapM (get col) ix) vss = Ok vss' ->
  mapM (row ks vss') (iota (zlen ix)) = mapM (row ks vss) ix.
Proof.
  intros H. pose proof (zlen_nonneg ix). apply mapM_pointwise_eq.
  - apply zlen_iota. lia.
  - intros j Hj. rewrite zlen_iota in Hj by lia. rewrite get_iota by lia.
    destruct (get_ok ix j) as [i Hi]; [lia|]. rewrite Hi. cbn [bind]. unfold row.
    replace (mapM (fun col : list value => get col j) vss') with (mapM (fun col : list value => get col i) vss); [reflexivity|].
    rewrite (mapM_mapM _ (fun col : list value => get col j) vss vss' H). apply mapM_ext_in. intros col Hcol.
    destruct (mapM_Ok_In _ _ _ _ H Hcol) as (col' & Hcol' & _). rewrite Hcol'. cbn [bind].
    rewrite (mapM_get _ _ _ j Hcol'), Hi. reflexivity.
Qed.

Lemma carry_Record cs ks n ix :
  carry (Record cs ks n) ix =
  if forallb (fun i => (0 <=? i) && (i <? n)) ix
  then do cs' <- mapM (fun x => carry x ix) cs; Ok (Record cs' ks (zlen ix)) else Err EOob.
Proof.
  cbn [carry]. destruct (forallb _ ix); [|reflexivity]. f_equal.
  induction cs as [|c cs IH]; [reflexivity|]. cbn [mapM]. rewrite <- IH. reflexivity.
Qed.

(* ---------------------------------------------------------------- T3 *)
Definition carry_at (c : content) : Prop :=
  forall p vs ix, Valid p c -> to_list c = Ok vs -> Forall (fun i => 0 <= i < clen c) ix ->
  exists c', carry c ix = Ok c' /\ to_list c' = mapM (get vs) ix /\ clen c' = zlen ix.

Lemma carry_Par a r c ix : carry (Par a r c) ix = do c'' <- carry c ix; Ok (Par a r c'').
Proof. reflexivity. Qed.

(* content of a list node: valid, or (below a string) a character buffer *)
Lemma carry_content p c cc :
  carry_at cc -> ParamOk p c -> list_content c = Some cc -> (is_strk p = false -> Valid None cc) ->
  forall vs ix, to_list cc = Ok vs -> Forall (fun i => 0 <= i < clen cc) ix ->
  exists c', carry cc ix = Ok c' /\ to_list c' = mapM (get vs) ix /\ clen c' = zlen ix.
Proof.
  intros IH Hp Hc Hv vs ix Hl Hix. destruct (is_strk p) eqn:Es.
  - destruct (ParamOk_str _ _ Hp Es) as (c' & k & rn & n & d & Hc' & -> & Hk). rewrite Hc in Hc'. inversion Hc'; subst.
    rewrite to_list_Par in Hl. apply bind_Ok in Hl as (vs0 & Hl0 & Hl).
    assert (vs = vs0) by (destruct Hk as [-> | ->]; inversion Hl; reflexivity). subst vs0.
    destruct (carry_numpy _ _ _ _ ix Hl0 Hix) as (c'' & Hc'' & Hl'' & Hn'').
    rewrite carry_Par, Hc''. cbn [bind]. eexists. split; [reflexivity|]. split; [|exact Hn''].
    rewrite to_list_Par, Hl''. destruct (mapM (get vs) ix); [|reflexivity]. cbn [bind].
    destruct Hk as [-> | ->]; reflexivity.
  - eapply IH; [apply Hv; reflexivity|exact Hl|exact Hix].
Qed.

Lemma carry_spec_all c : carry_at c.
Proof.
  induction c as [dt shape data| |w o c IHc|w s e c IHc|c size zl IHc|w ix0 c IHc|w ix0 c IHc|m vw c IHc
                 |m vw lsb n c IHc|c IHc|w t ix0 cs IHcs|cs ks n IHcs|arr rn c IHc] using content_ind';
    intros p vs ix HV Hl Hix.
  - apply carry_numpy; assumption.
  - (* Empty *)
    destruct ix as [|i ix]; [|inversion Hix; subst; cbn [clen] in *; lia].
    inversion Hl; subst. exists Empty. repeat split.
  - (* ListOffset *)
    rewrite to_list_ListOffset in Hl. apply bind_Ok in Hl as (vs0 & Hl0 & Hl). apply rmap_Ok in Hl as (ls & Hc & ->).
    unfold cut in Hc. destruct o as [|a o]; [discriminate|]. set (oo := a :: o) in *.
    assert (Hne : oo <> []) by discriminate. cbn [clen] in Hix.
    destruct (gather_ok (removelast oo) ix) as [s Hs]; [rewrite zlen_removelast by exact Hne; exact Hix|].
    destruct (gather_ok (tl oo) ix) as [e He]; [rewrite zlen_tl by exact Hne; exact Hix|].
    cbn [carry]. unfold gather. rewrite Hs, He. cbn [bind]. eexists. split; [reflexivity|].
    pose proof (mapM_zlen _ _ _ Hs) as Hls. pose proof (mapM_zlen _ _ _ He) as Hle.
    split; [|cbn [clen]; exact Hls].
    rewrite to_list_ListA, Hl0. cbn [bind]. unfold cut2. destruct (zlen e <? zlen s) eqn:E; [lia|].
    rewrite gather_map. f_equal. rewrite pairs_zip in Hc.
    apply (mapM_gather_ok _ _ _ ix (zip s e) Hc). rewrite gather_zip, Hs, He. reflexivity.
  - (* ListA *)
    rewrite to_list_ListA in Hl. apply bind_Ok in Hl as (vs0 & Hl0 & Hl). apply rmap_Ok in Hl as (ls & Hc & ->).
    unfold cut2 in Hc. destruct (zlen e <? zlen s) eqn:E0; [discriminate|]. cbn [clen] in Hix.
    destruct (gather_ok s ix) as [s' Hs]; [exact Hix|].
    destruct (gather_ok e ix) as [e' He]; [eapply Forall_impl; [|exact Hix]; cbv beta; intros; lia|].
    cbn [carry]. unfold gather. rewrite Hs, He. cbn [bind]. eexists. split; [reflexivity|].
    pose proof (mapM_zlen _ _ _ Hs) as Hls. pose proof (mapM_zlen _ _ _ He) as Hle.
    split; [|cbn [clen]; exact Hls].
    rewrite to_list_ListA, Hl0. cbn [bind]. unfold cut2. destruct (zlen e' <? zlen s') eqn:E; [lia|].
    rewrite gather_map. f_equal.
    apply (mapM_gather_ok _ _ _ ix (zip s' e') Hc). rewrite gather_zip, Hs, He. reflexivity.
  - (* Regular *)
    rewrite to_list_Regular in Hl. apply bind_Ok in Hl as (vs0 & Hl0 & Hl). apply rmap_Ok in Hl as (ch & Hch & ->).
    pose proof (chunks_zlen _ _ _ _ Hch) as [Hsz Hzch]. rewrite (to_list_len _ _ Hl0) in Hzch.
    cbn [clen] in Hix. rewrite <- Hzch in Hix.
    set (next := map (fun i => range (i * size) ((i + 1) * size)) ix).
    assert (Hcc : forall vs1 ix1, to_list c = Ok vs1 -> Forall (fun i => 0 <= i < clen c) ix1 ->
                   exists c', carry c ix1 = Ok c' /\ to_list c' = mapM (get vs1) ix1 /\ clen c' = zlen ix1).
    { inversion HV; subst. eapply carry_content; [exact IHc|eassumption|reflexivity|assumption]. }
    (* rows of the content that are picked *)
    destruct (gather_ok ch ix) as [rows Hrows]; [exact Hix|].
    assert (Hsl : mapM (fun i => slice vs0 (i * size) ((i + 1) * size)) ix = Ok rows).
    { rewrite <- Hrows. apply mapM_ext_in. intros i Hi. rewrite Forall_forall in Hix. symmetry.
      eapply chunks_get; [exact Hch|apply Hix, Hi]. }
    assert (Hrs : Forall (fun l => zlen l = size) rows).
    { apply Forall_forall. intros l Hl. destruct (mapM_In_inv _ _ _ _ Hsl Hl) as (i & _ & Hi).
      apply slice_zlen in Hi. lia. }
    assert (Hbounds : forall i, In i ix -> 0 <= i * size /\ i * size <= (i + 1) * size /\ (i + 1) * size <= zlen vs0).
    { intros i Hi. destruct (mapM_Ok_In _ _ _ _ Hsl Hi) as (l & Hsi & _). apply slice_inv in Hsi. lia. }
    destruct (Hcc vs0 (concat next) Hl0) as (c'' & Hc'' & Hl'' & Hn'').
    { apply Forall_forall. intros j Hj. apply in_concat in Hj as (r & Hr & Hj). unfold next in Hr.
      apply in_map_iff in Hr as (i & <- & Hi). apply range_In in Hj. specialize (Hbounds i Hi).
      rewrite <- (to_list_len _ _ Hl0). lia. }
    cbn [carry].
    rewrite mapM_guard with (h := fun i => range (i * size) ((i + 1) * size)).
    2:{ eapply Forall_impl; [|exact Hix]. cbv beta. intros i Hi. rewrite Hzch in Hi.
        destruct (size =? 0); lia. }
    cbn [bind]. fold next. rewrite Hc''. cbn [bind]. eexists. split; [reflexivity|].
    assert (Hgn : mapM (get vs0) (concat next) = Ok (concat rows)).
    { rewrite mapM_concat. unfold next. rewrite mapM_map.
      replace (mapM (fun x => mapM (get vs0) (range (x * size) ((x + 1) * size))) ix) with (Ok (A := list (list value)) rows); [reflexivity|].
      rewrite <- Hsl. apply mapM_ext_in. intros i Hi. specialize (Hbounds i Hi). symmetry. apply gather_range; lia. }
    pose proof (mapM_zlen _ _ _ Hrows) as Hlr.
    split.
    + rewrite to_list_Regular, Hl'', Hgn. cbn [bind]. rewrite <- Hlr. rewrite chunks_concat by assumption. cbn [rmap].
      rewrite gather_map, Hrows. reflexivity.
    + cbn [clen]. destruct (size =? 0) eqn:E; [reflexivity|]. rewrite Hn''.
      pose proof (mapM_zlen _ _ _ Hgn) as Hz. rewrite <- Hz, (zlen_concat_const _ _ Hrs), Hlr. apply Z.div_mul. lia.
  - (* Indexed *)
    rewrite to_list_Indexed in Hl. apply bind_Ok in Hl as (vs0 & Hl0 & Hl). cbn [clen] in Hix.
    destruct (gather_ok ix0 ix Hix) as [j Hj]. cbn [carry]. unfold gather. rewrite Hj. cbn [bind].
    eexists. split; [reflexivity|]. split; [|cbn [clen]; apply (mapM_zlen _ _ _ Hj)].
    rewrite to_list_Indexed, Hl0. cbn [bind]. apply (mapM_gather_ok _ _ _ ix j Hl Hj).
  - (* IndexedOption *)
    rewrite to_list_IndexedOption in Hl. apply bind_Ok in Hl as (vs0 & Hl0 & Hl). cbn [clen] in Hix.
    destruct (gather_ok ix0 ix Hix) as [j Hj]. cbn [carry]. unfold gather. rewrite Hj. cbn [bind].
    eexists. split; [reflexivity|]. split; [|cbn [clen]; apply (mapM_zlen _ _ _ Hj)].
    rewrite to_list_IndexedOption, Hl0. cbn [bind]. apply (mapM_gather_ok _ _ _ ix j Hl Hj).
  - (* ByteMasked *)
    inversion HV; subst.
    rewrite to_list_ByteMasked in Hl. apply bind_Ok in Hl as (vs0 & Hl0 & Hl). cbn [clen] in Hix.
    destruct (gather_ok m ix Hix) as [m' Hm'].
    destruct (IHc None vs0 ix) as (c'' & Hc'' & Hl'' & Hn''); [assumption|assumption| |].
    { eapply Forall_impl; [|exact Hix]. cbv beta. intros; lia. }
    cbn [carry]. unfold gather. rewrite Hm', Hc''. cbn [bind]. eexists. split; [reflexivity|].
    split; [|cbn [clen]; apply (mapM_zlen _ _ _ Hm')].
    destruct (gather_ok vs0 ix) as [ws Hws].
    { rewrite (to_list_len _ _ Hl0). eapply Forall_impl; [|exact Hix]. cbv beta. intros; lia. }
    rewrite to_list_ByteMasked, Hl'', Hws. cbn [bind]. eapply bytemasked_gather; eassumption.
  - (* BitMasked *)
    inversion HV; subst.
    rewrite to_list_BitMasked in Hl. apply bind_Ok in Hl as (vs0 & Hl0 & Hl). cbn [clen] in Hix.
    destruct (n <? 0) eqn:En; [discriminate|].
    assert (Hbm : exists bm, bytemask_of_bits m lsb n = Ok bm).
    { unfold bytemask_of_bits. apply mapM_total. intros i Hi.
      destruct (mapM_Ok_In _ _ _ _ Hl Hi) as (y & Hy & _). destruct (bit_at m lsb i); [cbn; eauto|discriminate]. }
    destruct Hbm as [bm Hbm].
    assert (Hlbm : zlen bm = n) by (unfold bytemask_of_bits in Hbm; rewrite (mapM_zlen _ _ _ Hbm), zlen_iota; lia).
    rewrite (bitmask_as_bytemask vs0 m vw lsb n bm Hbm) in Hl by lia.
    destruct (gather_ok bm ix) as [m' Hm']; [rewrite Hlbm; exact Hix|].
    destruct (IHc None vs0 ix) as (c'' & Hc'' & Hl'' & Hn''); [assumption|assumption| |].
    { eapply Forall_impl; [|exact Hix]. cbv beta. intros; lia. }
    cbn [carry]. unfold gather. rewrite Hbm. cbn [bind]. rewrite Hm', Hc''. cbn [bind]. eexists. split; [reflexivity|].
    split; [|cbn [clen]; apply (mapM_zlen _ _ _ Hm')].
    destruct (gather_ok vs0 ix) as [ws Hws].
    { rewrite (to_list_len _ _ Hl0). eapply Forall_impl; [|exact Hix]. cbv beta. intros; lia. }
    rewrite to_list_ByteMasked, Hl'', Hws. cbn [bind]. eapply bytemasked_gather; eassumption.
  - (* Unmasked *)
    inversion HV; subst. rewrite to_list_Unmasked in Hl. cbn [clen] in Hix.
    destruct (IHc None vs ix) as (c'' & Hc'' & Hl'' & Hn''); [assumption..|].
    cbn [carry]. rewrite Hc''. cbn [bind]. eexists. split; [reflexivity|]. split; [|exact Hn''].
    rewrite to_list_Unmasked. exact Hl''.
  - (* Union *)
    rewrite to_list_Union in Hl. apply bind_Ok in Hl as (vss & Hvss & Hl). cbn [clen] in Hix.
    destruct (zlen ix0 <? zlen t) eqn:E0; [discriminate|].
    destruct (gather_ok t ix Hix) as [t' Ht'].
    destruct (gather_ok (take (zlen t) ix0) ix) as [j Hj].
    { rewrite zlen_take by (pose proof (zlen_nonneg t); lia). exact Hix. }
    cbn [carry]. unfold gather. rewrite Ht', Hj. cbn [bind]. eexists. split; [reflexivity|].
    pose proof (mapM_zlen _ _ _ Ht') as Hlt. pose proof (mapM_zlen _ _ _ Hj) as Hlj.
    split; [|cbn [clen]; exact Hlt].
    rewrite to_list_Union, Hvss. cbn [bind]. destruct (zlen j <? zlen t') eqn:E; [lia|].
    apply (mapM_gather_ok _ _ _ ix (zip t' j) Hl). rewrite <- (zip_take_l t ix0), gather_zip, Ht', Hj. reflexivity.
  - (* Record *)
    inversion HV; subst.
    rewrite to_list_Record in Hl. apply bind_Ok in Hl as (vss & Hvss & Hl). cbn [clen] in Hix.
    destruct (n <? 0) eqn:En; [discriminate|]. rewrite all_lists_mapM in Hvss.
    rewrite carry_Record.
    replace (forallb (fun i => (0 <=? i) && (i <? n)) ix) with true.
    2:{ symmetry. apply forallb_forall. intros i Hi. rewrite Forall_forall in Hix. specialize (Hix i Hi). lia. }
    assert (Hall : forall x, In x cs -> exists x' col, carry x ix = Ok x' /\ to_list x = Ok col /\
                                                  to_list x' = mapM (get col) ix /\ clen x' = zlen ix).
    { intros x Hx. destruct (mapM_Ok_In _ _ _ _ Hvss Hx) as (col & Hcol & _).
      rewrite Forall_forall in IHcs.
      match goal with H : Forall (Valid None) cs |- _ => rewrite Forall_forall in H; pose proof (H x Hx) as HVx end.
      match goal with H : Forall (fun x => n <= clen x) cs |- _ => rewrite Forall_forall in H; pose proof (H x Hx) as Hnx end.
      destruct (IHcs x Hx None col ix HVx Hcol) as (x' & ? & ? & ?).
      { eapply Forall_impl; [|exact Hix]. cbv beta. intros; lia. }
      exists x', col. auto. }
    destruct (mapM_total (fun x => carry x ix) cs) as [cs' Hcs'].
    { intros x Hx. destruct (Hall x Hx) as (x' & _ & ? & _). eauto. }
    rewrite Hcs'. cbn [bind]. eexists. split; [reflexivity|]. split; [|reflexivity].
    (* the columns of the result *)
    assert (Hcols : mapM to_list cs' = mapM (fun col : list value => mapM (get col) ix) vss).
    { rewrite (mapM_mapM _ to_list cs cs' Hcs'), (mapM_mapM _ (fun col : list value => mapM (get col) ix) cs vss Hvss).
      apply mapM_ext_in. intros x Hx. destruct (Hall x Hx) as (x' & col & -> & -> & ? & _). cbn [bind]. assumption. }
    destruct (mapM_total (fun col : list value => mapM (get col) ix) vss) as [vss' Hvss'].
    { intros col Hcol. destruct (mapM_In_inv _ _ _ _ Hvss Hcol) as (x & Hx & Hlx).
      apply gather_ok. rewrite (to_list_len _ _ Hlx).
      match goal with H : Forall (fun x => n <= clen x) cs |- _ => rewrite Forall_forall in H; specialize (H x Hx) end.
      eapply Forall_impl; [|exact Hix]. cbv beta. intros; lia. }
    rewrite to_list_Record, all_lists_mapM, Hcols, Hvss'. cbn [bind].
    pose proof (zlen_nonneg ix). destruct (zlen ix <? 0) eqn:E; [lia|].
    rewrite (rows_gather ks vss vss' ix Hvss').
    rewrite (mapM_gather _ _ vs ix Hl), gather_iota by exact Hix. reflexivity.
  - (* Par *)
    inversion HV; subst. rewrite to_list_Par in Hl. apply bind_Ok in Hl as (vs0 & Hl0 & Hl). cbn [clen] in Hix.
    destruct (IHc arr vs0 ix) as (c'' & Hc'' & Hl'' & Hn''); [assumption..|].
    cbn [carry]. rewrite Hc''. cbn [bind]. eexists. split; [reflexivity|]. split; [|exact Hn''].
    rewrite to_list_Par, Hl''.
    destruct arr as [[]|]; try (inversion Hl; subst; destruct (mapM (get vs) ix); reflexivity);
      symmetry; apply mapM_gather; exact Hl.
Qed.

Theorem carry_spec : forall c vs ix,
  Valid None c -> to_list c = Ok vs -> Forall (fun i => 0 <= i < clen c) ix ->
  exists c', carry c ix = Ok c' /\ to_list c' = mapM (get vs) ix /\ clen c' = zlen ix.
Proof. intros c vs ix. apply carry_spec_all. Qed.

(* the same under a pending __array__ parameter (what [Valid] generalises over) *)
Theorem carry_spec_p : forall c p vs ix,
  Valid p c -> to_list c = Ok vs -> Forall (fun i => 0 <= i < clen c) ix ->
  exists c', carry c ix = Ok c' /\ to_list c' = mapM (get vs) ix /\ clen c' = zlen ix.
Proof. intros c p vs ix. apply carry_spec_all. Qed.

Example carry_spec_ex :
  let c := BitMasked [5] true true 3 (ListOffset I64 [1; 3; 3; 4] (Numpy DInt64 [4; 1] [DZ 1; DZ 2; DZ 3; DZ 4; DZ 5])) in
  let ix := [2; 0; 0] in
  let a := VList [VList [VNum (DZ 2)]; VList [VNum (DZ 3)]] in
  let b := VList [VList [VNum (DZ 4)]] in
  validb None c = true /\ to_list c = Ok [a; VNone; b] /\
  forallb (fun i => (0 <=? i) && (i <? clen c)) ix = true /\
  (do c' <- carry c ix; to_list c') = Ok [b; a; a].
Proof. vm_compute. repeat split. Qed.

(* c[a:b] *)
Theorem crange_spec : forall c vs a b,
  Valid None c -> to_list c = Ok vs -> 0 <= a -> a <= b -> b <= clen c ->
  exists c', crange c a b = Ok c' /\ to_list c' = slice vs a b /\ clen c' = b - a.
Proof.
  intros c vs a b HV Hl Ha Hab Hb. unfold crange.
  destruct (carry_spec c vs (range a b) HV Hl) as (c' & Hc & Hl' & Hn).
  { apply Forall_forall. intros i Hi. apply range_In in Hi. lia. }
  exists c'. split; [exact Hc|]. rewrite Hl', Hn, zlen_range by lia. split; [|reflexivity].
  apply gather_range; try lia. rewrite (to_list_len _ _ Hl). exact Hb.
Qed.
