(** C14 — proof-side definitions: the value a builder state stands for ([bvals]), the representation invariant
    ([wf]) for the record/tuple-free fragment, contexts, and their basic lemmas. *)
From Coq Require Import ZArith List Bool Lia.
From AwkV Require Import Base Layout.
From AwkBuilder Require Import Builder GbLemmas.
Import ListNotations.
Open Scope Z_scope.

(* ------------------------------------------------------------------ induction through the nested lists *)
Section BInd.
  Variable P : builder -> Prop.
  Hypothesis HU : forall n, P (BUnknown n).
  Hypothesis HB : forall g, P (BBool g).
  Hypothesis HI : forall g, P (BInt g).
  Hypothesis HF : forall g, P (BFloat g).
  Hypothesis HS : forall e a b, P (BString e a b).
  Hypothesis HO : forall idx c, P c -> P (BOption idx c).
  Hypothesis HL : forall offs c begun, P c -> P (BList offs c begun).
  Hypothesis HR : forall cs keys rn nullp len begun ni ntt, Forall P cs -> P (BRecord cs keys rn nullp len begun ni ntt).
  Hypothesis HT : forall cs len begun ni, Forall P cs -> P (BTuple cs len begun ni).
  Hypothesis HN : forall tags idx cs cur, Forall P cs -> P (BUnion tags idx cs cur).
  Fixpoint builder_ind' (b : builder) : P b :=
    let go := fix go (l : list builder) : Forall P l :=
                match l with [] => Forall_nil P | x :: t => Forall_cons x (builder_ind' x) (go t) end in
    match b with
    | BUnknown n => HU n
    | BBool g => HB g
    | BInt g => HI g
    | BFloat g => HF g
    | BString e a b => HS e a b
    | BOption idx c => HO idx c (builder_ind' c)
    | BList offs c begun => HL offs c begun (builder_ind' c)
    | BRecord cs keys rn nullp len begun ni ntt => HR cs keys rn nullp len begun ni ntt (go cs)
    | BTuple cs len begun ni => HT cs len begun ni (go cs)
    | BUnion tags idx cs cur => HN tags idx cs cur (go cs)
    end.
End BInd.

(* ------------------------------------------------------------------ the values a state stands for *)
Definition cuts {A} (o : list Z) (vs : list A) : list (list A) :=
  map (fun ab : Z * Z => take (snd ab - fst ab) (drop (fst ab) vs)) (pairs o).

Definition lookup (vs : list value) (i : Z) : value :=
  if 0 <=? i then nth (Z.to_nat i) vs VNone else VNone.

Definition ulookup (vss : list (list value)) (ti : Z * Z) : value :=
  nth (Z.to_nat (snd ti)) (nth (Z.to_nat (fst ti)) vss []) VNone.

Fixpoint bvals (b : builder) : list value :=
  match b with
  | BUnknown n => repeat VNone (Z.to_nat n)
  | BBool g => map (fun z => VBool (negb (z =? 0))) (gb_list g)
  | BInt g | BFloat g => map (fun z => VNum (DZ z)) (gb_list g)
  | BString e offs cont => map (VStr e) (cuts (gb_list offs) (gb_list cont))
  | BOption idx c => map (lookup (bvals c)) (gb_list idx)
  | BList offs c _ => map VList (cuts (gb_list offs) (bvals c))
  | BUnion tags idx cs _ => map (ulookup (map bvals cs)) (zip (gb_list tags) (gb_list idx))
  | _ => []
  end.

(* offsets: start at 0, non-decreasing, within [0,n] *)
Definition okoff (o : list Z) (n : Z) : Prop :=
  (exists t, o = 0 :: t) /\
  Forall (fun ab : Z * Z => 0 <= fst ab /\ fst ab <= snd ab /\ snd ab <= n) (pairs o) /\
  0 <= last o 0 <= n.

Fixpoint wf (b : builder) : Prop :=
  match b with
  | BUnknown n => 0 <= n
  | BBool g | BInt g | BFloat g => gbwf g
  | BString _ offs cont =>
      gbwf offs /\ gbwf cont /\ okoff (gb_list offs) (glen cont) /\ last (gb_list offs) 0 = glen cont
  | BOption idx c =>
      gbwf idx /\ wf c /\ Forall (fun i => i < blen c) (gb_list idx)
  | BList offs c begun =>
      gbwf offs /\ wf c /\ okoff (gb_list offs) (blen c) /\
      (begun = false -> active c = false /\ last (gb_list offs) 0 = blen c)
  | BUnion tags idx cs cur =>
      gbwf tags /\ gbwf idx /\ glen tags = glen idx /\
      (fix all (l : list builder) : Prop := match l with [] => True | x :: t => wf x /\ all t end) cs /\
      Forall (fun ti : Z * Z => 0 <= fst ti < zlen cs /\ 0 <= snd ti < blen (nth (Z.to_nat (fst ti)) cs (BUnknown 0)))
             (zip (gb_list tags) (gb_list idx)) /\
      (cur = -1 -> Forall (fun x => active x = false) cs) /\
      (cur <> -1 -> 0 <= cur < zlen cs)
  | BRecord _ _ _ _ _ _ _ _ | BTuple _ _ _ _ => False
  end.

Lemma wf_all cs :
  (fix all (l : list builder) : Prop := match l with [] => True | x :: t => wf x /\ all t end) cs <-> Forall wf cs.
Proof.
  induction cs as [|x t IH]; split; intro H; auto.
  - destruct H as [H1 H2]. constructor; auto. now apply IH.
  - inversion H; subst. split; auto. now apply IH.
Qed.

Definition pushed (c c' : builder) (v : value) : Prop :=
  wf c' /\ active c' = false /\ bvals c' = bvals c ++ [v].

(* ------------------------------------------------------------------ contexts *)
Inductive frame :=
| FList (offs : gb)
| FOpt (idx : gb)
| FUni (tags idx : gb) (pre post : list builder).

Fixpoint plug (K : list frame) (b : builder) : builder :=
  match K with
  | [] => b
  | FList offs :: K' => BList offs (plug K' b) true
  | FOpt idx :: K' => BOption idx (plug K' b)
  | FUni t i pre post :: K' => BUnion t i (pre ++ plug K' b :: post) (zlen pre)
  end.

Lemma plug_app K1 K2 b : plug (K1 ++ K2) b = plug K1 (plug K2 b).
Proof. induction K1 as [|f K IH]; cbn; [reflexivity|]. destruct f; now rewrite IH. Qed.

Definition okctx (K : list frame) : Prop := K = [] \/ exists K' offs, K = K' ++ [FList offs].

(* ------------------------------------------------------------------ running command lists *)
Lemma run_app o cs1 : forall b cs2, run o b (cs1 ++ cs2) = do b' <- run o b cs1; run o b' cs2.
Proof.
  induction cs1 as [|c t IH]; intros; cbn [app run]; [reflexivity|].
  destruct (ab_step o b c) as [b' [e|]]; [reflexivity|]. apply IH.
Qed.

(* ------------------------------------------------------------------ list facts *)
Lemma pairs_snoc o x : o <> [] -> pairs (o ++ [x]) = pairs o ++ [(last o 0, x)].
Proof.
  induction o as [|a t IH]; intro H; [congruence|].
  destruct t as [|b t']; [reflexivity|].
  change (pairs ((a :: b :: t') ++ [x])) with ((a, b) :: pairs ((b :: t') ++ [x])).
  rewrite IH by congruence. reflexivity.
Qed.

Lemma last_snoc {A} (l : list A) x d : last (l ++ [x]) d = x.
Proof. induction l as [|a t IH]; [reflexivity|]. cbn. destruct (t ++ [x]) eqn:E; [destruct t; discriminate|]. exact IH. Qed.

Lemma cuts_snoc {A} o x (vs : list A) :
  o <> [] -> cuts (o ++ [x]) vs = cuts o vs ++ [take (x - last o 0) (drop (last o 0) vs)].
Proof. intros. unfold cuts. rewrite pairs_snoc by auto. now rewrite map_app. Qed.

Lemma take_app_le {A} (l m : list A) n : n <= zlen l -> take n (l ++ m) = take n l.
Proof.
  intros. unfold take, zlen in *. rewrite firstn_app.
  replace (Z.to_nat n - length l)%nat with O by lia. cbn. now rewrite app_nil_r.
Qed.
Lemma drop_app_le {A} (l m : list A) n : n <= zlen l -> drop n (l ++ m) = drop n l ++ m.
Proof.
  intros. unfold drop, zlen in *. rewrite skipn_app.
  replace (Z.to_nat n - length l)%nat with O by lia. reflexivity.
Qed.
Lemma zlen_drop {A} (l : list A) n : 0 <= n <= zlen l -> zlen (drop n l) = zlen l - n.
Proof. intros. unfold drop, zlen in *. rewrite skipn_length. lia. Qed.

Lemma cuts_extend {A} o (vs w : list A) :
  Forall (fun ab : Z * Z => 0 <= fst ab /\ fst ab <= snd ab /\ snd ab <= zlen vs) (pairs o) ->
  cuts o (vs ++ w) = cuts o vs.
Proof.
  intro H. unfold cuts. apply map_ext_in. intros [a b] Hin.
  rewrite Forall_forall in H. specialize (H _ Hin). cbn in *.
  rewrite drop_app_le by lia. apply take_app_le. rewrite zlen_drop; lia.
Qed.

Lemma zlen_cuts {A} o (vs : list A) : o <> [] -> zlen (cuts o vs) = zlen o - 1.
Proof.
  intro H. unfold cuts. rewrite zlen_map.
  induction o as [|a t IH]; [congruence|]. destruct t as [|b t']; [reflexivity|].
  change (pairs (a :: b :: t')) with ((a, b) :: pairs (b :: t')).
  rewrite zlen_cons, IH by congruence. rewrite (zlen_cons a). lia.
Qed.

Lemma okoff_snoc o n x : okoff o n -> last o 0 <= x -> n <= x -> okoff (o ++ [x]) x.
Proof.
  intros ((t & ->) & F & L) H1 H2. split; [|split].
  - exists (t ++ [x]). reflexivity.
  - rewrite pairs_snoc by congruence. apply Forall_app. split.
    + eapply Forall_impl; [|exact F]. cbn [fst snd]. intros; lia.
    + constructor; [|constructor]. cbn [fst snd]. lia.
  - rewrite last_snoc. lia.
Qed.

Lemma okoff_mono o n m : okoff o n -> n <= m -> okoff o m.
Proof.
  intros (T & F & L) H. split; [exact T|split].
  - eapply Forall_impl; [|exact F]. cbn [fst snd]; intros; lia.
  - lia.
Qed.

Lemma okoff_single n : 0 <= n -> okoff [0] n.
Proof. intro. split; [exists []; reflexivity|split]; cbn; [constructor|lia]. Qed.

Lemma okoff_ne o n : okoff o n -> o <> [].
Proof. intros ((t & ->) & _). congruence. Qed.

Lemma nth_lookup_app vs v i : i < zlen vs -> lookup (vs ++ [v]) i = lookup vs i.
Proof.
  intro H. unfold lookup. destruct (0 <=? i) eqn:E; [|reflexivity].
  apply app_nth1. unfold zlen in H. lia.
Qed.
Lemma lookup_last vs v : lookup (vs ++ [v]) (zlen vs) = v.
Proof.
  unfold lookup. pose proof (zlen_nonneg vs). replace (0 <=? zlen vs) with true by (symmetry; apply Z.leb_le; lia).
  unfold zlen. rewrite Nat2Z.id. rewrite app_nth2 by lia. now rewrite Nat.sub_diag.
Qed.

Lemma map_lookup_iota_nat vs : forall pre, map (lookup (pre ++ vs)) (iota_nat (zlen pre) (length vs)) = vs.
Proof.
  induction vs as [|v t IH]; intro pre; [reflexivity|].
  cbn [length iota_nat map]. f_equal.
  - replace (pre ++ v :: t) with ((pre ++ [v]) ++ t) by now rewrite <- app_assoc.
    unfold lookup. pose proof (zlen_nonneg pre).
    replace (0 <=? zlen pre) with true by (symmetry; apply Z.leb_le; lia).
    rewrite app_nth1 by (rewrite app_length; cbn; unfold zlen; lia).
    unfold zlen. rewrite Nat2Z.id, app_nth2 by lia. now rewrite Nat.sub_diag.
  - replace (pre ++ v :: t) with ((pre ++ [v]) ++ t) by now rewrite <- app_assoc.
    replace (zlen pre + 1) with (zlen (pre ++ [v])) by (rewrite zlen_app, zlen_cons, zlen_nil; lia).
    apply IH.
Qed.
Lemma map_lookup_iota vs : map (lookup vs) (iota (zlen vs)) = vs.
Proof. unfold iota, zlen. rewrite Nat2Z.id. apply (map_lookup_iota_nat vs []). Qed.

Lemma zip_app {A B} (l1 l2 : list A) (m1 m2 : list B) :
  length l1 = length m1 -> zip (l1 ++ l2) (m1 ++ m2) = zip l1 m1 ++ zip l2 m2.
Proof.
  revert m1; induction l1 as [|a t IH]; intros [|b m] H; try discriminate; [reflexivity|].
  cbn. f_equal. apply IH. now inversion H.
Qed.

Lemma nth_z_app {A} (pre post : list A) x : nth_z (pre ++ x :: post) (zlen pre) = Some x.
Proof.
  unfold nth_z. pose proof (zlen_nonneg pre). destruct (zlen pre <? 0) eqn:E; [lia|].
  unfold zlen. rewrite Nat2Z.id. rewrite nth_error_app2 by lia. now rewrite Nat.sub_diag.
Qed.
Lemma at_nth_app {A B} (f : A -> B) (pre post : list A) x : at_nth f (pre ++ x :: post) (length pre) = Some (f x).
Proof. induction pre as [|a t IH]; [reflexivity|exact IH]. Qed.

Lemma find_app_spec {A B} (f : A -> B) p l : forall i0 i x y,
  find_app f p l i0 = Some (i, x, y) ->
  exists pre post, l = pre ++ x :: post /\ i = (i0 + length pre)%nat /\ p x = true /\ y = f x.
Proof.
  induction l as [|a t IH]; intros i0 i x y H; [discriminate|]. cbn in H.
  destruct (p a) eqn:E.
  - inversion H; subst. exists [], t. repeat split; auto. all: cbn; lia.
  - apply IH in H. destruct H as (pre & post & -> & -> & Hp & ->).
    exists (a :: pre), post. repeat split; auto. all: cbn; lia.
Qed.
