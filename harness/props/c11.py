"""C11: the validity check is exact; operations return valid arrays (closure is checked by every
other property's runs through the 'viol closure' verdict, and here on a sample of operations)."""
import common as C
import gen as G

THEOREMS = ['validity_exact', 'valid_layouts_have_a_value', 'value_length_is_layout_length', 'closure_expand',
            'closure_at_axis', 'closure_num', 'closure_localindex', 'closure_rpad_partial',
            'closure_rpadclip_partial', 'closure_combinations_partial', 'closure_field_partial',
            'closure_field_chars', 'closure_setfield', 'closure_fillna_partial', 'closure_flatten',
            'closure_flatten_chars', 'closure_sort', 'closure_reduce_partial', 'closure_reduce_nomask',
            'closure_getitem_partial', 'closure_fields', 'closure_of_validity_partial', 'expand_keeps_type',
            'expand_keeps_value', 'result_type_at_axis', 'result_type_num', 'result_type_localindex',
            'num_result_typed', 'localindex_result_typed']
RULE = ('layouts: value-first random type/value/encoding (all node classes, widths, offset origins, option encodings, '
        'string parameters); invalid stream = one documented rule broken at one random node. non-trivial = layout has '
        '>= 2 nodes; distinct by case text')
ASSUMPTIONS = ['Valid is my transcription of the documented rules (DESIGN C11); IndexedArray counts as option-like for the '
               'nesting rule (as simplify_optiontype treats it); categorical parameter not modelled']


def cases(rng, tier):
    n = 1500 if tier == 'quick' else 30000
    out = []
    for i in range(n):
        a = G.gen_array(rng, depth=rng.choice([1, 2, 3, 4]), canonical_too=False,
                        enc_kw=dict(weird_empty=0.15))
        lay = a['layout']
        nn = len(G.nodes(lay))
        out.append(C.Case('v%d' % i, 'valid', [], [G.sx(lay)], dict(nontrivial=nn >= 2, tags=dict(stream='valid'))))
        b = G.break_rule(rng, lay)
        if b is not None:
            rule, bl = b
            out.append(C.Case('i%d' % i, 'valid', [], [G.sx(bl)],
                              dict(nontrivial=True, tags=dict(stream='invalid', rule=rule))))
    return out


def signature(c, impl, v):
    if impl.startswith('crash'):
        lay = c.layouts[0]
        if '(par string' in lay or '(par bytestring' in lay:
            return 'validityerror-crash-string-char-content-not-numpy'
    return None
