(** fill_none: the layout-level [fillna_model] (an option node becomes the union of its content and the
    one-element value array) refines the value-level [fillna_spec]: same values, same error status. *)
From Coq Require Import ZArith List Bool Lia ZifyBool.
From AwkV Require Import Base Layout LayoutInd Valid Types Carry AtAxis Ops_Option Typing Proofs_Typing
                         Proofs_Lists Proofs_ToList Proofs_Carry Proofs_AtAxis.
Import ListNotations.
Open Scope Z_scope.

(* ---------------------------------------------------------------- the fragment *)
(* [ffrag]: no UnionArray on the way down to the outermost option node of any branch, and none directly
   below such an option node (whatever lies deeper below an option node is not visited: unions, n-d leaves,
   strings are all allowed there).  [Proofs_AtAxis.frag] (no unions at all) is included: [frag_ffrag]. *)
Fixpoint ffrag (c : content) : bool :=
  match c with
  | Numpy _ _ _ | Empty => true
  | ListOffset _ _ c' | ListA _ _ _ c' | Regular c' _ _ | Indexed _ _ c' | Par _ _ c' => ffrag c'
  | IndexedOption _ _ c' | ByteMasked _ _ c' | BitMasked _ _ _ _ c' | Unmasked c' => negb (unionlike c')
  | Union _ _ _ _ => false
  | Record cs _ _ =>
      (fix all (l : list content) : bool := match l with [] => true | x :: xs => ffrag x && all xs end) cs
  end.
Lemma ffrag_all cs :
  (fix all (l : list content) : bool := match l with [] => true | x :: xs => ffrag x && all xs end) cs = true <->
  Forall (fun x => ffrag x = true) cs.
Proof.
  induction cs as [|x xs IH]; [split; constructor|]. rewrite andb_true_iff, IH. split.
  - intros [? ?]. constructor; assumption.
  - intros H. inversion H; auto.
Qed.
Lemma unionlike_Par a r c : unionlike (Par a r c) = unionlike c.
Proof. reflexivity. Qed.
Lemma frag_not_unionlike c : frag c = true -> unionlike c = false.
Proof.
  induction c using content_ind'; intros Hf; try reflexivity; try discriminate.
  rewrite unionlike_Par. apply IHc. exact Hf.
Qed.
Lemma frag_ffrag c : frag c = true -> ffrag c = true.
Proof.
  induction c as [dt shape data| |w o c IHc|w s e c IHc|c size zl IHc|w ix c IHc|w ix c IHc|m vw c IHc
                 |m vw lsb n c IHc|c IHc|w t ix cs IHcs|cs ks n IHcs|arr rn c IHc] using content_ind';
    cbn [frag ffrag]; intros Hf; auto; try (rewrite (frag_not_unionlike _ Hf); reflexivity).
  apply frag_all in Hf. apply ffrag_all. rewrite Forall_forall in *. intros x Hx. apply IHcs; auto.
Qed.

(* ---------------------------------------------------------------- small facts *)
Lemma mapM_id {A} (f : A -> res A) l : (forall x, In x l -> f x = Ok x) -> mapM f l = Ok l.
Proof.
  induction l as [|x l IH]; intros H; cbn [mapM]; [reflexivity|].
  rewrite (H x (or_introl eq_refl)). cbn [bind]. rewrite IH; [reflexivity|]. intros y Hy. apply H. right. exact Hy.
Qed.
Lemma zip_map_same {A B C} (f : A -> B) (g : A -> C) l : zip (map f l) (map g l) = map (fun x => (f x, g x)) l.
Proof. induction l as [|x l IH]; cbn [map zip]; [reflexivity|]. rewrite IH. reflexivity. Qed.

(* values of a node that is neither option-like nor a union are not None *)
Lemma typed_nonone' c : forall p, optionlike c = false -> unionlike c = false -> has_typeb (type_of_p p c) VNone = false.
Proof.
  induction c using content_ind'; intros p Ho Hu; cbn [type_of_p]; try reflexivity; try discriminate.
  - destruct (tl shape); reflexivity.
  - destruct (strflag p); reflexivity.
  - destruct (strflag p); reflexivity.
  - destruct (strflag p); reflexivity.
  - destruct ks; reflexivity.
  - rewrite optionlike_Par in Ho. rewrite unionlike_Par in Hu. apply IHc; assumption.
Qed.
Lemma nonone_values' c vs :
  Valid None c -> optionlike c = false -> unionlike c = false -> to_list c = Ok vs -> forall x, In x vs -> x <> VNone.
Proof.
  intros HV Ho Hu Hl x Hx ->. pose proof (to_list_typed_thm c vs HV Hl) as Ht.
  rewrite Forall_forall in Ht. specialize (Ht VNone Hx). unfold has_type, type_of in Ht.
  rewrite (typed_nonone' c None Ho Hu) in Ht. discriminate.
Qed.

(* ---------------------------------------------------------------- option nodes as an index with -1 *)
Definition is_option_node (c : content) : bool :=
  match c with IndexedOption _ _ _ | ByteMasked _ _ _ | BitMasked _ _ _ _ _ | Unmasked _ => true | _ => false end.
Definition option_content (c : content) : content :=
  match c with IndexedOption _ _ c' | ByteMasked _ _ c' | BitMasked _ _ _ _ c' | Unmasked c' => c' | _ => c end.

Lemma option_index_spec c vs :
  is_option_node c = true -> to_list c = Ok vs ->
  exists ix vs0, option_index c = Ok (ix, option_content c) /\ to_list (option_content c) = Ok vs0 /\
                 mapM (fun i => pick_opt vs0 (0 <=? i) i) ix = Ok vs.
Proof.
  intros Hc Hl. destruct c; try discriminate; cbn [option_content option_index].
  - (* IndexedOption *)
    rewrite to_list_IndexedOption in Hl. apply bind_Ok in Hl as (vs0 & Hl0 & Hl).
    eexists _, vs0. split; [reflexivity|]. split; [exact Hl0|]. rewrite mapM_map, <- Hl.
    apply mapM_ext_in. intros i _. destruct (i <? 0) eqn:E; [|reflexivity].
    destruct (0 <=? i) eqn:E2; [lia|]. reflexivity.
  - (* ByteMasked *)
    rewrite to_list_ByteMasked in Hl. apply bind_Ok in Hl as (vs0 & Hl0 & Hl).
    eexists _, vs0. split; [reflexivity|]. split; [exact Hl0|]. rewrite mapM_map, <- Hl.
    apply mapM_ext_in. intros [i b] Hin. apply zip_In in Hin as [Hi _]. apply iota_In' in Hi.
    destruct (Bool.eqb (negb (b =? 0)) valid_when); [|reflexivity].
    destruct (0 <=? i) eqn:E; [reflexivity|lia].
  - (* BitMasked *)
    rewrite to_list_BitMasked in Hl. apply bind_Ok in Hl as (vs0 & Hl0 & Hl).
    destruct (len <? 0) eqn:En; [discriminate|].
    destruct (mapM_total (fun i => do b <- bit_at mask lsb i; Ok (if Bool.eqb b valid_when then i else -1)) (iota len))
      as [ix Hix].
    { intros i Hi. destruct (mapM_Ok_In _ _ _ _ Hl Hi) as (y & Hy & _).
      destruct (bit_at mask lsb i); [eexists; reflexivity|discriminate]. }
    rewrite Hix. cbn [bind]. exists ix, vs0. split; [reflexivity|]. split; [exact Hl0|].
    rewrite (mapM_mapM _ _ _ _ Hix), <- Hl. apply mapM_ext_in. intros i Hi. apply iota_In' in Hi.
    destruct (bit_at mask lsb i) as [b|]; [|reflexivity]. cbn [bind].
    destruct (Bool.eqb b valid_when); [|reflexivity]. destruct (0 <=? i) eqn:E; [reflexivity|lia].
  - (* Unmasked *)
    rewrite to_list_Unmasked in Hl. exists (iota (clen c)), vs. split; [reflexivity|]. split; [exact Hl|].
    rewrite <- (to_list_len _ _ Hl). transitivity (mapM (get vs) (iota (zlen vs))); [|apply gather_all].
    apply mapM_ext_in. intros i Hi.
    apply iota_In' in Hi. destruct (0 <=? i) eqn:E; [reflexivity|lia].
Qed.

(* the value of the union [content; value] with the tags / index fillna builds *)
Lemma fill_union_to_list c' value vs0 v0 ix :
  to_list c' = Ok vs0 -> to_list value = Ok [v0] ->
  to_list (Union I64 (map (fun i => if i <? 0 then 1 else 0) ix) (map (fun i => if i <? 0 then 0 else i) ix) [c'; value])
  = mapM (fun i => if i <? 0 then Ok v0 else get vs0 i) ix.
Proof.
  intros Hc Hv. rewrite to_list_Union, all_lists_mapM. cbn [mapM]. rewrite Hc, Hv. cbn [bind].
  rewrite !zlen_map, Z.ltb_irrefl. rewrite zip_map_same, mapM_map. apply mapM_ext_in. intros i _.
  destruct (i <? 0) eqn:E.
  - reflexivity.
  - reflexivity.
Qed.

(* ---------------------------------------------------------------- the specification, unfolded *)
Section Fill.
  Variable v0 : value.
  Variable fillc : content.
  Hypothesis Hvalue : to_list fillc = Ok [v0].
  Notation FV := (fillna_v v0).
  Notation FP := (fillna_p None fillc).

  Lemma FV_rec ks ts v : FV (TRec ks ts) v = recS (map FV ts) v.
  Proof.
    destruct v; try reflexivity; cbn [fillna_v recS]; f_equal.
    - revert fs. induction ts as [|t ts IH]; intros [|[k x] fs]; try reflexivity. cbn [map recF]. rewrite <- IH. reflexivity.
    - revert vs. induction ts as [|t ts IH]; intros [|x xs]; try reflexivity. cbn [map tupF]. rewrite <- IH. reflexivity.
  Qed.
  Lemma FV_numpy_id dt : forall dims v, has_type (numpy_ty dt dims) v -> FV (numpy_ty dt dims) v = Ok v.
  Proof.
    induction dims as [|d ds IH]; intros v Hv; cbn [numpy_ty]; [reflexivity|].
    destruct (has_type_list_inv _ _ _ Hv) as (l & -> & Hl). cbn [fillna_v].
    rewrite mapM_id; [reflexivity|]. intros x Hx. rewrite Forall_forall in Hl. apply IH, Hl, Hx.
  Qed.
  Lemma FP_Record cs ks n : FP (Record cs ks n) = rmap (fun cs' => Record cs' ks n) (mapM FP cs).
  Proof.
    cbn [fillna_p]. f_equal. induction cs as [|x xs IH]; [reflexivity|]. cbn [mapM]. rewrite <- IH. reflexivity.
  Qed.

  (* every step succeeds; the result has the specified value *)
  Definition FR (m : res content) (t : ty) (vs : list value) : Prop :=
    exists c' ws, m = Ok c' /\ mapM (FV t) vs = Ok ws /\ to_list c' = Ok ws.

  Lemma FR_rmap (K : content -> content) m t0 vs0 t vs :
    FR m t0 vs0 ->
    (forall c' ws0, to_list c' = Ok ws0 -> mapM (FV t0) vs0 = Ok ws0 ->
                    exists ws, mapM (FV t) vs = Ok ws /\ to_list (K c') = Ok ws) ->
    FR (rmap K m) t vs.
  Proof.
    intros (c' & ws0 & -> & Hm & Hl) HK. destruct (HK c' ws0 Hl Hm) as (ws & Hws & Hlk).
    exists (K c'), ws. auto.
  Qed.

  Lemma FR_list (K : content -> content) m t0 vs0 sz bs ls :
    (forall c' ws0 ls', to_list c' = Ok ws0 -> zlen ws0 = zlen vs0 -> mapM (cut1 ws0) bs = Ok ls' ->
                        to_list (K c') = Ok (map VList ls')) ->
    mapM (cut1 vs0) bs = Ok ls ->
    FR m t0 vs0 -> FR (rmap K m) (TList sz None t0) (map VList ls).
  Proof.
    intros HK Hcut H. eapply FR_rmap; [exact H|].
    intros c' ws0 Hc' HF. destruct (cuts_mapM (FV t0) vs0 ws0 bs ls HF Hcut) as (ls' & Hls' & Hm).
    exists (map VList ls'). split.
    - rewrite mapM_map, <- Hm. apply mapM_ext_in. intros l _. reflexivity.
    - eapply HK; [exact Hc'|apply (mapM_zlen _ _ _ HF)|exact Hls'].
  Qed.

  (* an option node: [Union [content; fillc]] *)
  Lemma FR_option c vs :
    is_option_node c = true -> Valid None c -> ffrag c = true -> to_list c = Ok vs ->
    FR (FP c) (type_of_p None c) vs.
  Proof.
    intros Hc HV Hfr Hl.
    destruct (option_index_spec c vs Hc Hl) as (ix & vs0 & Hoi & Hl0 & Hpick).
    assert (Hnn : forall x, In x vs0 -> x <> VNone).
    { destruct c; try discriminate; cbn [option_content ffrag] in *; inversion HV; subst;
        apply negb_true_iff in Hfr; eapply nonone_values'; eassumption. }
    assert (Hfp : FP c = Ok (Union I64 (map (fun i => if i <? 0 then 1 else 0) ix)
                               (map (fun i => if i <? 0 then 0 else i) ix) [option_content c; fillc])).
    { destruct c; try discriminate; cbn [fillna_p]; rewrite Hoi; reflexivity. }
    assert (Hty : exists t0, type_of_p None c = TOpt t0) by (destruct c; try discriminate; eexists; reflexivity).
    destruct Hty as (t0 & ->). rewrite Hfp.
    assert (Heq : mapM (FV (TOpt t0)) vs = mapM (fun i => if i <? 0 then Ok v0 else get vs0 i) ix).
    { rewrite (mapM_mapM _ _ _ _ Hpick). apply mapM_ext_in. intros i Hi.
      destruct (mapM_Ok_In _ _ _ _ Hpick Hi) as (y & Hy & _). rewrite Hy. cbn [bind].
      unfold pick_opt in Hy. destruct (i <? 0) eqn:E.
      - destruct (0 <=? i) eqn:E2; [lia|]. inversion Hy; subst. reflexivity.
      - destruct (0 <=? i) eqn:E2; [|lia]. rewrite Hy. pose proof (Hnn y (get_In _ _ _ Hy)) as Hy0.
        cbn [fillna_v]. destruct y; try reflexivity. congruence. }
    destruct (mapM_total (FV (TOpt t0)) vs) as [ws Hws].
    { intros v _. cbn [fillna_v]. destruct v; eexists; reflexivity. }
    eexists _, ws. split; [reflexivity|]. split; [exact Hws|].
    rewrite (fill_union_to_list _ _ _ _ _ Hl0 Hvalue), <- Heq. exact Hws.
  Qed.

  (* the fields of a record, in order *)
  Lemma FR_fields : forall cs vss,
    Forall (fun x => forall vs, to_list x = Ok vs -> FR (FP x) (type_of_p None x) vs) cs ->
    mapM to_list cs = Ok vss ->
    exists cs' wss, mapM FP cs = Ok cs' /\ mapM to_list cs' = Ok wss /\
                    cols_rel (map FV (map (type_of_p None) cs)) vss wss.
  Proof.
    induction cs as [|x xs IH]; intros vss HF Hv.
    - inversion Hv; subst. exists [], []. repeat split; constructor.
    - cbn [mapM] in Hv. apply bind_Ok in Hv as (col & Hcol & Hv). apply bind_Ok in Hv as (vss' & Hvss' & Hv). inversion Hv; subst.
      inversion HF as [|? ? Hx Hxs]; subst. destruct (Hx col Hcol) as (x' & ws & Hfx & Hm & Hlx).
      destruct (IH vss' Hxs Hvss') as (xs' & wss & Hfxs & Hlxs & Hrel).
      exists (x' :: xs'), (ws :: wss). cbn [mapM map]. rewrite Hfx, Hfxs, Hlx, Hlxs. repeat split.
      constructor; assumption.
  Qed.

  Definition fill_at (c : content) : Prop :=
    forall vs, Valid None c -> ffrag c = true -> to_list c = Ok vs -> FR (FP c) (type_of_p None c) vs.

  Lemma fillna_refines_all c : fill_at c.
  Proof.
    induction c as [dt shape data| |w o c IHc|w s e c IHc|c size zl IHc|w ix c IHc|w ix c IHc|m vw c IHc
                   |m vw lsb n c IHc|c IHc|w t ix cs IHcs|cs ks n IHcs|arr rn c IHc] using content_ind';
      intros vs HV Hfr Hl; pose proof HV as HV0; try (apply FR_option; [reflexivity|assumption..]); cbn [ffrag] in Hfr.
    - (* Numpy *)
      exists (Numpy dt shape data), vs. split; [reflexivity|]. split; [|exact Hl].
      pose proof (to_list_typed_thm _ _ HV Hl) as Hty. unfold type_of in Hty. cbn [type_of_p] in *.
      apply mapM_id. intros x Hx. rewrite Forall_forall in Hty. apply FV_numpy_id, Hty, Hx.
    - (* Empty *)
      inversion Hl; subst. exists Empty, []. repeat split.
    - (* ListOffset *)
      inversion HV; subst.
      match goal with H : is_strk None = false -> Valid None c |- _ => specialize (H eq_refl); rename H into HVc end.
      rewrite to_list_ListOffset in Hl. apply bind_Ok in Hl as (vs0 & Hl0 & Hl). apply rmap_Ok in Hl as (ls & Hcut & ->).
      unfold cut in Hcut. destruct o as [|a o]; [discriminate|].
      cbn [fillna_p is_strk type_of_p strflag].
      eapply FR_list with (bs := pairs (a :: o)); [|exact Hcut|apply IHc; assumption].
      intros c' ws0 ls' Hc' _ Hls'. rewrite to_list_ListOffset, Hc'. cbn [bind]. unfold cut. rewrite Hls'. reflexivity.
    - (* ListA *)
      inversion HV; subst.
      match goal with H : is_strk None = false -> Valid None c |- _ => specialize (H eq_refl); rename H into HVc end.
      rewrite to_list_ListA in Hl. apply bind_Ok in Hl as (vs0 & Hl0 & Hl). apply rmap_Ok in Hl as (ls & Hcut & ->).
      unfold cut2 in Hcut. destruct (zlen e <? zlen s) eqn:Ese; [discriminate|].
      cbn [fillna_p is_strk type_of_p strflag].
      eapply FR_list with (bs := zip s e); [|exact Hcut|apply IHc; assumption].
      intros c' ws0 ls' Hc' _ Hls'. rewrite to_list_ListA, Hc'. cbn [bind]. unfold cut2. rewrite Ese, Hls'. reflexivity.
    - (* Regular *)
      inversion HV; subst.
      match goal with H : is_strk None = false -> Valid None c |- _ => specialize (H eq_refl); rename H into HVc end.
      rewrite to_list_Regular in Hl. apply bind_Ok in Hl as (vs0 & Hl0 & Hl). apply rmap_Ok in Hl as (ch & Hch & ->).
      cbn [fillna_p is_strk type_of_p strflag].
      eapply FR_list with (bs := map (fun i => (i * size, (i + 1) * size)) (iota (zlen ch)));
        [|apply (chunks_as_cuts _ _ _ _ Hch)|apply IHc; assumption].
      intros c' ws0 ls' Hc' Hz Hls'. rewrite to_list_Regular, Hc'. cbn [bind].
      destruct (chunks_indep vs0 ws0 size zl ch Hch Hz) as (ch' & Hch' & Hzc).
      rewrite Hch'. cbn [rmap]. pose proof (chunks_as_cuts _ _ _ _ Hch') as Hc2. rewrite Hzc, Hls' in Hc2.
      inversion Hc2; subst. reflexivity.
    - (* Indexed *)
      inversion HV; subst.
      rewrite to_list_Indexed in Hl. apply bind_Ok in Hl as (vs0 & Hl0 & Hl).
      cbn [fillna_p type_of_p].
      eapply FR_rmap; [apply IHc; eassumption|].
      intros c' ws0 Hc' HF.
      destruct (gather_same_len vs0 ws0 ix) as [ws Hws]; [symmetry; apply (mapM_zlen _ _ _ HF)|eauto|].
      exists ws. split.
      + rewrite (mapM_gather_ok _ _ _ _ _ HF Hl). exact Hws.
      + rewrite to_list_Indexed, Hc'. exact Hws.
    - (* Union *) discriminate.
    - (* Record *)
      inversion HV; subst.
      rewrite to_list_Record in Hl. apply bind_Ok in Hl as (vss & Hvss & Hl). rewrite all_lists_mapM in Hvss.
      destruct (n <? 0) eqn:En; [discriminate|].
      apply ffrag_all in Hfr.
      assert (HF : Forall (fun x => forall vs, to_list x = Ok vs -> FR (FP x) (type_of_p None x) vs) cs).
      { apply Forall_forall. intros x Hx col Hcol. rewrite Forall_forall in IHcs, Hfr.
        match goal with H : Forall (Valid None) cs |- _ => rewrite Forall_forall in H; pose proof (H x Hx) as HVx end.
        apply IHcs; auto. }
      destruct (FR_fields cs vss HF Hvss) as (cs' & wss & Hfcs & Hwss & Hrel).
      rewrite FP_Record, Hfcs. cbn [rmap type_of_p].
      destruct (mapM_square (row ks vss) (row ks wss) (recS (map FV (map (type_of_p None) cs))) (iota n) vs)
        as (ws & Hq & Hs); [|exact Hl|].
      { intros i v _ Hr. eapply row_commute; eassumption. }
      exists (Record cs' ks n), ws. split; [reflexivity|]. split.
      + rewrite <- Hs. apply mapM_ext_in. intros v _. apply FV_rec.
      + rewrite to_list_Record, all_lists_mapM, Hwss. cbn [bind]. rewrite En. exact Hq.
    - (* Par *)
      inversion HV; subst.
      match goal with H : Valid arr c |- _ => rename H into HVc end.
      destruct (Valid_param arr c HVc) as [-> | Es].
      + rewrite to_list_Par in Hl. apply bind_Ok in Hl as (vs0 & Hl0 & Hl). inversion Hl; subst.
        cbn [fillna_p type_of_p]. eapply FR_rmap; [apply IHc; eassumption|].
        intros c' ws0 Hc' HF. exists ws0. split; [exact HF|]. rewrite to_list_Par, Hc'. reflexivity.
      + (* a string: left alone *)
        assert (Hp : ParamOk arr c) by (inversion HVc; subst; try assumption; discriminate).
        destruct (ParamOk_str arr c Hp Es) as (cc & k' & rn' & n & dd & Hcc & _ & _).
        assert (Hfp : fillna_p arr fillc c = Ok c) by (destruct c; try discriminate; cbn [fillna_p]; rewrite Es; reflexivity).
        assert (Hty : exists sz b t, type_of_p arr c = TList sz (Some b) t).
        { destruct arr as [[]|]; try discriminate; destruct c; try discriminate; cbn [type_of_p strflag]; eauto. }
        destruct Hty as (sz & b & t & Hty).
        cbn [fillna_p type_of_p]. rewrite Hfp, Hty. cbn [rmap].
        exists (Par arr rn c), vs. split; [reflexivity|]. split; [|exact Hl].
        apply mapM_id. intros x _. reflexivity.
  Qed.
End Fill.

(* ---------------------------------------------------------------- the theorems *)
(* full strength: also the error for a value array that does not have exactly one element *)
Theorem fillna_refines_spec_gen : forall value c v0s vs,
  Valid None c -> ffrag c = true -> to_list c = Ok vs -> to_list value = Ok v0s ->
  obs (fillna_model value c) = fillna_spec v0s (type_of c) vs.
Proof.
  intros value c v0s vs HV Hfr Hl Hv. unfold fillna_model, fillna_spec. rewrite <- (to_list_len _ _ Hv).
  destruct v0s as [|v0 [|v1 rest]].
  - reflexivity.
  - replace (zlen [v0] =? 1) with true by reflexivity.
    destruct (fillna_refines_all v0 value Hv c vs HV Hfr Hl) as (c' & ws & Hfp & Hm & Hlc).
    rewrite Hfp. cbn [obs]. unfold type_of. congruence.
  - rewrite !zlen_cons. pose proof (zlen_nonneg rest). destruct (zlen rest + 1 + 1 =? 1) eqn:E; [lia|]. reflexivity.
Qed.

Theorem fillna_refines_spec : forall value c v0 vs,
  Valid None c -> frag c = true -> to_list c = Ok vs -> to_list value = Ok [v0] ->
  obs (fillna_model value c) = fillna_spec [v0] (type_of c) vs.
Proof. intros value c v0 vs HV Hfr. apply fillna_refines_spec_gen; [exact HV|apply frag_ffrag, Hfr]. Qed.

(* on the fragment fill_none never fails *)
Corollary fillna_total : forall value c v0 vs,
  Valid None c -> ffrag c = true -> to_list c = Ok vs -> to_list value = Ok [v0] ->
  exists c' ws, fillna_model value c = Ok c' /\ to_list c' = Ok ws /\ fillna_spec [v0] (type_of c) vs = Ok ws.
Proof.
  intros value c v0 vs HV Hfr Hl Hv. unfold fillna_model, fillna_spec. rewrite <- (to_list_len _ _ Hv).
  replace (zlen [v0] =? 1) with true by reflexivity.
  destruct (fillna_refines_all v0 value Hv c vs HV Hfr Hl) as (c' & ws & Hfp & Hm & Hlc).
  exists c', ws. auto.
Qed.

(* a non-trivial instance: lists of records with an option field, an n-d field and a string field; the
   content below the option node contains a union (allowed there) *)
Example fillna_refines_ex :
  let str := Par (Some AString) None (ListOffset I64 [0; 2; 3] (Par (Some AChar) None (Numpy DUInt8 [3] [DZ 104; DZ 105; DZ 33]))) in
  let c := ListOffset I64 [0; 1; 1; 2]
             (Record [ByteMasked [1; 0] true (ListA I64 [0; 2] [2; 3] (Numpy DInt64 [3] [DZ 1; DZ 2; DZ 3]));
                      Numpy DFloat64 [2; 2] [DZ 1; DZ 2; DZ 3; DZ 4];
                      str] (Some [[120]; [121]; [122]]) 2) in
  let value := Numpy DInt64 [1] [DZ 0] in
  validb None c = true /\ frag c = true /\ ffrag c = true /\
  obs (fillna_model value c) =
    Ok [VList [VRec [([120], VList [VNum (DZ 1); VNum (DZ 2)]); ([121], VList [VNum (DZ 1); VNum (DZ 2)]); ([122], VStr true [104; 105])]];
        VList [];
        VList [VRec [([120], VNum (DZ 0)); ([121], VList [VNum (DZ 3); VNum (DZ 4)]); ([122], VStr true [33])]]] /\
  obs (fillna_model (Numpy DInt64 [2] [DZ 0; DZ 0]) c) = Err EValue.
Proof. vm_compute. repeat split. Qed.

(* Outside the fragment the statement is false.
   (1) a union above the option level: the specification refuses unions ([fillna_v] on [TUnion]), the
       layout-level operation (like the C++) descends into them; *)
Example fillna_refines_spec_union_refuted :
  let c := Union I64 [0] [0] [Numpy DInt64 [1] [DZ 1]] in
  let value := Numpy DInt64 [1] [DZ 0] in
  validb None c = true /\ to_list c = Ok [VNum (DZ 1)] /\ to_list value = Ok [VNum (DZ 0)] /\
  obs (fillna_model value c) = Ok [VNum (DZ 1)] /\ fillna_spec [VNum (DZ 0)] (type_of c) [VNum (DZ 1)] = Err EValue.
Proof. vm_compute. repeat split. Qed.
(* (2) a union directly below an option node may itself hold a None (from an option-type alternative):
       the layout-level operation fills at the outer option node only and leaves that None (the C++ does the
       same: IndexedArray::fillna builds UnionArray [content, value] without descending), the specification
       replaces every None of an option-type value. *)
Example fillna_refines_spec_option_over_union_refuted :
  let c := IndexedOption I64 [0] (Union I64 [0] [0] [IndexedOption I64 [-1] (Numpy DInt64 [1] [DZ 1])]) in
  let value := Numpy DInt64 [1] [DZ 0] in
  validb None c = true /\ to_list c = Ok [VNone] /\ to_list value = Ok [VNum (DZ 0)] /\
  obs (fillna_model value c) = Ok [VNone] /\ fillna_spec [VNum (DZ 0)] (type_of c) [VNone] = Ok [VNum (DZ 0)].
Proof. vm_compute. repeat split. Qed.

(* ---------------------------------------------------------------- layout independence (C02) *)
Theorem layout_independent_fillna_partial : forall a b va vb vs v0s,
  Valid None a -> Valid None b -> ffrag a = true -> ffrag b = true ->
  to_list a = Ok vs -> to_list b = Ok vs -> type_of a = type_of b ->
  to_list va = Ok v0s -> to_list vb = Ok v0s ->
  obs (fillna_model va a) = obs (fillna_model vb b).
Proof.
  intros a b va vb vs v0s HVa HVb Hfa Hfb Hla Hlb Hty Hva Hvb.
  rewrite (fillna_refines_spec_gen va a v0s vs), (fillna_refines_spec_gen vb b v0s vs), Hty by assumption. reflexivity.
Qed.
