# Long-lived connection to /verif/.build/std/pydrv (one request line -> one reply line, with call-backs).
import os
import re
import subprocess
import threading
import struct

BUILD_DIR = os.environ.get("PYSHIM_BUILD_DIR", "/verif/.build/std")
PYDRV = os.path.join(BUILD_DIR, "pydrv")


class DriverCrashed(Exception):
    """The driver process died while serving a request (carries the request line)."""

    def __init__(self, request, returncode, stderr_tail=""):
        self.request = request
        self.returncode = returncode
        self.stderr_tail = stderr_tail
        shown = request if len(request) < 400 else request[:400] + "...[%d chars]" % len(request)
        Exception.__init__(
            self,
            "pydrv died (returncode %r) while serving: %s%s"
            % (returncode, shown, ("\nstderr: " + stderr_tail) if stderr_tail else ""),
        )


class DriverProtocolError(Exception):
    """The shim sent a request the driver could not understand (a bug in pyshim, not in awkward)."""


_tok = re.compile(r"[()]|[^\s()]+")


def parse(s):
    stack = [[]]
    for t in _tok.findall(s):
        if t == "(":
            stack.append([])
        elif t == ")":
            l = stack.pop()
            stack[-1].append(l)
        else:
            stack[-1].append(t)
    if len(stack) != 1 or len(stack[0]) != 1:
        raise DriverProtocolError("unbalanced reply: " + s[:200])
    return stack[0][0]


def hx(b):
    """bytes/str -> hex atom"""
    if isinstance(b, str):
        b = b.encode("utf-8", "surrogateescape")
    return "x" + bytes(b).hex()


def unhx(a):
    if not isinstance(a, str) or not a.startswith("x"):
        raise DriverProtocolError("hex atom expected: %r" % (a,))
    return bytes.fromhex(a[1:])


def unhx_str(a):
    return unhx(a).decode("utf-8", "surrogateescape")


def dbl(x):
    return "x" + struct.pack("<d", float(x)).hex()


def undbl(a):
    return struct.unpack("<d", unhx(a))[0]


_ERRMAP = {
    "value": ValueError,
    "runtime": RuntimeError,
    "other": RuntimeError,
    "index": IndexError,
    "overflow": OverflowError,
}


class Driver(object):
    def __init__(self, path=None):
        self.path = path or PYDRV
        self.proc = None
        self.generation = 0  # incremented on every (re)start; stateful handles check it
        self.lock = threading.RLock()
        self.counter = 0
        self.nrequests = 0
        self.log = None  # optional list receiving (request, reply)
        self.callback_handler = None  # callable(tree) -> reply line

    def start(self):
        if not os.path.exists(self.path):
            raise RuntimeError(
                "driver binary %s missing: run `make -s -C /verif/impl -j8`" % self.path
            )
        env = dict(os.environ)
        import time

        last = None
        for attempt in range(10):
            # another agent may be re-linking /verif/.build/std at this very moment: retry
            try:
                self.proc = subprocess.Popen(
                    [self.path],
                    stdin=subprocess.PIPE,
                    stdout=subprocess.PIPE,
                    stderr=subprocess.PIPE,
                    bufsize=1 << 20,
                    env=env,
                )
                self.proc.stdin.write(b"(hello ping)\n")
                self.proc.stdin.flush()
                if self.proc.stdout.readline().strip() == b"(hello ok pong)":
                    last = None
                    break
                last = RuntimeError("pydrv did not answer the start-up ping (returncode %r): %s" % (
                    self.proc.poll(), self.proc.stderr.read().decode("utf-8", "replace")[-500:]))
            except (OSError, ValueError) as err:
                last = err
            time.sleep(1.0 + attempt)
        if last is not None:
            self.proc = None
            raise last
        self.generation += 1

    def stop(self):
        if self.proc is not None:
            try:
                self.proc.stdin.close()
                self.proc.wait(timeout=5)
            except Exception:
                try:
                    self.proc.kill()
                except Exception:
                    pass
            self.proc = None

    def _died(self, line):
        rc = None
        tail = ""
        try:
            rc = self.proc.wait(timeout=5)
            tail = self.proc.stderr.read().decode("utf-8", "replace")[-2000:]
        except Exception:
            try:
                self.proc.kill()
            except Exception:
                pass
        self.proc = None
        return DriverCrashed(line, rc, tail)

    def request(self, body):
        """body: request text without the id. Returns the parsed RESULT tree, raising mapped errors."""
        with self.lock:
            if self.proc is None or self.proc.poll() is not None:
                self.start()
            self.counter += 1
            self.nrequests += 1
            rid = "r%d" % self.counter
            line = "(" + rid + " " + body + ")"
            try:
                self.proc.stdin.write(line.encode("ascii") + b"\n")
                self.proc.stdin.flush()
            except (BrokenPipeError, OSError):
                raise self._died(line)
            while True:
                raw = self.proc.stdout.readline()
                if not raw:
                    raise self._died(line)
                text = raw.decode("ascii").rstrip("\n")
                if text.startswith("(cb "):
                    reply = self._serve_callback(text)
                    try:
                        self.proc.stdin.write(reply.encode("ascii") + b"\n")
                        self.proc.stdin.flush()
                    except (BrokenPipeError, OSError):
                        raise self._died(line)
                    continue
                break
            if self.log is not None:
                self.log.append((line, text))
            tree = parse(text)
            if tree[0] != rid:
                raise DriverProtocolError("reply id mismatch: %r vs %r" % (tree[0], rid))
            status = tree[1]
            if status == "ok":
                return tree[2]
            if status == "err":
                exc = _ERRMAP.get(tree[2], RuntimeError)
                raise exc(unhx_str(tree[3]))
            if status == "bad":
                raise DriverProtocolError(
                    unhx_str(tree[2]) + "   [request: " + (line if len(line) < 300 else line[:300] + "...") + "]"
                )
            raise DriverProtocolError("unknown reply status: " + text[:200])

    def _serve_callback(self, text):
        try:
            tree = parse(text)
            if self.callback_handler is None:
                raise RuntimeError("no call-back handler installed")
            return "(ok " + self.callback_handler(tree) + ")"
        except BaseException as err:  # the error travels through C++ as std::runtime_error
            self.last_callback_error = err
            return "(err " + hx("%s: %s" % (type(err).__name__, err)) + ")"


_driver = Driver()


def get():
    return _driver


def request(body):
    return _driver.request(body)
