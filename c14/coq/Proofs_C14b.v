(** C14 — the round trip for values containing tuples and records (proved here, restated in Props_C14.v).

    FULL STATEMENT (goal):
      forall o vs, good_opts o -> forallb pywf vs = true ->
        exists b, run o ab_init (encode_all vs) = Ok b /\ observe b = Ok (unify vs).
    It is FALSE as stated: [empty_name_refuted] — an unnamed record followed, at the same position, by a record
    whose name is the empty string "" — the C++ (RecordBuilder::beginrecord: an unnamed builder stores name_ = "" and
    beginrecord_check compares `name_ == name`) merges the two into one record type, the documented unification
    ([unify]: same-named OR both unnamed) keeps them apart.  In the other order the builder makes a union, as documented.

    PROVED: the full statement for all well-formed values none of whose records is named by the empty string
    ([pyok] = [pywf] && [named_ok], lemma [pyok_split]): None, booleans, integers, reals, strings, bytestrings, lists,
    tuples of any arity, records named or unnamed with any field sets in any order, ARBITRARILY NESTED AND
    HETEROGENEOUS (tuples / records inside lists, lists and records inside fields and slots, different arities /
    names / kinds at one position forming unions, None anywhere), for all options that make GrowableBuffer grow:
      [builder_roundtrip_struct_partial].
    The staged fragments asked for are corollaries:
      stage 1  [tuple_flat]   no_struct values and tuples (any arities, also mixed) whose slots are no_struct
      stage 2  [record_flat]  no_struct values and records (same or different field sets / orders / names) whose
                              field values are no_struct
      stage 3/4 [pyok]        everything.
    STILL EXCLUDED: only records named "" (Some []), and ill-formed values (duplicate keys in one dict). *)
From Coq Require Import ZArith List Bool Lia.
From AwkV Require Import Base Layout.
From AwkBuilder Require Import Builder Spec GbLemmas Invariant StepLemmas Proofs_C14
  RecInv RecRep RecFwd RecAtom RecOpen RecInner RecStatic RecRoundtrip.
Import ListNotations.
Open Scope Z_scope.

(* ------------------------------------------------------------------ the fragments *)
(* no record is named by the empty string *)
Fixpoint named_ok (v : pyval) : bool :=
  match v with
  | PList l | PTup l => forallb named_ok l
  | PRec nm fs =>
      negb (oname_eqb nm (Some [])) &&
      (fix go (fs : list (name * pyval)) : bool :=
         match fs with [] => true | (_, x) :: t => named_ok x && go t end) fs
  | _ => true
  end.

Definition allf (p : pyval -> bool) : list (name * pyval) -> bool :=
  fix go (fs : list (name * pyval)) : bool := match fs with [] => true | (_, x) :: t => p x && go t end.

Lemma pyok_split v : pyok v = pywf v && named_ok v.
Proof.
  induction v as [| | | | |l IH|l IH|nm fs IH] using pyval_indx; try reflexivity.
  - cbn [pyok pywf named_ok]. induction IH as [|x t Hx _ IHt]; [reflexivity|]. cbn [forallb]. rewrite Hx, IHt.
    destruct (pywf x), (named_ok x), (forallb pywf t), (forallb named_ok t); reflexivity.
  - cbn [pyok pywf named_ok]. induction IH as [|x t Hx _ IHt]; [reflexivity|]. cbn [forallb]. rewrite Hx, IHt.
    destruct (pywf x), (named_ok x), (forallb pywf t), (forallb named_ok t); reflexivity.
  - change (pyok (PRec nm fs)) with (negb (oname_eqb nm (Some [])) && keys_nodup (map fst fs) && allf pyok fs).
    change (pywf (PRec nm fs)) with (keys_nodup (map fst fs) && allf pywf fs).
    change (named_ok (PRec nm fs)) with (negb (oname_eqb nm (Some [])) && allf named_ok fs).
    assert (allf pyok fs = allf pywf fs && allf named_ok fs) as E.
    { induction IH as [|[k x] t Hx _ IHt]; [reflexivity|]. cbn [snd] in Hx. cbn [allf]. fold (allf pyok t).
      fold (allf pywf t). fold (allf named_ok t). rewrite Hx, IHt.
      destruct (pywf x), (named_ok x), (allf pywf t), (allf named_ok t); reflexivity. }
    rewrite E.
    destruct (negb (oname_eqb nm (Some []))), (keys_nodup (map fst fs)), (allf pywf fs), (allf named_ok fs); reflexivity.
Qed.

Lemma no_struct_pyok v : no_struct v = true -> pyok v = true.
Proof.
  induction v as [| | | | |l IH|l IH|nm fs IH] using pyval_indx; intro H; try reflexivity; try discriminate H.
  cbn [no_struct] in H. cbn [pyok]. rewrite forallb_forall in *. rewrite Forall_forall in IH. auto.
Qed.

(* stage 1: flat tuples *)
Definition tuple_flat (v : pyval) : bool :=
  no_struct v || match v with PTup l => forallb no_struct l | _ => false end.
(* stage 2: flat records *)
Definition record_flat (v : pyval) : bool :=
  no_struct v ||
  match v with
  | PRec nm fs =>
      negb (oname_eqb nm (Some [])) && keys_nodup (map fst fs) && forallb (fun kv => no_struct (snd kv)) fs
  | _ => false
  end.

Lemma tuple_flat_pyok v : tuple_flat v = true -> pyok v = true.
Proof.
  unfold tuple_flat. intro H. apply orb_true_iff in H. destruct H as [H|H]; [now apply no_struct_pyok|].
  destruct v; try discriminate H. cbn [pyok]. rewrite forallb_forall in *. intros x Hx. apply no_struct_pyok; auto.
Qed.

Lemma record_flat_pyok v : record_flat v = true -> pyok v = true.
Proof.
  unfold record_flat. intro H. apply orb_true_iff in H. destruct H as [H|H]; [now apply no_struct_pyok|].
  destruct v; try discriminate H. apply andb_true_iff in H. destruct H as [H H3]. cbn [pyok]. rewrite H. cbn [andb].
  clear H. induction fs as [|[k x] t IH]; [reflexivity|]. cbn [forallb snd] in H3. apply andb_true_iff in H3.
  destruct H3 as [Hx Ht]. rewrite (no_struct_pyok x Hx). cbn [andb]. auto.
Qed.

Lemma forallb_imp {A} (p q : A -> bool) l : (forall x, p x = true -> q x = true) -> forallb p l = true -> forallb q l = true.
Proof. intros H E. rewrite forallb_forall in *. auto. Qed.

(* ------------------------------------------------------------------ (a) round trip, records and tuples *)
Theorem builder_roundtrip_struct_partial o vs :
  good_opts o -> forallb pyok vs = true ->
  exists b, run o ab_init (encode_all vs) = Ok b /\ observe b = Ok (unify vs).
Proof.
  intros Ho Hok. destruct (feed_values_x o Ho vs Hok) as (b & E & R).
  exists b. split; [exact E|]. now apply rep_observe_unify.
Qed.

(* the same with the hypothesis of the full statement, plus the one exclusion *)
Theorem builder_roundtrip_wf_partial o vs :
  good_opts o -> forallb pywf vs = true -> forallb named_ok vs = true ->
  exists b, run o ab_init (encode_all vs) = Ok b /\ observe b = Ok (unify vs).
Proof.
  intros Ho Hw Hn. apply builder_roundtrip_struct_partial; [exact Ho|].
  rewrite forallb_forall in *. intros v Hv. rewrite pyok_split, (Hw v Hv), (Hn v Hv). reflexivity.
Qed.

(* stage 1 *)
Theorem builder_roundtrip_tuples_partial o vs :
  good_opts o -> forallb tuple_flat vs = true ->
  exists b, run o ab_init (encode_all vs) = Ok b /\ observe b = Ok (unify vs).
Proof. intros Ho H. apply builder_roundtrip_struct_partial; [exact Ho|]. eapply forallb_imp; [apply tuple_flat_pyok|exact H]. Qed.

(* stage 2 *)
Theorem builder_roundtrip_records_partial o vs :
  good_opts o -> forallb record_flat vs = true ->
  exists b, run o ab_init (encode_all vs) = Ok b /\ observe b = Ok (unify vs).
Proof. intros Ho H. apply builder_roundtrip_struct_partial; [exact Ho|]. eapply forallb_imp; [apply record_flat_pyok|exact H]. Qed.

(* the session form (as the correspondence runs it): no error event, one snapshot of length |vs| whose to_list is the
   specification *)
Theorem from_iter_session_struct o vs :
  good_opts o -> forallb pyok vs = true ->
  exists c, fst (run_session o ab_init 0 (map SC (encode_all vs) ++ [SSnapshot]))
            = [EvSnap (length (encode_all vs)) (zlen vs) (Ok c)] /\ to_list c = Ok (unify vs).
Proof.
  intros Ho Hok. destruct (feed_values_x o Ho vs Hok) as (b & E & R).
  destruct (rep_observe b vs R) as (c & Es & Et). exists c.
  rewrite (run_session_SC o _ ab_init b 0 [SSnapshot] E). cbn [run_session fst Nat.add].
  rewrite Es, (rep_len b vs R). split; [reflexivity|exact Et].
Qed.

(* whatever the initial capacity, the resize policy and the contents of fresh memory *)
Theorem growth_irrelevant_struct_partial o1 o2 vs :
  good_opts o1 -> good_opts o2 -> forallb pyok vs = true ->
  exists b1 b2, run o1 ab_init (encode_all vs) = Ok b1 /\ run o2 ab_init (encode_all vs) = Ok b2 /\
                observe b1 = observe b2.
Proof.
  intros H1 H2 Hn.
  destruct (builder_roundtrip_struct_partial o1 vs H1 Hn) as (b1 & E1 & O1).
  destruct (builder_roundtrip_struct_partial o2 vs H2 Hn) as (b2 & E2 & O2).
  exists b1, b2. rewrite O1, O2. auto.
Qed.

(* ------------------------------------------------------------------ examples *)
Definition ex_opts : opts := {| initial := 1; grow := fun r => r + 1; junk := 7 |}.
Lemma ex_opts_good : good_opts ex_opts.
Proof. split; cbn; [lia|intros; lia]. Qed.

Definition kx : name := [120].
Definition ky : name := [121].
Definition kz : name := [122].

(* stage 1: [(1, 2.0), None, (None, "a"), (3,), (), 7, (4, [5])] *)
Example builder_roundtrip_tuples_example :
  let vs := [PTup [PInt 1; PFloat 2]; PNone; PTup [PNone; PStr true [97]]; PTup [PInt 3]; PTup []; PInt 7;
             PTup [PInt 4; PList [PInt 5]]] in
  good_opts ex_opts /\ forallb tuple_flat vs = true /\
  (do b <- run ex_opts ab_init (encode_all vs); observe b) = Ok (unify vs) /\
  unify vs = [VTup [VNum (DZ 1); VNum (DZ 2)]; VNone; VTup [VNone; VStr true [97]]; VTup [VNum (DZ 3)]; VTup [];
              VNum (DZ 7); VTup [VNum (DZ 4); VList [VNum (DZ 5)]]].
Proof. cbv zeta. split; [exact ex_opts_good|split; [reflexivity|split; vm_compute; reflexivity]]. Qed.

(* stage 2: [{"x":1,"y":[1.5]}, None, {"x":2}, {"z":"a","x":None}, A{"x":1}, {"y":[]}] *)
Example builder_roundtrip_records_example :
  let vs := [PRec None [(kx, PInt 1); (ky, PList [PFloat 1])]; PNone; PRec None [(kx, PInt 2)];
             PRec None [(kz, PStr true [97]); (kx, PNone)]; PRec (Some [65]) [(kx, PInt 1)];
             PRec None [(ky, PList [])]] in
  good_opts ex_opts /\ forallb record_flat vs = true /\
  (do b <- run ex_opts ab_init (encode_all vs); observe b) = Ok (unify vs) /\
  unify vs = [VRec [(kx, VNum (DZ 1)); (ky, VList [VNum (DZ 1)]); (kz, VNone)]; VNone;
              VRec [(kx, VNum (DZ 2)); (ky, VNone); (kz, VNone)];
              VRec [(kx, VNone); (ky, VNone); (kz, VStr true [97])];
              VRec [(kx, VNum (DZ 1))];
              VRec [(kx, VNone); (ky, VList []); (kz, VNone)]].
Proof. cbv zeta. split; [exact ex_opts_good|split; [reflexivity|split; vm_compute; reflexivity]]. Qed.

(* stages 3/4: [{"x":1,"y":[1.5]}, None, {"x":2}, [({"x":{"z":1}}, 2), ({"x":{"y":None}}, None)], (1,), "s",
                {"y":[{"z":(1,2)}, {"x":[]}]}] *)
Example builder_roundtrip_struct_example :
  let vs := [PRec None [(kx, PInt 1); (ky, PList [PFloat 1])]; PNone; PRec None [(kx, PInt 2)];
             PList [PTup [PRec None [(kx, PRec None [(kz, PInt 1)])]; PInt 2];
                    PTup [PRec None [(kx, PRec None [(ky, PNone)])]; PNone]];
             PTup [PInt 1]; PStr true [115];
             PRec None [(ky, PList [PRec None [(kz, PTup [PInt 1; PInt 2])]; PRec None [(kx, PList [])]])]] in
  good_opts ex_opts /\ forallb pyok vs = true /\ forallb pywf vs = true /\ forallb named_ok vs = true /\
  (do b <- run ex_opts ab_init (encode_all vs); observe b) = Ok (unify vs).
Proof. cbv zeta. split; [exact ex_opts_good|repeat split; vm_compute; reflexivity]. Qed.

Example from_iter_session_struct_example :
  let vs := [PRec None [(kx, PInt 1); (ky, PList [PFloat 1])]; PNone; PRec None [(kx, PInt 2)]] in
  forallb pyok vs = true /\
  exists c, fst (run_session ex_opts ab_init 0 (map SC (encode_all vs) ++ [SSnapshot]))
            = [EvSnap (length (encode_all vs)) 3 (Ok c)] /\
            to_list c = Ok [VRec [(kx, VNum (DZ 1)); (ky, VList [VNum (DZ 1)])]; VNone;
                            VRec [(kx, VNum (DZ 2)); (ky, VNone)]].
Proof. cbv zeta. split; [reflexivity|]. eexists. split; vm_compute; reflexivity. Qed.

(* ------------------------------------------------------------------ the exclusion is necessary *)
(* [{"x":1} (unnamed), ""{"y":1} (named by the empty string)]: well-formed, the run succeeds, and what is observed is
   ONE record type {x,y} with Nones, whereas the documented unification keeps an unnamed and a named record apart. *)
Example empty_name_refuted :
  let vs := [PRec None [(kx, PInt 1)]; PRec (Some []) [(ky, PInt 1)]] in
  forallb pywf vs = true /\
  (do b <- run ex_opts ab_init (encode_all vs); observe b)
    = Ok [VRec [(kx, VNum (DZ 1)); (ky, VNone)]; VRec [(kx, VNone); (ky, VNum (DZ 1))]] /\
  unify vs = [VRec [(kx, VNum (DZ 1))]; VRec [(ky, VNum (DZ 1))]] /\
  (do b <- run ex_opts ab_init (encode_all vs); observe b) <> Ok (unify vs).
Proof. cbv zeta. repeat split; try (vm_compute; reflexivity). vm_compute. discriminate. Qed.

(* in the other order the builder makes a union and agrees with the specification *)
Example empty_name_other_order :
  let vs := [PRec (Some []) [(kx, PInt 1)]; PRec None [(ky, PInt 1)]] in
  (do b <- run ex_opts ab_init (encode_all vs); observe b) = Ok (unify vs).
Proof. vm_compute. reflexivity. Qed.

(* so the full statement, with [pywf] alone, does not hold *)
Theorem builder_roundtrip_full_refuted :
  ~ (forall o vs, good_opts o -> forallb pywf vs = true ->
       exists b, run o ab_init (encode_all vs) = Ok b /\ observe b = Ok (unify vs)).
Proof.
  intro H.
  destruct (H ex_opts [PRec None [(kx, PInt 1)]; PRec (Some []) [(ky, PInt 1)]] ex_opts_good eq_refl) as (b & E & O).
  vm_compute in E. inversion E; subst b. vm_compute in O. discriminate O.
Qed.
