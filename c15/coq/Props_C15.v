(** C15 — property theorems (statements only; proofs are in Proofs_C15.v). *)
From Coq Require Import ZArith List.
From AwkV Require Import Base Layout Valid.
From AwkJson Require Import Json Proofs_C15.
Import ListNotations.
Open Scope Z_scope.

(* the decimal printer and the digit reader are inverse (unbounded integers) *)
Theorem dec_roundtrip : forall n rest, 0 <= n -> no_digit_head rest ->
  read_digits (dec_nat n ++ rest) 0 0 = (n, zlen (dec_nat n), rest).
Proof. exact dec_nat_read. Qed.
Print Assumptions dec_roundtrip.

(* unescaping inverts escaping for every byte string (quote, backslash, \b \f \n \r \t, \u00XX, raw bytes >= 0x20) *)
Theorem string_roundtrip : forall s r, Forall (fun c => 0 <= c) s ->
  lex_str (flat_map esc_byte s ++ 34 :: r) = SOk s r.
Proof. exact lex_str_render. Qed.
Print Assumptions string_roundtrip.

(* (a) every event sequence emitted by to_json is well-formed; no validity hypothesis is needed,
   so this is stronger than the statement with [Valid None c] *)
Theorem events_wellformed : forall o c evs, tojson_events o c = Ok evs -> wf evs = true.
Proof. exact events_wellformed_strong. Qed.
Print Assumptions events_wellformed.

(* (c) the reader inverts the compact writer: int64 integers, integer-valued doubles up to 2^53, booleans,
   null, byte strings and keys, arbitrary nesting *)
Theorem parse_render : forall evs, wf evs = true -> printable evs = true ->
  parse (render evs) = Ok (evs, []).
Proof. exact parse_render_lemma. Qed.
Print Assumptions parse_render.

(* ... also after leading whitespace and before any following text that cannot extend a number
   (kParseStopWhenDoneFlag) *)
Theorem parse_render_ws : forall ws evs rest, wf evs = true -> printable evs = true -> all_ws ws -> num_safe rest ->
  parse (ws ++ render evs ++ rest) = Ok (evs, rest).
Proof. exact parse_render_ws_lemma. Qed.
Print Assumptions parse_render_ws.

(* (d) k documents separated by whitespace give k entries, in order (events as seen after Handler) *)
Theorem concat_docs : forall o w0 dws, all_ws w0 -> Forall doc_ok dws -> seps_ok dws ->
  do_parse o (w0 ++ docs_text dws) = JDocs (map (fun dw => map (handler o) (fst dw)) dws).
Proof. exact concat_docs_lemma. Qed.
Print Assumptions concat_docs.

(* (b) FULL statement: for every valid layout the events of to_json fold back into to_list, up to the
   documented rendering jv (VStr -> string, VTup -> object keyed "0","1",..., nan/inf -> the chosen
   strings, everything else unchanged).  The two data hypotheses: [bytes_ok] (uint8 items are bytes) always
   holds in the implementation and is there only because the model's buffers are unbounded integers;
   [u64ok] (uint64 items below 2^63) cannot be dropped: Example tojson_value_refuted_uint64 in
   Proofs_C15.v is the known finding c15-uint64-wraps. *)
Theorem tojson_value : forall o c vs, Valid None c -> bytes_ok c = true -> u64ok c = true -> to_list c = Ok vs ->
  exists evs, tojson_events o c = Ok evs /\ json_value evs = Ok (VList (map (jv o) vs), []).
Proof. exact tojson_value_full. Qed.
Print Assumptions tojson_value.

(* the same on the syntactic fragment frag15 (every node class; __array__ absent or string/bytestring over a
   1-d uint8 char/byte NumpyArray), without assuming validity of offsets, indexes, masks or tags:
   [to_list c = Ok vs] is enough *)
Theorem tojson_value_partial : forall o c vs, frag15 c = true -> u64ok c = true -> to_list c = Ok vs ->
  exists evs, tojson_events o c = Ok evs /\ json_value evs = Ok (VList (map (jv o) vs), []).
Proof. exact tojson_value_frag. Qed.
Print Assumptions tojson_value_partial.

(* (e) truncation: no strict prefix of the text of an array or object parses (root scalars are excluded by
   necessity: "12" is a valid prefix of "123"; that is the only reason for the suffix _partial) *)
Theorem truncation_errors_partial : forall evs p s, wf evs = true -> printable evs = true ->
  (exists t, evs = ESA :: t \/ evs = ESO :: t) ->
  render evs = p ++ s -> s <> [] -> forall res, parse p <> Ok res.
Proof. exact truncation_lemma. Qed.
Print Assumptions truncation_errors_partial.

(* to_json followed by from_json, at the event level: one document, the same events (after Handler) *)
Theorem roundtrip_events : forall o c evs, tojson_events o c = Ok evs -> printable evs = true ->
  do_parse o (render evs) = JDocs [map (handler o) evs] /\
  unwrap [map (handler o) evs] = One (map (handler o) evs).
Proof. exact roundtrip_events_lemma. Qed.
Print Assumptions roundtrip_events.
