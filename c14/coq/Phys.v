(** C14 — physical view of the builder: which GrowableBuffer allocations a state holds, and what one command
    may do to them.  [gid] is the allocation identity (0 = allocated during the current command, numbered by
    [renum] between commands).  Main result of this file: [step_sub] / [clear_sub] — after any command, every buffer
    of the new tree that is not a fresh allocation extends, without touching its first [glen] cells, a buffer of the old
    tree with the same identity, and no identity is duplicated. *)
From Coq Require Import ZArith List Bool Lia.
From AwkV Require Import Base Layout.
From AwkBuilder Require Import Builder GbLemmas Invariant.
Import ListNotations.
Open Scope Z_scope.

Fixpoint bufs (b : builder) : list gb :=
  match b with
  | BUnknown _ => []
  | BBool g | BInt g | BFloat g => [g]
  | BString _ a c => [a; c]
  | BOption i c => i :: bufs c
  | BList a c _ => a :: bufs c
  | BRecord cs _ _ _ _ _ _ _ => flat_map bufs cs
  | BTuple cs _ _ _ => flat_map bufs cs
  | BUnion t i cs _ => t :: i :: flat_map bufs cs
  end.

(* g' is the same allocation as g, at least as long, with g's cells untouched *)
Definition ext (g g' : gb) : Prop :=
  gid g' = gid g /\ glen g <= glen g' /\ take (glen g) (gdata g') = take (glen g) (gdata g).
Definition fresh (g : gb) : Prop := gid g = O.
Definition fe (g g' : gb) : Prop := fresh g' \/ ext g g'.

Definition count (i : nat) (l : list gb) : nat := length (filter (fun g => Nat.eqb (gid g) i) l).

Definition Sub (l' l : list gb) : Prop :=
  (forall i, i <> O -> (count i l' <= count i l)%nat) /\
  (forall g', In g' l' -> gid g' <> O -> exists g, In g l /\ ext g g').

Definition SubR (b : builder) (x : sres) : Prop :=
  match x with
  | SOk s r => Sub (bufs s) (bufs b) /\ Sub (bufs (pick s r)) (bufs b)
  | SErr _ s => Sub (bufs s) (bufs b)
  end.

(* ------------------------------------------------------------------ ext / count / Sub *)
Lemma ext_refl g : ext g g.
Proof. unfold ext. repeat split; lia. Qed.

Lemma take_take {A} (l : list A) a b : a <= b -> take a (take b l) = take a l.
Proof. intro H. unfold take. rewrite firstn_firstn. f_equal. lia. Qed.

Lemma ext_trans g1 g2 g3 : ext g1 g2 -> ext g2 g3 -> ext g1 g3.
Proof.
  intros (I1 & L1 & T1) (I2 & L2 & T2). unfold ext. repeat split; try congruence; try lia.
  rewrite <- T1. rewrite <- (take_take (gdata g3) (glen g1) (glen g2)) by lia.
  rewrite T2. apply take_take. lia.
Qed.

Lemma count_app i l m : count i (l ++ m) = (count i l + count i m)%nat.
Proof. unfold count. now rewrite filter_app, app_length. Qed.
Lemma count_cons i g l : count i (g :: l) = ((if Nat.eqb (gid g) i then 1 else 0) + count i l)%nat.
Proof. unfold count. cbn [filter]. destruct (Nat.eqb (gid g) i); reflexivity. Qed.
Lemma count_nil i : count i [] = O.
Proof. reflexivity. Qed.

Lemma count_fe i g g' : i <> O -> fe g g' -> ((if Nat.eqb (gid g') i then 1 else 0) <= (if Nat.eqb (gid g) i then 1 else 0))%nat.
Proof.
  intros Hi [F|(E & _)].
  - unfold fresh in F. rewrite F. destruct i; [congruence|]. cbn. lia.
  - rewrite E. lia.
Qed.

Lemma Sub_refl l : Sub l l.
Proof. split; [intros; lia|]. intros g H _. exists g. split; [exact H|apply ext_refl]. Qed.

Lemma Sub_nil l : Sub [] l.
Proof. split; [intros; cbn; lia|]. intros g []. Qed.

Lemma Sub_trans l1 l2 l3 : Sub l1 l2 -> Sub l2 l3 -> Sub l1 l3.
Proof.
  intros [C1 E1] [C2 E2]. split.
  - intros i Hi. specialize (C1 i Hi). specialize (C2 i Hi). lia.
  - intros g1 H1 N1. destruct (E1 g1 H1 N1) as (g2 & H2 & X2).
    assert (gid g2 <> O) as N2 by (destruct X2 as (E & _); rewrite <- E; exact N1).
    destruct (E2 g2 H2 N2) as (g3 & H3 & X3). exists g3. split; [exact H3|]. eapply ext_trans; eauto.
Qed.

Lemma Sub_app a' a b' b : Sub a' a -> Sub b' b -> Sub (a' ++ b') (a ++ b).
Proof.
  intros [C1 E1] [C2 E2]. split.
  - intros i Hi. rewrite !count_app. specialize (C1 i Hi). specialize (C2 i Hi). lia.
  - intros g H N. apply in_app_or in H. destruct H as [H|H].
    + destruct (E1 g H N) as (g0 & H0 & X). exists g0. split; [apply in_or_app; now left|exact X].
    + destruct (E2 g H N) as (g0 & H0 & X). exists g0. split; [apply in_or_app; now right|exact X].
Qed.

Lemma Sub_cons g g' l' l : fe g g' -> Sub l' l -> Sub (g' :: l') (g :: l).
Proof.
  intros F S. change (Sub ([g'] ++ l') ([g] ++ l)). apply Sub_app; [|exact S]. split.
  - intros i Hi. rewrite !count_cons, !count_nil. pose proof (count_fe i g g' Hi F). lia.
  - intros x [<-|[]] N. destruct F as [F|F]; [congruence|]. exists g. split; [now left|exact F].
Qed.

Lemma Sub_fresh g' l' l : fresh g' -> Sub l' l -> Sub (g' :: l') l.
Proof.
  intros F [C E]. split.
  - intros i Hi. rewrite count_cons. unfold fresh in F. rewrite F. specialize (C i Hi).
    destruct i; [congruence|]. cbn. lia.
  - intros x [<-|H] N; [congruence|]. now apply E.
Qed.

Lemma Sub_fresh_app f l' l : Forall fresh f -> Sub l' l -> Sub (f ++ l') l.
Proof. induction 1; intro S; cbn [app]; [exact S|]. apply Sub_fresh; auto. Qed.

Lemma Sub_app_fresh f l' l : Forall fresh f -> Sub l' l -> Sub (l' ++ f) l.
Proof.
  intros F S. rewrite <- (app_nil_r l). apply Sub_app; [exact S|].
  rewrite <- (app_nil_r f). apply Sub_fresh_app; [exact F|apply Sub_nil].
Qed.

Lemma Sub_weak_l x l' l : Sub l' l -> Sub l' (x ++ l).
Proof. intro S. change l' with ([] ++ l'). apply Sub_app; [apply Sub_nil|exact S]. Qed.
Lemma Sub_weak_r x l' l : Sub l' l -> Sub l' (l ++ x).
Proof. intro S. rewrite <- (app_nil_r l'). apply Sub_app; [exact S|apply Sub_nil]. Qed.
Lemma Sub_weak_cons g l' l : Sub l' l -> Sub l' (g :: l).
Proof. apply (Sub_weak_l [g]). Qed.

(* ------------------------------------------------------------------ buffer operations *)
Lemma gb_make_fresh o pre n g : gb_make o pre n = Ok g -> fresh g.
Proof. unfold gb_make. destruct (n <? 0); [discriminate|]. intro H; inversion H. reflexivity. Qed.
Lemma gb_empty_fresh o g : gb_empty o = Ok g -> fresh g.
Proof. apply gb_make_fresh. Qed.
Lemma gb_full_fresh o v n g : gb_full o v n = Ok g -> fresh g.
Proof. apply gb_make_fresh. Qed.
Lemma gb_arange_fresh o n g : gb_arange o n = Ok g -> fresh g.
Proof. apply gb_make_fresh. Qed.
Lemma gb_clear_fresh o g g' : gb_clear o g = Ok g' -> fresh g'.
Proof. apply gb_make_fresh. Qed.
Lemma gb_convert_fresh o g g' : gb_convert o g = Ok g' -> fresh g'.
Proof. unfold gb_convert. destruct (gres g <? 0); [discriminate|]. intro H; inversion H. reflexivity. Qed.

Lemma gb_append_fe o g x g' : gb_append o g x = Ok g' -> fe g g' /\ (fresh g -> fresh g').
Proof.
  unfold gb_append. set (g1 := if glen g =? gres g then gb_set_reserved o g (grow o (gres g)) else g).
  destruct ((0 <=? glen g1) && (glen g1 <? gres g1)) eqn:E; [|discriminate].
  intro H; inversion H; subst g'; clear H. apply andb_true_iff in E. destruct E as [E1 E2]. apply Z.leb_le in E1.
  assert ((g1 = g) \/ (gid g1 = O /\ glen g1 = glen g)) as [->|[F N]].
  { subst g1. destruct (glen g =? gres g); [|now left]. unfold gb_set_reserved.
    destruct (gres g <? grow o (gres g)); [right; split; reflexivity|now left]. }
  - split; [|intro F; exact F]. right. unfold ext; cbn. repeat split; try lia. apply take_upd_below. lia.
  - split; [left; exact F|intros _; exact F].
Qed.

Lemma gb_extend_fe o xs : forall g g', gb_extend o g xs = Ok g' -> fe g g' /\ (fresh g -> fresh g').
Proof.
  induction xs as [|x t IH]; intros g g' H; cbn [gb_extend] in H.
  - inversion H; subst. split; [right; apply ext_refl|auto].
  - destruct (gb_append o g x) as [g1|] eqn:E1; [|discriminate]. cbn [bind] in H.
    destruct (gb_append_fe o g x g1 E1) as [F1 P1]. destruct (IH g1 g' H) as [F2 P2].
    split; [|auto]. destruct F2 as [F2|X2]; [left; exact F2|].
    destruct F1 as [F1|X1]; [left; apply P2; exact F1|]. right. eapply ext_trans; eauto.
Qed.

(* ------------------------------------------------------------------ the small constructors of Builder.v *)
Lemma SubR_withgb b r self k :
  Sub (bufs self) (bufs b) -> (forall g, r = Ok g -> SubR b (k g)) -> SubR b (withgb r self k).
Proof. intros S H. destruct r; cbn [withgb SubR]; auto. Qed.
Lemma SubR_withb b r self k :
  Sub (bufs self) (bufs b) -> (forall x, r = Ok x -> SubR b (k x)) -> SubR b (withb r self k).
Proof. intros S H. destruct r; cbn [withb SubR]; auto. Qed.

Lemma SubR_mu b ct r k :
  SubR ct r -> (forall y, Sub (bufs y) (bufs ct) -> Sub (bufs (k y)) (bufs b)) -> SubR b (mu r k).
Proof. intros S F. destruct r; cbn [mu SubR pick] in *; [destruct S as [S1 S2]; split; apply F; exact S2|apply F; exact S]. Qed.
Lemma SubR_dr b ct r k :
  SubR ct r -> (forall y, Sub (bufs y) (bufs ct) -> Sub (bufs (k y)) (bufs b)) -> SubR b (dr r k).
Proof. intros S F. destruct r; cbn [dr SubR pick] in *; [destruct S as [S1 S2]; split; apply F; exact S1|apply F; exact S]. Qed.

Lemma SubR_err b e : SubR b (SErr e b).
Proof. apply Sub_refl. Qed.

Lemma string_after_fe o e offs cont s b' :
  string_after o e offs cont s = Ok b' -> exists offs' cont', b' = BString e offs' cont' /\ fe offs offs' /\ fe cont cont' /\
                                         (fresh offs -> fresh offs') /\ (fresh cont -> fresh cont').
Proof.
  unfold string_after. destruct (gb_extend o cont s) as [c'|] eqn:E1; [|discriminate]. cbn [bind].
  destruct (gb_append o offs (glen c')) as [o'|] eqn:E2; [|discriminate]. cbn [bind]. intro H; inversion H; subst.
  destruct (gb_extend_fe o s cont c' E1). destruct (gb_append_fe o offs _ o' E2). exists o', c'. auto.
Qed.

Lemma fresh_after_fresh o c nb : fresh_after o c = Ok nb -> Forall fresh (bufs nb).
Proof.
  destruct c; cbn [fresh_after]; try discriminate.
  - destruct (gb_empty o) as [g|] eqn:E; [|discriminate]. cbn [bind].
    destruct (gb_append o g _) as [g'|] eqn:E'; [|discriminate]. cbn [bind]. intro H; inversion H; subst. cbn [bufs].
    constructor; [|constructor]. apply (gb_append_fe o g _ g' E'). now apply gb_empty_fresh in E.
  - destruct (gb_empty o) as [g|] eqn:E; [|discriminate]. cbn [bind].
    destruct (gb_append o g _) as [g'|] eqn:E'; [|discriminate]. cbn [bind]. intro H; inversion H; subst. cbn [bufs].
    constructor; [|constructor]. apply (gb_append_fe o g _ g' E'). now apply gb_empty_fresh in E.
  - destruct (gb_empty o) as [g|] eqn:E; [|discriminate]. cbn [bind].
    destruct (gb_append o g _) as [g'|] eqn:E'; [|discriminate]. cbn [bind]. intro H; inversion H; subst. cbn [bufs].
    constructor; [|constructor]. apply (gb_append_fe o g _ g' E'). now apply gb_empty_fresh in E.
  - destruct (gb_empty o) as [g|] eqn:E; [|discriminate]. cbn [bind].
    destruct (gb_append o g 0) as [g0|] eqn:E0; [|discriminate]. cbn [bind]. intro H.
    apply string_after_fe in H. destruct H as (o' & c' & -> & _ & _ & P1 & P2). cbn [bufs].
    apply gb_empty_fresh in E. constructor; [|constructor; [|constructor]]; auto.
    apply P1. apply (gb_append_fe o g 0 g0 E0). exact E.
  - destruct (gb_empty o) as [g|] eqn:E; [|discriminate]. cbn [bind].
    destruct (gb_append o g 0) as [g0|] eqn:E0; [|discriminate]. cbn [bind]. intro H; inversion H; subst. cbn [bufs].
    constructor; [|constructor]. apply (gb_append_fe o g 0 g0 E0). now apply gb_empty_fresh in E.
  - destruct (n <? 0); [discriminate|]. intro H; inversion H; subst. cbn [bufs].
    induction (Z.to_nat n); cbn; auto.
  - intro H; inversion H; subst. constructor.
Qed.

Lemma option_null_sub o b : SubR b (option_null o b).
Proof.
  unfold option_null. apply SubR_withgb; [apply Sub_refl|]. intros g Eg.
  apply SubR_withgb; [apply Sub_refl|]. intros g' Eg'. cbn [SubR pick bufs].
  split; [apply Sub_refl|]. apply Sub_fresh; [|apply Sub_refl].
  apply (gb_append_fe o g _ g' Eg'). now apply gb_arange_fresh in Eg.
Qed.

Lemma union_wrap_sub o b c : SubR b (union_wrap o b c).
Proof.
  unfold union_wrap. apply SubR_withgb; [apply Sub_refl|]. intros tags Et.
  apply SubR_withgb; [apply Sub_refl|]. intros idx Ei.
  apply SubR_withb; [apply Sub_refl|]. intros nb En.
  apply gb_full_fresh in Et. apply gb_arange_fresh in Ei. apply fresh_after_fresh in En.
  assert (forall t i, fresh t -> fresh i -> Sub (bufs (BUnion t i [b; nb] (-1))) (bufs b) /\ forall cur, Sub (bufs (BUnion t i [b; nb] cur)) (bufs b)) as G.
  { intros t i Ft Fi. assert (Sub (t :: i :: bufs b ++ bufs nb ++ []) (bufs b)) as S.
    { apply Sub_fresh; [exact Ft|]. apply Sub_fresh; [exact Fi|]. rewrite app_nil_r. apply Sub_app_fresh; [exact En|apply Sub_refl]. }
    split; [exact S|intro; exact S]. }
  destruct (kind_of c).
  - cbn [SubR pick]. split; [apply Sub_refl|]. now apply G.
  - apply SubR_withgb; [apply Sub_refl|]. intros tags' Et'.
    apply SubR_withgb; [apply Sub_refl|]. intros idx' Ei'. cbn [SubR pick]. split; [apply Sub_refl|].
    apply G; [apply (gb_append_fe o tags _ tags' Et'); exact Et|apply (gb_append_fe o idx _ idx' Ei'); exact Ei].
  - cbn [SubR pick]. split; [apply Sub_refl|]. now apply G.
  - cbn [SubR pick]. split; [apply Sub_refl|]. now apply G.
  - cbn [SubR pick]. split; [apply Sub_refl|]. now apply G.
Qed.

Lemma unknown_start_sub o n c : SubR (BUnknown n) (unknown_start o n c).
Proof.
  unfold unknown_start. apply SubR_withb; [apply Sub_refl|]. intros nb En. apply fresh_after_fresh in En.
  cbn [bufs]. destruct (n =? 0).
  - cbn [SubR pick bufs]. split; [apply Sub_nil|]. rewrite <- (app_nil_r (bufs nb)). apply Sub_fresh_app; [exact En|apply Sub_nil].
  - apply SubR_withgb; [apply Sub_nil|]. intros idx Ei. apply gb_full_fresh in Ei.
    assert (forall i, fresh i -> Sub (bufs (BOption i nb)) []) as G.
    { intros i Fi. cbn [bufs]. apply Sub_fresh; [exact Fi|]. rewrite <- (app_nil_r (bufs nb)). apply Sub_fresh_app; [exact En|apply Sub_nil]. }
    destruct (kind_of c); try (cbn [SubR pick bufs]; split; [apply Sub_nil|now apply G]).
    apply SubR_withgb; [apply Sub_nil|]. intros idx' Ei'. cbn [SubR pick bufs]. split; [apply Sub_nil|].
    apply G. apply (gb_append_fe o idx _ idx' Ei'). exact Ei.
Qed.
