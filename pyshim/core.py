# Request layer shared by all pyshim modules: driver stack (re-entrancy through call-backs),
# argument encoders / result decoders.
import operator
import threading

import numpy

from pyshim import driver as _drv
from pyshim.driver import hx, unhx, unhx_str, dbl, undbl, DriverCrashed, DriverProtocolError

_state = threading.local()
_drivers = []  # one driver process per call-back nesting depth
_drivers_lock = threading.Lock()


import weakref

# Python objects referenced by id in requests/replies (generators and caches of virtual arrays).
# Weak: an entry lives as long as the layout that mentions it, which spans the request.
GENS = weakref.WeakValueDictionary()
CACHES = weakref.WeakValueDictionary()


_keepalive = []  # objects first seen inside a call-back: C++ would own them until the request is over


def reg_gen(obj):
    GENS[id(obj)] = obj
    if _depth() > 0:
        _keepalive.append(obj)
    return id(obj)


def reg_cache(obj):
    CACHES[id(obj)] = obj
    if _depth() > 0:
        _keepalive.append(obj)
    return id(obj)


class _Ctx(object):
    pass


def _depth():
    return getattr(_state, "depth", 0)


def current_driver():
    d = _depth()
    with _drivers_lock:
        while len(_drivers) <= d:
            drv = _drv.Driver()
            drv.callback_handler = _handle_callback
            _drivers.append(drv)
        return _drivers[d]


def stats():
    return {"drivers": len(_drivers), "requests": sum(d.nrequests for d in _drivers)}


def shutdown():
    with _drivers_lock:
        for d in _drivers:
            d.stop()
        del _drivers[:]


# ---- buffer identity within one request -------------------------------------------------------
# While a request is serialised, every distinct memory span (address, nbytes) is sent once and gets a key;
# further nodes over the same span only send the key, so C++ sees *shared* buffers where Python shares them
# (Content::referentially_equal, nbytes).  Replies may refer back to spans of input buffers by key: those
# become NumPy views of the caller's memory, exactly as the pybind11 module returns views.
import collections
import itertools

_pass_counter = itertools.count(1)
_PASSES = collections.OrderedDict()  # pass id -> _Pass, most recent last


class _Pass(object):
    def __init__(self):
        self.id = next(_pass_counter)
        self.keys = {}  # (addr, nbytes) -> key   (valid for one request line)
        self.arrays = {}  # key -> (weakref to ndarray, addr, nbytes)
        self.n = 0

    def key_for(self, arr, addr, nbytes):
        k = self.keys.get((addr, nbytes))
        if k is not None:
            return k, False
        self.n += 1
        k = "m%d_%d" % (self.id, self.n)
        self.keys[(addr, nbytes)] = k
        try:
            self.arrays[k] = (weakref.ref(arr), addr, nbytes)
        except TypeError:
            self.arrays[k] = (lambda a=arr: a, addr, nbytes)
        if _depth() > 0:
            # sent from inside a call-back: C++ now co-owns this buffer until the outer request is answered
            _keepalive.append(arr)
        return k, True


def memo():
    stack = getattr(_state, "ctxs", None)
    if not stack:
        return None
    return stack[-1]


ctx = memo


def resolve_key(key):
    """key -> (ndarray, addr, nbytes) of the input span it names, or None"""
    try:
        pid = int(key[1:key.index("_")])
    except ValueError:
        return None
    p = _PASSES.get(pid)
    if p is None:
        return None
    ent = p.arrays.get(key)
    if ent is None:
        return None
    arr = ent[0]()
    if arr is None:
        return None
    return arr, ent[1], ent[2]


class request_scope(object):
    """with request_scope(): serialise, send ONE request, decode its reply."""

    def __enter__(self):
        stack = getattr(_state, "ctxs", None)
        if stack is None:
            stack = _state.ctxs = []
        c = _Pass()
        _PASSES[c.id] = c
        while len(_PASSES) > 20000:
            _PASSES.popitem(last=False)
        stack.append(c)
        return c

    def __exit__(self, *exc):
        _state.ctxs.pop()
        return False


def request(body):
    try:
        return _request(body)
    finally:
        m = memo()
        if m is not None:
            m.keys = {}  # the driver forgets keys at the next request line


def _request(body):
    drv = current_driver()
    drv.last_callback_error = None
    if _depth() == 0 and _keepalive:
        del _keepalive[:]  # results of the previous top-level request have been rebuilt by now
    try:
        return drv.request(body)
    except RuntimeError as err:
        # an exception raised inside a call-back travelled through C++ as std::runtime_error:
        # surface the original Python exception, as pybind11 would.
        orig = getattr(drv, "last_callback_error", None)
        if orig is not None and not isinstance(err, DriverCrashed):
            drv.last_callback_error = None
            raise orig
        raise


def _handle_callback(tree):
    # tree = ['cb', kind, ...]; runs while the current driver is blocked -> nested requests use depth+1
    from pyshim import content as nodes

    _state.depth = _depth() + 1
    scope = request_scope()
    scope.__enter__()
    try:
        kind = tree[1]
        if kind == "gen":
            gen = GENS[int(tree[2])]
            out = gen._generate()
            return nodes.tosx(out)
        if kind == "cacheget":
            cache = CACHES[int(tree[2])]
            out = cache._get(unhx_str(tree[3]))
            if out is None:
                return "none"
            return nodes.tosx(out)
        if kind == "cacheset":
            cache = CACHES[int(tree[2])]
            cache._set(unhx_str(tree[3]), nodes.fromsx(tree[4]))
            return "none"
        raise DriverProtocolError("unknown call-back " + str(kind))
    finally:
        scope.__exit__()
        _state.depth = _depth() - 1


# ---------------------------------------------------------------- argument encoders
def e_int(x, what="argument"):
    if isinstance(x, bool):
        return "1" if x else "0"
    try:
        return str(operator.index(x))
    except TypeError:
        raise TypeError("%s must be an integer, not %r" % (what, type(x).__name__))


def e_optint(x):
    return "none" if x is None else e_int(x)


def e_bool(x):
    if isinstance(x, (bool, numpy.bool_)):
        return "1" if x else "0"
    if x is None:
        raise TypeError("a bool is required, not None")
    return "1" if bool(x) else "0"


def e_str(x):
    if isinstance(x, bytes):
        return hx(x)
    if not isinstance(x, str):
        raise TypeError("a string is required, not %r" % type(x).__name__)
    return hx(x)


def e_optstr(x):
    return "-" if x is None else e_str(x)


def e_strs(xs):
    return "(" + " ".join(e_str(x) for x in xs) + ")"


def e_typestrs(d):
    if d is None:
        return "-"
    if not isinstance(d, dict):
        raise TypeError("typestrs must be a dict of str -> str")
    if len(d) == 0:
        return "-"
    return "(" + " ".join("(" + e_str(k) + " " + e_str(v) + ")" for k, v in d.items()) + ")"


def e_ints(xs):
    return "(" + " ".join(e_int(x) for x in xs) + ")"


# ---------------------------------------------------------------- result decoders
def d_int(t):
    return int(t)


def d_bool(t):
    return t != "0"


def d_str(t):
    return unhx_str(t)


def d_strs(t):
    return [unhx_str(x) for x in t]
