(** C08: UnionArray operands of mergemany (UnionArray::mergemany, UnionArray::reverse_merge) and
    ak.concatenate of operands of genuinely different types (merge_as_union + simplify_uniontype). *)
From Coq Require Import ZArith List Bool Lia ZifyBool.
From AwkV Require Import Base Layout LayoutInd Valid Types Carry Proofs_C11.
From AwkMerge Require Import Merge Lemmas_C08 Proofs_C08 Proofs_MM Proofs_Concat Proofs_Simplify Proofs_SU.
Import ListNotations.
Open Scope Z_scope.

(* ================================================================ generic facts *)
Lemma mapM_to_list_vals cs : Forall tl_ok cs -> mapM to_list cs = Ok (map vals cs).
Proof. induction 1 as [|x xs Hx _ IH]; cbn; [reflexivity|]. rewrite (tl_ok_vals _ Hx), IH. reflexivity. Qed.

Lemma mapM_impl {A B} (f g : A -> res B) l ys :
  (forall x y, f x = Ok y -> g x = Ok y) -> mapM f l = Ok ys -> mapM g l = Ok ys.
Proof.
  intros H HM. apply mapM_ok_Forall2 in HM. apply Forall2_mapM.
  induction HM; constructor; auto.
Qed.

(* tag / index pair looked up in the alternatives' value lists *)
Definition lkp (V : list (list value)) (ti : Z * Z) : res value := lk V (fst ti) (snd ti).

Lemma to_list_union_lk w ts is_ cs :
  Forall tl_ok cs -> zlen ts <= zlen is_ ->
  to_list (Union w ts is_ cs) = mapM (lkp (map vals cs)) (zip ts is_).
Proof.
  intros Htl Hl. cbn [to_list]. rewrite all_fix_to_list, (mapM_to_list_vals _ Htl). cbn [bind].
  replace (zlen is_ <? zlen ts) with false by lia.
  apply mapM_ext. intros [t i] _. reflexivity.
Qed.

Lemma lk_shift (pre post vss : list (list value)) t i v :
  lk vss t i = Ok v -> lk (pre ++ vss ++ post) (t + zlen pre) i = Ok v.
Proof.
  unfold lk. intros H. apply bind_ok in H. destruct H as (l & Hl & H).
  pose proof (get_lt _ _ _ Hl).
  rewrite (get_app_r pre (vss ++ post) t l); [exact H|lia|]. apply get_app_l. exact Hl.
Qed.

Lemma zip_take_r {A B} (l : list A) (m : list B) : zip l (take (zlen l - 0) (drop 0 m)) = zip l m.
Proof.
  rewrite Z.sub_0_r. unfold drop. cbn [Z.to_nat skipn]. unfold take, zlen. rewrite Nat2Z.id. apply zip_firstn_r.
Qed.

Lemma body_empty_vals x : body x = Empty -> vals x = [].
Proof.
  destruct x; cbn [body]; try discriminate; [reflexivity|]. intros ->. unfold vals. cbn.
  destruct arr as [[]|]; reflexivity.
Qed.

(* ================================================================ (1) UnionArray::mergemany *)
(* number of alternatives an operand contributes *)
Definition nalts (x : content) : Z :=
  match body x with Union _ _ _ cs => zlen cs | Empty => 0 | _ => 1 end.
(* a UnionArray operand does not carry __array__ = "string"/"bytestring" (never valid; the model's to_list
   would read its values as strings while mergemany drops / keeps the parameter by merge_parameters) *)
Definition u_nostr (x : content) : bool :=
  if is_union x then negb (is_strk (fst (params x))) else true.

Lemma body_cases x :
  body x = Empty \/ (exists w t i cs, body x = Union w t i cs) \/
  ((forall w t i cs, body x <> Union w t i cs) /\ body x <> Empty).
Proof.
  destruct (body x); try (right; right; split; [intros; discriminate|discriminate]).
  - left; reflexivity.
  - right; left; eauto.
Qed.

Lemma fill_union_plain ncont x rest :
  (forall w t i cs, body x <> Union w t i cs) -> body x <> Empty ->
  fill_union ncont (x :: rest)
  = (do r <- fill_union (ncont + 1) rest;
     let '(ts, is_, cs) := r in Ok (consts ncont (clen x) ++ ts, iota (clen x) ++ is_, x :: cs)).
Proof.
  intros H1 H2. cbn [fill_union]. destruct (body x); try reflexivity; [congruence | exfalso; eapply H1; eauto].
Qed.

Lemma sumZ_cons a l : sumZ (a :: l) = a + sumZ l.
Proof. reflexivity. Qed.

Lemma fill_union_sem : forall l ncont,
  Forall tl_ok l -> forallb u_nostr l = true ->
  exists ts is_ cs, fill_union ncont l = Ok (ts, is_, cs) /\ length ts = length is_ /\ Forall tl_ok cs /\
    zlen cs = sumZ (map nalts l) /\
    forall pre post, zlen pre = ncont ->
      mapM (lkp (pre ++ map vals cs ++ post)) (zip ts is_) = Ok (concat (map vals l)).
Proof.
  induction l as [|x rest IH]; intros ncont Htl Hns.
  - exists [], [], []. cbn. repeat split; auto.
  - inversion Htl as [|? ? Hx Hrest]; subst. cbn [forallb] in Hns. apply andb_true_iff in Hns.
    destruct Hns as [Hnx Hnr].
    destruct (body_cases x) as [Eb | [(w & tags & index & contents & Eb) | [Hnu Hne]]].
    + (* EmptyArray: skipped *)
      destruct (IH ncont Hrest Hnr) as (ts & is_ & cs & HF & Hl & Hc & Hn & Hsem).
      exists ts, is_, cs. cbn [fill_union]. rewrite Eb. repeat split; auto.
      * cbn [map]. rewrite sumZ_cons. unfold nalts at 1. rewrite Eb. lia.
      * intros pre post Hp. cbn [map concat]. rewrite (body_empty_vals _ Eb). cbn [app]. apply Hsem. exact Hp.
    + (* UnionArray: its alternatives are appended, tags shifted *)
      assert (Hu : is_union x = true) by (unfold is_union; rewrite Eb; reflexivity).
      unfold u_nostr in Hnx. rewrite Hu in Hnx. apply negb_true_iff in Hnx.
      pose proof (tl_ok_vals _ Hx) as Hvx. rewrite (to_list_nostr _ Hnx), Eb in Hvx.
      destruct (union_rows _ _ _ _ _ Hvx) as (Htlc & Hli & _ & _).
      rewrite (to_list_union_lk _ _ _ _ Htlc Hli) in Hvx.
      destruct (IH (ncont + zlen contents) Hrest Hnr) as (ts & is_ & cs & HF & Hl & Hc & Hn & Hsem).
      cbn [fill_union]. rewrite Eb. rewrite slice_in by (pose proof (zlen_nonneg tags); lia).
      cbn [bind]. rewrite HF. cbn [bind].
      eexists _, _, _. split; [reflexivity|]. split; [|split; [|split]].
      * rewrite !app_length, map_length, Hl. f_equal.
        unfold take, drop, zlen in *. cbn [Z.to_nat skipn]. rewrite firstn_length. lia.
      * apply Forall_app. split; assumption.
      * rewrite zlen_app, Hn. cbn [map]. rewrite sumZ_cons. unfold nalts at 2. rewrite Eb. reflexivity.
      * intros pre post Hp. cbn [map concat].
        rewrite zip_app by (rewrite map_length; unfold take, drop, zlen in *; cbn [Z.to_nat skipn];
                            rewrite firstn_length; lia).
        rewrite mapM_app. rewrite map_app, <- !app_assoc.
        assert (H1 : mapM (lkp (pre ++ map vals contents ++ map vals cs ++ post))
                          (zip (map (fun g => g + ncont) tags) (take (zlen tags - 0) (drop 0 index))) = Ok (vals x)).
        { rewrite zip_map_l, mapM_map, zip_take_r. eapply mapM_impl; [|exact Hvx].
          intros [t i] v Hv. unfold lkp in *. cbn [fst snd] in *. rewrite <- Hp. apply lk_shift. exact Hv. }
        rewrite H1. cbn [bind].
        specialize (Hsem (pre ++ map vals contents) post). rewrite <- app_assoc in Hsem.
        rewrite Hsem by (rewrite zlen_app, zlen_map; lia). reflexivity.
    + (* any other class: one more alternative *)
      destruct (IH (ncont + 1) Hrest Hnr) as (ts & is_ & cs & HF & Hl & Hc & Hn & Hsem).
      rewrite (fill_union_plain _ _ _ Hnu Hne), HF. cbn [bind].
      eexists _, _, _. split; [reflexivity|]. split; [|split; [|split]].
      * unfold consts. rewrite !app_length, map_length, Hl. reflexivity.
      * constructor; assumption.
      * rewrite zlen_cons, Hn. cbn [map]. rewrite sumZ_cons. unfold nalts at 2.
        destruct (body x); try reflexivity; [congruence | exfalso; eapply Hnu; eauto].
      * intros pre post Hp. cbn [map concat].
        rewrite zip_app by (unfold consts; rewrite map_length; reflexivity).
        rewrite mapM_app.
        assert (H1 : mapM (lkp (pre ++ (vals x :: map vals cs) ++ post)) (zip (consts ncont (clen x)) (iota (clen x)))
                     = Ok (vals x)).
        { unfold consts. rewrite zip_map_l, zip_same, map_map, mapM_map. cbn [fst snd].
          rewrite <- (zlen_vals _ Hx).
          transitivity (mapM (get (vals x)) (iota (zlen (vals x)))); [|apply mapM_get_iota].
          apply mapM_ext. intros i _.
          unfold lkp, lk. cbn [fst snd].
          assert (Hg : get (pre ++ (vals x :: map vals cs) ++ post) ncont = Ok (vals x)).
          { rewrite <- Hp. replace (zlen pre) with (0 + zlen pre) by lia. apply get_app_r; [lia|reflexivity]. }
          rewrite Hg. reflexivity. }
        rewrite H1. cbn [bind app].
        specialize (Hsem (pre ++ [vals x]) post). rewrite <- app_assoc in Hsem. cbn [app] in Hsem.
        rewrite Hsem by (rewrite zlen_app; change (zlen [vals x]) with 1; lia). reflexivity.
Qed.

Lemma fold_pars_fst l : forall p,
  let q := fold_left (fun acc x => merge_pars acc (params x)) l p in fst q = fst p \/ fst q = None.
Proof.
  induction l as [|x xs IH]; intros p; cbn [fold_left]; [left; reflexivity|].
  destruct (IH (merge_pars p (params x))) as [H|H]; [|right; exact H].
  cbn zeta in *. rewrite H. unfold merge_pars. cbn [fst]. destruct (opt_eqb akind_eqb (fst p) (fst (params x))); auto.
Qed.

Lemma mm_union_sem a others :
  is_union a = true -> Forall tl_ok (a :: others) -> forallb u_nostr (a :: others) = true ->
  sumZ (map nalts (a :: others)) <= 127 ->
  exists c, mm_union a others = Ok c /\ to_list c = Ok (concat (map vals (a :: others))) /\ is_union c = true.
Proof.
  intros Hu Htl Hns Hn.
  destruct (fill_union_sem (a :: others) 0 Htl Hns) as (ts & is_ & cs & HF & Hl & Hc & Hnc & Hsem).
  unfold mm_union. rewrite HF. cbn [bind].
  replace (127 <? zlen cs) with false by lia.
  eexists. split; [reflexivity|].
  set (ps := fold_left _ _ _).
  assert (Hps : is_strk (fst ps) = false).
  { destruct (fold_pars_fst (a :: others) (params a)) as [H|H]; cbn zeta in H; fold ps in H; rewrite H; [|reflexivity].
    cbn [forallb] in Hns. apply andb_true_iff in Hns. destruct Hns as [Hna _].
    unfold u_nostr in Hna. rewrite Hu in Hna. apply negb_true_iff in Hna. exact Hna. }
  split.
  - rewrite (to_list_mkpar _ _ Hps). rewrite to_list_union_lk by (auto; unfold zlen; lia).
    specialize (Hsem [] [] eq_refl). cbn [app] in Hsem. rewrite app_nil_r in Hsem. exact Hsem.
  - destruct ps as [[k|] [r|]]; reflexivity.
Qed.

Lemma mm_fuel_S cs : exists f, mm_fuel cs = S f.
Proof. unfold mm_fuel. match goal with |- exists f, (?a + 8)%nat = S f => exists (a + 7)%nat; lia end. Qed.

Lemma mergemany_union_step a others :
  is_union a = true -> others <> [] -> mergemany (a :: others) = mm_union a others.
Proof.
  intros Hu Hne. unfold mergemany. destruct (mm_fuel_S (a :: others)) as [f ->]. cbn [mm]. unfold mm_step.
  destruct others as [|b rest]; [congruence|].
  unfold is_union in Hu. destruct (body a); try discriminate. reflexivity.
Qed.
Lemma mergemany_single_union a : is_union a = true -> mergemany [a] = Ok a.
Proof.
  intros Hu. unfold mergemany. destruct (mm_fuel_S [a]) as [f ->]. cbn [mm]. unfold mm_step.
  unfold is_union in Hu. destruct (body a); try discriminate. reflexivity.
Qed.

(* (1) a UnionArray as first operand: every operand of every node class is taken as it is (a UnionArray
   operand contributes its alternatives, an EmptyArray nothing, anything else becomes one more alternative);
   no value is changed (no cast at all).  Hypotheses: the operands have values, no UnionArray operand is
   tagged string/bytestring (such a layout is never valid), at most 127 alternatives in total (beyond that the
   C++ raises "too many contents"). *)
Theorem mergemany_union_first_pf : forall a others,
  is_union a = true -> Forall tl_ok (a :: others) -> forallb u_nostr (a :: others) = true ->
  sumZ (map nalts (a :: others)) <= 127 ->
  exists c, mergemany (a :: others) = Ok c /\ to_list c = Ok (concat (map vals (a :: others))) /\ is_union c = true.
Proof.
  intros a others Hu Htl Hns Hn. destruct others as [|b rest].
  - exists a. rewrite (mergemany_single_union _ Hu). split; [reflexivity|]. split; [|exact Hu].
    cbn [map concat]. rewrite app_nil_r. apply tl_ok_vals. exact (Forall_inv Htl).
  - rewrite mergemany_union_step by (auto; discriminate). apply mm_union_sem; assumption.
Qed.

(* ---------------------------------------------------------------- validity of the result *)
Lemma union_okb_shift pre post lens t i :
  union_okb lens (t, i) = true -> union_okb (pre ++ lens ++ post) (t + zlen pre, i) = true.
Proof.
  unfold union_okb. destruct (get lens t) as [lc|] eqn:E; [|rewrite andb_false_r; discriminate].
  pose proof (get_lt _ _ _ E). pose proof (zlen_nonneg pre).
  rewrite (get_app_r pre (lens ++ post) t lc); [lia|lia|]. apply get_app_l. exact E.
Qed.

Lemma valid_union_body x w t ix cs0 :
  valid_b x = true -> body x = Union w t ix cs0 -> validb None (Union w t ix cs0) = true /\ fst (params x) = None.
Proof.
  unfold valid_b. destruct x; cbn [body]; try discriminate.
  - intros Hv E. inversion E; subst. split; [exact Hv|reflexivity].
  - intros Hv ->. cbn [validb] in Hv. destruct arr as [[]|]; cbn in Hv; try discriminate. split; [exact Hv|reflexivity].
Qed.

Lemma validb_union_parts w t ix cs0 :
  validb None (Union w t ix cs0) = true ->
  existsb unionlike cs0 = false /\ zlen t <= zlen ix /\
  forallb (union_okb (map clen cs0)) (zip t ix) = true /\ forallb (validb None) cs0 = true.
Proof.
  cbn [validb paramcheck]. rewrite all_fix_forallb. intros H.
  repeat (apply andb_true_iff in H; destruct H as [H ?]).
  repeat split; auto; [apply negb_true_iff; assumption | lia].
Qed.

Lemma fill_union_valid : forall l ncont ts is_ cs,
  Forall (fun x => valid_b x = true) l -> fill_union ncont l = Ok (ts, is_, cs) ->
  length ts = length is_ /\ forallb (validb None) cs = true /\ existsb unionlike cs = false /\
  forall pre post, zlen pre = ncont -> forallb (union_okb (pre ++ map clen cs ++ post)) (zip ts is_) = true.
Proof.
  induction l as [|x rest IH]; intros ncont ts is_ cs Hv HF.
  - cbn in HF. inversion HF; subst. cbn. repeat split; auto.
  - inversion Hv as [|? ? Hx Hrest]; subst.
    destruct (body_cases x) as [Eb | [(w & tags & index & contents & Eb) | [Hnu Hne]]].
    + cbn [fill_union] in HF. rewrite Eb in HF. eapply IH; eauto.
    + cbn [fill_union] in HF. rewrite Eb in HF.
      apply bind_ok in HF. destruct HF as (ix & Hix & HF). apply bind_ok in HF. destruct HF as ([[ts' is'] cs'] & Hr & HF).
      inversion HF; subst. clear HF.
      destruct (IH _ _ _ _ Hrest Hr) as (Hl & Hvc & Hnu & Hok).
      destruct (valid_union_body _ _ _ _ _ Hx Eb) as [Hvu _].
      destruct (validb_union_parts _ _ _ _ Hvu) as (Hnu0 & Hli & Hok0 & Hvc0).
      apply slice_ok in Hix. destruct Hix as (_ & _ & ->).
      assert (Hlen : length (map (fun g => g + ncont) tags) = length (take (zlen tags - 0) (drop 0 index))).
      { rewrite map_length. unfold take, drop, zlen in *. cbn [Z.to_nat skipn]. rewrite firstn_length. lia. }
      split; [|split; [|split]].
      * rewrite !app_length, Hl, Hlen. reflexivity.
      * rewrite forallb_app, Hvc0, Hvc. reflexivity.
      * rewrite existsb_app, Hnu0, Hnu. reflexivity.
      * intros pre post Hp. rewrite zip_app by exact Hlen. rewrite forallb_app. apply andb_true_iff. split.
        -- rewrite zip_map_l, zip_take_r. apply forallb_forall. intros p Hin. apply in_map_iff in Hin.
           destruct Hin as ([t i] & <- & Hin). cbn [fst snd].
           rewrite map_app, <- app_assoc, <- Hp. apply union_okb_shift.
           eapply forallb_forall in Hok0; eauto.
        -- rewrite map_app, <- app_assoc. specialize (Hok (pre ++ map clen contents) post).
           rewrite <- app_assoc in Hok. apply Hok. rewrite zlen_app, zlen_map. lia.
    + rewrite (fill_union_plain _ _ _ Hnu Hne) in HF.
      apply bind_ok in HF. destruct HF as ([[ts' is'] cs'] & Hr & HF). inversion HF; subst. clear HF.
      destruct (IH _ _ _ _ Hrest Hr) as (Hl & Hvc & Hnu' & Hok).
      assert (Hlen : length (consts ncont (clen x)) = length (iota (clen x))) by (unfold consts; apply map_length).
      split; [|split; [|split]].
      * rewrite !app_length, Hl, Hlen. reflexivity.
      * cbn [forallb]. fold (valid_b x). rewrite Hx, Hvc. reflexivity.
      * cbn [existsb]. rewrite (valid_plain_not_unionlike _ Hx Hnu), Hnu'. reflexivity.
      * intros pre post Hp. rewrite zip_app by exact Hlen. rewrite forallb_app. apply andb_true_iff. split.
        -- unfold consts. rewrite zip_map_l, zip_same, map_map. cbn [fst snd].
           apply forallb_forall. intros p Hin. apply in_map_iff in Hin. destruct Hin as (i & <- & Hin).
           apply iota_In in Hin. unfold union_okb. cbn [map].
           assert (Hg : get (pre ++ (clen x :: map clen cs') ++ post) ncont = Ok (clen x)).
           { rewrite <- Hp. replace (zlen pre) with (0 + zlen pre) by lia. apply get_app_r; [lia|reflexivity]. }
           rewrite Hg. pose proof (zlen_nonneg pre). lia.
        -- cbn [map app]. specialize (Hok (pre ++ [clen x]) post). rewrite <- app_assoc in Hok. cbn [app] in Hok.
           apply Hok. rewrite zlen_app. change (zlen [clen x]) with 1. lia.
Qed.

Lemma validb_mkpar_union ps w t ix cs : fst ps = None -> validb None (mkpar ps (Union w t ix cs)) = validb None (Union w t ix cs).
Proof. destruct ps as [[k|] [r|]]; cbn [fst]; intros H; try discriminate; reflexivity. Qed.

Lemma validb_union_intro w t ix cs :
  existsb unionlike cs = false -> length t = length ix ->
  forallb (union_okb (map clen cs)) (zip t ix) = true -> forallb (validb None) cs = true ->
  validb None (Union w t ix cs) = true.
Proof.
  intros H1 H2 H3 H4. cbn [validb paramcheck]. rewrite all_fix_forallb, H1, H3, H4.
  replace (zlen t <=? zlen ix) with true by (unfold zlen; lia). reflexivity.
Qed.

(* (1), closure: valid operands (of any node class) give a valid UnionArray *)
Theorem mergemany_union_first_valid_pf : forall a others c,
  is_union a = true -> Forall (fun x => valid_b x = true) (a :: others) ->
  mergemany (a :: others) = Ok c -> valid_b c = true.
Proof.
  intros a others c Hu Hv Hm. destruct others as [|b rest].
  - rewrite (mergemany_single_union _ Hu) in Hm. inversion Hm; subst. exact (Forall_inv Hv).
  - rewrite mergemany_union_step in Hm by (auto; discriminate). unfold mm_union in Hm.
    apply bind_ok in Hm. destruct Hm as ([[ts is_] cs] & HF & Hm).
    destruct (127 <? zlen cs); [discriminate|]. inversion Hm; subst c. clear Hm.
    destruct (fill_union_valid _ _ _ _ _ Hv HF) as (Hl & Hvc & Hnu & Hok).
    specialize (Hok [] [] eq_refl). cbn [app] in Hok. rewrite app_nil_r in Hok.
    unfold valid_b. rewrite validb_mkpar_union.
    + apply validb_union_intro; assumption.
    + change (fst (fold_left (fun acc x => merge_pars acc (params x)) (a :: b :: rest) (params a)) = None).
      destruct (fold_pars_fst (a :: b :: rest) (params a)) as [H|H]; cbn zeta in H; rewrite H; [|reflexivity].
      unfold is_union in Hu. destruct (body a) eqn:Eb; try discriminate.
      destruct (valid_union_body _ _ _ _ _ (Forall_inv Hv) Eb) as [_ Hp]. exact Hp.
Qed.

(* valid operands have values, except below a string node; with both hypotheses: *)
Example mergemany_union_first_example :
  let n1 := Numpy DInt64 [2] [DZ 1; DZ 2] in
  let l1 := ListOffset I64 [0; 1; 2] (Numpy DInt64 [2] [DZ 5; DZ 6]) in
  let u1 := Par None (Some [1]) (Union I32 [0; 1; 0] [0; 0; 1] [n1; l1]) in
  let u2 := Union I32 [1; 0] [0; 0] [Numpy DBool [1] [DZ 1]; Record [n1] (Some [[120]]) 2] in
  let o1 := IndexedOption I64 [0; -1] l1 in
  let s1 := Par (Some AString) None (ListOffset I64 [0; 2] (Par (Some AChar) None (Numpy DUInt8 [2] [DZ 104; DZ 105]))) in
  let cs := [u1; Empty; o1; u2; s1] in
  is_union u1 = true /\ forallb u_nostr cs = true /\ forallb valid_b cs = true /\ sumZ (map nalts cs) = 6 /\
  rmap to_list (mergemany cs)
  = Ok (Ok [VNum (DZ 1); VList [VNum (DZ 5)]; VNum (DZ 2); VList [VNum (DZ 5)]; VNone;
            VRec [([120], VNum (DZ 1))]; VBool true; VStr true [104; 105]]) /\
  rmap valid_b (mergemany cs) = Ok true.
Proof. vm_compute. repeat split. Qed.

(* why [u_nostr]: a (never valid) UnionArray tagged "string" whose values happen to be byte lists; the
   parameter is dropped by merge_parameters, so the values of the first operand are read differently *)
Example mergemany_union_first_string_tag_refuted :
  let u := Par (Some AString) None (Union I64 [0] [0] [ListOffset I64 [0; 1] (Numpy DUInt8 [1] [DZ 104]); Empty]) in
  let n := Numpy DInt64 [1] [DZ 7] in
  valid_b u = false /\ to_list u = Ok [VStr true [104]] /\
  rmap to_list (mergemany [u; n]) = Ok (Ok [VList [VNum (DZ 104)]; VNum (DZ 7)]).
Proof. vm_compute. repeat split. Qed.

(* ================================================================ simplify_uniontype(merge = false) is total *)
Lemma lkp_rows w tags index cs0 vs :
  to_list (Union w tags index cs0) = Ok vs ->
  Forall tl_ok cs0 /\ zlen tags <= zlen index /\
  Forall (fun ti => exists v, lkp (map vals cs0) ti = Ok v) (zip tags index).
Proof.
  intros H. destruct (union_rows _ _ _ _ _ H) as (Htl & Hli & _ & _). repeat split; auto.
  rewrite (to_list_union_lk _ _ _ _ Htl Hli) in H. apply mapM_ok_Forall2 in H.
  clear -H. induction H; constructor; eauto.
Qed.

Lemma In_get {A} (l : list A) x : In x l -> exists p, get l p = Ok x.
Proof.
  intros H. apply In_nth_error in H. destruct H as [n Hn]. exists (Z.of_nat n). apply get_nth; [lia|].
  now rewrite Nat2Z.id.
Qed.
Lemma get_In {A} (l : list A) p x : get l p = Ok x -> In x l.
Proof. intros H. apply get_ok in H. destruct H as [_ H]. eapply nth_error_In; eauto. Qed.
Lemma get_map_inv {A B} (f : A -> B) l i y : get (map f l) i = Ok y -> exists x, get l i = Ok x /\ y = f x.
Proof.
  intros H. pose proof (get_lt _ _ _ H) as Hr. rewrite zlen_map in Hr.
  destruct (get_in_range l i Hr) as [x Hx]. exists x. split; [exact Hx|].
  rewrite (get_map f _ _ _ Hx) in H. congruence.
Qed.

Lemma body_union_clen x w t i cs : body x = Union w t i cs -> clen x = zlen t.
Proof. destruct x; cbn [body]; try discriminate; intros H; [inversion H; reflexivity | subst; reflexivity]. Qed.

Lemma simp_in_total s otags oindex itags iindex k j i b :
  zlen itags <= zlen iindex ->
  Forall (fun ti : Z * Z => fst ti = i -> 0 <= snd ti < zlen itags) (zip otags oindex) ->
  exists s', simp_in s otags oindex itags iindex k j i b = Ok s'.
Proof.
  intros Hl HF. unfold simp_in. apply mapM_total. intros [[t jx] old] Hin.
  apply in_zip_l in Hin. eapply Forall_forall in HF; eauto. cbn [fst snd] in HF.
  destruct (t =? i) eqn:E; [|eauto]. specialize (HF ltac:(lia)).
  destruct (get_in_range itags jx) as [it Hit]; [lia|]. rewrite Hit. cbn [bind].
  destruct (it =? j); [|eauto].
  destruct (get_in_range iindex jx) as [ii Hii]; [lia|]. rewrite Hii. cbn. eauto.
Qed.

Lemma su_inner_false_total mb otags oindex itags iindex i :
  zlen itags <= zlen iindex ->
  Forall (fun ti : Z * Z => fst ti = i -> 0 <= snd ti < zlen itags) (zip otags oindex) ->
  forall il j contents s,
    exists r, su_inner false mb otags oindex itags iindex i j il contents s = Ok r /\ fst r = contents ++ il.
Proof.
  intros Hl HF. induction il as [|y ys IH]; intros j contents s; cbn [su_inner].
  - eexists; split; [reflexivity|]. cbn. now rewrite app_nil_r.
  - rewrite place_false. cbn [bind].
    destruct (simp_in_total s otags oindex itags iindex (zlen contents) j i 0 Hl HF) as [s' Hs']. rewrite Hs'. cbn [bind].
    destruct (IH (j + 1) (contents ++ [y]) s') as (r & Hr & Hf). exists r. split; [exact Hr|].
    rewrite Hf, <- app_assoc. reflexivity.
Qed.

Lemma union_or_not x : (exists w t i cs, body x = Union w t i cs) \/ (forall w t i cs, body x <> Union w t i cs).
Proof. destruct (body x); try (right; intros; discriminate). left; eauto. Qed.

Lemma flat_alts_cons x xs : flat_alts (x :: xs) = flat1 x ++ flat_alts xs.
Proof. reflexivity. Qed.
Lemma flat1_plain x : (forall w t i cs, body x <> Union w t i cs) -> flat1 x = [x].
Proof. intros H. unfold flat1. destruct (body x); try reflexivity. exfalso. eapply H; eauto. Qed.
Lemma flat1_union x w t i cs : body x = Union w t i cs -> flat1 x = cs.
Proof. intros H. unfold flat1. now rewrite H. Qed.

Lemma su_loop_false_total mb tags index cs0 :
  Forall (fun ti => exists v, lkp (map vals cs0) ti = Ok v) (zip tags index) ->
  Forall tl_ok cs0 -> Forall (fun x => valid_b x = true) cs0 ->
  forall l pre contents s, cs0 = pre ++ l ->
    exists r, su_loop false mb tags index (zlen pre) l contents s = Ok r /\ fst r = contents ++ flat_alts l.
Proof.
  intros Hrows Htl Hval. induction l as [|x xs IH]; intros pre contents s Hcs.
  - eexists; split; [reflexivity|]. unfold flat_alts. cbn. now rewrite app_nil_r.
  - assert (Hcs' : cs0 = (pre ++ [x]) ++ xs) by (rewrite <- app_assoc; exact Hcs).
    assert (Hx : get cs0 (zlen pre) = Ok x).
    { rewrite Hcs. replace (zlen pre) with (0 + zlen pre) by lia. apply get_app_r; [lia|reflexivity]. }
    pose proof (get_In _ _ _ Hx) as Hin.
    assert (Htx : tl_ok x) by (eapply Forall_forall in Htl; eauto).
    assert (Hvx : valid_b x = true) by (eapply Forall_forall in Hval; eauto).
    specialize (IH (pre ++ [x])). rewrite zlen_app in IH. change (zlen [x]) with 1 in IH.
    rewrite flat_alts_cons.
    destruct (union_or_not x) as [(w & itags & iindex & ics & Eb) | Hnu].
    + rewrite (su_loop_union _ _ _ _ _ _ _ _ _ _ _ _ Eb).
      destruct (valid_union_nostr _ _ _ _ _ Hvx Eb) as [Hns _].
      pose proof (tl_ok_vals _ Htx) as Hvx'. rewrite (to_list_nostr _ Hns), Eb in Hvx'.
      destruct (union_rows _ _ _ _ _ Hvx') as (_ & Hli & _ & _).
      assert (HF : Forall (fun ti : Z * Z => fst ti = zlen pre -> 0 <= snd ti < zlen itags) (zip tags index)).
      { eapply Forall_impl; [|exact Hrows]. intros [t ix] [v Hv] Ht. cbn [fst snd] in *. subst t.
        unfold lkp, lk in Hv. cbn [fst snd] in Hv. rewrite (get_map vals _ _ _ Hx) in Hv. cbn [bind] in Hv.
        apply get_lt in Hv. rewrite (zlen_vals _ Htx), (body_union_clen _ _ _ _ _ Eb) in Hv. exact Hv. }
      destruct (su_inner_false_total mb tags index itags iindex (zlen pre) Hli HF ics 0 contents s) as (r1 & Hr1 & Hf1).
      rewrite Hr1. cbn [bind].
      destruct (IH (fst r1) (snd r1) Hcs') as (r & Hr & Hf). exists r. split; [exact Hr|].
      rewrite Hf, Hf1, <- app_assoc, (flat1_union _ _ _ _ _ Eb). reflexivity.
    + rewrite (su_loop_plain _ _ _ _ _ _ _ _ Hnu).
      destruct (IH (contents ++ [x]) (simp_one s tags index (zlen contents) (zlen pre) 0) Hcs') as (r & Hr & Hf).
      exists r. split; [exact Hr|]. rewrite Hf, <- app_assoc, (flat1_plain _ Hnu). reflexivity.
Qed.

Lemma lk_union_okb cs k j v : Forall tl_ok cs -> lk (map vals cs) k j = Ok v -> union_okb (map clen cs) (k, j) = true.
Proof.
  intros Htl H. unfold lk in H. apply bind_ok in H. destruct H as (l & Hl & H).
  destruct (get_map_inv _ _ _ _ Hl) as (x & Hx & ->). pose proof (get_lt _ _ _ Hx).
  assert (Htx : tl_ok x) by (eapply Forall_forall in Htl; eauto; eapply get_In; eauto).
  apply get_lt in H. rewrite (zlen_vals _ Htx) in H.
  unfold union_okb. rewrite (get_map clen _ _ _ Hx). lia.
Qed.

Lemma flat_alts_valid cs0 : Forall (fun x => valid_b x = true) cs0 -> forallb (validb None) (flat_alts cs0) = true.
Proof.
  induction 1 as [|x xs Hx _ IH]; [reflexivity|]. rewrite flat_alts_cons, forallb_app, IH, andb_true_r.
  destruct (union_or_not x) as [(w & t & i & cs & Eb) | Hnu].
  - rewrite (flat1_union _ _ _ _ _ Eb). destruct (valid_union_body _ _ _ _ _ Hx Eb) as [Hv _].
    apply validb_union_parts in Hv. tauto.
  - rewrite (flat1_plain _ Hnu). cbn. fold (valid_b x). now rewrite Hx.
Qed.
Lemma Forall_existsb_false {A} (f : A -> bool) l : Forall (fun y => f y = false) l -> existsb f l = false.
Proof. induction 1 as [|x xs Hx _ IH]; cbn; [reflexivity|]. now rewrite Hx, IH. Qed.

(* (d') simplify_uniontype(merge = False) on a union of valid alternatives (nested unions allowed) that has
   values: it succeeds, keeps every value, its alternatives are the flattened ones and it is valid.
   (Strengthens simplify_union_value_partial: existence and validity.)  Still excluded: a single remaining
   alternative, more than 127 alternatives (a ValueError in C++). *)
Theorem simplify_union_false_total_pf : forall mb c w tags index cs0 vs,
  body c = Union w tags index cs0 -> is_strk (fst (params c)) = false ->
  Forall (fun x => valid_b x = true) cs0 -> (2 <= length (flat_alts cs0))%nat -> zlen (flat_alts cs0) <= 127 ->
  to_list c = Ok vs ->
  exists c' t' i', simplify_union false mb c = Ok c' /\ to_list c' = Ok vs /\
                   c' = mkpar (params c) (Union I64 t' i' (flat_alts cs0)) /\
                   (fst (params c) = None -> valid_b c' = true).
Proof.
  intros mb c w tags index cs0 vs Hb Hns Hval Hn H127 Ht.
  pose proof Ht as Ht0.
  rewrite (to_list_nostr _ Hns), Hb in Ht.
  destruct (lkp_rows _ _ _ _ _ Ht) as (Htl0 & Hli & Hrows0).
  destruct (union_rows _ _ _ _ _ Ht) as (_ & _ & Hlv & Hrows).
  assert (Horig : forall p t ix v, row tags index vs p t ix v -> lk (map vals cs0) t ix = Ok v).
  { intros p t ix v (Hpt & Hpi & Hpv). destruct (Hrows _ _ _ Hpt Hpi) as (v' & Hv' & Hlk). congruence. }
  destruct (su_loop_false_total mb tags index cs0 Hrows0 Htl0 Hval cs0 [] [] (map (fun _ => None) tags) eq_refl)
    as ([cs s] & Hloop & Hcs). cbn [fst app] in Hcs. subst cs. change (zlen (@nil content)) with 0 in Hloop.
  assert (Hinv0 : InvG tags index vs (fun t _ => t <? zlen (@nil content)) [] (map (fun _ => None) tags)).
  { split; [apply zlen_map|split; [constructor|]]. intros p t ix v Hr. change (zlen (@nil content)) with 0.
    pose proof (Horig _ _ _ _ Hr) as Hlk0. unfold lk in Hlk0. apply bind_ok in Hlk0. destruct Hlk0 as (l0 & Hl0 & _).
    apply get_lt in Hl0. destruct Hr as (Hpt & _ & _).
    split; [intros; lia|]. intros _.
    apply (get_map (fun _ : Z => @None (Z * Z))) in Hpt. exact Hpt. }
  destruct (outer_steps tags index vs cs0 mb Hli Horig Htl0 Hval cs0 [] [] _ _ eq_refl Hinv0 Hloop) as [Hfin _].
  cbn [fst snd] in Hfin. destruct Hfin as (Hsl & Htlc & Hfin).
  (* every position has been written *)
  assert (Hall : forall p o, get s p = Ok o -> exists k j v, o = Some (k, j) /\ get vs p = Ok v /\ lk (map vals (flat_alts cs0)) k j = Ok v).
  { intros p o Hp. pose proof (get_lt _ _ _ Hp) as Hrange.
    destruct (get_in_range tags p) as [t Hpt]; [lia|].
    destruct (get_in_range index p) as [ix Hpi]; [lia|].
    destruct (get_in_range vs p) as [v Hpv]; [lia|].
    assert (Hr : row tags index vs p t ix v) by (repeat split; assumption).
    destruct (Hfin _ _ _ _ Hr) as [Hd _].
    pose proof (Horig _ _ _ _ Hr) as Hlk0. unfold lk in Hlk0. apply bind_ok in Hlk0. destruct Hlk0 as (l0 & Hl0 & _).
    apply get_lt in Hl0. rewrite zlen_map in Hl0.
    destruct Hd as (k & j & Hk & Hlk); [lia|]. exists k, j, v. repeat split; auto. congruence. }
  destruct (mapM_total (fun o : option (Z * Z) => match o with Some p => Ok p | None => Err EOob end) s) as [ti Hti].
  { intros o Hin. destruct (In_get _ _ Hin) as [p Hp]. destruct (Hall _ _ Hp) as (k & j & v & -> & _). eauto. }
  assert (Hsu : simplify_union false mb c
                = Ok (mkpar (params c) (Union I64 (map fst ti) (map snd ti) (flat_alts cs0)))).
  { unfold simplify_union. rewrite Hb. replace (zlen index <? zlen tags) with false by lia.
    rewrite Hloop. cbn [bind]. replace (127 <? zlen (flat_alts cs0)) with false by lia.
    rewrite Hti. cbn [bind].
    destruct (flat_alts cs0) as [|a1 [|a2 rest]]; [cbn in Hn; lia|cbn in Hn; lia|reflexivity]. }
  exists (mkpar (params c) (Union I64 (map fst ti) (map snd ti) (flat_alts cs0))), (map fst ti), (map snd ti).
  split; [exact Hsu|].
  destruct (simplify_union_value_pf mb c w tags index cs0 vs _ Hb Hns Hval Hn Ht0 Hsu) as [Hv _].
  split; [exact Hv|]. split; [reflexivity|].
  intros Hp. unfold valid_b. rewrite validb_mkpar_union by exact Hp.
  apply validb_union_intro.
  - apply Forall_existsb_false. apply flat_alts_not_unionlike. exact Hval.
  - now rewrite !map_length.
  - rewrite zip_fst_snd. apply forallb_forall. intros [k j] Hin.
      destruct (In_get _ _ Hin) as [p Hp'].
      destruct (get_mapM_inv _ _ _ _ _ Hti Hp') as (o & Ho & Hunw).
      destruct (Hall _ _ Ho) as (k' & j' & v & -> & _ & Hlk). inversion Hunw; subst.
      eapply lk_union_okb; eauto.
  - apply flat_alts_valid. exact Hval.
Qed.

(* ================================================================ merge = True finds nothing to merge *)
(* no alternative (in flattening order) is mergeable with an earlier one *)
Fixpoint pw_nomerge (mb : bool) (contents l : list content) : bool :=
  match l with
  | [] => true
  | x :: xs => forallb (fun c => negb (mergeable mb c x)) contents && pw_nomerge mb (contents ++ [x]) xs
  end.

Lemma find_merge_none mb contents x : forall k,
  forallb (fun c => negb (mergeable mb c x)) contents = true -> find_merge mb k contents x = None.
Proof.
  induction contents as [|c cs IH]; intros k H; cbn [find_merge]; [reflexivity|].
  cbn [forallb] in H. apply andb_true_iff in H. destruct H as [H1 H2].
  destruct (mergeable mb c x); [discriminate|]. apply IH. exact H2.
Qed.
Lemma place_nomerge merge_ mb contents x :
  forallb (fun c => negb (mergeable mb c x)) contents = true -> place merge_ mb contents x = place false mb contents x.
Proof. intros H. unfold place. destruct merge_; [rewrite find_merge_none by exact H|]; reflexivity. Qed.
Lemma pw_nomerge_app mb l1 l2 : forall contents,
  pw_nomerge mb contents (l1 ++ l2) = pw_nomerge mb contents l1 && pw_nomerge mb (contents ++ l1) l2.
Proof.
  induction l1 as [|x xs IH]; intros contents; cbn [app pw_nomerge].
  - now rewrite app_nil_r.
  - rewrite IH, <- app_assoc. cbn [app]. now rewrite andb_assoc.
Qed.

Lemma su_inner_false_fst mb otags oindex itags iindex i : forall il j contents s r,
  su_inner false mb otags oindex itags iindex i j il contents s = Ok r -> fst r = contents ++ il.
Proof.
  induction il as [|y ys IH]; intros j contents s r H; cbn [su_inner] in H.
  - inversion H. cbn. now rewrite app_nil_r.
  - rewrite place_false in H. cbn [bind] in H. apply bind_ok in H. destruct H as (s' & _ & H).
    rewrite (IH _ _ _ _ H), <- app_assoc. reflexivity.
Qed.
Lemma su_inner_nomerge merge_ mb otags oindex itags iindex i : forall il j contents s,
  pw_nomerge mb contents il = true ->
  su_inner merge_ mb otags oindex itags iindex i j il contents s
  = su_inner false mb otags oindex itags iindex i j il contents s.
Proof.
  induction il as [|y ys IH]; intros j contents s H; cbn [su_inner]; [reflexivity|].
  cbn [pw_nomerge] in H. apply andb_true_iff in H. destruct H as [H1 H2].
  rewrite (place_nomerge _ _ _ _ H1), place_false. cbn [bind].
  destruct (simp_in s otags oindex itags iindex (zlen contents) j i 0); cbn [bind]; [|reflexivity].
  apply IH. exact H2.
Qed.
Lemma su_loop_nomerge merge_ mb otags oindex : forall l i contents s,
  pw_nomerge mb contents (flat_alts l) = true ->
  su_loop merge_ mb otags oindex i l contents s = su_loop false mb otags oindex i l contents s.
Proof.
  induction l as [|x xs IH]; intros i contents s H; [reflexivity|].
  rewrite flat_alts_cons, pw_nomerge_app in H. apply andb_true_iff in H. destruct H as [H1 H2].
  destruct (union_or_not x) as [(w & t & ix & cs & Eb)|Hnu].
  - rewrite (flat1_union _ _ _ _ _ Eb) in H1, H2. cbn [su_loop]. rewrite Eb.
    rewrite (su_inner_nomerge _ _ _ _ _ _ _ _ _ _ _ H1).
    destruct (su_inner false mb otags oindex t ix i 0 cs contents s) as [r|] eqn:E; cbn [bind]; [|reflexivity].
    apply IH. rewrite (su_inner_false_fst _ _ _ _ _ _ _ _ _ _ _ E). exact H2.
  - rewrite (flat1_plain _ Hnu) in H1, H2. cbn [pw_nomerge] in H1. apply andb_true_iff in H1. destruct H1 as [H1 _].
    rewrite (su_loop_plain _ _ _ _ _ _ _ _ Hnu).
    cbn [su_loop]. destruct (body x) eqn:Eb;
      try (rewrite (place_nomerge _ _ _ _ H1), place_false; cbn [bind]; apply IH; exact H2).
    exfalso. eapply Hnu; eauto.
Qed.
Lemma simplify_union_nomerge merge_ mb c w tags index cs0 :
  body c = Union w tags index cs0 -> pw_nomerge mb [] (flat_alts cs0) = true ->
  simplify_union merge_ mb c = simplify_union false mb c.
Proof. intros Hb H. unfold simplify_union. rewrite Hb, (su_loop_nomerge merge_ _ _ _ _ _ _ _ H). reflexivity. Qed.

(* ================================================================ (3) ak.concatenate of different types *)
Lemma scalar_not_tl_ok x dt data : body x = Numpy dt [] data -> ~ tl_ok x.
Proof.
  intros Hb [v Hv]. destruct x; cbn [body] in Hb; try discriminate.
  - inversion Hb; subst. discriminate.
  - subst x. cbn in Hv. discriminate.
Qed.
Lemma mergemany_single a : tl_ok a -> mergemany [a] = Ok a.
Proof.
  intros Ht. unfold mergemany. destruct (mm_fuel_S [a]) as [f ->]. cbn [mm]. unfold mm_step.
  destruct (body a) eqn:Eb; try reflexivity. destruct shape; [|reflexivity].
  exfalso. eapply scalar_not_tl_ok; eauto.
Qed.

Lemma not_union_unionlike a : is_union a = false -> valid_b a = true -> unionlike a = false.
Proof.
  intros Hu Hv. apply valid_plain_not_unionlike; [exact Hv|]. intros w t i cs E. unfold is_union in Hu. now rewrite E in Hu.
Qed.
Lemma not_union_flat1 a : is_union a = false -> flat1 a = [a].
Proof. intros Hu. apply flat1_plain. intros w t i cs E. unfold is_union in Hu. now rewrite E in Hu. Qed.

(* the last two steps of ak.concatenate on the batch [merge_as_union a b] *)
Lemma union_pair_simplify merge_ mb a b :
  mergeable mb a b = false -> is_union a = false -> is_union b = false ->
  valid_b a = true -> valid_b b = true -> tl_ok a -> tl_ok b ->
  exists t i, (do out <- mergemany [merge_as_union a b];
               if is_union out then simplify_union merge_ mb out else Ok out) = Ok (Union I64 t i [a; b]) /\
              valid_b (Union I64 t i [a; b]) = true /\ to_list (Union I64 t i [a; b]) = Ok (vals a ++ vals b).
Proof.
  intros Hm Hua Hub Hva Hvb Hta Htb.
  set (U := merge_as_union a b).
  assert (HtU : to_list U = Ok (vals a ++ vals b)) by (apply merge_as_union_app_pf; apply tl_ok_vals; assumption).
  rewrite (mergemany_single U) by (eexists; exact HtU). cbn [bind].
  change (is_union U) with true. cbn iota.
  assert (Hfl : flat_alts [a; b] = [a; b]).
  { unfold flat_alts. cbn [map concat]. rewrite (not_union_flat1 _ Hua), (not_union_flat1 _ Hub). reflexivity. }
  rewrite (simplify_union_nomerge merge_ mb U I64 _ _ [a; b] eq_refl).
  2:{ rewrite Hfl. cbn. unfold mergeable in Hm. unfold mergeable. rewrite Hm. reflexivity. }
  assert (Hv2 : Forall (fun x => valid_b x = true) [a; b]) by (repeat constructor; assumption).
  assert (H2 : (2 <= length (flat_alts [a; b]))%nat) by (rewrite Hfl; cbn; lia).
  assert (H127 : zlen (flat_alts [a; b]) <= 127) by (rewrite Hfl; cbn; lia).
  destruct (simplify_union_false_total_pf mb U I64 _ _ [a; b] _ eq_refl eq_refl Hv2 H2 H127 HtU)
    as (c' & t' & i' & Hs & Ht' & Hc' & Hv').
  rewrite Hfl in Hc'. cbn in Hc'. subst c'. exists t', i'. split; [exact Hs|]. split; [apply Hv'; reflexivity|exact Ht'].
Qed.

(* (3) two operands of genuinely different types (not mergeable): the result is the union of the two, as
   they are, for both values of [merge] and [mergebool]; it is valid; no value changes.  All node classes. *)
Theorem concat_two_different_pf : forall merge_ mb a b,
  mergeable mb a b = false -> is_union a = false -> is_union b = false ->
  valid_b a = true -> valid_b b = true -> tl_ok a -> tl_ok b ->
  exists t i, concat_model merge_ mb [a; b] = Ok (Union I64 t i [a; b]) /\
              valid_b (Union I64 t i [a; b]) = true /\ to_list (Union I64 t i [a; b]) = Ok (vals a ++ vals b).
Proof.
  intros merge_ mb a b Hm Hua Hub Hva Hvb Hta Htb.
  unfold concat_model. cbn [concat_loop last]. rewrite Hm. rewrite (mergemany_single _ Hta). cbn [bind concat_loop].
  apply union_pair_simplify; assumption.
Qed.

(* option-of-list ++ record (named) *)
Example concat_two_different_example :
  let a := IndexedOption I64 [0; -1; 1] (ListOffset I64 [0; 2; 3] (Numpy DInt64 [3] [DZ 1; DZ 2; DZ 3])) in
  let b := Par None (Some [80]) (Record [Numpy DBool [2] [DZ 1; DZ 0]; Numpy DFloat64 [2] [DZ 4; DNaN]] (Some [[120]; [121]]) 2) in
  mergeable true a b = false /\ mergeable false a b = false /\ is_union a = false /\ is_union b = false /\
  valid_b a = true /\ valid_b b = true /\
  rmap to_list (concat_model true true [a; b])
  = Ok (Ok [VList [VNum (DZ 1); VNum (DZ 2)]; VNone; VList [VNum (DZ 3)];
            VRec [([120], VBool true); ([121], VNum (DZ 4))]; VRec [([120], VBool false); ([121], VNum DNaN)]]) /\
  rmap valid_b (concat_model true true [a; b]) = Ok true /\
  concat_model false false [a; b] = concat_model true true [a; b].
Proof. vm_compute. repeat split. Qed.

(* FINDING (model of structure.py concatenate + UnionArray::simplify_uniontype): four pairwise non-mergeable
   valid operands, the 3rd and 4th carrying parameters (here a string and a named record): the batch
   [UnionArray] is collapsed twice by merge_as_union (UnionArray::mergeable only compares parameters), the union
   is nested two levels deep and simplify_uniontype flattens one level only: the result has a UnionArray
   directly inside a UnionArray (not valid).  The values are right.  With three operands the result is flat. *)
Example concat_four_nested_union_refuted :
  let n1 := Numpy DInt64 [1] [DZ 1] in
  let l1 := ListOffset I64 [0; 1] (Numpy DInt64 [1] [DZ 5]) in
  let s1 := Par (Some AString) None (ListOffset I64 [0; 2] (Par (Some AChar) None (Numpy DUInt8 [2] [DZ 104; DZ 105]))) in
  let r1 := Par None (Some [80]) (Record [n1] (Some [[120]]) 1) in
  forallb valid_b [n1; l1; s1; r1] = true /\ pw_nomerge true [] [n1; l1; s1; r1] = true /\
  concat_model true true [n1; l1; s1; r1]
  = Ok (Union I64 [0; 0; 1; 2] [0; 1; 0; 0] [Union I64 [0; 1] [0; 0] [n1; l1]; s1; r1]) /\
  rmap valid_b (concat_model true true [n1; l1; s1; r1]) = Ok false /\
  rmap to_list (concat_model true true [n1; l1; s1; r1])
  = Ok (Ok [VNum (DZ 1); VList [VNum (DZ 5)]; VStr true [104; 105]; VRec [([120], VNum (DZ 1))]]) /\
  rmap valid_b (concat_model true true [n1; l1; s1]) = Ok true.
Proof. vm_compute. repeat split. Qed.

(* ================================================================ (2) a UnionArray later in the list *)
Lemma mm_union_valid a others c :
  is_union a = true -> Forall (fun x => valid_b x = true) (a :: others) -> mm_union a others = Ok c -> valid_b c = true.
Proof.
  intros Hu Hv Hm. unfold mm_union in Hm.
  apply bind_ok in Hm. destruct Hm as ([[ts is_] cs] & HF & Hm).
  destruct (127 <? zlen cs); [discriminate|]. inversion Hm; subst c. clear Hm.
  destruct (fill_union_valid _ _ _ _ _ Hv HF) as (Hl & Hvc & Hnu & Hok).
  specialize (Hok [] [] eq_refl). cbn [app] in Hok. rewrite app_nil_r in Hok.
  unfold valid_b. rewrite validb_mkpar_union.
  - apply validb_union_intro; assumption.
  - change (fst (fold_left (fun acc x => merge_pars acc (params x)) (a :: others) (params a)) = None).
    destruct (fold_pars_fst (a :: others) (params a)) as [H|H]; cbn zeta in H; rewrite H; [|reflexivity].
    unfold is_union in Hu. destruct (body a) eqn:Eb; try discriminate.
    destruct (valid_union_body _ _ _ _ _ (Forall_inv Hv) Eb) as [_ Hp]. exact Hp.
Qed.

Definition plain (x : content) : Prop := (forall w t i cs, body x <> Union w t i cs) /\ body x <> Empty.

(* UnionArray::reverse_merge(other) builds what UnionArray::mergemany would build from [other; union] *)
Lemma reverse_merge_as_fill rec u next w tags index contents :
  body u = Union w tags index contents -> plain next ->
  reverse_merge rec u next
  = (do r <- fill_union 0 [next; u];
     let '(ts, is_, cs) := r in
     if 127 <? zlen cs then Err EValue
     else Ok (mkpar (merge_pars (params u) (params next)) (Union I64 ts is_ cs))).
Proof.
  intros Eb [Hnu Hne]. unfold reverse_merge. rewrite Eb. rewrite (fill_union_plain _ _ _ Hnu Hne).
  cbn [fill_union]. rewrite Eb. destruct (slice index 0 (zlen tags)) as [ix|]; cbn [bind]; [|reflexivity].
  rewrite !app_nil_r. rewrite (zlen_cons next contents), (Z.add_comm 1). reflexivity.
Qed.

Lemma body_mkpar_union ps w t i cs : body (mkpar ps (Union w t i cs)) = Union w t i cs.
Proof. destruct ps as [[k|] [r|]]; reflexivity. Qed.
Lemma params_mkpar_union ps w t i cs : params (mkpar ps (Union w t i cs)) = ps.
Proof. destruct ps as [[k|] [r|]]; reflexivity. Qed.

Lemma finish_union_sem f next u rest :
  plain next -> tl_ok next -> is_union u = true -> Forall tl_ok (u :: rest) -> forallb u_nostr (u :: rest) = true ->
  1 + sumZ (map nalts (u :: rest)) <= 127 -> (1 <= f)%nat ->
  exists c, finish (mm f) next (u :: rest) = Ok c /\ to_list c = Ok (vals next ++ concat (map vals (u :: rest))) /\
            is_union c = true /\
            (valid_b next = true -> Forall (fun x => valid_b x = true) (u :: rest) -> valid_b c = true).
Proof.
  intros Hpl Htn Hu Htl Hns Hn Hf.
  pose proof Hu as Hu'. unfold is_union in Hu'. destruct (body u) as [| | | | | | | | | |w tags index contents| |] eqn:Eb; try discriminate.
  clear Hu'. cbn [finish]. rewrite (reverse_merge_as_fill _ _ _ _ _ _ _ Eb Hpl).
  inversion Htl as [|? ? Htu Htr]; subst. cbn [forallb] in Hns. apply andb_true_iff in Hns. destruct Hns as [Hnsu Hnsr].
  assert (Hnn : u_nostr next = true).
  { unfold u_nostr, is_union. destruct Hpl as [Hpl _]. destruct (body next); try reflexivity. exfalso. eapply Hpl; eauto. }
  destruct (fill_union_sem [next; u] 0) as (ts & is_ & cs & HF & Hl & Hc & Hnc & Hsem).
  { repeat constructor; assumption. } { cbn [forallb]. now rewrite Hnn, Hnsu. }
  rewrite HF. cbn [bind]. cbn [map] in Hn, Hnc. rewrite !sumZ_cons in *. change (sumZ []) with 0 in Hnc.
  assert (Hn1 : nalts next = 1).
  { unfold nalts. destruct Hpl as [H1 H2]. destruct (body next); try reflexivity; [congruence|exfalso; eapply H1; eauto]. }
  assert (Hnr : 0 <= sumZ (map nalts rest)).
  { clear. induction rest as [|x xs IH]; cbn [map]; [cbn; lia|]. rewrite sumZ_cons.
    assert (0 <= nalts x) by (unfold nalts; destruct (body x); try lia; apply zlen_nonneg). lia. }
  replace (127 <? zlen cs) with false by lia. cbn [bind].
  set (ps := merge_pars (params u) (params next)).
  set (r := mkpar ps (Union I64 ts is_ cs)).
  assert (Hps : is_strk (fst ps) = false).
  { unfold ps, merge_pars. cbn [fst]. unfold u_nostr in Hnsu. rewrite Hu in Hnsu. apply negb_true_iff in Hnsu.
    destruct (opt_eqb akind_eqb (fst (params u)) (fst (params next))); [exact Hnsu|reflexivity]. }
  assert (Htr' : to_list r = Ok (vals next ++ vals u)).
  { unfold r. rewrite (to_list_mkpar _ _ Hps). rewrite to_list_union_lk by (auto; unfold zlen; lia).
    specialize (Hsem [] [] eq_refl). cbn [app map concat] in Hsem. rewrite !app_nil_r in Hsem. exact Hsem. }
  assert (Hur : is_union r = true) by (unfold is_union, r; now rewrite body_mkpar_union).
  assert (Hvr : valid_b next = true -> valid_b u = true -> valid_b r = true).
  { intros Hvn Hvu.
    destruct (fill_union_valid [next; u] 0 ts is_ cs) as (_ & Hvc & Hnu & Hok); [repeat constructor; assumption|exact HF|].
    specialize (Hok [] [] eq_refl). cbn [app] in Hok. rewrite app_nil_r in Hok.
    unfold valid_b, r. rewrite validb_mkpar_union.
    - apply validb_union_intro; assumption.
    - unfold ps, merge_pars. cbn [fst]. destruct (valid_union_body _ _ _ _ _ Hvu Eb) as [_ Hp]. rewrite Hp.
      destruct (opt_eqb akind_eqb None (fst (params next))); reflexivity. }
  destruct rest as [|b rest'].
  - exists r. split; [reflexivity|]. split; [|split; [exact Hur|]].
    + cbn [map concat]. rewrite app_nil_r. exact Htr'.
    + intros Hvn Hvl. apply Hvr; [exact Hvn|exact (Forall_inv Hvl)].
  - destruct f as [|f']; [lia|]. cbn [mm]. unfold mm_step.
    unfold is_union in Hur. destruct (body r) eqn:Ebr; try discriminate. fold (is_union r) in *.
    assert (Hur' : is_union r = true) by (unfold is_union; now rewrite Ebr).
    destruct (mm_union_sem r (b :: rest')) as (c & Hc' & Htc & Huc).
    + exact Hur'.
    + constructor; [eexists; exact Htr'|exact Htr].
    + cbn [forallb]. cbn [forallb] in Hnsr. rewrite Hnsr, andb_true_r. unfold u_nostr. rewrite Hur'.
      unfold r. rewrite params_mkpar_union, Hps. reflexivity.
    + cbn [map]. rewrite sumZ_cons. unfold nalts at 1. rewrite Ebr.
      assert (E : Union w0 tags0 index0 cs0 = Union I64 ts is_ cs) by (rewrite <- Ebr; unfold r; apply body_mkpar_union).
      inversion E; subst. cbn [map] in Hn. rewrite ?sumZ_cons in Hn. rewrite ?sumZ_cons. lia.
    + exists c. split; [exact Hc'|]. split; [|split; [exact Huc|]].
      * rewrite Htc. cbn [map concat]. rewrite (vals_ok _ _ Htr'), <- app_assoc. reflexivity.
      * intros Hvn Hvl. eapply mm_union_valid; [exact Hur'| |exact Hc'].
        constructor; [apply Hvr; [exact Hvn|exact (Forall_inv Hvl)]|exact (Forall_inv_tail Hvl)].
Qed.

(* ---- the head of the list (everything before the first UnionArray) is merged first, then [finish] ---- *)
Lemma split_head_app stop head u rest :
  Forall (fun x => stop x = false) head -> stop u = true -> split_head stop (head ++ u :: rest) = (head, u :: rest).
Proof.
  induction 1 as [|x xs Hx _ IH]; intros Hu; cbn [app split_head]; [now rewrite Hu|]. rewrite Hx, (IH Hu). reflexivity.
Qed.

Lemma mm_numpy_tail rec a dt sh head u rest :
  Forall (fun x => stop_basic x = false) head -> stop_basic u = true ->
  mm_numpy rec a dt sh (head ++ u :: rest) = (do next <- mm_numpy rec a dt sh head; finish rec next (u :: rest)).
Proof.
  intros Hh Hu. unfold mm_numpy. destruct sh as [|n dims]; [reflexivity|].
  rewrite (split_head_app _ _ _ _ Hh Hu), (split_head_none _ _ Hh).
  destruct (mapM np_part (a :: head)); cbn [bind]; [|reflexivity].
  destruct (is_chars_par (params a)); (destruct (mapM _ _); cbn [bind]; reflexivity).
Qed.
Lemma mm_list_tail rec a head u rest :
  Forall (fun x => stop_basic x = false) head -> stop_basic u = true ->
  mm_list rec a (head ++ u :: rest) = (do next <- mm_list rec a head; finish rec next (u :: rest)).
Proof.
  intros Hh Hu. unfold mm_list.
  rewrite (split_head_app _ _ _ _ Hh Hu), (split_head_none _ _ Hh).
  destruct (self_list a); cbn [bind]; [|reflexivity].
  destruct (mapM list_parts _); cbn [bind]; [|reflexivity].
  destruct (rec _); cbn [bind]; [|reflexivity].
  destruct (fill_lists 0 _). reflexivity.
Qed.
Lemma mm_indexed_tail rec a head u rest :
  Forall (fun x => is_union x = false) head -> is_union u = true ->
  mm_indexed rec a (head ++ u :: rest) = (do next <- mm_indexed rec a head; finish rec next (u :: rest)).
Proof.
  intros Hh Hu. unfold mm_indexed.
  rewrite (split_head_app _ _ _ _ Hh Hu), (split_head_none _ _ Hh).
  destruct (mapM ix_part _); cbn [bind]; [|reflexivity].
  destruct (rec _); cbn [bind]; reflexivity.
Qed.

Lemma has_sk_plain s c : has_sk s c = true -> plain c.
Proof. destruct s, c; cbn; try discriminate; intros _; split; cbn; intros; discriminate. Qed.
Lemma has_sk_stop s c : has_sk s c = true -> match s with SIx _ => True | _ => stop_basic c = false end.
Proof. destruct s, c; cbn; try discriminate; intros _; try exact I; reflexivity. Qed.

Lemma mm_step_tail s rec a g' u rest :
  g' <> [] -> Forall (fun c => has_sk s c = true) (a :: g') -> is_union u = true ->
  mm_step rec (a :: g' ++ u :: rest) = (do next <- mm_step rec (a :: g'); finish rec next (u :: rest)).
Proof.
  intros Hne Hsk Hu.
  assert (Hsu : stop_basic u = true) by (unfold stop_basic; rewrite Hu; apply orb_true_r).
  assert (Hnu : Forall (fun x => is_union x = false) g').
  { eapply Forall_impl; [|exact (Forall_inv_tail Hsk)]. intros x. apply has_sk_not_union. }
  pose proof (Forall_inv Hsk) as Ha. destruct (has_sk_nopar _ _ Ha) as [_ Hba].
  unfold mm_step. destruct g' as [|b g'']; [congruence|]. cbn [app]. rewrite Hba.
  change (b :: g'' ++ u :: rest) with ((b :: g'') ++ u :: rest).
  destruct s as [|s'|s'].
  - assert (Hst : Forall (fun x => stop_basic x = false) (b :: g'')).
    { eapply Forall_impl; [|exact (Forall_inv_tail Hsk)]. intros x Hx. exact (has_sk_stop _ _ Hx). }
    destruct a; cbn in Ha; try discriminate. apply mm_numpy_tail; assumption.
  - assert (Hst : Forall (fun x => stop_basic x = false) (b :: g'')).
    { eapply Forall_impl; [|exact (Forall_inv_tail Hsk)]. intros x Hx. exact (has_sk_stop _ _ Hx). }
    destruct a; cbn in Ha; try discriminate; apply mm_list_tail; assumption.
  - destruct a; cbn in Ha; try discriminate; apply mm_indexed_tail; assumption.
Qed.

(* (2) operands of one skeleton (at least two) followed by a UnionArray and anything else: the head is merged as
   in mergemany_app_partial (booleans cast to 0/1 when its merged leaf type is a number), becomes the first
   alternative of the union (UnionArray::reverse_merge), and the remaining operands are taken as they are
   (UnionArray::mergemany).
   _partial: a head of a single array (rebuilt by its own class, values unchanged; tests only) and heads outside
   the has_sk fragment (records, strings, n-d NumpyArray, RegularArray of size 1, option mixed with non-option). *)
Theorem mergemany_union_later_partial_pf : forall s g u rest,
  (2 <= length g)%nat ->
  Forall (fun c => has_sk s c = true) g -> Forall (fun c => valid_b c = true) g ->
  is_union u = true -> Forall tl_ok (u :: rest) -> forallb u_nostr (u :: rest) = true ->
  1 + sumZ (map nalts (u :: rest)) <= 127 ->
  let dt := fold_left promote (map leaf_dt g) (leaf_dt (hd Empty g)) in
  exists c, mergemany (g ++ u :: rest) = Ok c /\ is_union c = true /\
            to_list c = Ok (concat (map (fun x => map (deep_cast dt) (vals x)) g) ++ concat (map vals (u :: rest))) /\
            (Forall (fun x => valid_b x = true) (u :: rest) -> valid_b c = true).
Proof.
  intros s g u rest Hlen Hsk Hv Hu Htl Hns Hn dt.
  assert (Htg : Forall tl_ok g).
  { apply Forall_forall. intros x Hx. eapply valid_tl_ok_sk.
    - eapply Forall_forall in Hsk; eauto.
    - eapply Forall_forall in Hv; eauto. }
  destruct g as [|a g']; [cbn in Hlen; lia|].
  assert (Hne : g' <> []) by (destruct g'; [cbn in Hlen; lia|discriminate]).
  unfold mergemany. cbn [app].
  assert (Hfuel : exists f, mm_fuel (a :: g' ++ u :: rest) = S f /\ (need s <= S f)%nat /\ (1 <= f)%nat).
  { pose proof (need_le_csize _ _ (Forall_inv Hsk)). unfold mm_fuel. cbn [fold_right length].
    match goal with |- exists f, (?x + 8)%nat = S f /\ _ => exists (x + 7)%nat end. lia. }
  destruct Hfuel as (f & -> & Hf1 & Hf2).
  cbn [mm]. rewrite (mm_step_tail s _ _ _ _ _ Hne Hsk Hu).
  destruct (mm_sk s (S f) (a :: g') Hf1 Hlen Hsk Htg) as (m & Hm & Hskm & Htm & Hvm & Hdt).
  cbn [mm] in Hm. rewrite Hm. cbn [bind].
  destruct (finish_union_sem f m u rest (has_sk_plain _ _ Hskm) (ex_intro _ _ Htm) Hu Htl Hns Hn Hf2) as (c & Hc & Htc & Huc & Hvc).
  exists c. split; [exact Hc|]. split; [exact Huc|]. split.
  - rewrite Htc, (vals_ok _ _ Htm). unfold dt. rewrite <- Hdt. reflexivity.
  - intros Hvr. apply Hvc; [|exact Hvr]. apply Hvm. eapply valid_sk_ok; [exact (Forall_inv Hsk)|exact (Forall_inv Hv)].
Qed.

(* [[true],[]] (ListOffset32 of bool) ++ [[2,3]] (RegularArray of int8) ++ union{float64, option[list[int64]]}
   ++ record: the two lists are merged (true becomes 1), the rest is taken as it is *)
Example mergemany_union_later_example :
  let a := ListOffset I32 [0; 1; 1] (Numpy DBool [1] [DZ 1]) in
  let b := Regular (Numpy DInt8 [2] [DZ 2; DZ 3]) 2 0 in
  let u := Union I32 [1; 0; 1] [0; 0; 1]
             [Numpy DFloat64 [1] [DZ 7]; IndexedOption I64 [-1; 0] (ListOffset I64 [0; 1] (Numpy DInt64 [1] [DZ 9]))] in
  let r := Record [Numpy DInt64 [1] [DZ 4]] (Some [[120]]) 1 in
  has_sk (SList SNum) a = true /\ has_sk (SList SNum) b = true /\ forallb valid_b [a; b; u; r] = true /\
  forallb u_nostr [u; r] = true /\ sumZ (map nalts [u; r]) = 3 /\
  rmap to_list (mergemany [a; b; u; r])
  = Ok (Ok [VList [VNum (DZ 1)]; VList []; VList [VNum (DZ 2); VNum (DZ 3)];
            VNone; VNum (DZ 7); VList [VNum (DZ 9)]; VRec [([120], VNum (DZ 4))]]) /\
  rmap valid_b (mergemany [a; b; u; r]) = Ok true.
Proof. vm_compute. repeat split. Qed.

(* ================================================================ (3'): a mergeable group, then a different type *)
(* with mergebool, what a layout of skeleton [s] is mergeable with depends on [s] only *)
Lemma mergeable_sk_indep s : forall a a' x,
  has_sk s a = true -> has_sk s a' = true -> mg true nopar a x = mg true nopar a' x.
Proof.
  induction s as [|s' IH|s' IH]; intros a a' x Ha Ha'.
  - destruct (has_sk_SNum _ Ha) as (dt & n & d & ->). destruct (has_sk_SNum _ Ha') as (dt' & n' & d' & ->).
    cbn [mg]. destruct (peel nopar nopar x) as [| |b']; reflexivity.
  - destruct a; cbn in Ha; try discriminate; destruct a'; cbn in Ha'; try discriminate;
      try (apply andb_true_iff in Ha; destruct Ha as [_ Ha]); try (apply andb_true_iff in Ha'; destruct Ha' as [_ Ha']);
      cbn [mg]; (destruct (peel nopar nopar x) as [| |b']; try reflexivity); destruct b'; try reflexivity; apply IH; assumption.
  - destruct a; cbn in Ha; try discriminate; destruct a'; cbn in Ha'; try discriminate;
      cbn [mg]; (destruct (negb (pars_eqb nopar (params x))); try reflexivity); destruct (body x); try reflexivity;
      apply IH; assumption.
Qed.

Lemma concat_loop_app_sk s : forall l l2 c0 batch,
  batch <> [] -> Forall (fun c => has_sk s c = true) batch -> Forall (fun c => has_sk s c = true) l ->
  concat_loop true c0 batch (l ++ l2) = concat_loop true c0 (batch ++ l) l2.
Proof.
  induction l as [|x xs IH]; intros l2 c0 batch Hne Hb Hl; cbn [concat_loop app].
  - now rewrite app_nil_r.
  - assert (Hlast : has_sk s (last batch c0) = true).
    { destruct (exists_last Hne) as (b' & y & ->). rewrite last_last. apply Forall_app in Hb. destruct Hb as [_ Hb].
      exact (Forall_inv Hb). }
    unfold mergeable. rewrite (mergeable_sk s _ _ Hlast (Forall_inv Hl)).
    rewrite IH.
    + now rewrite <- app_assoc.
    + destruct batch; discriminate.
    + apply Forall_app. split; [exact Hb|constructor; [exact (Forall_inv Hl)|constructor]].
    + exact (Forall_inv_tail Hl).
Qed.

(* operands g (at least two) of one skeleton, then one operand x of a genuinely different type: the result is
   the union {merged g, x}; the values of g are cast as in concat_app_partial, those of x are unchanged.
   _partial: mergebool = True (as concat_app_partial), g in the has_sk fragment, a single trailing operand. *)
Theorem concat_group_then_different_partial_pf : forall s merge_ g x,
  (2 <= length g)%nat ->
  Forall (fun c => has_sk s c = true) g -> Forall (fun c => valid_b c = true) g ->
  mergeable true (last g Empty) x = false -> is_union x = false -> valid_b x = true -> tl_ok x ->
  exists m t i, mergemany g = Ok m /\ has_sk s m = true /\
    concat_model merge_ true (g ++ [x]) = Ok (Union I64 t i [m; x]) /\
    valid_b (Union I64 t i [m; x]) = true /\
    to_list (Union I64 t i [m; x]) = Ok (concat (map (fun y => map (deep_cast (leaf_dt m)) (vals y)) g) ++ vals x).
Proof.
  intros s merge_ g x Hlen Hsk Hv Hnm Hux Hvx Htx.
  destruct (mergemany_app_partial_pf s g Hlen Hsk Hv) as (m & Hm & _ & Htm).
  destruct (mergemany_valid_partial_pf s g m Hlen Hsk Hv Hm) as [Hvm Hskm].
  destruct g as [|c0 g']; [cbn in Hlen; lia|].
  assert (Hlast : has_sk s (last (c0 :: g') Empty) = true /\ last (c0 :: g') c0 = last (c0 :: g') Empty).
  { assert (Hne : c0 :: g' <> []) by discriminate.
    destruct (exists_last Hne) as (b' & y & E). rewrite E, !last_last. split; [|reflexivity].
    rewrite E in Hsk. apply Forall_app in Hsk. destruct Hsk as [_ Hsk]. exact (Forall_inv Hsk). }
  destruct Hlast as [Hlast Hlast'].
  assert (Hmx : mergeable true m x = false).
  { unfold mergeable in *. rewrite (mergeable_sk_indep s m _ x Hskm Hlast). exact Hnm. }
  destruct (union_pair_simplify merge_ true m x Hmx (has_sk_not_union _ _ Hskm) Hux Hvm Hvx (ex_intro _ _ Htm) Htx)
    as (t & i & Hs & Hvu & Htu).
  exists m, t, i. split; [exact Hm|]. split; [exact Hskm|]. split; [|split; [exact Hvu|]].
  - unfold concat_model. cbn [app].
    rewrite (concat_loop_app_sk s g' [x] c0 [c0]); try discriminate.
    + cbn [app concat_loop]. rewrite Hlast', Hnm, Hm. cbn [bind concat_loop]. exact Hs.
    + constructor; [exact (Forall_inv Hsk)|constructor].
    + exact (Forall_inv_tail Hsk).
  - rewrite Htu, (vals_ok _ _ Htm). reflexivity.
Qed.

(* [[1],[]] ++ [None,[true]] (option over list: same skeleton is required, so both are option[list]) ++ strings *)
Example concat_group_then_different_example :
  let a := Unmasked (ListOffset I64 [0; 1; 1] (Numpy DInt64 [1] [DZ 1])) in
  let b := IndexedOption I32 [-1; 0] (ListA I64 [0] [1] (Numpy DBool [1] [DZ 1])) in
  let x := Par (Some AString) None (ListOffset I64 [0; 2] (Par (Some AChar) None (Numpy DUInt8 [2] [DZ 104; DZ 105]))) in
  has_sk (SIx (SList SNum)) a = true /\ has_sk (SIx (SList SNum)) b = true /\ forallb valid_b [a; b; x] = true /\
  mergeable true (last [a; b] Empty) x = false /\ is_union x = false /\
  rmap to_list (concat_model true true [a; b; x])
  = Ok (Ok [VList [VNum (DZ 1)]; VList []; VNone; VList [VNum (DZ 1)]; VStr true [104; 105]]) /\
  rmap valid_b (concat_model true true [a; b; x]) = Ok true.
Proof. vm_compute. repeat split. Qed.
