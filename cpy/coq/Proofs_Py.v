(** Proofs about the Python-layer specifications of PySpec.v (laws stated by C03 C05 C07 C08 C09 C10). *)
From Coq Require Import ZArith List Bool Lia ZifyBool.
From AwkV Require Import Base Layout Valid Types AtAxis Ops_Struct Ops_Flatten Ops_Option Ops_Reduce
  Ops_Getitem Ops_Fields Proofs_Lists.
From AwkPy Require Import PySpec.
Import ListNotations.
Open Scope Z_scope.

(* ====================================================================== C05 *)

(* cutting the concatenation of lists by their lengths gives the lists back *)
Lemma regroup1_concat (ls : list (list value)) :
  regroup1 (map (fun l => Some (zlen l)) ls) (concat ls) = Ok (map VList ls, []).
Proof.
  induction ls as [|l ls IH]; [reflexivity|].
  cbn [map concat regroup1 cnt].
  assert (Hn := zlen_nonneg l).
  destruct (zlen l <? 0) eqn:E; [lia|].
  destruct (l ++ concat ls) as [|x rest] eqn:Eapp.
  - apply app_eq_nil in Eapp. destruct Eapp as [-> Hc]. rewrite Hc in IH.
    cbn. rewrite IH. reflexivity.
  - rewrite <- Eapp.
    replace (zlen (l ++ concat ls) <? zlen l) with false
      by (rewrite zlen_app; pose proof (zlen_nonneg (concat ls)); lia).
    rewrite (drop_app_exact l (concat ls) (zlen l) eq_refl).
    rewrite (take_app_exact l (concat ls) (zlen l) eq_refl).
    rewrite IH. reflexivity.
Qed.

(* the same with missing lists: None contributes nothing to flatten, num is None there, unflatten gives None back *)
Definition olist (o : option (list value)) : value := match o with Some l => VList l | None => VNone end.
Definition ocount (o : option (list value)) : option Z := match o with Some l => Some (zlen l) | None => None end.
Definition oelems (o : option (list value)) : list value := match o with Some l => l | None => [] end.

Lemma regroup1_concat_missing (ls : list (option (list value))) :
  regroup1 (map ocount ls) (concat (map oelems ls)) = Ok (map olist ls, []).
Proof.
  induction ls as [|o ls IH]; [reflexivity|].
  destruct o as [l|].
  - cbn [map concat regroup1 cnt ocount oelems olist].
    assert (Hn := zlen_nonneg l).
    destruct (zlen l <? 0) eqn:E; [lia|].
    destruct (l ++ concat (map oelems ls)) as [|x rest] eqn:Eapp.
    + apply app_eq_nil in Eapp. destruct Eapp as [-> Hc]. rewrite Hc in IH.
      cbn. rewrite IH. reflexivity.
    + rewrite <- Eapp.
      replace (zlen (l ++ concat (map oelems ls)) <? zlen l) with false
        by (rewrite zlen_app; pose proof (zlen_nonneg (concat (map oelems ls))); lia).
      rewrite (drop_app_exact l _ (zlen l) eq_refl).
      rewrite (take_app_exact l _ (zlen l) eq_refl).
      rewrite IH. reflexivity.
  - cbn [map concat regroup1 cnt ocount oelems olist app].
    destruct (concat (map oelems ls)) as [|x rest] eqn:Ec.
    + cbn. rewrite IH. reflexivity.
    + cbn. cbn in IH. rewrite IH. reflexivity.
Qed.

Lemma existsb_neg_counts (ls : list (option (list value))) :
  existsb (fun c => cnt c <? 0) (map ocount ls) = false.
Proof.
  induction ls as [|o ls IH]; [reflexivity|].
  cbn. rewrite IH. destruct o as [l|]; cbn; [pose proof (zlen_nonneg l); lia | reflexivity].
Qed.

(* value level: unflatten at axis 0 of (the concatenation of the lists, their lengths) is the array of lists *)
Lemma unflatten_vals_concat (ls : list (option (list value))) :
  unflatten_vals 0 (concat (map oelems ls)) (map ocount ls) = Ok (VList (map olist ls)).
Proof.
  unfold unflatten_vals. rewrite existsb_neg_counts. cbn [Z.eqb].
  rewrite regroup1_concat_missing. reflexivity.
Qed.

Lemma mapM_elems_of_olist ls : mapM elems_of (map olist ls) = Ok (map oelems ls).
Proof.
  rewrite mapM_map. rewrite (mapM_ext_in _ (fun o => Ok (oelems o))); [apply mapM_pure|].
  intros [l|] _; reflexivity.
Qed.

Definition onum (o : option (list value)) : value :=
  match o with Some l => VNum (DZ (zlen l)) | None => VNone end.

Lemma flatten1_option_lists sz te ls :
  spec_flatten (Some 1) (TOpt (TList sz None te)) (map olist ls) = Ok (VList (concat (map oelems ls))).
Proof.
  unfold spec_flatten, resolve_axis_top, flatten_spec, resolve_axis. cbn.
  rewrite mapM_elems_of_olist. reflexivity.
Qed.

Lemma num1_option_lists sz te ls :
  spec_num 1 (TOpt (TList sz None te)) (map olist ls) = Ok (VList (map onum ls)).
Proof.
  unfold spec_num, resolve_axis_top, num_spec, spec_ax. cbn.
  rewrite mapM_map.
  rewrite (mapM_ext_in _ (fun o => Ok (onum o))); [rewrite mapM_pure; reflexivity|].
  intros [l|] _; reflexivity.
Qed.

Lemma counts_of_onum ls : counts_of (TOpt (TNum DInt64)) (map onum ls) = Ok (map ocount ls).
Proof.
  unfold counts_of. cbn. rewrite mapM_map.
  rewrite (mapM_ext_in _ (fun o => Ok (ocount o))); [apply mapM_pure|].
  intros [l|] _; reflexivity.
Qed.

(* C05: unflatten(flatten(x), num(x)) = x  (axis=1 / axis=1 / axis=0, the defaults the property uses).
   [x] is any array of lists, missing lists (None) included: they contribute nothing to flatten, num is None
   there and unflatten puts None back. *)
Theorem unflatten_flatten_lemma sz te (ls : list (option (list value))) f c :
  let t := TOpt (TList sz None te) in
  let x := map olist ls in
  spec_flatten (Some 1) t x = Ok (VList f) ->
  spec_num 1 t x = Ok (VList c) ->
  spec_unflatten 0 te f (CArr (TOpt (TNum DInt64)) c) = Ok (VList x).
Proof.
  intros t x Hf Hc. subst t x.
  rewrite flatten1_option_lists in Hf. rewrite num1_option_lists in Hc.
  injection Hf as <-. injection Hc as <-.
  unfold spec_unflatten, resolve_axis_top. cbn [Z.leb Z.compare bind Z.eqb Z.ltb andb].
  rewrite counts_of_onum. cbn [bind]. apply unflatten_vals_concat.
Qed.

(* the same for an array without option type *)
Lemma flatten1_lists sz te (ls : list (list value)) :
  spec_flatten (Some 1) (TList sz None te) (map VList ls) = Ok (VList (concat ls)).
Proof.
  unfold spec_flatten, resolve_axis_top, flatten_spec, resolve_axis. cbn.
  rewrite mapM_map. rewrite (mapM_ext_in _ (fun l => Ok l)); [rewrite mapM_pure, map_id; reflexivity|].
  intros l _; reflexivity.
Qed.
Lemma num1_lists sz te (ls : list (list value)) :
  spec_num 1 (TList sz None te) (map VList ls) = Ok (VList (map (fun l => VNum (DZ (zlen l))) ls)).
Proof.
  unfold spec_num, resolve_axis_top, num_spec, spec_ax. cbn.
  rewrite mapM_map. unfold num_f. rewrite mapM_pure. reflexivity.
Qed.
Theorem unflatten_flatten_plain_lemma sz te (ls : list (list value)) f c :
  let t := TList sz None te in
  let x := map VList ls in
  spec_flatten (Some 1) t x = Ok (VList f) ->
  spec_num 1 t x = Ok (VList c) ->
  spec_unflatten 0 te f (CArr (TNum DInt64) c) = Ok (VList x).
Proof.
  intros t x Hf Hc. subst t x.
  rewrite flatten1_lists in Hf. rewrite num1_lists in Hc.
  injection Hf as <-. injection Hc as <-.
  unfold spec_unflatten, resolve_axis_top. cbn [Z.leb Z.compare bind Z.eqb Z.ltb andb].
  unfold counts_of. cbn [strip_opt1 is_int_dt]. rewrite mapM_map. unfold count_of. rewrite mapM_pure. cbn [bind].
  pose proof (unflatten_vals_concat (map Some ls)) as H.
  rewrite !map_map in H. cbn [oelems ocount olist] in H.
  rewrite map_id in H. exact H.
Qed.

(* ak.flatten(axis=None) of an array of lists is the concatenation of the flattened lists, in order *)
Theorem flatten_none_app_lemma sz te (ls : list (list value)) :
  leaves_l (TList sz None te) (map VList ls) = leaves_l te (concat ls).
Proof.
  cbn. rewrite mapM_map, mapM_pure. cbn. rewrite map_id. reflexivity.
Qed.

(* ====================================================================== C03 *)
Lemma leaf_int_promote k v : leaf_int (promote_leaf k v) = leaf_int v.
Proof. destruct v; try reflexivity. destruct k, b; reflexivity. Qed.

(* ak.<reducer>(x, axis=None) is the reducer over ak.flatten(x, axis=None) *)
Theorem reduce_none_is_reduce_of_flatten_lemma r t vs dt ls :
  single_dt (leaf_dts t) = Some dt ->
  (match r with RArgmin | RArgmax => has_rec t = false | _ => True end) ->
  spec_flatten_none t vs = Ok (VList ls) ->
  spec_reduce_none r t vs = (do zs <- mapM leaf_int ls; reduce_leaves r dt zs).
Proof.
  intros Hdt Hr Hf. unfold spec_reduce_none. rewrite Hdt.
  unfold spec_flatten_none in Hf.
  destruct (has_union t); [discriminate|].
  destruct (leaf_dts t) eqn:El; [discriminate|].
  unfold flatten_none_list in Hf.
  destruct (leaves_l t vs) as [lv|e] eqn:Elv; [|discriminate].
  cbn in Hf. injection Hf as <-. cbn [bind].
  rewrite mapM_map.
  match goal with |- context [mapM ?f lv] =>
    assert (E : mapM f lv = mapM leaf_int lv) by (apply mapM_ext_in; intros; apply leaf_int_promote)
  end.
  rewrite E.
  destruct (mapM leaf_int lv) as [zs|e]; cbn [bind]; [|reflexivity].
  destruct r; try reflexivity; rewrite Hr; reflexivity.
Qed.

(* ====================================================================== C07 *)
(* itertools.product: the last list varies fastest *)
Fixpoint product {A} (ls : list (list A)) : list (list A) :=
  match ls with
  | [] => [[]]
  | l :: rest => flat_map (fun a => map (cons a) (product rest)) l
  end.

Lemma product_length {A} (ls : list (list A)) :
  length (product ls) = fold_right Nat.mul 1%nat (map (@length A) ls).
Proof.
  induction ls as [|l ls IH]; [reflexivity|].
  cbn [product map fold_right]. rewrite <- IH. clear IH.
  induction l as [|a l IHl]; [reflexivity|].
  cbn [flat_map]. rewrite app_length, map_length, IHl. cbn. reflexivity.
Qed.

Lemma map_flat_map {A B C} (f : B -> C) (g : A -> list B) l :
  map f (flat_map g l) = concat (map (fun a => map f (g a)) l).
Proof.
  induction l as [|a l IH]; [reflexivity|]. cbn. rewrite map_app, IH. reflexivity.
Qed.

Lemma mapM_Ok_map {A B} (f : A -> res B) (g : A -> B) l :
  (forall a, In a l -> f a = Ok (g a)) -> mapM f l = Ok (map g l).
Proof.
  intros H. rewrite (mapM_ext_in f (fun a => Ok (g a))) by exact H. apply mapM_pure.
Qed.

(* un-nested cartesian product of k lists = itertools.product, as tuples *)
Lemma cart_is_product (ls : list (list value)) : forall i prefix,
  cart None [] i (map Some ls) prefix =
  Ok (Some (map (fun t => VTup (rev prefix ++ t)) (product ls))).
Proof.
  induction ls as [|l ls IH]; intros i prefix.
  - cbn. rewrite app_nil_r. reflexivity.
  - cbn [map cart].
    rewrite (mapM_Ok_map _ (fun a => Some (map (fun t => VTup (rev (a :: prefix) ++ t)) (product ls))))
      by (intros a _; apply IH).
    cbn [bind existsb].
    assert (E : concat (map unopt_l (map (fun a => Some (map (fun t => VTup (rev (a :: prefix) ++ t)) (product ls))) l))
                = map (fun t => VTup (rev prefix ++ t)) (product (l :: ls))).
    { cbn [product]. rewrite map_flat_map, map_map. f_equal. apply map_ext. intros a.
      cbn [unopt_l]. rewrite map_map. apply map_ext. intros t. cbn [rev]. rewrite <- app_assoc. reflexivity. }
    destruct (map Some ls); rewrite E; reflexivity.
Qed.

(* C07: ak.cartesian(arrays, axis=0) yields exactly the tuples of itertools.product, in that order *)
Theorem cartesian_is_product_lemma (a0 : arr) (arrs : list arr) :
  spec_cartesian 0 NNone None (a0 :: arrs) = Ok (VList (map VTup (product (map snd (a0 :: arrs))))).
Proof.
  destruct a0 as [t0 v0].
  unfold spec_cartesian, same_axis, resolve_axis_top. cbn [Z.leb Z.compare bind Z.ltb fst].
  assert (F : forall l : list ty, forallb (fun _ : ty => 0 =? 0) l = true)
    by (induction l; cbn; auto).
  rewrite F. cbn [bind nested_list fields_ok negb Z.eqb].
  unfold cart_entry.
  change (map (fun a : arr => Some (snd a)) ((t0, v0) :: arrs))
    with (map (fun a : ty * list value => Some (snd a)) ((t0, v0) :: arrs)).
  rewrite <- (map_map snd Some ((t0, v0) :: arrs)).
  rewrite cart_is_product. cbn [bind rev app]. reflexivity.
Qed.

(* the number of tuples is the product of the lengths *)
Theorem cartesian_length_lemma (ls : list (list value)) out :
  cart_entry None [] (map Some ls) = Ok (VList out) ->
  length out = fold_right Nat.mul 1%nat (map (@length value) ls).
Proof.
  unfold cart_entry. rewrite cart_is_product. cbn. intros H. injection H as <-.
  rewrite map_length. apply product_length.
Qed.

(* element (i, j) of the product of two lists is (a_i, b_j) *)
Lemma product_single {A} (b : list A) : product [b] = map (fun y => [y]) b.
Proof. cbn. induction b as [|y b IH]; [reflexivity|]. cbn. rewrite IH. reflexivity. Qed.
Lemma product_pair {A} (a b : list A) :
  product [a; b] = flat_map (fun x => map (fun y => [x; y]) b) a.
Proof.
  change (product [a; b]) with (flat_map (fun x => map (cons x) (product [b])) a).
  rewrite product_single. induction a as [|x a IH]; [reflexivity|].
  cbn [flat_map]. rewrite IH, map_map. reflexivity.
Qed.
Lemma product_pair_nth {A} (a b : list A) (d : A) i j :
  (i < length a)%nat -> (j < length b)%nat ->
  nth (i * length b + j) (product [a; b]) [] = [nth i a d; nth j b d].
Proof.
  rewrite product_pair. revert i. induction a as [|x a IH]; intros i Hi Hj; [cbn in Hi; lia|].
  cbn [flat_map].
  destruct i as [|i].
  - cbn [Nat.mul Nat.add nth]. rewrite app_nth1 by (rewrite map_length; exact Hj).
    rewrite (nth_indep _ [] [x; d]) by (rewrite map_length; exact Hj).
    rewrite (map_nth (fun y => [x; y]) b d j). reflexivity.
  - rewrite app_nth2 by (rewrite map_length; cbn; lia). rewrite map_length.
    replace (S i * length b + j - length b)%nat with (i * length b + j)%nat by (cbn; lia).
    cbn [nth]. apply IH; [cbn in Hi; lia | exact Hj].
Qed.

(* nested=True for two lists: one inner list per element of the first list *)
Theorem cartesian_nested_pair_lemma (a b : list value) :
  cart_entry None [0] [Some a; Some b] =
  Ok (VList (map (fun x => VList (map (fun y => VTup [x; y]) b)) a)).
Proof.
  unfold cart_entry. cbn [cart].
  rewrite (mapM_Ok_map _ (fun x => Some (map (fun y => VTup [x; y]) b))).
  - cbn. rewrite map_map. reflexivity.
  - intros x _. rewrite (mapM_Ok_map _ (fun y => Some [VTup [x; y]])) by (intros; reflexivity).
    cbn [bind]. rewrite map_map. cbn [unopt_l].
    f_equal. f_equal. induction b as [|y b IHb]; [reflexivity|]. cbn. rewrite IHb. reflexivity.
Qed.

(* ====================================================================== C08 *)
Lemma forallb_true {A} (f : A -> bool) l : (forall x, f x = true) -> forallb f l = true.
Proof. intros H. induction l; cbn; [reflexivity|]. rewrite H, IHl. reflexivity. Qed.

(* C08: concatenation along axis 0 = the elements of the first array followed by those of the others, unchanged *)
Theorem concat_axis0_app_lemma (a0 : arr) (arrs : list arr) :
  existsb has_union (map fst (a0 :: arrs)) = false ->
  mixes_bool_num (map fst (a0 :: arrs)) = false ->
  0 < fold_right (fun t m => Z.max (snd (minmax t)) m) 0 (map fst (a0 :: arrs)) ->
  spec_concat_axis 0 (a0 :: arrs) = Ok (VList (concat (map snd (a0 :: arrs)))).
Proof.
  intros Hu Hm Hd. destruct a0 as [t0 v0].
  unfold spec_concat_axis. rewrite Hu. unfold resolve_axis_top. cbn [Z.leb Z.compare bind].
  apply Z.ltb_lt in Hd. rewrite Hd.
  cbn [andb negb].
  rewrite forallb_true by (intros; reflexivity). cbn [negb].
  rewrite Hm. reflexivity.
Qed.

(* rows of two equally long columns *)
Lemma transpose2 (xs ys : list value) :
  length xs = length ys ->
  transpose_n (length xs) [xs; ys] = map (fun p : value * value => [fst p; snd p]) (zip xs ys).
Proof.
  revert ys. induction xs as [|x xs IH]; intros [|y ys] H; try discriminate; [reflexivity|].
  cbn [length transpose_n map hd tl zip fst snd]. f_equal. apply IH. cbn in H. lia.
Qed.
Lemma rows_of2 (xs ys : list value) :
  length xs = length ys ->
  rows_of [xs; ys] = map (fun p : value * value => [fst p; snd p]) (zip xs ys).
Proof. intros H. unfold rows_of. apply transpose2. exact H. Qed.

Lemma zip_map2 {A B C D} (f : A -> C) (g : B -> D) l m :
  zip (map f l) (map g m) = map (fun p : A * B => (f (fst p), g (snd p))) (zip l m).
Proof.
  revert m. induction l as [|x l IH]; intros [|y m]; try reflexivity. cbn. rewrite IH. reflexivity.
Qed.

Lemma lengths_differ2_false (xs ys : list value) :
  length xs = length ys -> list_lengths_differ [xs; ys] = false.
Proof.
  intros H. unfold list_lengths_differ. cbn. unfold zlen. rewrite H. rewrite Z.eqb_refl. reflexivity.
Qed.

(* C08: concatenation along axis 1 concatenates corresponding lists (every element kept, in order) *)
Theorem concat_axis1_zipapp_lemma sz te (xs ys : list (list value)) :
  length xs = length ys ->
  has_union te = false -> has_empty_rec te = false ->
  mixes_bool_num [TList sz None te; TList sz None te] = false ->
  1 <= snd (minmax te) ->
  spec_concat_axis 1 [(TList sz None te, map VList xs); (TList sz None te, map VList ys)] =
  Ok (VList (map (fun p : list value * list value => VList (fst p ++ snd p)) (zip xs ys))).
Proof.
  intros Hlen Hu He Hm Hd.
  unfold spec_concat_axis. cbn [map fst existsb has_union]. rewrite Hu. cbn [orb].
  unfold resolve_axis_top. cbn [Z.leb Z.compare bind fold_right].
  cbn [minmax]. destruct (minmax te) as [mn mx] eqn:Emm. cbn [snd] in *.
  replace ((0 <=? 1) && (1 <? Z.max (mx + 1) (Z.max (mx + 1) 0))) with true by lia.
  cbn [negb forallb Z.eqb andb].
  rewrite Hm. cbn [Z.eqb has_empty_rec]. rewrite He. cbn [orb bind].
  cbn [Z.sub Z.to_nat Z.add Z.opp Z.pos_sub conc_ty existsb is_union orb forallb strip_opt1 andb].
  cbn [snd].
  rewrite lengths_differ2_false by (rewrite !map_length; exact Hlen).
  rewrite rows_of2 by (rewrite !map_length; exact Hlen).
  rewrite zip_map2, !map_map.
  replace (1 <? Z.max (mx + 1) (Z.max (mx + 1) 0)) with true by lia.
  cbn [negb Pos.eqb andb bind].
  rewrite mapM_map.
  rewrite (mapM_Ok_map _ (fun p : list value * list value => VList (fst p ++ snd p))).
  - reflexivity.
  - intros [a b] _. cbn. rewrite app_nil_r. reflexivity.
Qed.

(* the length of every output list is the sum of the lengths of the input lists *)
Corollary concat_axis1_lengths (xs ys : list (list value)) :
  map (fun p : list value * list value => zlen (fst p ++ snd p)) (zip xs ys) =
  map (fun p : list value * list value => zlen (fst p) + zlen (snd p)) (zip xs ys).
Proof. apply map_ext. intros [a b]. apply zlen_app. Qed.

(* ====================================================================== C09 *)
(* ak.is_none(x, axis=0): True exactly at the missing entries *)
Theorem is_none_exact_lemma t vs :
  is_union t = false ->
  spec_is_none 0 t vs = Ok (VList (map (fun v => VBool (is_none v)) vs)).
Proof.
  intros Hu. unfold spec_is_none, resolve_axis_top. cbn [Z.leb Z.compare bind Z.eqb].
  destruct t; try reflexivity. discriminate.
Qed.

(* through a union, at the outermost level: True exactly at the None entries, whatever the alternatives are *)
Lemma mapM_is_none_at_0 (vs : list value) :
  mapM (is_none_at 0) vs = Ok (map (fun v => VBool (is_none v)) vs).
Proof.
  induction vs as [|v vs IH]; [reflexivity|].
  cbn [mapM is_none_at bind map]. change (mapM (fun v0 => Ok (VBool (is_none v0))) vs) with (mapM (is_none_at 0) vs).
  rewrite IH. reflexivity.
Qed.
Theorem is_none_union_exact_lemma ts vs :
  spec_is_none 0 (TUnion ts) vs = Ok (VList (map (fun v => VBool (is_none v)) vs)).
Proof.
  unfold spec_is_none, spec_is_none_union. cbn [Z.ltb Z.compare Z.to_nat].
  rewrite mapM_is_none_at_0. reflexivity.
Qed.
(* one level down: every list is mapped element by element, a missing list stays missing *)
Theorem is_none_union_axis1_lemma ts (ls : list (option (list value))) :
  spec_is_none 1 (TUnion ts) (map (fun o => match o with Some l => VList l | None => VNone end) ls) =
  Ok (VList (map (fun o => match o with
                           | Some l => VList (map (fun v => VBool (is_none v)) l)
                           | None => VNone
                           end) ls)).
Proof.
  unfold spec_is_none, spec_is_none_union. cbn [Z.ltb Z.compare]. change (Z.to_nat 1) with 1%nat.
  assert (H : mapM (is_none_at 1) (map (fun o => match o with Some l => VList l | None => VNone end) ls) =
              Ok (map (fun o => match o with
                                | Some l => VList (map (fun v => VBool (is_none v)) l)
                                | None => VNone
                                end) ls)).
  { induction ls as [|o ls IH]; [reflexivity|].
    cbn [map mapM]. destruct o as [l|].
    - change (is_none_at 1 (VList l)) with (rmap VList (mapM (is_none_at 0) l)).
      rewrite mapM_is_none_at_0. cbn [rmap bind]. rewrite IH. reflexivity.
    - change (is_none_at 1 VNone) with (@Ok value VNone). cbn [bind]. rewrite IH. reflexivity. }
  rewrite H. reflexivity.
Qed.

(* ak.is_none(x, axis=1) on an array of lists: True exactly at the missing elements of every list *)
Theorem is_none_exact_axis1_lemma sz te (ls : list (list value)) :
  spec_is_none 1 (TList sz None te) (map VList ls) =
  Ok (VList (map (fun l => VList (map (fun v => VBool (is_none v)) l)) ls)).
Proof.
  unfold spec_is_none, resolve_axis_top, spec_ax. cbn.
  rewrite mapM_map. unfold is_none_f. rewrite mapM_pure. reflexivity.
Qed.

(* ak.mask(x, m, valid_when) with a flat boolean mask: None exactly where m differs from valid_when, the other
   entries (missing ones included) unchanged *)
Theorem mask_exact_lemma vw ta (xs : list value) (ms : list bool) :
  has_union ta = false ->
  length xs = length ms ->
  spec_mask vw ta xs (TNum DBool) (map VBool ms) =
  Ok (VList (map (fun p : value * bool => if Bool.eqb (snd p) vw then fst p else VNone) (zip xs ms))).
Proof.
  intros Hu Hlen. unfold spec_mask. rewrite Hu. cbn [orb has_union mask_leaf_ok negb mask_tyck bind].
  unfold top_rows. cbn [fold_right map].
  assert (Hz : zlen (map VBool ms) = zlen xs) by (unfold zlen; rewrite map_length, Hlen; reflexivity).
  rewrite Hz.
  replace (Z.max (zlen xs) (Z.max (zlen xs) 0)) with (zlen xs) by (pose proof (zlen_nonneg xs); lia).
  cbn [mapM stretch]. rewrite Hz, Z.eqb_refl. cbn [bind].
  rewrite rows_of2 by (rewrite map_length; exact Hlen).
  rewrite mapM_map.
  rewrite (mapM_Ok_map _ (fun p : value * value =>
             match snd p with VBool b => if Bool.eqb b vw then fst p else VNone | _ => VNone end)).
  2:{ intros [a m] Hin. cbn [fst snd mask_v].
      assert (exists b, m = VBool b) as [b ->].
      { clear -Hin. revert ms Hin. induction xs as [|x xs IH]; intros [|b ms] Hin; cbn in Hin; try contradiction.
        destruct Hin as [E|Hin]; [injection E as _ <-; eauto | eapply IH; exact Hin]. }
      reflexivity. }
  cbn [rmap]. f_equal. f_equal.
  clear. revert ms. induction xs as [|x xs IH]; intros [|b ms]; try reflexivity.
  cbn. rewrite IH. reflexivity.
Qed.

(* ak.fill_none(x, v0, axis=0) on a flat option array: exactly the None entries are replaced *)
Theorem fill_none_exact_lemma dt v0 vs :
  is_bool_dt dt = false ->
  spec_fill_none (FAxis 0) v0 (TOpt (TNum dt)) vs =
  Ok (VList (map (fun v => if is_none v then v0 else v) vs)).
Proof.
  intros Hb. unfold spec_fill_none.
  replace (mixes_bool_num [TOpt (TNum dt); TNum DInt64]) with false
    by (destruct dt; try reflexivity; discriminate).
  unfold resolve_axis_top. cbn [Z.leb Z.compare bind].
  rewrite (mapM_Ok_map _ (fun v => if is_none v then v0 else v)); [reflexivity|].
  intros v _. destruct v; reflexivity.
Qed.

(* at any depth: entries that are not None at the addressed level are kept; here for lists of options, axis=1 *)
Theorem fill_none_exact_axis1_lemma sz dt v0 (ls : list (list value)) :
  is_bool_dt dt = false ->
  spec_fill_none (FAxis 1) v0 (TList sz None (TOpt (TNum dt))) (map VList ls) =
  Ok (VList (map (fun l => VList (map (fun v => if is_none v then v0 else v) l)) ls)).
Proof.
  intros Hb. unfold spec_fill_none.
  replace (mixes_bool_num [TList sz None (TOpt (TNum dt)); TNum DInt64]) with false
    by (destruct dt; try reflexivity; discriminate).
  unfold resolve_axis_top. cbn [Z.leb Z.compare bind].
  rewrite mapM_map.
  rewrite (mapM_Ok_map _ (fun l => VList (map (fun v => if is_none v then v0 else v) l))); [reflexivity|].
  intros l _. cbn.
  rewrite (mapM_Ok_map _ (fun v => if is_none v then v0 else v)); [reflexivity|].
  intros v _. destruct v; reflexivity.
Qed.

(* ak.firsts(ak.singletons(x)) = x for an option-type array *)
Theorem firsts_singletons_lemma t' vs :
  spec_firsts_singletons (TOpt t') vs = Ok (VList vs).
Proof.
  unfold spec_firsts_singletons. cbn [singletons_v].
  rewrite mapM_pure. cbn [bind singletons_ty].
  unfold spec_firsts, resolve_axis_top, spec_ax. cbn.
  rewrite mapM_map.
  rewrite (mapM_Ok_map _ (fun v => v)); [rewrite map_id; reflexivity|].
  intros v _. destruct v; reflexivity.
Qed.

(* ====================================================================== C10 *)
Lemma mapM_iota_get {B} (F : Z -> res B) (L : list B) :
  (forall i, 0 <= i < zlen L -> F i = get L i) -> mapM F (iota (zlen L)) = Ok L.
Proof.
  intros H.
  rewrite (mapM_ext_in F (get L)) by (intros i Hi; apply H, iota_In', Hi).
  assert (E : iota (zlen L) = range 0 (zlen L)) by (unfold iota, range; rewrite Z.sub_0_r; reflexivity).
  rewrite E, gather_range by (pose proof (zlen_nonneg L); lia).
  rewrite slice_ok by (pose proof (zlen_nonneg L); lia).
  unfold drop. cbn [Z.to_nat skipn]. rewrite Z.sub_0_r, take_all by lia. reflexivity.
Qed.

Lemma get_In {A} (l : list A) i x : get l i = Ok x -> In x l.
Proof.
  unfold get. destruct (i <? 0); [discriminate|].
  destruct (nth_error l (Z.to_nat i)) eqn:E; [|discriminate].
  intros H. injection H as <-. eapply nth_error_In, E.
Qed.

Definition all_len (n : nat) (cols : list (list value)) : Prop := Forall (fun c => length c = n) cols.

Lemma transpose_n_rows_len n : forall cols, Forall (fun row => length row = length cols) (transpose_n n cols).
Proof.
  induction n as [|k IH]; intros cols; cbn [transpose_n]; constructor.
  - apply map_length.
  - specialize (IH (map (@tl value) cols)). rewrite map_length in IH. exact IH.
Qed.

(* column i of the rows of equally long columns is column i *)
Lemma transpose_n_col n : forall cols i c,
  get cols i = Ok c -> all_len n cols ->
  mapM (fun row => get row i) (transpose_n n cols) = Ok c.
Proof.
  induction n as [|k IH]; intros cols i c Hg Hall.
  - cbn. assert (length c = 0%nat) as Hc.
    { unfold all_len in Hall. rewrite Forall_forall in Hall. apply Hall. eapply get_In. exact Hg. }
    destruct c; [reflexivity | discriminate].
  - cbn [transpose_n mapM].
    assert (length c = S k) as Hc.
    { unfold all_len in Hall. rewrite Forall_forall in Hall. apply Hall. eapply get_In. exact Hg. }
    destruct c as [|x c']; [discriminate|].
    rewrite get_map, Hg. cbn [rmap hd bind].
    rewrite (IH (map (@tl value) cols) i c').
    + reflexivity.
    + rewrite get_map, Hg. reflexivity.
    + unfold all_len in *. rewrite Forall_forall in *. intros c0 Hin.
      apply in_map_iff in Hin. destruct Hin as (c1 & <- & Hin1). specialize (Hall c1 Hin1).
      destruct c1; cbn in *; lia.
Qed.

Lemma max_len_all n cols :
  cols <> [] -> all_len n cols ->
  fold_right (fun (c : list value) m => Z.max (zlen c) m) 0 cols = Z.of_nat n.
Proof.
  intros Hne Hall. induction cols as [|c cols IH]; [contradiction|].
  apply Forall_cons_iff in Hall. destruct Hall as [Hc Hrest]. cbn [fold_right]. unfold zlen at 1. rewrite Hc.
  destruct cols as [|c2 cols]; [cbn; lia|].
  rewrite IH; [lia | discriminate | exact Hrest].
Qed.

Lemma top_rows_equal n cols :
  cols <> [] -> all_len n cols -> top_rows cols = Ok (transpose_n n cols).
Proof.
  intros Hne Hall. unfold top_rows. rewrite (max_len_all n cols Hne Hall).
  rewrite (mapM_Ok_map _ (fun c => c)).
  - cbn [bind]. rewrite map_id. unfold rows_of. destruct cols as [|c cols]; [contradiction|].
    apply Forall_cons_iff in Hall. destruct Hall as [Hc _]. rewrite Hc. reflexivity.
  - intros c Hin. unfold all_len in Hall. rewrite Forall_forall in Hall. specialize (Hall c Hin).
    cbn [stretch]. unfold zlen. rewrite Hall, Z.eqb_refl. reflexivity.
Qed.

Lemma zip_fst_snd {A B} (l : list A) (m : list B) :
  length l = length m -> map fst (zip l m) = l /\ map snd (zip l m) = m.
Proof.
  revert m. induction l as [|x l IH]; intros [|y m] H; try discriminate; [split; reflexivity|].
  cbn. destruct (IH m) as [E1 E2]; [cbn in H; lia|]. rewrite E1, E2. split; reflexivity.
Qed.

Lemma get_zip_snd {A B} (l : list A) (m : list B) i :
  length l = length m ->
  (do kv <- get (zip l m) i; Ok (snd kv)) = get m i.
Proof.
  intros H. destruct (zip_fst_snd l m H) as [_ E2].
  rewrite <- E2 at 2. rewrite get_map. destruct (get (zip l m) i); reflexivity.
Qed.

(* one row of the zipped array: a tuple or a record of the corresponding elements *)
Definition mkrow (fields : option (list name)) (row : list value) : value :=
  match fields with None => VTup row | Some ks => VRec (zip ks row) end.

Lemma pick_field_mkrow fields i f row :
  match fields with None => True | Some ks => length ks = length row end ->
  pick_field i (S f) (mkrow fields row) = get row i.
Proof.
  intros H. destruct fields as [ks|]; cbn; [apply get_zip_snd; exact H | reflexivity].
Qed.

(* C10 (fragment): unzip(zip(fields)) returns the fields, when zip builds its records at the outermost level
   (depth_limit = 1); the fields may have any structure.  What is NOT proved here: zipping below the first level
   of equally structured nested lists. *)
Theorem unzip_zip_partial_lemma n (fields : option (list name)) (arrs : list arr) :
  arrs <> [] ->
  all_len n (map snd arrs) ->
  existsb is_union (map fst arrs) = false ->
  fields_ok (zlen arrs) fields = true ->
  spec_unzip_zip (Some 1) fields arrs = Ok (VTup (map (fun a : arr => VList (snd a)) arrs)).
Proof.
  intros Hne Hall Hu Hf.
  assert (Hk : match fields with None => True | Some ks => length ks = length arrs end).
  { destruct fields as [ks|]; [|exact I]. cbn in Hf. apply Z.eqb_eq in Hf. apply zlen_eq_length in Hf. exact Hf. }
  assert (Hcols : map snd arrs <> []) by (destruct arrs; [contradiction | discriminate]).
  (* the zipped rows *)
  assert (Hzip : spec_zip (Some 1) fields arrs = Ok (VList (map (mkrow fields) (transpose_n n (map snd arrs))))).
  { unfold spec_zip. cbn [Z.leb Z.compare bind]. rewrite Hf. cbn [negb].
    assert (Hm : forall (X : res value), match arrs with [] => unspecified | _ :: _ => X end = X)
      by (intros X; destruct arrs; [contradiction | reflexivity]).
    rewrite Hm. clear Hm.
    unfold bc_fuel. cbn [bct]. unfold zip_stop at 1. rewrite Hu. cbn [Z.eqb Pos.eqb bind].
    rewrite (top_rows_equal n _ Hcols Hall). cbn [bind].
    rewrite (mapM_Ok_map _ (mkrow fields)); [reflexivity|].
    intros row Hin.
    assert (Hlen : length (map fst arrs) = length row).
    { pose proof (transpose_n_rows_len n (map snd arrs)) as Hr. rewrite Forall_forall in Hr.
      rewrite (Hr row Hin). rewrite !map_length. reflexivity. }
    destruct (zip_fst_snd (map fst arrs) row Hlen) as [E1 E2].
    cbn [bc]. rewrite E1. unfold zip_stop. rewrite Hu. cbn [Z.eqb Pos.eqb bind]. rewrite E2.
    unfold mk_tuple, mkrow. destruct fields as [ks|]; [|reflexivity].
    replace (length ks) with (length row) by (rewrite Hk; rewrite map_length in Hlen; symmetry; exact Hlen).
    rewrite Nat.eqb_refl. reflexivity. }
  unfold spec_unzip_zip. rewrite Hzip. cbn [bind].
  remember (match fields with Some ks => ks | None => map digit_name (iota (zlen arrs)) end) as ks eqn:Eks.
  assert (Hks : zlen ks = zlen arrs).
  { subst ks. destruct fields as [ks0|].
    - unfold zlen. rewrite Hk. reflexivity.
    - rewrite zlen_map, zlen_iota by apply zlen_nonneg. reflexivity. }
  assert (Hm : forall X : res value, match ks with [] => unspecified | _ :: _ => X end = X).
  { intros X. destruct ks; [exfalso|reflexivity]. destruct arrs; [contradiction|].
    rewrite zlen_cons in Hks. cbn in Hks. pose proof (zlen_nonneg arrs). lia. }
  rewrite Hm. clear Hm Eks.
  set (L := map (fun a : arr => VList (snd a)) arrs).
  assert (HL : zlen L = zlen ks) by (subst L; rewrite zlen_map; symmetry; exact Hks).
  rewrite <- HL. rewrite mapM_iota_get; [reflexivity|].
  intros i Hi. unfold bc_fuel. rewrite mapM_map.
  rewrite (mapM_ext_in _ (fun row => get row i)).
  2:{ intros row Hin. apply pick_field_mkrow. destruct fields as [ks0|]; [|exact I].
      pose proof (transpose_n_rows_len n (map snd arrs)) as Hr. rewrite Forall_forall in Hr.
      rewrite (Hr row Hin), map_length. exact Hk. }
  subst L. rewrite get_map. rewrite zlen_map in Hi.
  unfold arr in *. destruct (get_ok arrs i Hi) as [a Ha]. rewrite Ha. cbn [rmap].
  rewrite (transpose_n_col n (map snd arrs) i (snd a)); [reflexivity | | exact Hall].
  rewrite get_map, Ha. reflexivity.
Qed.

(* ---------------------------------------------------------------- with_field on an array of records *)
Lemma name_eqb_eq (a b : name) : name_eqb a b = true <-> a = b.
Proof.
  unfold name_eqb. revert b. induction a as [|x a IH]; intros [|y b]; cbn; split; intros H; try discriminate; auto.
  - apply andb_true_iff in H. destruct H as [H1 H2]. apply Z.eqb_eq in H1. apply IH in H2. subst. reflexivity.
  - injection H as -> ->. rewrite Z.eqb_refl. apply IH. reflexivity.
Qed.
Lemma name_eqb_neq (a b : name) : name_eqb a b = false <-> a <> b.
Proof.
  split; intros H.
  - intros E. apply name_eqb_eq in E. congruence.
  - destruct (name_eqb a b) eqn:E; [apply name_eqb_eq in E; contradiction | reflexivity].
Qed.

(* the first field called [k] *)
Fixpoint lookup (k : name) (fs : list (name * value)) : option value :=
  match fs with
  | [] => None
  | (k', v) :: r => if name_eqb k k' then Some v else lookup k r
  end.
Fixpoint remove_key (k : name) (fs : list (name * value)) : list (name * value) :=
  match fs with
  | [] => []
  | (k', v) :: r => if name_eqb k k' then r else (k', v) :: remove_key k r
  end.

Lemma index_of_lookup k : forall fs s v,
  lookup k fs = Some v ->
  exists i, 0 <= i /\ index_of k (map fst fs) s = Ok (s + i) /\ exists k', get fs i = Ok (k', v).
Proof.
  induction fs as [|[k' x] r IH]; intros s v H; [discriminate|].
  cbn [lookup] in H. cbn [map fst index_of].
  destruct (name_eqb k k') eqn:E.
  - injection H as <-. exists 0. split; [lia|]. split; [f_equal; lia|]. exists k'. apply get_cons_0.
  - destruct (IH (s + 1) v H) as (i & Hi & Hidx & k'' & Hg).
    exists (i + 1). split; [lia|]. split; [rewrite Hidx; f_equal; lia|].
    exists k''. rewrite get_cons_S by lia. exact Hg.
Qed.

(* projecting a field that is present, by name *)
Lemma proj_lookup k ts fs v :
  lookup k fs = Some v ->
  proj_v k (TRec (Some (map fst fs)) ts) (VRec fs) = Ok v.
Proof.
  intros H. destruct (index_of_lookup k fs 0 v H) as (i & Hi & Hidx & k' & Hg).
  cbn [proj_v]. unfold field_pos. rewrite Hidx. cbn [bind]. rewrite Z.add_0_l, Hg. reflexivity.
Qed.

Lemma lookup_app k fs gs :
  lookup k (fs ++ gs) = match lookup k fs with Some v => Some v | None => lookup k gs end.
Proof.
  induction fs as [|[k' x] r IH]; [reflexivity|]. cbn. destruct (name_eqb k k'); [reflexivity | exact IH].
Qed.

Lemma lookup_remove_same k fs : NoDup (map fst fs) -> lookup k (remove_key k fs) = None.
Proof.
  induction fs as [|[k' x] r IH]; intros Hnd; [reflexivity|].
  cbn [remove_key]. cbn [map fst] in Hnd. apply NoDup_cons_iff in Hnd. destruct Hnd as [Hnin Hnd].
  destruct (name_eqb k k') eqn:E.
  - apply name_eqb_eq in E. subst k'. clear -Hnin. induction r as [|[k2 y] r IHr]; [reflexivity|].
    cbn. cbn in Hnin. destruct (name_eqb k k2) eqn:E2.
    + apply name_eqb_eq in E2. subst. exfalso. apply Hnin. left. reflexivity.
    + apply IHr. intros Hin. apply Hnin. right. exact Hin.
  - cbn [lookup]. rewrite E. apply IH, Hnd.
Qed.

Lemma lookup_remove_other k k' fs : k' <> k -> lookup k' (remove_key k fs) = lookup k' fs.
Proof.
  intros Hne. induction fs as [|[k2 x] r IH]; [reflexivity|].
  cbn [remove_key lookup]. destruct (name_eqb k k2) eqn:E.
  - apply name_eqb_eq in E. subst k2. apply name_eqb_neq in Hne. rewrite Hne. reflexivity.
  - cbn [lookup]. rewrite IH. reflexivity.
Qed.

Lemma Proofs_Field_index_range k : forall ks s i, index_of k ks s = Ok i -> s <= i < s + zlen ks.
Proof.
  induction ks as [|x r IH]; intros s i H; cbn [index_of] in H; [discriminate|].
  rewrite zlen_cons. pose proof (zlen_nonneg r). destruct (name_eqb k x).
  - injection H as <-. lia.
  - apply IH in H. lia.
Qed.

(* remove_at on the keys and on the values = remove_key on the pairs *)
Lemma remove_at_zip k : forall (fs : list (name * value)) s,
  match index_of k (map fst fs) s with
  | Ok i => remove_at (i - s) (map fst fs) = map fst (remove_key k fs) /\
            remove_at (i - s) (map snd fs) = map snd (remove_key k fs)
  | Err _ => remove_key k fs = fs
  end.
Proof.
  induction fs as [|[k' x] r IH]; intros s; [reflexivity|].
  cbn [map fst snd index_of remove_key]. destruct (name_eqb k k') eqn:E.
  - rewrite Z.sub_diag. cbn. split; reflexivity.
  - specialize (IH (s + 1)). destruct (index_of k (map fst r) (s + 1)) as [i|e] eqn:Ei.
    + pose proof (Proofs_Field_index_range k (map fst r) (s + 1) i Ei) as Hr.
      destruct IH as [I1 I2]. cbn [remove_at].
      replace (i - s =? 0) with false by lia.
      replace (i - s - 1) with (i - (s + 1)) by lia.
      cbn [map fst snd]. rewrite I1, I2. split; reflexivity.
    + rewrite IH. reflexivity.
Qed.

Lemma zip_fst_snd_app (l : list (name * value)) k w :
  zip (map fst l ++ [k]) (map snd l ++ [w]) = l ++ [(k, w)].
Proof. induction l as [|[a b] l IH]; [reflexivity|]. cbn. rewrite IH. reflexivity. Qed.

(* what with_field does to ONE record: the field [k] is dropped where it was and appended with the new value *)
Lemma set_field_named k fs w :
  set_field (Some k) (Some (map fst fs)) (zlen fs) (VRec fs) w = Ok (VRec (remove_key k fs ++ [(k, w)])).
Proof.
  unfold set_field. rewrite Z.eqb_refl. cbn [bind]. unfold find_key.
  pose proof (remove_at_zip k fs 0) as H.
  destruct (index_of k (map fst fs) 0) as [i|e] eqn:Ei.
  - rewrite Z.sub_0_r in H. destruct H as [H1 H2]. rewrite H1, H2, zip_fst_snd_app. reflexivity.
  - rewrite H. rewrite zip_fst_snd_app. reflexivity.
Qed.

Lemma set_field_ty_keys k fs ts tw :
  exists ts', set_field_ty (Some k) (Some (map fst fs)) ts tw =
              TRec (Some (map fst (remove_key k fs ++ [(k, VNone)]))) ts'.
Proof.
  unfold set_field_ty, find_key.
  pose proof (remove_at_zip k fs 0) as H.
  destruct (index_of k (map fst fs) 0) as [i|e] eqn:Ei.
  - rewrite Z.sub_0_r in H. destruct H as [H1 _]. rewrite H1.
    eexists. rewrite map_app. reflexivity.
  - rewrite H. eexists. rewrite map_app. reflexivity.
Qed.

(* records of one record type: every element is a record with the keys [ks] *)
Definition records_of (ks : list name) (rows : list (list (name * value))) : Prop :=
  Forall (fun fs => map fst fs = ks) rows.

(* ak.with_field(base, what, k) on an array of records, element by element *)
Lemma with_field1_records k ks ts tw (rows : list (list (name * value))) (ws : list value) :
  existsb has_union ts = false -> has_union tw = false ->
  records_of ks rows -> zlen ts = zlen ks -> length rows = length ws ->
  with_field1 (Some k) (TRec (Some ks) ts) (map VRec rows) (WArr tw ws) =
  Ok (set_field_ty (Some k) (Some ks) ts tw,
      map (fun p : list (name * value) * value => VRec (remove_key k (fst p) ++ [(k, snd p)])) (zip rows ws)).
Proof.
  intros Hu Hw Hrec Hts Hlen.
  unfold with_field1. cbn [has_union has_record_node negb]. rewrite Hu, Hw. cbn [wf_tyck bind].
  rewrite (top_rows_equal (length rows) [map VRec rows; ws]).
  2: discriminate.
  2:{ repeat constructor; [apply map_length | symmetry; exact Hlen]. }
  cbn [bind]. change (transpose_n (length rows) [map VRec rows; ws]) with (transpose_n (length rows) [map VRec rows; ws]).
  replace (length rows) with (length (map VRec rows)) by apply map_length.
  rewrite transpose2 by (rewrite map_length; exact Hlen).
  rewrite mapM_map.
  assert (Hz : zip (map VRec rows) ws = map (fun p : list (name * value) * value => (VRec (fst p), snd p)) (zip rows ws)).
  { clear. revert ws. induction rows as [|r rows IH]; intros [|w ws]; try reflexivity. cbn. rewrite IH. reflexivity. }
  rewrite Hz, mapM_map.
  rewrite (mapM_Ok_map _ (fun p : list (name * value) * value => VRec (remove_key k (fst p) ++ [(k, snd p)]))).
  - reflexivity.
  - intros [fs w] Hin. cbn [fst snd wf_v].
    assert (Hfs : map fst fs = ks).
    { unfold records_of in Hrec. rewrite Forall_forall in Hrec. apply Hrec.
      clear -Hin. revert ws Hin. induction rows as [|r rows IH]; intros [|w0 ws] Hin; cbn in Hin; try contradiction.
      destruct Hin as [E|Hin]; [injection E as <- _; left; reflexivity | right; eapply IH, Hin]. }
    rewrite <- Hfs.
    replace (zlen ts) with (zlen fs) by (rewrite Hts, <- Hfs, zlen_map; reflexivity).
    apply set_field_named.
Qed.

Fixpoint remove_name (k : name) (ks : list name) : list name :=
  match ks with
  | [] => []
  | k' :: r => if name_eqb k k' then r else k' :: remove_name k r
  end.
Lemma map_fst_remove_key k fs : map fst (remove_key k fs) = remove_name k (map fst fs).
Proof.
  induction fs as [|[k' x] r IH]; [reflexivity|]. cbn. destruct (name_eqb k k'); [reflexivity|].
  cbn. rewrite IH. reflexivity.
Qed.
Lemma zlen_remove_at {A} (l : list A) : forall i, 0 <= i < zlen l -> zlen (remove_at i l) = zlen l - 1.
Proof.
  induction l as [|x l IH]; intros i Hi; [cbn in Hi; lia|].
  cbn [remove_at]. destruct (i =? 0) eqn:E; [rewrite zlen_cons; lia|].
  rewrite !zlen_cons in *. rewrite IH by lia. lia.
Qed.
Lemma remove_at_names k : forall ks s,
  match index_of k ks s with
  | Ok i => remove_at (i - s) ks = remove_name k ks
  | Err _ => remove_name k ks = ks
  end.
Proof.
  induction ks as [|k' r IH]; intros s; [reflexivity|].
  cbn [index_of remove_name]. destruct (name_eqb k k') eqn:E.
  - rewrite Z.sub_diag. reflexivity.
  - specialize (IH (s + 1)). destruct (index_of k r (s + 1)) as [i|e] eqn:Ei.
    + pose proof (Proofs_Field_index_range k r (s + 1) i Ei) as Hr.
      cbn [remove_at]. replace (i - s =? 0) with false by lia.
      replace (i - s - 1) with (i - (s + 1)) by lia. rewrite IH. reflexivity.
    + rewrite IH. reflexivity.
Qed.

(* the record type after with_field: the other keys in order, the new key last; one type per key *)
Lemma set_field_ty_shape k ks ts tw :
  zlen ts = zlen ks ->
  exists ts', set_field_ty (Some k) (Some ks) ts tw = TRec (Some (remove_name k ks ++ [k])) (ts' ++ [tw])
              /\ zlen ts' = zlen (remove_name k ks).
Proof.
  intros Hlen. unfold set_field_ty, find_key.
  pose proof (remove_at_names k ks 0) as H.
  destruct (index_of k ks 0) as [i|e] eqn:Ei.
  - rewrite Z.sub_0_r in H. pose proof (Proofs_Field_index_range k ks 0 i Ei) as Hr.
    exists (remove_at i ts). rewrite H. split; [reflexivity|].
    rewrite <- H. rewrite !zlen_remove_at by lia. lia.
  - exists ts. rewrite H. split; [reflexivity | exact Hlen].
Qed.

Lemma index_of_last k : forall ks s, ~ In k ks -> index_of k (ks ++ [k]) s = Ok (s + zlen ks).
Proof.
  induction ks as [|k' r IH]; intros s Hnin.
  - cbn. rewrite (proj2 (name_eqb_eq k k) eq_refl). f_equal. lia.
  - cbn [app index_of]. replace (name_eqb k k') with false
      by (symmetry; apply name_eqb_neq; intros ->; apply Hnin; left; reflexivity).
    rewrite IH by (intros Hin; apply Hnin; right; exact Hin). f_equal. rewrite zlen_cons. lia.
Qed.

Lemma remove_name_notin k ks : NoDup ks -> ~ In k (remove_name k ks).
Proof.
  induction ks as [|k' r IH]; intros Hnd; [intros []|].
  apply NoDup_cons_iff in Hnd. destruct Hnd as [Hnin Hnd]. cbn.
  destruct (name_eqb k k') eqn:E.
  - apply name_eqb_eq in E. subst. exact Hnin.
  - intros [->|Hin]; [apply name_eqb_neq in E; contradiction | apply (IH Hnd Hin)].
Qed.

(* C10: after with_field(base, what, k), reading k gives what *)
Theorem with_field_get_same_lemma k ks ts tw (rows : list (list (name * value))) (ws : list value) :
  existsb has_union ts = false -> has_union tw = false ->
  records_of ks rows -> NoDup ks -> zlen ts = zlen ks -> length rows = length ws ->
  spec_get_with_field [k] (TRec (Some ks) ts) (map VRec rows) (WArr tw ws) = Ok (VList ws).
Proof.
  intros Hu Hw Hrec Hnd Hts Hlen.
  unfold spec_get_with_field. cbn [with_field_path].
  rewrite (with_field1_records k ks ts tw rows ws Hu Hw Hrec Hts Hlen). cbn [bind fst snd proj_path].
  destruct (set_field_ty_shape k ks ts tw Hts) as (ts' & Ety & Hts').
  rewrite Ety.
  assert (Hpos : field_pos (Some (remove_name k ks ++ [k])) (zlen (ts' ++ [tw])) k = Ok (zlen ts')).
  { unfold field_pos. rewrite index_of_last by (apply remove_name_notin, Hnd). rewrite Hts'. reflexivity. }
  cbn [proj_ty]. rewrite Hpos. cbn [bind].
  rewrite get_app2 by lia. rewrite Z.sub_diag, get_cons_0. cbn [bind].
  rewrite mapM_map.
  rewrite (mapM_Ok_map _ (fun p : list (name * value) * value => snd p)).
  - cbn [rmap bind]. destruct (zip_fst_snd rows ws Hlen) as [_ E].
    change (map (fun p : list (name * value) * value => snd p) (zip rows ws)) with (map snd (zip rows ws)).
    rewrite E. reflexivity.
  - intros [fs w] Hin. cbn [fst snd].
    assert (Hfs : map fst fs = ks).
    { unfold records_of in Hrec. rewrite Forall_forall in Hrec. apply Hrec.
      clear -Hin. revert ws Hin. induction rows as [|r rows IH]; intros [|w0 ws] Hin; cbn in Hin; try contradiction.
      destruct Hin as [E|Hin]; [injection E as <- _; left; reflexivity | right; eapply IH, Hin]. }
    assert (Ek : remove_name k ks ++ [k] = map fst (remove_key k fs ++ [(k, w)])).
    { rewrite map_app, map_fst_remove_key, Hfs. reflexivity. }
    rewrite Ek. apply proj_lookup.
    rewrite lookup_app, lookup_remove_same by (rewrite Hfs; exact Hnd).
    cbn. rewrite (proj2 (name_eqb_eq k k) eq_refl). reflexivity.
Qed.

(* ... every other field reads as before ... *)
Theorem with_field_get_other_lemma k k' ks ts tw (rows : list (list (name * value))) (ws : list value) out t' :
  existsb has_union ts = false -> has_union tw = false ->
  records_of ks rows -> zlen ts = zlen ks -> length rows = length ws ->
  k' <> k -> In k' ks ->
  with_field_path [k] (TRec (Some ks) ts) (map VRec rows) (WArr tw ws) = Ok (t', out) ->
  mapM (proj_v k' t') out = mapM (proj_v k' (TRec (Some ks) ts)) (map VRec rows).
Proof.
  intros Hu Hw Hrec Hts Hlen Hne Hin H.
  cbn [with_field_path] in H.
  rewrite (with_field1_records k ks ts tw rows ws Hu Hw Hrec Hts Hlen) in H. injection H as <- <-.
  destruct (set_field_ty_shape k ks ts tw Hts) as (ts' & Ety & Hts'). rewrite Ety.
  rewrite !mapM_map.
  assert (Hrows : map fst (zip rows ws) = rows) by (apply zip_fst_snd, Hlen).
  rewrite <- Hrows at 2. rewrite mapM_map.
  apply mapM_ext_in. intros [fs w] Hinp. cbn [fst snd].
  assert (Hfs : map fst fs = ks).
  { unfold records_of in Hrec. rewrite Forall_forall in Hrec. apply Hrec.
    clear -Hinp. revert ws Hinp. induction rows as [|r rows IH]; intros [|w0 ws] Hinp; cbn in Hinp; try contradiction.
    destruct Hinp as [E|Hinp]; [injection E as <- _; left; reflexivity | right; eapply IH, Hinp]. }
  (* the field k' exists in fs *)
  assert (exists v, lookup k' fs = Some v) as [v Hv].
  { rewrite <- Hfs in Hin. clear -Hin. induction fs as [|[k2 x] r IH]; [destruct Hin|].
    cbn. destruct (name_eqb k' k2) eqn:E; [eauto|]. apply IH. destruct Hin as [E2|Hin]; [|exact Hin].
    cbn in E2. subst k2. rewrite (proj2 (name_eqb_eq k' k') eq_refl) in E. discriminate. }
  assert (Ek : remove_name k ks ++ [k] = map fst (remove_key k fs ++ [(k, w)])).
  { rewrite map_app, map_fst_remove_key, Hfs. reflexivity. }
  rewrite Ek, <- Hfs.
  rewrite (proj_lookup k' _ (remove_key k fs ++ [(k, w)]) v).
  - symmetry. apply proj_lookup. exact Hv.
  - rewrite lookup_app, lookup_remove_other by exact Hne. rewrite Hv. reflexivity.
Qed.

(* ... and the number of records and their keys (the others in order, then the new one) are as stated *)
Theorem with_field_preserves_shape_lemma k ks ts tw (rows : list (list (name * value))) (ws : list value) out t' :
  existsb has_union ts = false -> has_union tw = false ->
  records_of ks rows -> zlen ts = zlen ks -> length rows = length ws ->
  with_field_path [k] (TRec (Some ks) ts) (map VRec rows) (WArr tw ws) = Ok (t', out) ->
  length out = length rows /\
  Forall (fun v => exists fs, v = VRec fs /\ map fst fs = remove_name k ks ++ [k]) out.
Proof.
  intros Hu Hw Hrec Hts Hlen H.
  cbn [with_field_path] in H.
  rewrite (with_field1_records k ks ts tw rows ws Hu Hw Hrec Hts Hlen) in H. injection H as _ <-.
  split.
  - rewrite map_length, zip_length, <- Hlen. apply Nat.min_id.
  - apply Forall_forall. intros v Hin. apply in_map_iff in Hin. destruct Hin as ([fs w] & <- & Hinp).
    cbn [fst snd]. eexists. split; [reflexivity|].
    assert (Hfs : map fst fs = ks).
    { unfold records_of in Hrec. rewrite Forall_forall in Hrec. apply Hrec.
      clear -Hinp. revert ws Hinp. induction rows as [|r rows IH]; intros [|w0 ws] Hinp; cbn in Hinp; try contradiction.
      destruct Hinp as [E|Hinp]; [injection E as <- _; left; reflexivity | right; eapply IH, Hinp]. }
    rewrite map_app, map_fst_remove_key, Hfs. reflexivity.
Qed.

(* ---------------------------------------------------------------- with_field below one list level *)
Lemma zip_map_VRec (rows : list (list (name * value))) (ws : list value) :
  zip (map VRec rows) ws = map (fun p : list (name * value) * value => (VRec (fst p), snd p)) (zip rows ws).
Proof. revert ws. induction rows as [|r rows IH]; intros [|w ws]; try reflexivity. cbn. rewrite IH. reflexivity. Qed.

Lemma In_zip_fst {A B} (l : list A) (m : list B) a b : In (a, b) (zip l m) -> In a l.
Proof.
  revert m. induction l as [|x l IH]; intros [|y m] H; cbn in H; try contradiction.
  destruct H as [E|H]; [injection E as <- _; left; reflexivity | right; eapply IH, H].
Qed.

(* one (variable-length) list of records and the corresponding list of new values, of equal lengths: the list
   keeps its length and every record gets its value *)
Lemma wf_v_list k ks ts tw (fss : list (list (name * value))) (ws : list value) :
  records_of ks fss -> zlen ts = zlen ks -> length fss = length ws ->
  wf_v (Some k) false (TList None None (TRec (Some ks) ts)) (VList (map VRec fss)) (TList None None tw) (VList ws) =
  Ok (VList (map (fun p : list (name * value) * value => VRec (remove_key k (fst p) ++ [(k, snd p)])) (zip fss ws))).
Proof.
  intros Hrec Hts Hlen.
  assert (Hz : zlen ws = zlen (map VRec fss)) by (unfold zlen; rewrite map_length, Hlen; reflexivity).
  cbn [wf_v is_opt andb strip_opt1]. unfold classify. cbn [fst snd mapM elems bind first_var stretch].
  rewrite Z.eqb_refl. cbn [bind]. rewrite Hz, Z.eqb_refl. cbn [bind].
  rewrite zip_map_VRec, mapM_map.
  rewrite (mapM_Ok_map _ (fun p : list (name * value) * value => VRec (remove_key k (fst p) ++ [(k, snd p)]))); [reflexivity|].
  intros [fs w] Hin. cbn [fst snd wf_v].
  assert (Hfs : map fst fs = ks).
  { unfold records_of in Hrec. rewrite Forall_forall in Hrec. apply Hrec. eapply In_zip_fst, Hin. }
  rewrite <- Hfs. replace (zlen ts) with (zlen fs) by (rewrite Hts, <- Hfs, zlen_map; reflexivity).
  apply set_field_named.
Qed.

(* C10: with_field on an array of LISTS of records keeps the enclosing list structure: same number of lists, every
   list keeps its length, and the k-th field of record (i, j) is what[i][j] *)
Theorem with_field_preserves_lists_lemma k ks ts tw
        (rows : list (list (list (name * value)))) (wss : list (list value)) :
  existsb has_union ts = false -> has_union tw = false ->
  Forall (records_of ks) rows -> zlen ts = zlen ks ->
  Forall2 (fun fss ws => length fss = length ws) rows wss ->
  spec_with_field [k] (TList None None (TRec (Some ks) ts)) (map (fun fss => VList (map VRec fss)) rows)
                  (WArr (TList None None tw) (map VList wss)) =
  Ok (VList (map (fun p : list (list (name * value)) * list value =>
                    VList (map (fun q : list (name * value) * value => VRec (remove_key k (fst q) ++ [(k, snd q)]))
                               (zip (fst p) (snd p))))
                 (zip rows wss))).
Proof.
  intros Hu Hw Hrec Hts Hlens.
  assert (Hlen : length rows = length wss) by (clear -Hlens; induction Hlens; cbn; congruence).
  unfold spec_with_field. cbn [with_field_path]. unfold with_field1.
  cbn [has_union has_record_node negb]. rewrite Hu, Hw. cbn [wf_tyck strip_opt1 reg_sizes_ok flat_map app length Nat.eqb negb bind].
  rewrite (top_rows_equal (length rows)).
  2: discriminate.
  2:{ repeat constructor; rewrite !map_length; [reflexivity | symmetry; exact Hlen]. }
  cbn [bind].
  replace (length rows) with (length (map (fun fss => VList (map VRec fss)) rows)) by apply map_length.
  rewrite transpose2 by (rewrite !map_length; exact Hlen).
  rewrite mapM_map.
  assert (Hz : zip (map (fun fss => VList (map VRec fss)) rows) (map VList wss) =
               map (fun p : list (list (name * value)) * list value => (VList (map VRec (fst p)), VList (snd p))) (zip rows wss)).
  { clear. revert wss. induction rows as [|r rows IH]; intros [|w wss]; try reflexivity. cbn. rewrite IH. reflexivity. }
  rewrite Hz, mapM_map.
  rewrite (mapM_Ok_map _ (fun p : list (list (name * value)) * list value =>
                             VList (map (fun q : list (name * value) * value => VRec (remove_key k (fst q) ++ [(k, snd q)]))
                                        (zip (fst p) (snd p))))).
  - reflexivity.
  - intros [fss ws] Hin. cbn [fst snd]. apply wf_v_list; [| exact Hts |].
    + rewrite Forall_forall in Hrec. apply Hrec. eapply In_zip_fst, Hin.
    + clear -Hlens Hin. induction Hlens as [|r w rows wss Hrw Hrest IH]; cbn in Hin; [contradiction|].
      destruct Hin as [E|Hin]; [injection E as <- <-; exact Hrw | apply IH, Hin].
Qed.

(* ---------------------------------------------------------------- unzip(zip) one list level down *)
Definition leaf_list_ty (t : ty) : Prop := exists dt, t = TList None None (TNum dt).

Lemma leaf_list_tys_props ts :
  Forall leaf_list_ty ts ->
  existsb is_union ts = false /\ existsb is_opt ts = false /\ existsb outer_is_string ts = false /\
  forallb (fun t => (pl_depth t =? 0) || ((pl_depth t =? 1) && list_of_strings t)) ts = (match ts with [] => true | _ => false end) /\
  filter is_listty ts = ts /\
  existsb is_union (map elem_ty ts) = false /\
  forallb (fun t => (pl_depth t =? 0) || ((pl_depth t =? 1) && list_of_strings t)) (map elem_ty ts) = true /\
  Forall (fun t => exists s, t = TList None None s) ts.
Proof.
  induction 1 as [|t ts [dt ->] _ IH]; [repeat split; constructor|].
  destruct IH as (I1 & I2 & I3 & I4 & I5 & I6 & I7 & I8).
  cbn. rewrite I1, I2, I3, I5, I6, I7. repeat split; try reflexivity.
  constructor; [eexists; reflexivity | exact I8].
Qed.

Lemma reg_sizes_ok_var ts : Forall (fun t => exists s, t = TList None None s) ts -> reg_sizes_ok ts = Ok tt.
Proof.
  intros H. unfold reg_sizes_ok.
  assert (E : flat_map (fun t => match t with TList (Some s) _ _ => [s] | _ => [] end) ts = []).
  { induction H as [|t ts [s ->] _ IH]; [reflexivity|]. cbn. exact IH. }
  rewrite E. destruct ts; reflexivity.
Qed.

(* a row of equally long lists, one per field *)
Definition aligned_row (row : list value) : Prop :=
  exists m ls, row = map VList ls /\ all_len m ls.

Lemma classify_var ts ls :
  Forall (fun t => exists s, t = TList None None s) ts -> length ts = length ls ->
  mapM classify (zip ts (map VList ls)) = Ok (map BVar ls).
Proof.
  intros H. revert ls. induction H as [|t ts [s ->] _ IH]; intros [|l ls] Hlen; try discriminate; [reflexivity|].
  cbn [map zip mapM]. unfold classify at 1. cbn [fst snd elems bind]. rewrite IH by (cbn in Hlen; lia). reflexivity.
Qed.

Lemma stretch_var m ls allreg :
  all_len m ls -> mapM (stretch allreg (Z.of_nat m)) (map BVar ls) = Ok ls.
Proof.
  intros H. induction H as [|l ls Hl _ IH]; [reflexivity|].
  cbn [map mapM stretch]. unfold zlen at 1. rewrite Hl, Z.eqb_refl. cbn [bind]. rewrite IH. reflexivity.
Qed.

Lemma first_var_map_BVar m l ls : all_len m (l :: ls) -> first_var (map BVar (l :: ls)) = Some (Z.of_nat m).
Proof. intros H. apply Forall_cons_iff in H. destruct H as [Hl _]. cbn. unfold zlen. rewrite Hl. reflexivity. Qed.

Lemma bc_S stop fin f depth ps :
  bc stop fin (S f) depth ps =
  (let ts := map fst ps in
   do st <- stop depth ts;
   if st then fin ps else
   if existsb is_union ts then unspecified else
   if existsb is_opt ts then
     if existsb (fun p => is_opt (fst p) && is_none (snd p)) ps then Ok VNone
     else bc stop fin f depth (map (fun p => (strip_opt1 (fst p), snd p)) ps)
   else if existsb is_listty ts then
     if existsb outer_is_string ts then unspecified else
     do bs <- mapM classify ps;
     let allreg := match first_var bs with None => true | Some _ => false end in
     let target := match first_var bs with Some n => n | None => max_reg bs end in
     do cols <- mapM (stretch allreg target) bs;
     let ets := map elem_ty ts in
     rmap VList (mapM (fun row => bc stop fin f (depth + 1) (zip ets row)) (rows_of cols))
   else if existsb is_rec ts then unspecified
   else Err EValue).
Proof. reflexivity. Qed.

(* zip of one aligned row of leaf lists: the list of the records of corresponding elements *)
Lemma bc_zip_row fields ts f row m ls :
  Forall leaf_list_ty ts -> ts <> [] -> length ts = length ls ->
  row = map VList ls -> all_len m ls ->
  match fields with None => True | Some ks => length ks = length ts end ->
  bc (zip_stop None) (fun ps => mk_tuple fields (map snd ps)) (S (S f)) 1 (zip ts row) =
  Ok (VList (map (mkrow fields) (transpose_n m ls))).
Proof.
  intros Hts Hne Hlen -> Hall Hk.
  destruct (leaf_list_tys_props ts Hts) as (I1 & I2 & I3 & I4 & I5 & I6 & I7 & I8).
  assert (Hlen' : length ts = length (map VList ls)) by (rewrite map_length; exact Hlen).
  destruct (zip_fst_snd ts (map VList ls) Hlen') as [E1 E2].
  rewrite bc_S. cbv zeta. rewrite E1. unfold zip_stop at 1. rewrite I1, I4. cbn [bind].
  destruct ts as [|t0 ts0] eqn:Ets; [contradiction|]. rewrite <- Ets in *.
  rewrite I2.
  assert (Hl : existsb is_listty ts = true).
  { pose proof I8 as J. rewrite Ets in J |- *. apply Forall_cons_iff in J. destruct J as [[s ->] _]. reflexivity. }
  rewrite Hl.
  rewrite I3. rewrite (classify_var ts ls I8 Hlen). cbn [bind].
  destruct ls as [|l0 ls0] eqn:Els; [rewrite Ets in Hlen; discriminate|]. rewrite <- Els in *.
  assert (Hfv : first_var (map BVar ls) = Some (Z.of_nat m)) by (rewrite Els; apply first_var_map_BVar; rewrite <- Els; exact Hall).
  rewrite Hfv. rewrite (stretch_var m ls _ Hall). cbn [bind].
  unfold rows_of. rewrite Els. rewrite <- Els.
  assert (Hl0 : length l0 = m) by (rewrite Els in Hall; apply Forall_cons_iff in Hall; apply Hall).
  rewrite Hl0.
  rewrite (mapM_Ok_map _ (mkrow fields)); [reflexivity|].
  intros irow Hin.
  assert (Hilen : length (map elem_ty ts) = length irow).
  { pose proof (transpose_n_rows_len m ls) as Hr. rewrite Forall_forall in Hr.
    rewrite (Hr irow Hin). rewrite map_length. exact Hlen. }
  destruct (zip_fst_snd (map elem_ty ts) irow Hilen) as [F1 F2].
  rewrite bc_S. cbv zeta. rewrite F1. unfold zip_stop. rewrite I6, I7. cbn [bind]. rewrite F2.
  unfold mk_tuple, mkrow. destruct fields as [ks|]; [|reflexivity].
  replace (length ks) with (length irow) by (rewrite Hk; rewrite map_length in Hilen; symmetry; exact Hilen).
  rewrite Nat.eqb_refl. reflexivity.
Qed.

Lemma bct_S stop f depth ts :
  bct stop (S f) depth ts =
  (do st <- stop depth ts;
   if st then Ok tt else
   if existsb is_union ts then unspecified else
   if existsb is_opt ts then bct stop f depth (map strip_opt1 ts)
   else if existsb is_listty ts then
     if existsb outer_is_string ts then unspecified else
     do _ <- reg_sizes_ok (filter is_listty ts);
     bct stop f (depth + 1) (map elem_ty ts)
   else if existsb is_rec ts then unspecified
   else Err EValue).
Proof. reflexivity. Qed.

Lemma bc_fuel_leaf_lists ts : ts <> [] -> Forall leaf_list_ty ts -> exists f, bc_fuel ts = S (S f).
Proof.
  intros Hne H. destruct H as [|t ts [dt ->] _]; [contradiction|]. unfold bc_fuel. cbn. eexists. reflexivity.
Qed.

(* field i of a zipped aligned row is the i-th list of the row *)
Lemma pick_zipped_row fields f m ls i :
  all_len m ls -> 0 <= i < zlen ls ->
  match fields with None => True | Some ks => length ks = length ls end ->
  pick_field i (S (S f)) (VList (map (mkrow fields) (transpose_n m ls))) = get (map VList ls) i.
Proof.
  intros Hall Hi Hk. cbn [pick_field]. rewrite mapM_map.
  rewrite (mapM_ext_in _ (fun irow => get irow i)).
  2:{ intros irow Hin. apply pick_field_mkrow. destruct fields as [ks|]; [|exact I].
      pose proof (transpose_n_rows_len m ls) as Hr. rewrite Forall_forall in Hr. rewrite (Hr irow Hin). exact Hk. }
  destruct (get_ok ls i Hi) as [l Hl].
  rewrite (transpose_n_col m ls i l Hl Hall). rewrite get_map, Hl. reflexivity.
Qed.

(* C10: unzip(zip(fields)) = fields for fields that are lists of leaves with equal list lengths (zip goes one
   level down and builds a record per element) *)
Theorem unzip_zip_lists_lemma n (fields : option (list name)) (arrs : list arr) :
  arrs <> [] ->
  all_len n (map snd arrs) ->
  Forall leaf_list_ty (map fst arrs) ->
  fields_ok (zlen arrs) fields = true ->
  Forall aligned_row (transpose_n n (map snd arrs)) ->
  spec_unzip_zip None fields arrs = Ok (VTup (map (fun a : arr => VList (snd a)) arrs)).
Proof.
  intros Hne Hall Hty Hf Hal.
  assert (Hk : match fields with None => True | Some ks => length ks = length arrs end).
  { destruct fields as [ks|]; [|exact I]. cbn in Hf. apply Z.eqb_eq in Hf. apply zlen_eq_length in Hf. exact Hf. }
  assert (Hcols : map snd arrs <> []) by (destruct arrs; [contradiction | discriminate]).
  assert (Htsne : map fst arrs <> []) by (destruct arrs; [contradiction | discriminate]).
  destruct (bc_fuel_leaf_lists (map fst arrs) Htsne Hty) as [f Hfuel].
  destruct (leaf_list_tys_props (map fst arrs) Hty) as (I1 & I2 & I3 & I4 & I5 & I6 & I7 & I8).
  set (zrow := fun row : list value =>
                 match row with _ => VList (map (mkrow fields)
                   (transpose_n (match row with VList l :: _ => length l | _ => 0%nat end)
                                (map (fun v => match v with VList l => l | _ => [] end) row))) end).
  assert (Hzip : spec_zip None fields arrs = Ok (VList (map zrow (transpose_n n (map snd arrs))))).
  { unfold spec_zip. cbn [bind]. rewrite Hf. cbn [negb].
    assert (Hm : forall (X : res value), match arrs with [] => unspecified | _ :: _ => X end = X)
      by (intros X; destruct arrs; [contradiction | reflexivity]).
    rewrite Hm. clear Hm. rewrite Hfuel.
    (* the type-level walk *)
    rewrite bct_S. unfold zip_stop at 1. rewrite I1, I4.
    replace (match map fst arrs with [] => true | _ :: _ => false end) with false by (destruct (map fst arrs); [contradiction | reflexivity]).
    cbn [bind]. rewrite I2.
    assert (Hl : existsb is_listty (map fst arrs) = true).
    { pose proof I8 as J. destruct (map fst arrs); [contradiction|]. apply Forall_cons_iff in J. destruct J as [[s ->] _]. reflexivity. }
    rewrite Hl, I3, I5, (reg_sizes_ok_var _ I8). cbn [bind].
    rewrite bct_S. unfold zip_stop at 1. rewrite I6, I7. cbn [bind].
    rewrite (top_rows_equal n _ Hcols Hall). cbn [bind].
    rewrite (mapM_Ok_map _ zrow); [reflexivity|].
    intros row Hin.
    rewrite Forall_forall in Hal. destruct (Hal row Hin) as (m & ls & -> & Hlsall).
    assert (Hlen : length (map fst arrs) = length ls).
    { pose proof (transpose_n_rows_len n (map snd arrs)) as Hr. rewrite Forall_forall in Hr.
      specialize (Hr _ Hin). rewrite !map_length in Hr. rewrite map_length. symmetry. exact Hr. }
    rewrite (bc_zip_row fields (map fst arrs) f (map VList ls) m ls Hty Htsne Hlen eq_refl Hlsall).
    2:{ destruct fields as [ks|]; [rewrite map_length; exact Hk | exact I]. }
    subst zrow. cbv beta.
    assert (E1 : map (fun v => match v with VList l => l | _ => [] end) (map VList ls) = ls)
      by (rewrite map_map; apply map_id).
    rewrite E1.
    destruct ls as [|l0 ls0]; [destruct (map fst arrs); [contradiction | discriminate]|].
    cbn [map]. apply Forall_cons_iff in Hlsall. destruct Hlsall as [Hl0 _]. rewrite Hl0. reflexivity. }
  unfold spec_unzip_zip. rewrite Hzip. cbn [bind].
  remember (match fields with Some ks => ks | None => map digit_name (iota (zlen arrs)) end) as ks eqn:Eks.
  assert (Hks : zlen ks = zlen arrs).
  { subst ks. destruct fields as [ks0|].
    - unfold zlen. rewrite Hk. reflexivity.
    - rewrite zlen_map, zlen_iota by apply zlen_nonneg. reflexivity. }
  assert (Hm : forall X : res value, match ks with [] => unspecified | _ :: _ => X end = X).
  { intros X. destruct ks; [exfalso|reflexivity]. destruct arrs; [contradiction|].
    rewrite zlen_cons in Hks. cbn in Hks. pose proof (zlen_nonneg arrs). lia. }
  rewrite Hm. clear Hm Eks.
  set (L := map (fun a : arr => VList (snd a)) arrs).
  assert (HL : zlen L = zlen ks) by (subst L; rewrite zlen_map; symmetry; exact Hks).
  rewrite <- HL. rewrite mapM_iota_get; [reflexivity|].
  intros i Hi. rewrite Hfuel. rewrite mapM_map.
  rewrite (mapM_ext_in _ (fun row => get row i)).
  2:{ intros row Hin. rewrite Forall_forall in Hal. destruct (Hal row Hin) as (m & ls & -> & Hlsall).
      assert (Hlen : length ls = length arrs).
      { pose proof (transpose_n_rows_len n (map snd arrs)) as Hr. rewrite Forall_forall in Hr.
        specialize (Hr _ Hin). rewrite !map_length in Hr. exact Hr. }
      subst zrow. cbv beta.
      assert (E1 : map (fun v => match v with VList l => l | _ => [] end) (map VList ls) = ls)
        by (rewrite map_map; apply map_id).
      rewrite E1.
      assert (Hm0 : match map VList ls with VList l :: _ => length l | _ => 0%nat end = m \/ ls = []).
      { destruct ls as [|l0 ls0]; [right; reflexivity|]. left. cbn. apply Forall_cons_iff in Hlsall. apply Hlsall. }
      destruct Hm0 as [-> | ->].
      - apply pick_zipped_row; [exact Hlsall | | ].
        + subst L. rewrite zlen_map in Hi. unfold zlen in *. rewrite Hlen. exact Hi.
        + destruct fields as [ks0|]; [rewrite Hlen; exact Hk | exact I].
      - exfalso. cbn in Hlen. destruct arrs; [contradiction | discriminate]. }
  subst L. rewrite get_map. rewrite zlen_map in Hi.
  unfold arr in *. destruct (get_ok arrs i Hi) as [a Ha]. rewrite Ha. cbn [rmap].
  rewrite (transpose_n_col n (map snd arrs) i (snd a)); [reflexivity | | exact Hall].
  rewrite get_map, Ha. reflexivity.
Qed.

(* ---------------------------------------------------------------- mask one list level down *)
Lemma mask_v_list vw ta' (xs : list value) (ms : list bool) :
  length xs = length ms ->
  mask_v vw (TList None None (TNum DBool)) (VList (map VBool ms)) (TList None None ta') (VList xs) =
  Ok (VList (map (fun p : value * bool => if Bool.eqb (snd p) vw then fst p else VNone) (zip xs ms))).
Proof.
  intros Hlen.
  assert (Hz : zlen xs = zlen (map VBool ms)) by (unfold zlen; rewrite map_length, Hlen; reflexivity).
  cbn [mask_v is_opt andb strip_opt1]. unfold classify. cbn [fst snd mapM elems bind first_var stretch].
  rewrite Z.eqb_refl. cbn [bind]. rewrite Hz, Z.eqb_refl. cbn [bind].
  assert (E : zip (map VBool ms) xs = map (fun p : value * bool => (VBool (snd p), fst p)) (zip xs ms)).
  { clear. revert ms. induction xs as [|x xs IH]; intros [|b ms]; try reflexivity. cbn. rewrite IH. reflexivity. }
  rewrite E, mapM_map.
  rewrite (mapM_Ok_map _ (fun p : value * bool => if Bool.eqb (snd p) vw then fst p else VNone)); [reflexivity|].
  intros [x b] _. reflexivity.
Qed.

(* C09: a mask with the structure of the array (lists of booleans, same lengths): None exactly where the mask
   differs from valid_when, all other elements and all list lengths unchanged *)
Theorem mask_exact_lists_lemma vw ta' (xss : list (list value)) (mss : list (list bool)) :
  has_union ta' = false ->
  Forall2 (fun xs ms => length xs = length ms) xss mss ->
  spec_mask vw (TList None None ta') (map VList xss) (TList None None (TNum DBool))
            (map (fun ms => VList (map VBool ms)) mss) =
  Ok (VList (map (fun p : list value * list bool =>
                    VList (map (fun q : value * bool => if Bool.eqb (snd q) vw then fst q else VNone) (zip (fst p) (snd p))))
                 (zip xss mss))).
Proof.
  intros Hu Hlens.
  assert (Hlen : length xss = length mss) by (clear -Hlens; induction Hlens; cbn; congruence).
  unfold spec_mask. cbn [has_union orb]. rewrite Hu. cbn [orb mask_leaf_ok negb].
  cbn [mask_tyck strip_opt1 reg_sizes_ok flat_map app length Nat.eqb negb bind].
  rewrite (top_rows_equal (length xss)).
  2: discriminate.
  2:{ repeat constructor; rewrite !map_length; [reflexivity | symmetry; exact Hlen]. }
  cbn [bind].
  replace (length xss) with (length (map VList xss)) by apply map_length.
  rewrite transpose2 by (rewrite !map_length; exact Hlen).
  rewrite mapM_map.
  assert (Hz : zip (map VList xss) (map (fun ms => VList (map VBool ms)) mss) =
               map (fun p : list value * list bool => (VList (fst p), VList (map VBool (snd p)))) (zip xss mss)).
  { clear. revert mss. induction xss as [|x xss IH]; intros [|m mss]; try reflexivity. cbn. rewrite IH. reflexivity. }
  rewrite Hz, mapM_map.
  rewrite (mapM_Ok_map _ (fun p : list value * list bool =>
             VList (map (fun q : value * bool => if Bool.eqb (snd q) vw then fst q else VNone) (zip (fst p) (snd p))))).
  - reflexivity.
  - intros [xs ms] Hin. cbn [fst snd]. apply mask_v_list.
    clear -Hlens Hin. induction Hlens as [|x m xss mss Hxm Hrest IH]; cbn in Hin; [contradiction|].
    destruct Hin as [E|Hin]; [injection E as <- <-; exact Hxm | apply IH, Hin].
Qed.
