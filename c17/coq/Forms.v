(** Forms: one constructor per C++ Form class; [form_of] (Content::form), the depth / field queries
    on forms and on layouts, Form -> JSON ([tojson_part]) and JSON -> Form ([Form::fromjson]).
    MODEL ONLY: no proofs in this file.  Anchors: src/libawkward/Content.cpp (fromjson_part),
    the *Form classes in src/libawkward/array/*.cpp, Index.cpp (str2form), util.cpp (dtype tables). *)
From Coq Require Import ZArith List Bool String.
From AwkV Require Import Base Layout Valid Types.
From AwkTypes Require Export Json.
Import ListNotations.
Open Scope Z_scope.

(* ------------------------------------------------------------------ string constants *)
Notation bs := bytes_of_string (only parsing).
Definition k_class := Eval vm_compute in bs "class".
Definition k_has_identifier := Eval vm_compute in bs "has_identifier".
Definition k_has_identities := Eval vm_compute in bs "has_identities".
Definition k_parameters := Eval vm_compute in bs "parameters".
Definition k_form_key := Eval vm_compute in bs "form_key".
Definition k_primitive := Eval vm_compute in bs "primitive".
Definition k_format := Eval vm_compute in bs "format".
Definition k_itemsize := Eval vm_compute in bs "itemsize".
Definition k_inner_shape := Eval vm_compute in bs "inner_shape".
Definition k_contents := Eval vm_compute in bs "contents".
Definition k_content := Eval vm_compute in bs "content".
Definition k_offsets := Eval vm_compute in bs "offsets".
Definition k_starts := Eval vm_compute in bs "starts".
Definition k_stops := Eval vm_compute in bs "stops".
Definition k_size := Eval vm_compute in bs "size".
Definition k_index := Eval vm_compute in bs "index".
Definition k_mask := Eval vm_compute in bs "mask".
Definition k_valid_when := Eval vm_compute in bs "valid_when".
Definition k_lsb_order := Eval vm_compute in bs "lsb_order".
Definition k_tags := Eval vm_compute in bs "tags".
Definition k_form := Eval vm_compute in bs "form".
Definition k_has_length := Eval vm_compute in bs "has_length".
Definition k_array := Eval vm_compute in bs "__array__".
Definition k_record := Eval vm_compute in bs "__record__".
Definition k_categorical := Eval vm_compute in bs "__categorical__".

Definition c_NumpyArray := Eval vm_compute in bs "NumpyArray".
Definition c_RecordArray := Eval vm_compute in bs "RecordArray".
Definition c_ListOffsetArray := Eval vm_compute in bs "ListOffsetArray".
Definition c_ListOffsetArray64 := Eval vm_compute in bs "ListOffsetArray64".
Definition c_ListOffsetArrayU32 := Eval vm_compute in bs "ListOffsetArrayU32".
Definition c_ListOffsetArray32 := Eval vm_compute in bs "ListOffsetArray32".
Definition c_ListArray := Eval vm_compute in bs "ListArray".
Definition c_ListArray64 := Eval vm_compute in bs "ListArray64".
Definition c_ListArrayU32 := Eval vm_compute in bs "ListArrayU32".
Definition c_ListArray32 := Eval vm_compute in bs "ListArray32".
Definition c_RegularArray := Eval vm_compute in bs "RegularArray".
Definition c_IndexedOptionArray := Eval vm_compute in bs "IndexedOptionArray".
Definition c_IndexedOptionArray64 := Eval vm_compute in bs "IndexedOptionArray64".
Definition c_IndexedOptionArray32 := Eval vm_compute in bs "IndexedOptionArray32".
Definition c_IndexedArray := Eval vm_compute in bs "IndexedArray".
Definition c_IndexedArray64 := Eval vm_compute in bs "IndexedArray64".
Definition c_IndexedArrayU32 := Eval vm_compute in bs "IndexedArrayU32".
Definition c_IndexedArray32 := Eval vm_compute in bs "IndexedArray32".
Definition c_ByteMaskedArray := Eval vm_compute in bs "ByteMaskedArray".
Definition c_BitMaskedArray := Eval vm_compute in bs "BitMaskedArray".
Definition c_UnmaskedArray := Eval vm_compute in bs "UnmaskedArray".
Definition c_UnionArray := Eval vm_compute in bs "UnionArray".
Definition c_UnionArray8_64 := Eval vm_compute in bs "UnionArray8_64".
Definition c_UnionArray8_U32 := Eval vm_compute in bs "UnionArray8_U32".
Definition c_UnionArray8_32 := Eval vm_compute in bs "UnionArray8_32".
Definition c_EmptyArray := Eval vm_compute in bs "EmptyArray".
Definition c_VirtualArray := Eval vm_compute in bs "VirtualArray".
Definition c_UnrecognizedListOffsetArray := Eval vm_compute in bs "UnrecognizedListOffsetArray".
Definition c_UnrecognizedListArray := Eval vm_compute in bs "UnrecognizedListArray".
Definition c_UnrecognizedIndexedArray := Eval vm_compute in bs "UnrecognizedIndexedArray".
Definition c_UnrecognizedIndexedOptionArray := Eval vm_compute in bs "UnrecognizedIndexedOptionArray".
Definition c_UnrecognizedUnionArray := Eval vm_compute in bs "UnrecognizedUnionArray".

Definition s_string := Eval vm_compute in bs "string".
Definition s_bytestring := Eval vm_compute in bs "bytestring".
Definition s_char := Eval vm_compute in bs "char".
Definition s_byte := Eval vm_compute in bs "byte".
Definition s_categorical := Eval vm_compute in bs "categorical".

(* ------------------------------------------------------------------ Index::Form *)
Inductive iform := Fi8 | Fu8 | Fi32 | Fu32 | Fi64.
Definition iform_eqb (a b : iform) : bool :=
  match a, b with
  | Fi8, Fi8 | Fu8, Fu8 | Fi32, Fi32 | Fu32, Fu32 | Fi64, Fi64 => true
  | _, _ => false
  end.
Definition form2str (f : iform) : bytes :=
  match f with
  | Fi8 => [105; 56] | Fu8 => [117; 56] | Fi32 => [105; 51; 50] | Fu32 => [117; 51; 50] | Fi64 => [105; 54; 52]
  end.
(* Index::str2form: strncmp(str, "i8", str.length()) == 0, ... : any prefix is accepted, tried in this order *)
Definition str2form (s : bytes) : res iform :=
  if is_prefix s (form2str Fi8) then Ok Fi8
  else if is_prefix s (form2str Fu8) then Ok Fu8
  else if is_prefix s (form2str Fi32) then Ok Fi32
  else if is_prefix s (form2str Fu32) then Ok Fu32
  else if is_prefix s (form2str Fi64) then Ok Fi64
  else Err EValue.
Definition iform_of_width (w : width) : iform :=
  match w with I32 => Fi32 | U32 => Fu32 | I64 => Fi64 end.

(* ------------------------------------------------------------------ util::dtype *)
Inductive fdtype :=
| FD (d : dtype)
| FFloat16 | FFloat128 | FComplex64 | FComplex128 | FComplex256 | FDatetime64 | FTimedelta64
| FNotPrimitive.

Definition dtype_eqb (a b : dtype) : bool :=
  match a, b with
  | DBool, DBool | DInt8, DInt8 | DInt16, DInt16 | DInt32, DInt32 | DInt64, DInt64
  | DUInt8, DUInt8 | DUInt16, DUInt16 | DUInt32, DUInt32 | DUInt64, DUInt64
  | DFloat32, DFloat32 | DFloat64, DFloat64 => true
  | _, _ => false
  end.
Definition fdtype_eqb (a b : fdtype) : bool :=
  match a, b with
  | FD x, FD y => dtype_eqb x y
  | FFloat16, FFloat16 | FFloat128, FFloat128 | FComplex64, FComplex64 | FComplex128, FComplex128
  | FComplex256, FComplex256 | FDatetime64, FDatetime64 | FTimedelta64, FTimedelta64
  | FNotPrimitive, FNotPrimitive => true
  | _, _ => false
  end.

Definition n_bool := Eval vm_compute in bs "bool".
Definition n_int8 := Eval vm_compute in bs "int8".
Definition n_int16 := Eval vm_compute in bs "int16".
Definition n_int32 := Eval vm_compute in bs "int32".
Definition n_int64 := Eval vm_compute in bs "int64".
Definition n_uint8 := Eval vm_compute in bs "uint8".
Definition n_uint16 := Eval vm_compute in bs "uint16".
Definition n_uint32 := Eval vm_compute in bs "uint32".
Definition n_uint64 := Eval vm_compute in bs "uint64".
Definition n_float16 := Eval vm_compute in bs "float16".
Definition n_float32 := Eval vm_compute in bs "float32".
Definition n_float64 := Eval vm_compute in bs "float64".
Definition n_float128 := Eval vm_compute in bs "float128".
Definition n_complex64 := Eval vm_compute in bs "complex64".
Definition n_complex128 := Eval vm_compute in bs "complex128".
Definition n_complex256 := Eval vm_compute in bs "complex256".
Definition n_datetime64 := Eval vm_compute in bs "datetime64".
Definition n_timedelta64 := Eval vm_compute in bs "timedelta64".
Definition n_unknown := Eval vm_compute in bs "unknown".

Definition dtype_to_name (d : fdtype) : bytes :=
  match d with
  | FD DBool => n_bool | FD DInt8 => n_int8 | FD DInt16 => n_int16 | FD DInt32 => n_int32 | FD DInt64 => n_int64
  | FD DUInt8 => n_uint8 | FD DUInt16 => n_uint16 | FD DUInt32 => n_uint32 | FD DUInt64 => n_uint64
  | FD DFloat32 => n_float32 | FD DFloat64 => n_float64
  | FFloat16 => n_float16 | FFloat128 => n_float128
  | FComplex64 => n_complex64 | FComplex128 => n_complex128 | FComplex256 => n_complex256
  | FDatetime64 => n_datetime64 | FTimedelta64 => n_timedelta64
  | FNotPrimitive => n_unknown
  end.

Definition name_to_dtype (s : bytes) : fdtype :=
  if bytes_eqb s n_bool then FD DBool
  else if bytes_eqb s n_int8 then FD DInt8
  else if bytes_eqb s n_int16 then FD DInt16
  else if bytes_eqb s n_int32 then FD DInt32
  else if bytes_eqb s n_int64 then FD DInt64
  else if bytes_eqb s n_uint8 then FD DUInt8
  else if bytes_eqb s n_uint16 then FD DUInt16
  else if bytes_eqb s n_uint32 then FD DUInt32
  else if bytes_eqb s n_uint64 then FD DUInt64
  else if bytes_eqb s n_float16 then FFloat16
  else if bytes_eqb s n_float32 then FD DFloat32
  else if bytes_eqb s n_float64 then FD DFloat64
  else if bytes_eqb s n_float128 then FFloat128
  else if bytes_eqb s n_complex64 then FComplex64
  else if bytes_eqb s n_complex128 then FComplex128
  else if bytes_eqb s n_complex256 then FComplex256
  else if is_prefix n_datetime64 s then FDatetime64       (* name.rfind("datetime64", 0) == 0 *)
  else if is_prefix n_timedelta64 s then FTimedelta64
  else FNotPrimitive.

(* dtype_to_format(dt) with the default (empty) format argument; 64-bit non-Windows branch *)
Definition dtype_to_format (d : fdtype) : bytes :=
  match d with
  | FD DBool => [63] | FD DInt8 => [98] | FD DInt16 => [104] | FD DInt32 => [105] | FD DInt64 => [108]
  | FD DUInt8 => [66] | FD DUInt16 => [72] | FD DUInt32 => [73] | FD DUInt64 => [76]
  | FFloat16 => [101] | FD DFloat32 => [102] | FD DFloat64 => [100] | FFloat128 => [103]
  | FComplex64 => [90; 102] | FComplex128 => [90; 100] | FComplex256 => [90; 103]
  | FDatetime64 => [77] | FTimedelta64 => [109]
  | FNotPrimitive => []
  end.

Definition dtype_to_itemsize (d : fdtype) : Z :=
  match d with
  | FD DBool | FD DInt8 | FD DUInt8 => 1
  | FD DInt16 | FD DUInt16 | FFloat16 => 2
  | FD DInt32 | FD DUInt32 | FD DFloat32 => 4
  | FD DInt64 | FD DUInt64 | FD DFloat64 | FComplex64 | FDatetime64 | FTimedelta64 => 8
  | FFloat128 | FComplex128 => 16
  | FComplex256 => 32
  | FNotPrimitive => 0
  end.

Definition signed_of_size (n : Z) : fdtype :=
  if n =? 1 then FD DInt8 else if n =? 2 then FD DInt16 else if n =? 4 then FD DInt32
  else if n =? 8 then FD DInt64 else FNotPrimitive.
Definition unsigned_of_size (n : Z) : fdtype :=
  if n =? 1 then FD DUInt8 else if n =? 2 then FD DUInt16 else if n =? 4 then FD DUInt32
  else if n =? 8 then FD DUInt64 else FNotPrimitive.

(* util::format_to_dtype on a little-endian machine *)
Definition format_to_dtype (format : bytes) (itemsize : Z) : fdtype :=
  let body (fmt : bytes) : fdtype :=
    match fmt with
    | [63] => FD DBool
    | [98] | [104] | [105] | [108] | [113] => signed_of_size itemsize
    | [99] | [66] | [72] | [73] | [76] | [81] => unsigned_of_size itemsize
    | [101] => FFloat16 | [102] => FD DFloat32 | [100] => FD DFloat64 | [103] => FFloat128
    | [90; 102] => FComplex64 | [90; 100] => FComplex128 | [90; 103] => FComplex256
    | [77] => FDatetime64 | [109] => FTimedelta64
    | _ => FNotPrimitive
    end in
  match format with
  | e :: ((_ :: _) as rest) =>
      if (e =? 60) || (e =? 61) then body rest           (* "<" or "=" *)
      else if e =? 62 then FNotPrimitive                  (* ">" on a little-endian machine *)
      else body format
  | _ => body format
  end.

(* ------------------------------------------------------------------ forms *)
Definition params := list (bytes * json).

Record fmeta := mkmeta { m_hid : bool; m_params : params; m_key : option bytes }.
Definition meta0 : fmeta := mkmeta false [] None.

Inductive form :=
| FNumpy (m : fmeta) (inner : list Z) (itemsize : Z) (format : bytes) (dt : fdtype)
| FEmpty (m : fmeta)
| FListOffset (m : fmeta) (offsets : iform) (c : form)
| FList (m : fmeta) (starts stops : iform) (c : form)
| FRegular (m : fmeta) (c : form) (size : Z)
| FIndexed (m : fmeta) (index : iform) (c : form)
| FIndexedOption (m : fmeta) (index : iform) (c : form)
| FByteMasked (m : fmeta) (mask : iform) (c : form) (valid_when : bool)
| FBitMasked (m : fmeta) (mask : iform) (c : form) (valid_when lsb : bool)
| FUnmasked (m : fmeta) (c : form)
| FUnion (m : fmeta) (tags index : iform) (cs : list form)
| FRecord (m : fmeta) (keys : option (list bytes)) (cs : list form)
| FVirtual (m : fmeta) (f : option form) (has_length : bool).

Definition form_meta (f : form) : fmeta :=
  match f with
  | FNumpy m _ _ _ _ | FEmpty m | FListOffset m _ _ | FList m _ _ _ | FRegular m _ _ | FIndexed m _ _
  | FIndexedOption m _ _ | FByteMasked m _ _ _ | FBitMasked m _ _ _ _ | FUnmasked m _ | FUnion m _ _ _
  | FRecord m _ _ | FVirtual m _ _ => m
  end.

(* ------------------------------------------------------------------ Content::form *)
Definition akind_name (k : akind) : bytes :=
  match k with
  | AString => s_string | ABytestring => s_bytestring | AChar => s_char | AByte => s_byte
  | ACategorical => s_categorical
  end.

(* parameters of a node carrying __array__ = a and __record__ = r ("__array__" < "__record__") *)
Definition params_of (a : option akind) (r : option name) : params :=
  (match a with Some k => [(k_array, JStr (akind_name k))] | None => [] end) ++
  (match r with Some n => [(k_record, JStr n)] | None => [] end).

Definition meta_of (a : option akind) (r : option name) : fmeta := mkmeta false (params_of a r) None.

Definition por {A} (outer inner : option A) : option A :=
  match outer with Some _ => outer | None => inner end.

(* [a], [r]: parameters set by enclosing Par wrappers (the driver applies the outermost last, so it wins) *)
Fixpoint form_of_p (a : option akind) (r : option name) (c : content) {struct c} : form :=
  match c with
  | Numpy dt shape _ =>
      FNumpy (meta_of a r) (tl shape) (dtype_to_itemsize (FD dt)) (dtype_to_format (FD dt)) (FD dt)
  | Empty => FEmpty (meta_of a r)
  | ListOffset w _ c' => FListOffset (meta_of a r) (iform_of_width w) (form_of_p None None c')
  | ListA w _ _ c' => FList (meta_of a r) (iform_of_width w) (iform_of_width w) (form_of_p None None c')
  | Regular c' size _ => FRegular (meta_of a r) (form_of_p None None c') size
  | Indexed w _ c' => FIndexed (meta_of a r) (iform_of_width w) (form_of_p None None c')
  | IndexedOption w _ c' =>
      FIndexedOption (meta_of a r) (match w with I32 => Fi32 | _ => Fi64 end) (form_of_p None None c')
  | ByteMasked _ vw c' => FByteMasked (meta_of a r) Fi8 (form_of_p None None c') vw
  | BitMasked _ vw lsb _ c' => FBitMasked (meta_of a r) Fu8 (form_of_p None None c') vw lsb
  | Unmasked c' => FUnmasked (meta_of a r) (form_of_p None None c')
  | Union w _ _ cs => FUnion (meta_of a r) Fi8 (iform_of_width w) (map (form_of_p None None) cs)
  | Record cs ks _ => FRecord (meta_of a r) ks (map (form_of_p None None) cs)
  | Par a' r' c' => form_of_p (por a a') (por r r') c'
  end.
Definition form_of (c : content) : form := form_of_p None None c.

(* ------------------------------------------------------------------ depth queries on forms *)
Definition kMaxInt64 : Z := 9223372036854775807.

(* parameter_equals(key, "\"s\"") for a string constant s *)
Definition param_is_str (ps : params) (key s : bytes) : bool :=
  match pfind key ps with Some (JStr t) => bytes_eqb t s | _ => false end.
Definition is_string_params (ps : params) : bool :=
  param_is_str ps k_array s_string || param_is_str ps k_array s_bytestring.

Fixpoint mapM_id {A} (l : list (res A)) : res (list A) :=
  match l with
  | [] => Ok []
  | x :: xs => do y <- x; do ys <- mapM_id xs; Ok (y :: ys)
  end.

(* UnionForm::purelist_depth / purelist_isregular return at the first content that settles the answer *)
Fixpoint depth_scan (d0 : Z) (l : list (res Z)) : res Z :=
  match l with
  | [] => Ok d0
  | r :: rest => do d <- r; if d0 =? d then depth_scan d0 rest else Ok (-1)
  end.
Fixpoint all_regular (l : list (res bool)) : res bool :=
  match l with
  | [] => Ok true
  | r :: rest => do b <- r; if b : bool then all_regular rest else Ok false
  end.

Fixpoint f_purelist_depth (f : form) : res Z :=
  match f with
  | FNumpy _ inner _ _ _ => Ok (zlen inner + 1)
  | FEmpty _ => Ok 1
  | FListOffset m _ c | FList m _ _ c | FRegular m c _ =>
      if is_string_params (m_params m) then Ok 1 else do d <- f_purelist_depth c; Ok (d + 1)
  | FIndexed _ _ c | FIndexedOption _ _ c | FByteMasked _ _ c _ | FBitMasked _ _ c _ _ | FUnmasked _ c =>
      f_purelist_depth c
  | FUnion _ _ _ cs =>
      match map f_purelist_depth cs with
      | [] => Ok (-1)
      | r0 :: rest => do d0 <- r0; depth_scan d0 rest
      end
  | FRecord _ _ _ => Ok 1
  | FVirtual _ None _ => Err EValue
  | FVirtual _ (Some g) _ => f_purelist_depth g
  end.

(* the loop shared by RecordForm / UnionForm::minmax_depth *)
Definition minmax_fold (l : list (Z * Z)) : Z * Z :=
  match l with
  | [] => (0, 0)
  | _ => fold_left (fun acc mm => ((if fst mm <? fst acc then fst mm else fst acc),
                                    (if snd acc <? snd mm then snd mm else snd acc))) l (kMaxInt64, 0)
  end.

Fixpoint f_minmax_depth (f : form) : res (Z * Z) :=
  match f with
  | FNumpy _ inner _ _ _ => Ok (zlen inner + 1, zlen inner + 1)
  | FEmpty _ => Ok (1, 1)
  | FListOffset m _ c | FList m _ _ c | FRegular m c _ =>
      if is_string_params (m_params m) then Ok (1, 1)
      else do mm <- f_minmax_depth c; Ok (fst mm + 1, snd mm + 1)
  | FIndexed _ _ c | FIndexedOption _ _ c | FByteMasked _ _ c _ | FBitMasked _ _ c _ _ | FUnmasked _ c =>
      f_minmax_depth c
  | FUnion _ _ _ cs | FRecord _ _ cs => do l <- mapM_id (map f_minmax_depth cs); Ok (minmax_fold l)
  | FVirtual _ None _ => Err EValue
  | FVirtual _ (Some g) _ => f_minmax_depth g
  end.

(* the loop shared by RecordForm / UnionForm::branch_depth: (anybranch, mindepth), mindepth = -1 initially *)
Definition branch_fold (l : list (bool * Z)) : bool * Z :=
  fold_left (fun acc bd =>
               let mind := if snd acc =? -1 then snd bd else snd acc in
               let anyb := fst acc || fst bd || negb (mind =? snd bd) in
               (anyb, if snd bd <? mind then snd bd else mind)) l (false, -1).

Fixpoint f_branch_depth (f : form) : res (bool * Z) :=
  match f with
  | FNumpy _ inner _ _ _ => Ok (false, zlen inner + 1)
  | FEmpty _ => Ok (false, 1)
  | FListOffset m _ c | FList m _ _ c | FRegular m c _ =>
      if is_string_params (m_params m) then Ok (false, 1)
      else do bd <- f_branch_depth c; Ok (fst bd, snd bd + 1)
  | FIndexed _ _ c | FIndexedOption _ _ c | FByteMasked _ _ c _ | FBitMasked _ _ c _ _ | FUnmasked _ c =>
      f_branch_depth c
  | FUnion _ _ _ cs => do l <- mapM_id (map f_branch_depth cs); Ok (branch_fold l)
  | FRecord _ _ cs =>
      match cs with
      | [] => Ok (false, 1)
      | _ => do l <- mapM_id (map f_branch_depth cs); Ok (branch_fold l)
      end
  | FVirtual _ None _ => Err EValue
  | FVirtual _ (Some g) _ => f_branch_depth g
  end.

Fixpoint f_purelist_isregular (f : form) : res bool :=
  match f with
  | FNumpy _ _ _ _ _ | FEmpty _ | FRecord _ _ _ => Ok true
  | FListOffset _ _ _ | FList _ _ _ _ => Ok false
  | FRegular _ c _ | FIndexed _ _ c | FIndexedOption _ _ c | FByteMasked _ _ c _ | FBitMasked _ _ c _ _
  | FUnmasked _ c => f_purelist_isregular c
  | FUnion _ _ _ cs => all_regular (map f_purelist_isregular cs)
  | FVirtual _ None _ => Err EValue
  | FVirtual _ (Some g) _ => f_purelist_isregular g
  end.

(* util::keys: the record lookup, or "0", "1", ... for tuples *)
Definition tuple_keys (n : nat) : list bytes := map dec_of_Z (iota_nat 0 n).
(* UnionForm::keys: keys of the first content that occur in every other content, in the first's order *)
Definition keys_intersect (l : list (list bytes)) : list bytes :=
  match l with
  | [] => []
  | k0 :: rest => fold_left (fun out tmp => filter (fun k => existsb (bytes_eqb k) tmp) out) rest k0
  end.

Fixpoint f_keys (f : form) : res (list bytes) :=
  match f with
  | FNumpy _ _ _ _ _ | FEmpty _ => Ok []
  | FListOffset _ _ c | FList _ _ _ c | FRegular _ c _ | FIndexed _ _ c | FIndexedOption _ _ c
  | FByteMasked _ _ c _ | FBitMasked _ _ c _ _ | FUnmasked _ c => f_keys c
  | FUnion _ _ _ cs => do l <- mapM_id (map f_keys cs); Ok (keys_intersect l)
  | FRecord _ (Some ks) _ => Ok ks
  | FRecord _ None cs => Ok (tuple_keys (length cs))
  | FVirtual _ None _ => Err EValue
  | FVirtual _ (Some g) _ => f_keys g
  end.

Fixpoint f_numfields (f : form) : res Z :=
  match f with
  | FNumpy _ _ _ _ _ | FEmpty _ => Ok (-1)
  | FListOffset _ _ c | FList _ _ _ c | FRegular _ c _ | FIndexed _ _ c | FIndexedOption _ _ c
  | FByteMasked _ _ c _ | FBitMasked _ _ c _ _ | FUnmasked _ c => f_numfields c
  | FUnion _ _ _ cs => do l <- mapM_id (map f_keys cs); Ok (zlen (keys_intersect l))
  | FRecord _ _ cs => Ok (zlen cs)
  | FVirtual _ None _ => Err EValue
  | FVirtual _ (Some g) _ => f_numfields g
  end.

(* ------------------------------------------------------------------ the same queries on layouts
   (the overrides in the Content subclasses; [a] = __array__ set by enclosing Par wrappers) *)
Definition is_string_kind (a : option akind) : bool :=
  match a with Some AString | Some ABytestring => true | _ => false end.

Fixpoint c_purelist_depth (a : option akind) (c : content) {struct c} : Z :=
  match c with
  | Numpy _ shape _ => zlen shape
  | Empty => 1
  | ListOffset _ _ c' | ListA _ _ _ c' | Regular c' _ _ =>
      if is_string_kind a then 1 else c_purelist_depth None c' + 1
  | Indexed _ _ c' | IndexedOption _ _ c' | ByteMasked _ _ c' | BitMasked _ _ _ _ c' | Unmasked c' =>
      c_purelist_depth None c'
  | Union _ _ _ cs =>
      match map (c_purelist_depth None) cs with
      | [] => -1
      | d0 :: rest => if forallb (Z.eqb d0) rest then d0 else -1
      end
  | Record _ _ _ => 1
  | Par a' _ c' => c_purelist_depth (por a a') c'
  end.

Fixpoint c_minmax_depth (a : option akind) (c : content) {struct c} : Z * Z :=
  match c with
  | Numpy _ shape _ => (zlen shape, zlen shape)
  | Empty => (1, 1)
  | ListOffset _ _ c' | ListA _ _ _ c' | Regular c' _ _ =>
      if is_string_kind a then (1, 1) else let mm := c_minmax_depth None c' in (fst mm + 1, snd mm + 1)
  | Indexed _ _ c' | IndexedOption _ _ c' | ByteMasked _ _ c' | BitMasked _ _ _ _ c' | Unmasked c' =>
      c_minmax_depth None c'
  | Union _ _ _ cs | Record cs _ _ => minmax_fold (map (c_minmax_depth None) cs)
  | Par a' _ c' => c_minmax_depth (por a a') c'
  end.

Fixpoint c_branch_depth (a : option akind) (c : content) {struct c} : bool * Z :=
  match c with
  | Numpy _ shape _ => (false, zlen shape)
  | Empty => (false, 1)
  | ListOffset _ _ c' | ListA _ _ _ c' | Regular c' _ _ =>
      if is_string_kind a then (false, 1) else let bd := c_branch_depth None c' in (fst bd, snd bd + 1)
  | Indexed _ _ c' | IndexedOption _ _ c' | ByteMasked _ _ c' | BitMasked _ _ _ _ c' | Unmasked c' =>
      c_branch_depth None c'
  | Union _ _ _ cs => branch_fold (map (c_branch_depth None) cs)
  | Record cs _ _ =>
      match cs with
      | [] => (false, 1)
      | _ => branch_fold (map (c_branch_depth None) cs)
      end
  | Par a' _ c' => c_branch_depth (por a a') c'
  end.

(* Content::purelist_isregular is not overridden: it is answered by the form; this is the direct reading *)
Fixpoint c_purelist_isregular (c : content) : bool :=
  match c with
  | Numpy _ _ _ | Empty | Record _ _ _ => true
  | ListOffset _ _ _ | ListA _ _ _ _ => false
  | Regular c' _ _ | Indexed _ _ c' | IndexedOption _ _ c' | ByteMasked _ _ c' | BitMasked _ _ _ _ c'
  | Unmasked c' | Par _ _ c' => c_purelist_isregular c'
  | Union _ _ _ cs => forallb c_purelist_isregular cs
  end.

Fixpoint c_keys (c : content) : list bytes :=
  match c with
  | Numpy _ _ _ | Empty => []
  | ListOffset _ _ c' | ListA _ _ _ c' | Regular c' _ _ | Indexed _ _ c' | IndexedOption _ _ c'
  | ByteMasked _ _ c' | BitMasked _ _ _ _ c' | Unmasked c' | Par _ _ c' => c_keys c'
  | Union _ _ _ cs => keys_intersect (map c_keys cs)
  | Record _ (Some ks) _ => ks
  | Record cs None _ => tuple_keys (length cs)
  end.

Fixpoint c_numfields (c : content) : Z :=
  match c with
  | Numpy _ _ _ | Empty => -1
  | ListOffset _ _ c' | ListA _ _ _ c' | Regular c' _ _ | Indexed _ _ c' | IndexedOption _ _ c'
  | ByteMasked _ _ c' | BitMasked _ _ _ _ c' | Unmasked c' | Par _ _ c' => c_numfields c'
  | Union _ _ _ cs => zlen (keys_intersect (map c_keys cs))
  | Record cs _ _ => zlen cs
  end.

(* every NumpyArray node is an array (at least one dimension): Content::form is undefined otherwise *)
Fixpoint np_ok (c : content) : bool :=
  match c with
  | Numpy _ shape _ => match shape with [] => false | _ => true end
  | Empty => true
  | ListOffset _ _ c' | ListA _ _ _ c' | Regular c' _ _ | Indexed _ _ c' | IndexedOption _ _ c'
  | ByteMasked _ _ c' | BitMasked _ _ _ _ c' | Unmasked c' | Par _ _ c' => np_ok c'
  | Union _ _ _ cs | Record cs _ _ => forallb np_ok cs
  end.

(* ------------------------------------------------------------------ forms of the node classes that exist
   (the fragment on which Form -> JSON -> Form is the identity): parameters as a std::map (strictly sorted keys),
   no NUL in keys, index widths of an existing array class, NumpyForm fields consistent with its dtype,
   sizes that JSON readers take as int. *)
Definition nonul (s : bytes) : bool := forallb (fun c => negb (c =? 0)) s.
Definition meta_wf (m : fmeta) : bool :=
  psorted (m_params m) && forallb (fun kv => nonul (fst kv)) (m_params m) &&
  match m_key m with Some k => nonul k | None => true end.
Definition width3 (i : iform) : bool := match i with Fi32 | Fu32 | Fi64 => true | _ => false end.

Fixpoint form_wf (f : form) : bool :=
  match f with
  | FNumpy m inner itemsize format dt =>
      meta_wf m && forallb is_int32 inner && negb (fdtype_eqb dt FNotPrimitive) &&
      (itemsize =? dtype_to_itemsize dt) && bytes_eqb format (dtype_to_format dt)
  | FEmpty m => meta_wf m
  | FListOffset m o c => meta_wf m && width3 o && form_wf c
  | FList m s e c => meta_wf m && width3 s && iform_eqb s e && form_wf c
  | FRegular m c size => meta_wf m && is_int32 size && form_wf c
  | FIndexed m i c => meta_wf m && width3 i && form_wf c
  | FIndexedOption m i c => meta_wf m && (match i with Fi32 | Fi64 => true | _ => false end) && form_wf c
  | FByteMasked m _ c _ | FBitMasked m _ c _ _ | FUnmasked m c => meta_wf m && form_wf c
  | FUnion m t i cs => meta_wf m && iform_eqb t Fi8 && width3 i && forallb form_wf cs
  | FRecord m ks cs =>
      meta_wf m && forallb form_wf cs &&
      match ks with Some ks => Nat.eqb (length ks) (length cs) && forallb nonul ks | None => true end
  | FVirtual m g _ => meta_wf m && match g with Some g' => form_wf g' | None => true end
  end.

(* ------------------------------------------------------------------ Form -> JSON (tojson_part) *)
Definition j_identities (verbose : bool) (m : fmeta) : list (bytes * json) :=
  if verbose || m_hid m then [(k_has_identities, JBool (m_hid m))] else [].
Definition j_parameters (verbose : bool) (m : fmeta) : list (bytes * json) :=
  match m_params m with
  | [] => if verbose then [(k_parameters, JObj [])] else []
  | ps => [(k_parameters, JObj (map (fun kv => (cstr (fst kv), snd kv)) ps))]
  end.
Definition j_form_key (verbose : bool) (m : fmeta) : list (bytes * json) :=
  match m_key m with
  | Some k => [(k_form_key, JStr k)]
  | None => if verbose then [(k_form_key, JNull)] else []
  end.
Definition j_tail (verbose : bool) (m : fmeta) : list (bytes * json) :=
  j_identities verbose m ++ j_parameters verbose m ++ j_form_key verbose m.

Definition is_plain_meta (m : fmeta) : bool :=
  negb (m_hid m) && match m_params m with [] => true | _ => false end
  && match m_key m with None => true | Some _ => false end.

Fixpoint form_tojson_part (verbose toplevel : bool) (f : form) {struct f} : json :=
  let sub := form_tojson_part verbose false in
  match f with
  | FNumpy m inner itemsize format dt =>
      let p := dtype_to_name dt in
      if verbose || toplevel || negb (match inner with [] => true | _ => false end) || negb (is_plain_meta m)
      then JObj ([(k_class, JStr c_NumpyArray)]
                 ++ (if verbose || negb (match inner with [] => true | _ => false end)
                     then [(k_inner_shape, JArr (map JInt inner))] else [])
                 ++ [(k_itemsize, JInt itemsize); (k_format, JStr format); (k_primitive, JStr p)]
                 ++ j_tail verbose m)
      else JStr p
  | FEmpty m => JObj ((k_class, JStr c_EmptyArray) :: j_tail verbose m)
  | FListOffset m o c =>
      JObj ([(k_class, JStr (match o with
                             | Fi32 => c_ListOffsetArray32 | Fu32 => c_ListOffsetArrayU32
                             | Fi64 => c_ListOffsetArray64 | _ => c_UnrecognizedListOffsetArray end));
             (k_offsets, JStr (form2str o)); (k_content, sub c)] ++ j_tail verbose m)
  | FList m s e c =>
      JObj ([(k_class, JStr (match s with
                             | Fi32 => c_ListArray32 | Fu32 => c_ListArrayU32
                             | Fi64 => c_ListArray64 | _ => c_UnrecognizedListArray end));
             (k_starts, JStr (form2str s)); (k_stops, JStr (form2str e)); (k_content, sub c)] ++ j_tail verbose m)
  | FRegular m c size =>
      JObj ([(k_class, JStr c_RegularArray); (k_content, sub c); (k_size, JInt size)] ++ j_tail verbose m)
  | FIndexed m i c =>
      JObj ([(k_class, JStr (match i with
                             | Fi32 => c_IndexedArray32 | Fu32 => c_IndexedArrayU32
                             | Fi64 => c_IndexedArray64 | _ => c_UnrecognizedIndexedArray end));
             (k_index, JStr (form2str i)); (k_content, sub c)] ++ j_tail verbose m)
  | FIndexedOption m i c =>
      JObj ([(k_class, JStr (match i with
                             | Fi32 => c_IndexedOptionArray32
                             | Fi64 => c_IndexedOptionArray64 | _ => c_UnrecognizedIndexedOptionArray end));
             (k_index, JStr (form2str i)); (k_content, sub c)] ++ j_tail verbose m)
  | FByteMasked m k c vw =>
      JObj ([(k_class, JStr c_ByteMaskedArray); (k_mask, JStr (form2str k)); (k_content, sub c);
             (k_valid_when, JBool vw)] ++ j_tail verbose m)
  | FBitMasked m k c vw lsb =>
      JObj ([(k_class, JStr c_BitMaskedArray); (k_mask, JStr (form2str k)); (k_content, sub c);
             (k_valid_when, JBool vw); (k_lsb_order, JBool lsb)] ++ j_tail verbose m)
  | FUnmasked m c => JObj ([(k_class, JStr c_UnmaskedArray); (k_content, sub c)] ++ j_tail verbose m)
  | FUnion m t i cs =>
      JObj ([(k_class, JStr (match i with
                             | Fi32 => c_UnionArray8_32 | Fu32 => c_UnionArray8_U32
                             | Fi64 => c_UnionArray8_64 | _ => c_UnrecognizedUnionArray end));
             (k_tags, JStr (form2str t)); (k_index, JStr (form2str i));
             (k_contents, JArr (map sub cs))] ++ j_tail verbose m)
  | FRecord m None cs =>
      JObj ([(k_class, JStr c_RecordArray); (k_contents, JArr (map sub cs))] ++ j_tail verbose m)
  | FRecord m (Some ks) cs =>
      JObj ([(k_class, JStr c_RecordArray);
             (k_contents, JObj ((fix go (cs : list form) (ks : list bytes) {struct cs} : list (bytes * json) :=
                                   match cs, ks with
                                   | c :: cs', k :: ks' => (cstr k, sub c) :: go cs' ks'
                                   | _, _ => []
                                   end) cs ks))] ++ j_tail verbose m)
  | FVirtual m g hl =>
      JObj ([(k_class, JStr c_VirtualArray);
             (k_form, match g with None => JNull | Some g' => sub g' end);
             (k_has_length, JBool hl)] ++ j_tail verbose m)
  end.

(* Form::tojson(pretty, verbose): NumpyForm is printed in full at top level *)
Definition form_tojson (verbose : bool) (f : form) : json := form_tojson_part verbose true f.

(* ------------------------------------------------------------------ JSON -> Form (fromjson_part) *)
Definition jfind_map {A} (f : json -> A) (k : bytes) (m : list (bytes * json)) : option A :=
  (fix find (m : list (bytes * json)) : option A :=
     match m with
     | [] => None
     | (k', v) :: r => if bytes_eqb k' k then Some (f v) else find r
     end) m.

Definition get_hid (m : list (bytes * json)) : res bool :=
  match jfind k_has_identifier m with
  | Some (JBool b) => Ok b
  | Some _ => Err EValue
  | None =>
      match jfind k_has_identities m with
      | Some (JBool b) => Ok b
      | Some _ => Err EValue
      | None => Ok false
      end
  end.

Definition get_params (m : list (bytes * json)) : res params :=
  match jfind k_parameters m with
  | Some (JObj ps) => Ok (fold_left (fun acc kv => pset (cstr (fst kv)) (snd kv) acc) ps [])
  | Some _ => Err EValue
  | None => Ok []
  end.

Definition get_form_key (m : list (bytes * json)) : res (option bytes) :=
  match jfind k_form_key m with
  | None | Some JNull => Ok None
  | Some (JStr s) => Ok (Some (cstr s))
  | Some _ => Err EValue
  end.

Definition get_meta (m : list (bytes * json)) : res fmeta :=
  do h <- get_hid m; do p <- get_params m; do f <- get_form_key m; Ok (mkmeta h p f).

(* "field given as a string -> str2form, must not conflict with what the class name fixes; else the class's" *)
Definition get_iform (preset : option iform) (field : bytes) (m : list (bytes * json)) : res iform :=
  match jfind field m with
  | Some (JStr s) =>
      do tmp <- str2form (cstr s);
      match preset with
      | Some p => if iform_eqb p tmp then Ok tmp else Err EValue
      | None => Ok tmp
      end
  | _ => match preset with Some p => Ok p | None => Err EValue end
  end.

Definition get_bool (field : bytes) (m : list (bytes * json)) : res bool :=
  match jfind field m with Some (JBool b) => Ok b | _ => Err EValue end.

Definition from_primitive_name (s : bytes) : res form :=
  let dt := name_to_dtype (cstr s) in
  match dt with
  | FNotPrimitive => Err EValue
  | _ => Ok (FNumpy meta0 [] (dtype_to_itemsize dt) (dtype_to_format dt) dt)
  end.

Definition width_preset (cls generic c64 cU32 c32 : bytes) : option (option iform) :=
  if bytes_eqb cls generic then Some None
  else if bytes_eqb cls c64 then Some (Some Fi64)
  else if bytes_eqb cls cU32 then Some (Some Fu32)
  else if bytes_eqb cls c32 then Some (Some Fi32)
  else None.

(* IndexedOptionArray has no U32 specialisation *)
Definition width_preset2 (cls generic c64 c32 : bytes) : option (option iform) :=
  if bytes_eqb cls generic then Some None
  else if bytes_eqb cls c64 then Some (Some Fi64)
  else if bytes_eqb cls c32 then Some (Some Fi32)
  else None.

Definition req {A} (o : option (res A)) : res A := match o with Some r => r | None => Err EValue end.

Definition fromjson_obj (rec : json -> res form) (m : list (bytes * json)) : res form :=
  match jfind k_class m with
  | Some (JStr cls0) =>
      let cls := cstr cls0 in
      do mt <- get_meta m;
      let content := req (jfind_map rec k_content m) in
      if bytes_eqb cls c_NumpyArray then
        do fi <- match jfind k_primitive m with
                 | Some (JStr p) =>
                     do tmp <- from_primitive_name p;
                     match tmp with
                     | FNumpy _ _ itemsize format _ => Ok (format, itemsize)
                     | _ => Err EValue
                     end
                 | _ =>
                     match jfind k_format m, jfind k_itemsize m with
                     | Some (JStr fmt), Some (JInt n) => if is_int32 n then Ok (cstr fmt, n) else Err EValue
                     | _, _ => Err EValue
                     end
                 end;
        let (format, itemsize) := (fi : bytes * Z) in
        do s <- match jfind k_inner_shape m with
                | Some (JArr l) =>
                    mapM (fun x => match x with JInt n => if is_int32 n then Ok n else Err EValue | _ => Err EValue end) l
                | _ => Ok []
                end;
        Ok (FNumpy mt s itemsize format (format_to_dtype format itemsize))
      else if bytes_eqb cls c_RecordArray then
        req (jfind_map (fun v => match v with
                                 | JArr l => do cs <- mapM_id (map rec l); Ok (FRecord mt None cs)
                                 | JObj fs =>
                                     do cs <- mapM_id (map (fun kv => rec (snd kv)) fs);
                                     Ok (FRecord mt (Some (map (fun kv => cstr (fst kv)) fs)) cs)
                                 | _ => Err EValue
                                 end) k_contents m)
      else match width_preset cls c_ListOffsetArray c_ListOffsetArray64 c_ListOffsetArrayU32 c_ListOffsetArray32 with
      | Some pre => do o <- get_iform pre k_offsets m; do c <- content; Ok (FListOffset mt o c)
      | None =>
      match width_preset cls c_ListArray c_ListArray64 c_ListArrayU32 c_ListArray32 with
      | Some pre =>
          do s <- get_iform pre k_starts m; do e <- get_iform pre k_stops m; do c <- content; Ok (FList mt s e c)
      | None =>
      if bytes_eqb cls c_RegularArray then
        do c <- content;
        match jfind k_size m with
        | Some (JInt n) => if is_int32 n then Ok (FRegular mt c n) else Err EValue
        | _ => Err EValue
        end
      else match width_preset2 cls c_IndexedOptionArray c_IndexedOptionArray64 c_IndexedOptionArray32 with
      | Some pre => do i <- get_iform pre k_index m; do c <- content; Ok (FIndexedOption mt i c)
      | None =>
      match width_preset cls c_IndexedArray c_IndexedArray64 c_IndexedArrayU32 c_IndexedArray32 with
      | Some pre => do i <- get_iform pre k_index m; do c <- content; Ok (FIndexed mt i c)
      | None =>
      if bytes_eqb cls c_ByteMaskedArray then
        do k <- get_iform None k_mask m; do c <- content; do vw <- get_bool k_valid_when m;
        Ok (FByteMasked mt k c vw)
      else if bytes_eqb cls c_BitMaskedArray then
        do k <- get_iform None k_mask m; do c <- content; do vw <- get_bool k_valid_when m;
        do lsb <- get_bool k_lsb_order m;
        Ok (FBitMasked mt k c vw lsb)
      else if bytes_eqb cls c_UnmaskedArray then
        do c <- content; Ok (FUnmasked mt c)
      else match width_preset cls c_UnionArray c_UnionArray8_64 c_UnionArray8_U32 c_UnionArray8_32 with
      | Some pre =>
          do t <- get_iform (match pre with Some _ => Some Fi8 | None => None end) k_tags m;
          do i <- get_iform pre k_index m;
          req (jfind_map (fun v => match v with
                                   | JArr l => do cs <- mapM_id (map rec l); Ok (FUnion mt t i cs)
                                   | _ => Err EValue
                                   end) k_contents m)
      | None =>
      if bytes_eqb cls c_EmptyArray then Ok (FEmpty mt)
      else if bytes_eqb cls c_VirtualArray then
        do g <- req (jfind_map (fun v => match v with
                                         | JNull => Ok None
                                         | _ => do g <- rec v; Ok (Some g)
                                         end) k_form m);
        do hl <- get_bool k_has_length m;
        Ok (FVirtual mt g hl)
      else Err EValue
      end end end end end
  | _ => Err EValue
  end.

Fixpoint form_fromjson (j : json) : res form :=
  match j with
  | JStr s => from_primitive_name s
  | JObj m => fromjson_obj form_fromjson m
  | _ => Err EValue
  end.
