(** Extraction of the executable C18 models (ExtrOcamlBasic only; Z, positive, nat stay inductive). *)
From Coq Require Import Extraction ExtrOcamlBasic ZArith List.
From AwkV Require Import Base.
From AwkVirt Require Import Virtual Partition.
Extraction Language OCaml.
Extraction "c18model.ml" Z.add Z.mul Z.sub Z.div Z.modulo Z.eqb Z.ltb Z.leb Z.of_nat Z.to_nat Z.opp
  init array peek_array length_q form_q apply_event apply_events exec miss cache_get
  mk_parr pa_length partitionid_index_at getitem_at getitem_at_nowrap getitem_range getitem_range_nowrap
  repartition repartition_fuel.
