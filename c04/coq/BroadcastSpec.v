(** C04 — value-level SPECIFICATION of broadcasting (what a ufunc / ak.broadcast_arrays returns), on
    AwkV (type, value) pairs.  No layouts, no buffers, no proofs in this file.

    One argument is a pair (element type, element value); a whole array of length n with element type t
    and elements vs is the single element  (TList (Some n) None t, VList vs)  — the array dimension
    behaves as a regular dimension (this is what _util.broadcast_pack does) — and a Python scalar is the
    leaf  (TNum dt, VNum/VBool).

    Rules, at every level, for the tuple of arguments:
      R  if some argument is a list and EVERY argument is purely regular from here down, the shallower
         ones are wrapped in size-1 regular dimensions on the outside (NumPy: align to the right);
      O  if some argument is an option: a missing value in any of them gives a missing result, otherwise
         the options are dropped;
      L  if some argument is a list: all lists regular -> sizes must agree, size 1 repeats (NumPy);
         otherwise the first variable-length list gives the target length, every other list must have
         that length (a regular list of size 1 repeats), and a non-list argument is repeated for every
         element (tree-left);
      S  records (only for ak.broadcast_arrays): same key sets, field by field; a non-record argument is
         broadcast into every field;
      F  all leaves: the function is applied.
    Errors that are decided by the types alone (regular sizes, records, keys) are raised even when the
    arrays hold no element: [spec_t] is the type-level pass, [spec_v] the element-level pass. *)
From AwkV Require Export Types Typing.
From Coq Require Export ZArith List Bool.
Import ListNotations.
Open Scope Z_scope.

(** the leaf action: arguments arrive as (is-boolean, integer value); booleans are 0/1 *)
Record leafop := { lf : list bool -> list Z -> Z;      (* value of the result *)
                   lk : list bool -> bool }.           (* is the result boolean? *)

Definition sarg : Type := (ty * value)%type.

Definition is_listT (t : ty) : bool := match t with TList _ None _ => true | _ => false end.
Definition is_optT (t : ty) : bool := match t with TOpt _ => true | _ => false end.
Definition is_recT (t : ty) : bool := match t with TRec _ _ => true | _ => false end.
Definition is_leafT (t : ty) : bool := match t with TNum _ | TUnk => true | _ => false end.
Definition elemT (t : ty) : ty := match t with TList _ _ t' => t' | _ => t end.
Definition sizeT (t : ty) : option Z := match t with TList s None _ => s | _ => None end.
Definition is_regT (t : ty) : bool := match t with TList (Some _) None _ => true | _ => false end.
Definition is_varT (t : ty) : bool := match t with TList None None _ => true | _ => false end.

(* purelist_isregular / purelist_depth of the C++ forms, at element level (a leaf has depth 0);
   records are regular leaves (RecordForm), strings and unions are outside the specification *)
Fixpoint pure_reg (t : ty) : bool :=
  match t with
  | TNum _ | TUnk => true
  | TList (Some _) None t' => pure_reg t'
  | TList _ _ _ => false
  | TOpt t' => pure_reg t'
  | TRec _ _ => true
  | TUnion _ => false
  end.
Fixpoint rdepth (t : ty) : Z :=
  match t with
  | TList _ None t' => 1 + rdepth t'
  | TOpt t' => rdepth t'
  | _ => 0
  end.

Definition pad1 (a : sarg) : sarg := (TList (Some 1) None (fst a), VList [snd a]).
Fixpoint padn (k : nat) (a : sarg) : sarg := match k with O => a | S k' => pad1 (padn k' a) end.
Definition pad1_t (t : ty) : ty := TList (Some 1) None t.
Fixpoint padn_t (k : nat) (t : ty) : ty := match k with O => t | S k' => pad1_t (padn_t k' t) end.

Definition maxdepth (ts : list ty) : Z := fold_right Z.max 0 (map rdepth ts).
Definition rpad_cond (ts : list ty) : bool := existsb is_listT ts && forallb pure_reg ts.
(* rule R *)
Definition rpad (args : list sarg) : list sarg :=
  let ts := map fst args in
  if rpad_cond ts then map (fun a => padn (Z.to_nat (maxdepth ts - rdepth (fst a))) a) args else args.
Definition rpad_t (ts : list ty) : list ty :=
  if rpad_cond ts then map (fun t => padn_t (Z.to_nat (maxdepth ts - rdepth t)) t) ts else ts.

(* NumPy's rule for one dimension: the sizes other than 1 must all be equal; the result is that size (1 if none) *)
Definition dim_target (sizes : list Z) : res Z :=
  match filter (fun s => negb (s =? 1)) sizes with
  | [] => Ok 1
  | x :: rest => if forallb (Z.eqb x) rest then Ok x else Err EValue
  end.

Fixpoint somes {A} (l : list (option A)) : list A :=
  match l with [] => [] | Some x :: r => x :: somes r | None :: r => somes r end.

(* rows of a list of equally long columns *)
Fixpoint zipcons {A} (col : list A) (rows : list (list A)) : list (list A) :=
  match col, rows with
  | x :: c, r :: rs => (x :: r) :: zipcons c rs
  | _, _ => []
  end.
Definition transpose {A} (n : nat) (cols : list (list A)) : list (list A) :=
  fold_right zipcons (repeat [] n) cols.

Definition strip_opt (a : sarg) : sarg := match fst a with TOpt t' => (t', snd a) | _ => a end.
Definition strip_opt_t (t : ty) : ty := match t with TOpt t' => t' | _ => t end.
Definition is_none (v : value) : bool := match v with VNone => true | _ => false end.
Definition none_in (args : list sarg) : bool := existsb (fun a => is_optT (fst a) && is_none (snd a)) args.

(* the column of one argument when the lists at this level have [n] elements *)
Definition column (n : Z) (a : sarg) : res (list sarg) :=
  let (t, v) := a in
  match t with
  | TList sz None t' =>
      match v with
      | VList l =>
          match sz with
          | Some 1 => match l with [x] => Ok (repeat (t', x) (Z.to_nat n)) | _ => Err EValue end
          | _ => if zlen l =? n then Ok (map (fun x => (t', x)) l) else Err EValue
          end
      | _ => Err EValue
      end
  | _ => Ok (repeat a (Z.to_nat n))
  end.

(* length of the first variable-length list among the arguments *)
Fixpoint first_var_len (args : list sarg) : res Z :=
  match args with
  | [] => Err EValue
  | (TList None None _, VList l) :: _ => Ok (zlen l)
  | (TList None None _, _) :: _ => Err EValue
  | _ :: rest => first_var_len rest
  end.

Definition list_target (args : list sarg) : res Z :=
  let lts := filter is_listT (map fst args) in
  if forallb is_regT lts then dim_target (somes (map sizeT lts)) else first_var_len args.

(* ---- records ---- *)
Fixpoint dec_digits (fuel : nat) (n : Z) (acc : list Z) : list Z :=
  match fuel with
  | O => acc
  | S f => let acc' := (48 + n mod 10) :: acc in if n / 10 =? 0 then acc' else dec_digits f (n / 10) acc'
  end.
Definition dec_name (n : Z) : name := dec_digits 20 n [].
(* keys as RecordArray.keys() gives them: the names, or "0","1",.. for a tuple *)
Definition keys_of (ks : option (list name)) (n : nat) : list name :=
  match ks with Some k => k | None => map (fun i => dec_name (Z.of_nat i)) (seq 0 n) end.
Definition mem_name (k : name) (l : list name) : bool := existsb (name_eqb k) l.
Definition same_keyset (a b : list name) : bool :=
  Nat.eqb (length a) (length b) && forallb (fun k => mem_name k b) a && forallb (fun k => mem_name k a) b.
Fixpoint index_of (k : name) (l : list name) (i : Z) : res Z :=
  match l with
  | [] => Err EValue
  | x :: r => if name_eqb k x then Ok i else index_of k r (i + 1)
  end.
Definition rec_keys (t : ty) : option (list name) :=
  match t with TRec ks ts => Some (keys_of ks (length ts)) | _ => None end.
Definition rec_istuple (t : ty) : bool := match t with TRec None _ => true | _ => false end.

Definition field_t (key : name) (t : ty) : res ty :=
  match t with
  | TRec ks ts => do i <- index_of key (keys_of ks (length ts)) 0; get ts i
  | _ => Ok t
  end.
Definition field_of (key : name) (a : sarg) : res sarg :=
  let (t, v) := a in
  match t with
  | TRec ks ts =>
      do i <- index_of key (keys_of ks (length ts)) 0;
      do ft <- get ts i;
      match v with
      | VRec fs => do kv <- get fs i; Ok (ft, snd kv)
      | VTup vs => do x <- get vs i; Ok (ft, x)
      | _ => Err EValue
      end
  | _ => Ok a
  end.

Definition leaf_zb (a : sarg) : res (bool * Z) :=
  match snd a with
  | VNum (DZ z) => Ok (false, z)
  | VBool b => Ok (true, if b then 1 else 0)
  | _ => Err EValue            (* NaN / infinities: outside the specified fragment *)
  end.
Definition leaf_isbool (t : ty) : bool := match t with TNum DBool | TUnk => true | _ => false end.
Definition mk_leaf (isb : bool) (z : Z) : value := if isb then VBool (negb (z =? 0)) else VNum (DZ z).

Section Spec.
  Variable op : leafop.
  Variable allow_rec : bool.

  (* ---- type-level pass: the result's element type, or the errors decided by types alone ---- *)
  Fixpoint spec_t (fuel : nat) (ts0 : list ty) : res ty :=
    match fuel with
    | O => Err EFuel
    | S fuel' =>
        let ts := rpad_t ts0 in
        if existsb (fun t => match t with TUnion _ | TList _ (Some _) _ => true | _ => false end) ts then Err EValue
        else if existsb is_optT ts then rmap TOpt (spec_t fuel' (map strip_opt_t ts))
        else if existsb is_listT ts then
          let lts := filter is_listT ts in
          let next := map elemT ts in
          if forallb is_regT lts then
            do size <- dim_target (somes (map sizeT lts));
            rmap (TList (Some size) None) (spec_t fuel' next)
          else rmap (TList None None) (spec_t fuel' next)
        else if existsb is_recT ts then
          if negb allow_rec then Err EValue else
          match somes (map rec_keys ts) with
          | [] => Err EValue
          | keys :: others =>
              if negb (forallb (same_keyset keys) others) then Err EValue else
              match keys with
              | [] => Err EValue          (* records without fields: outside the specification *)
              | _ =>
                  do fts <- mapM (fun key => do sub <- mapM (field_t key) ts; spec_t fuel' sub) keys;
                  Ok (TRec (if forallb (fun t => negb (is_recT t) || rec_istuple t) ts then None else Some keys) fts)
              end
          end
        else Ok (TNum (if lk op (map leaf_isbool ts) then DBool else DInt64))
    end.

  (* ---- element-level pass ---- *)
  Fixpoint spec_v (fuel : nat) (args0 : list sarg) : res value :=
    match fuel with
    | O => Err EFuel
    | S fuel' =>
        let args := rpad args0 in
        let ts := map fst args in
        if existsb (fun t => match t with TUnion _ | TList _ (Some _) _ => true | _ => false end) ts then Err EValue
        else if existsb is_optT ts then
          if none_in args then Ok VNone else spec_v fuel' (map strip_opt args)
        else if existsb is_listT ts then
          do n <- list_target args;
          do cols <- mapM (column n) args;
          rmap VList (mapM (spec_v fuel') (transpose (Z.to_nat n) cols))
        else if existsb is_recT ts then
          if negb allow_rec then Err EValue else
          match somes (map rec_keys ts) with
          | [] => Err EValue
          | keys :: _ =>
              do outs <- mapM (fun key => do sub <- mapM (field_of key) args; spec_v fuel' sub) keys;
              if forallb (fun t => negb (is_recT t) || rec_istuple t) ts then Ok (VTup outs)
              else Ok (VRec (zip keys outs))
          end
        else
          do zs <- mapM leaf_zb args;
          Ok (mk_leaf (lk op (map fst zs)) (lf op (map fst zs) (map snd zs)))
    end.
End Spec.

(** whole arrays and scalars *)
Inductive sinput :=
| SArr (t : ty) (vs : list value)        (* an array: element type, elements *)
| SScalar (isbool : bool) (z : Z).       (* a Python scalar *)

Definition pack_s (x : sinput) : sarg :=
  match x with
  | SArr t vs => (TList (Some (zlen vs)) None t, VList vs)
  | SScalar b z => (TNum (if b then DBool else DInt64), mk_leaf b z)
  end.
Definition is_sarr (x : sinput) : bool := match x with SArr _ _ => true | _ => false end.

Fixpoint tsize (t : ty) : nat :=
  match t with
  | TList _ _ t' | TOpt t' => S (tsize t')
  | TRec _ ts => S (fold_right (fun x acc => (tsize x + acc)%nat) O ts)
  | TUnion ts => S (fold_right (fun x acc => (tsize x + acc)%nat) O ts)
  | _ => 1%nat
  end.
(* enough fuel for every descent: one step per type constructor of any argument, plus the padding *)
Definition spec_fuel (args : list sarg) : nat :=
  S (fold_right (fun a acc => (tsize (fst a) + acc)%nat) O args
     + length args * S (Z.to_nat (maxdepth (map fst args))))%nat.

Definition spec_broadcast (op : leafop) (allow_rec : bool) (fuel : nat) (xs : list sinput) : res (list value) :=
  if negb (existsb is_sarr xs) then Err EValue else
  let args := map pack_s xs in
  do _ <- spec_t op allow_rec fuel (map fst args);
  do v <- spec_v op allow_rec fuel args;
  match v with VList l => Ok l | _ => Err EValue end.

(** the concrete functions of the correspondence *)
Inductive ufn := UAdd | USub | UMul | UNeg | UAbs | UMax | UMin | ULt | ULe | UGt | UGe | UEq | UNe | UClip | UProj (k : nat).

Definition allb_ (l : list bool) : bool := forallb (fun b => b) l.
Definition b2z (b : bool) : Z := if b then 1 else 0.
Definition ufn_f (u : ufn) (ks : list bool) (xs : list Z) : Z :=
  let a := nth 0 xs 0 in let b := nth 1 xs 0 in let c := nth 2 xs 0 in
  match u with
  | UAdd => if allb_ ks then b2z (negb (a =? 0) || negb (b =? 0)) else a + b
  | USub => a - b
  | UMul => a * b
  | UNeg => - a
  | UAbs => Z.abs a
  | UMax => Z.max a b
  | UMin => Z.min a b
  | ULt => b2z (a <? b) | ULe => b2z (a <=? b) | UGt => b2z (a >? b) | UGe => b2z (a >=? b)
  | UEq => b2z (a =? b) | UNe => b2z (negb (a =? b))
  | UClip => Z.min (Z.max a b) c
  | UProj k => nth k xs 0
  end.
Definition ufn_k (u : ufn) (ks : list bool) : bool :=
  match u with
  | UAdd | UMul | UAbs | UMax | UMin => allb_ ks
  | USub | UNeg | UClip => false
  | ULt | ULe | UGt | UGe | UEq | UNe => true
  | UProj k => nth k ks false
  end.
Definition ufn_op (u : ufn) : leafop := {| lf := ufn_f u; lk := ufn_k u |}.
(* NumPy refuses these on booleans: not specified *)
Definition ufn_refuses_bool (u : ufn) : bool := match u with USub | UNeg | UClip => true | _ => false end.
