(** C15 — from_json(text) = from_iter(json.loads(text)) at the level of builder commands.

    The reader hands its SAX events to an ArrayBuilder one to one (Handler::Null -> null(), Bool -> boolean(),
    Int/Uint/Int64/Uint64 -> integer(), Double -> real(), String -> string(), StartArray/EndArray ->
    beginlist()/endlist(), StartObject/Key/EndObject -> beginrecord()/field_check()/endrecord()); the command
    alphabet is therefore [ev] itself.  ak.from_iter walks a Python value in pre-order issuing the same commands
    ([cmds]).  [json_loads] folds an event sequence into the Python value json.loads denotes ([pyval]: int and
    float are distinct, as in Python).  Nothing of the C14 builder model is imported. *)
From Coq Require Import ZArith List Bool Lia ZifyBool.
From AwkV Require Import Base Layout LayoutInd Valid.
From AwkJson Require Import Json Proofs_C15 Proofs_C15b.
Import ListNotations.
Open Scope Z_scope.

Inductive pyval :=
| PNone | PBool (b : bool) | PInt (z : Z) | PFloat (r : rnum) | PStr (s : bytes)
| PList (l : list pyval)
| PDict (kvs : list (bytes * pyval)).     (* items in insertion order *)

Section PyInd.
  Variable P : pyval -> Prop.
  Hypothesis HNone : P PNone.
  Hypothesis HBool : forall b, P (PBool b).
  Hypothesis HInt : forall z, P (PInt z).
  Hypothesis HFloat : forall r, P (PFloat r).
  Hypothesis HStr : forall s, P (PStr s).
  Hypothesis HList : forall l, Forall P l -> P (PList l).
  Hypothesis HDict : forall kvs, Forall (fun kv => P (snd kv)) kvs -> P (PDict kvs).
  Fixpoint pyval_ind' (v : pyval) : P v :=
    match v with
    | PNone => HNone | PBool b => HBool b | PInt z => HInt z | PFloat r => HFloat r | PStr s => HStr s
    | PList l => HList l ((fix go (l : list pyval) : Forall P l :=
                             match l with [] => Forall_nil _ | x :: xs => Forall_cons x (pyval_ind' x) (go xs) end) l)
    | PDict kvs => HDict kvs ((fix go (l : list (bytes * pyval)) : Forall (fun kv => P (snd kv)) l :=
                                 match l with
                                 | [] => Forall_nil _
                                 | kv :: xs => Forall_cons kv (pyval_ind' (snd kv)) (go xs)
                                 end) kvs)
    end.
End PyInd.

(** ak.from_iter: the builder commands issued for a Python value (operations/convert.py from_iter -> builder.fromiter:
    None -> null, bool -> boolean, int -> integer, float -> real, str/bytes -> string, list -> beginlist, items,
    endlist, dict -> beginrecord, (field(k), value)*, endrecord) *)
Definition member_cmds (f : pyval -> list ev) (kv : bytes * pyval) : list ev := EKey (fst kv) :: f (snd kv).
Fixpoint cmds (v : pyval) : list ev :=
  match v with
  | PNone => [ENull] | PBool b => [EBool b] | PInt z => [EInt z] | PFloat r => [EReal r] | PStr s => [EStr s]
  | PList l => ESA :: flat_map cmds l ++ [EEA]
  | PDict kvs => ESO :: flat_map (fun kv => EKey (fst kv) :: cmds (snd kv)) kvs ++ [EEO]
  end.

(** json.loads at the event level *)
Fixpoint pload (fuel : nat) (evs : list ev) {struct fuel} : res (pyval * list ev) :=
  match fuel with
  | O => Err EFuel
  | S f =>
      match evs with
      | ENull :: r => Ok (PNone, r)
      | EBool b :: r => Ok (PBool b, r)
      | EInt z :: r => Ok (PInt z, r)
      | EReal x :: r => Ok (PFloat x, r)
      | EStr s :: r => Ok (PStr s, r)
      | ESA :: r => do vr <- ploads f r; Ok (PList (fst vr), snd vr)
      | ESO :: r => do vr <- pkvs f r; Ok (PDict (fst vr), snd vr)
      | _ => Err EValue
      end
  end
with ploads (fuel : nat) (evs : list ev) {struct fuel} : res (list pyval * list ev) :=
  match fuel with
  | O => Err EFuel
  | S f =>
      match evs with
      | EEA :: r => Ok ([], r)
      | _ => do vr <- pload f evs; do vsr <- ploads f (snd vr); Ok (fst vr :: fst vsr, snd vsr)
      end
  end
with pkvs (fuel : nat) (evs : list ev) {struct fuel} : res (list (bytes * pyval) * list ev) :=
  match fuel with
  | O => Err EFuel
  | S f =>
      match evs with
      | EEO :: r => Ok ([], r)
      | EKey k :: r => do vr <- pload f r; do kr <- pkvs f (snd vr); Ok ((k, fst vr) :: fst kr, snd kr)
      | _ => Err EValue
      end
  end.
Definition json_loads (evs : list ev) : res (pyval * list ev) := pload (S (length evs)) evs.

(* ------------------------------------------------------------------ loads inverts cmds *)
Lemma cmds_head v : exists h t, cmds v = h :: t /\ is_start h = true.
Proof. destruct v; cbn [cmds]; eauto. Qed.

Lemma cmds_length v : (1 <= length (cmds v))%nat.
Proof. destruct (cmds_head v) as (h & t & -> & _). cbn. lia. Qed.

Lemma pload_cmds v : forall r f, (length (cmds v) < f)%nat -> pload f (cmds v ++ r) = Ok (v, r).
Proof.
  induction v as [|b|z|x|s|l IH|kvs IH] using pyval_ind'; intros r [|f] L; try (cbn in L; lia); try reflexivity.
  - (* list *)
    cbn [cmds app pload]. rewrite <- app_assoc. cbn [app].
    cbn [cmds length] in L. rewrite app_length in L. cbn [length] in L.
    assert (G : forall f, (length (flat_map cmds l) + 1 < f)%nat ->
                          ploads f (flat_map cmds l ++ EEA :: r) = Ok (l, r)).
    { clear L f. induction IH as [|x l Hx _ IHl]; intros [|f] L; try (cbn in L; lia); [reflexivity|].
      cbn [flat_map] in L |- *. rewrite app_length in L. pose proof (cmds_length x). rewrite <- app_assoc.
      destruct (cmds_head x) as (h & t & E & Hh).
      assert (E1 : pload f (cmds x ++ flat_map cmds l ++ EEA :: r) = Ok (x, flat_map cmds l ++ EEA :: r)) by (apply Hx; lia).
      cbn [ploads]. rewrite E in *. cbn [app] in *.
      destruct h; try discriminate Hh; rewrite E1; cbn [bind fst snd]; rewrite IHl by lia; reflexivity. }
    rewrite G by lia. reflexivity.
  - (* dict *)
    cbn [cmds app pload]. rewrite <- app_assoc. cbn [app].
    cbn [cmds length] in L. rewrite app_length in L. cbn [length] in L.
    set (mc := fun kv : bytes * pyval => EKey (fst kv) :: cmds (snd kv)) in *.
    assert (G : forall f, (length (flat_map mc kvs) + 1 < f)%nat ->
                          pkvs f (flat_map mc kvs ++ EEO :: r) = Ok (kvs, r)).
    { clear L f. induction IH as [|[k x] kvs Hx _ IHl]; intros [|f] L; try (cbn in L; lia); [reflexivity|].
      cbn [flat_map] in L |- *. unfold mc at 1 in L. unfold mc at 1. cbn [fst snd] in *.
      cbn [length app] in L |- *. rewrite app_length in L. pose proof (cmds_length x). rewrite <- app_assoc.
      cbn [pkvs]. rewrite Hx by lia. cbn [bind fst snd]. rewrite IHl by lia. reflexivity. }
    rewrite G by lia. reflexivity.
Qed.

(** from_iter's encoding determines the value: json.loads of the commands of v is v *)
Theorem loads_cmds_lemma v : json_loads (cmds v) = Ok (v, []).
Proof.
  unfold json_loads. pose proof (pload_cmds v [] (S (length (cmds v))) ltac:(lia)) as E.
  rewrite app_nil_r in E. exact E.
Qed.

Corollary cmds_injective v v' : cmds v = cmds v' -> v = v'.
Proof.
  intros E. pose proof (loads_cmds_lemma v) as A. rewrite E, loads_cmds_lemma in A. congruence.
Qed.

(* ------------------------------------------------------------------ every well-formed event sequence is such an encoding *)
Lemma wf_cmds :
  (forall e, wfv e -> exists v, cmds v = e) /\
  (forall es, wfvs es -> exists l, flat_map cmds l = es) /\
  (forall es, wfkvs es -> exists kvs, flat_map (fun kv : bytes * pyval => EKey (fst kv) :: cmds (snd kv)) kvs = es).
Proof.
  apply wf_mutind.
  - exists PNone. reflexivity.
  - intros b. exists (PBool b). reflexivity.
  - intros z. exists (PInt z). reflexivity.
  - intros r. exists (PFloat r). reflexivity.
  - intros s. exists (PStr s). reflexivity.
  - intros es _ (l & <-). exists (PList l). reflexivity.
  - intros es _ (kvs & <-). exists (PDict kvs). reflexivity.
  - exists []. reflexivity.
  - intros e es _ (v & <-) _ (l & <-). exists (v :: l). reflexivity.
  - exists []. reflexivity.
  - intros k e es _ (v & <-) _ (kvs & <-). exists ((k, v) :: kvs). reflexivity.
Qed.

(** the commands the reader issues for a document are exactly the from_iter encoding of the value json.loads
    denotes for that document *)
Theorem fromjson_is_fromiter_events evs : wf evs = true ->
  exists v, json_loads evs = Ok (v, []) /\ cmds v = evs.
Proof.
  intros W. apply wf_iff in W. destruct (proj1 wf_cmds evs W) as (v & <-).
  exists v. split; [apply loads_cmds_lemma | reflexivity].
Qed.

(** for a text: every entry from_json builds is built by the command sequence from_iter would issue for the value
    json.loads gives for that entry's events (events as the builder sees them, i.e. after Handler) *)
Theorem fromjson_is_fromiter_lemma o text docs : do_parse o text = JDocs docs ->
  Forall (fun d => exists v, json_loads d = Ok (v, []) /\ cmds v = d) docs.
Proof.
  intros H. eapply Forall_impl; [|exact (do_parse_docs_wellformed_lemma o text docs H)].
  intros d. apply fromjson_is_fromiter_events.
Qed.

(* ------------------------------------------------------------------ Handler is the identity without substitution
   strings and NUL-free keys *)
Definition no_opts : jopts := {| nan_s := None; inf_s := None; minf_s := None |}.
Definition key_nulfree (e : ev) : bool :=
  match e with EKey k => forallb (fun c => negb (c =? 0)) k | _ => true end.

Lemma cstr_nulfree k : forallb (fun c => negb (c =? 0)) k = true -> cstr k = k.
Proof.
  induction k as [|c k IH]; [reflexivity|]. cbn [forallb cstr]. intros H. apply andb_true_iff in H. destruct H as [Hc Hk].
  destruct (c =? 0); [discriminate|]. rewrite IH by exact Hk. reflexivity.
Qed.

Lemma handler_no_opts evs : forallb key_nulfree evs = true -> map (handler no_opts) evs = evs.
Proof.
  induction evs as [|e evs IH]; [reflexivity|]. cbn [forallb map]. intros H. apply andb_true_iff in H. destruct H as [He Hs].
  rewrite IH by exact Hs. f_equal. destruct e; try reflexivity. cbn [handler key_nulfree] in *. rewrite cstr_nulfree by exact He. reflexivity.
Qed.

(** to_json text of an array read back with the default options: ONE document, whose commands are the from_iter
    encoding of json.loads of the very events to_json emitted *)
Theorem fromjson_of_tojson_lemma c evs : tojson_events no_opts c = Ok evs -> printable evs = true ->
  forallb key_nulfree evs = true ->
  exists v, do_parse no_opts (render evs) = JDocs [cmds v] /\ json_loads evs = Ok (v, []) /\ cmds v = evs.
Proof.
  intros H P K. destruct (roundtrip_events_lemma no_opts c evs H P) as (D & _).
  rewrite handler_no_opts in D by exact K.
  destruct (fromjson_is_fromiter_events evs (events_wellformed_strong _ _ _ H)) as (v & L & C).
  exists v. rewrite C. auto.
Qed.

(* ------------------------------------------------------------------ Python dicts: duplicate keys *)
(** json.loads keeps ONE item per key (the last value, at the position of the first occurrence); the reader issues
    field() for every occurrence.  [py_norm] is that normalisation; on values without duplicate keys it is the
    identity, so the statement above is about genuine Python values exactly when no object repeats a key. *)
Fixpoint dict_set (k : bytes) (v : pyval) (d : list (bytes * pyval)) : list (bytes * pyval) :=
  match d with
  | [] => [(k, v)]
  | kv :: t => if list_eqb Z.eqb k (fst kv) then (fst kv, v) :: t else kv :: dict_set k v t
  end.
Definition dict_of (kvs : list (bytes * pyval)) : list (bytes * pyval) :=
  fold_left (fun d kv => dict_set (fst kv) (snd kv) d) kvs [].
Fixpoint py_norm (v : pyval) : pyval :=
  match v with
  | PList l => PList (map py_norm l)
  | PDict kvs => PDict (dict_of (map (fun kv => (fst kv, py_norm (snd kv))) kvs))
  | _ => v
  end.
Fixpoint nodupb (l : list bytes) : bool :=
  match l with [] => true | k :: t => negb (existsb (fun k' => list_eqb Z.eqb k' k) t) && nodupb t end.
Fixpoint py_nodup (v : pyval) : bool :=
  match v with
  | PList l => forallb py_nodup l
  | PDict kvs => nodupb (map fst kvs) && forallb (fun kv => py_nodup (snd kv)) kvs
  | _ => true
  end.

Lemma dict_set_fresh k v d : existsb (fun k' => list_eqb Z.eqb k k') (map fst d) = false ->
  dict_set k v d = d ++ [(k, v)].
Proof.
  induction d as [|[k0 v0] t IH]; [reflexivity|]. cbn [map existsb dict_set app fst]. intros H.
  apply orb_false_iff in H. destruct H as [H1 H2]. rewrite H1. rewrite IH by exact H2. reflexivity.
Qed.

Lemma dict_of_nodup kvs : forall acc,
  nodupb (map fst kvs) = true ->
  forallb (fun k => negb (existsb (fun k' => list_eqb Z.eqb k k') (map fst acc))) (map fst kvs) = true ->
  fold_left (fun d kv => dict_set (fst kv) (snd kv) d) kvs acc = acc ++ kvs.
Proof.
  induction kvs as [|[k v] kvs IH]; intros acc N D; [rewrite app_nil_r; reflexivity|].
  cbn [map nodupb forallb fold_left fst snd] in *.
  apply andb_true_iff in N. destruct N as [N1 N2]. apply andb_true_iff in D. destruct D as [D1 D2].
  apply negb_true_iff in D1. rewrite dict_set_fresh by exact D1.
  rewrite IH; [rewrite <- app_assoc; reflexivity | exact N2 |].
  apply forallb_forall. intros k' Hk'. rewrite forallb_forall in D2. specialize (D2 k' Hk').
  apply negb_true_iff in D2.
  rewrite map_app, existsb_app. cbn [map existsb fst]. rewrite orb_false_r. rewrite D2. cbn [orb].
  destruct (list_eqb Z.eqb k' k) eqn:E; [|reflexivity].
  exfalso. assert (X : existsb (fun k'0 => list_eqb Z.eqb k'0 k) (map fst kvs) = true) by (apply existsb_exists; eauto).
  rewrite X in N1. discriminate.
Qed.

Lemma py_norm_nodup v : py_nodup v = true -> py_norm v = v.
Proof.
  induction v as [|b|z|x|s|l IH|kvs IH] using pyval_ind'; intros H; try reflexivity; cbn [py_norm py_nodup] in *.
  - f_equal. rewrite forallb_forall in H. rewrite Forall_forall in IH.
    rewrite <- (map_id l) at 2. apply map_ext_in. intros x Hx. apply IH; auto.
  - apply andb_true_iff in H. destruct H as [N F]. f_equal.
    assert (M : map (fun kv : bytes * pyval => (fst kv, py_norm (snd kv))) kvs = kvs).
    { rewrite forallb_forall in F. rewrite Forall_forall in IH.
      rewrite <- (map_id kvs) at 2. apply map_ext_in. intros [k x] Hx. cbn [fst snd]. f_equal. apply (IH (k, x) Hx). exact (F (k, x) Hx). }
    rewrite M. unfold dict_of. rewrite dict_of_nodup; [reflexivity | exact N|].
    apply forallb_forall. intros; reflexivity.
Qed.

(** ... so for documents in which no object repeats a key, the reader's commands are the from_iter encoding of the
    genuine Python value *)
Theorem fromjson_is_fromiter_dict_lemma evs : wf evs = true ->
  exists v, json_loads evs = Ok (v, []) /\ (py_nodup v = true -> cmds (py_norm v) = evs).
Proof.
  intros W. destruct (fromjson_is_fromiter_events evs W) as (v & L & C).
  exists v. split; [exact L|]. intros N. rewrite py_norm_nodup by exact N. exact C.
Qed.

(* a repeated key: the reader issues field("a") twice, from_iter(json.loads(text)) once — the statement cannot
   be extended to such documents *)
Example fromjson_is_fromiter_dupkeys_refuted :
  let text := [123; 34; 97; 34; 58; 49; 44; 34; 97; 34; 58; 50; 125] in        (* {"a":1,"a":2} *)
  exists d v, do_parse no_opts text = JDocs [d] /\ json_loads d = Ok (v, []) /\ cmds v = d /\
              py_nodup v = false /\ cmds (py_norm v) = [ESO; EKey [97]; EInt 2; EEO] /\ cmds (py_norm v) <> d.
Proof. eexists _, _. vm_compute. repeat split; try reflexivity. discriminate. Qed.

(* a NUL inside a key: Handler::Key truncates it (known finding c15-nul-in-string-or-key) — json.loads keeps it *)
Example fromjson_key_nul_refuted :
  let text := [123; 34; 97; 92; 117; 48; 48; 48; 48; 98; 34; 58; 49; 125] in   (* {"a\u0000b":1} *)
  parse text = Ok ([ESO; EKey [97; 0; 98]; EInt 1; EEO], []) /\
  do_parse no_opts text = JDocs [[ESO; EKey [97]; EInt 1; EEO]].
Proof. vm_compute. auto. Qed.

(* non-trivial instance: nested list, record with a float, a string, null *)
Example fromjson_is_fromiter_ex :
  let text := render ex_events in
  let v := PList [PDict [([97; 34], PInt (-12)); ([98], PStr [0; 200; 10])]; PFloat (RZ 3); PNone; PBool true] in
  do_parse no_opts text = JDocs [cmds v] /\ json_loads (cmds v) = Ok (v, []) /\ py_nodup v = true.
Proof. vm_compute. auto. Qed.
