(** C16 property theorems (statements only; proofs in Proofs_C16*.v). *)
From Coq Require Import ZArith List Bool.
From AwkV Require Import Base Layout Valid Types Proofs_ToList.
From AwkBuffers Require Import Buffers Proofs_C16 Proofs_C16b Proofs_C16c Proofs_C16d.
Import ListNotations.
Open Scope Z_scope.

(* naming layer: the container look-ups of from_buffers find exactly the buffers emitted under the pre-order keys *)
Theorem to_buffers_keys_preorder : forall t k, let '(f, ct, _) := label t k in relabel f ct = Ok t.
Proof. exact relabel_label. Qed.
Print Assumptions to_buffers_keys_preorder.

(* every node class, both variants of the length computation *)
Theorem lengths_recomputed_sufficient : forall c, Valid None c -> forall fixed, from_buffers_gen fixed (to_buffers c) <> Err EOob.
Proof. exact lengths_recomputed_sufficient_thm. Qed.
Print Assumptions lengths_recomputed_sufficient.

Theorem from_buffers_type : forall fixed c c', from_buffers_gen fixed (to_buffers c) = Ok c' -> type_of c' = type_of c.
Proof. exact from_buffers_type_thm. Qed.
Print Assumptions from_buffers_type.

Theorem buffers_roundtrip_partial : forall c, Valid None c -> frag16 c = true -> Proofs_ToList.chars_ok c = true ->
  exists c', from_buffers (to_buffers c) = Ok c' /\ to_list c' = to_list c /\ type_of c' = type_of c /\ clen c' = clen c.
Proof. exact buffers_roundtrip_partial_thm. Qed.
Print Assumptions buffers_roundtrip_partial.

Theorem buffers_roundtrip_refuted :
  exists c, Valid None c /\ from_buffers (to_buffers c) = Err EValue /\ exists vs, to_list c = Ok vs.
Proof. exact buffers_roundtrip_refuted_thm. Qed.
Print Assumptions buffers_roundtrip_refuted.

Theorem numpy_roundtrip : forall ra x, wf_nd x -> exists y, to_numpy_model true (from_numpy_model ra x) = Ok y /\ nd_equiv y x.
Proof. exact numpy_roundtrip_thm. Qed.
Print Assumptions numpy_roundtrip.

Theorem from_numpy_value : forall ra x, wf_nd x -> to_list (from_numpy_model ra x) = nd_value x.
Proof. exact from_numpy_value_thm. Qed.
Print Assumptions from_numpy_value.

Theorem to_numpy_is_to_list_partial : forall ra x y, wf_nd x ->
  to_numpy_model true (from_numpy_model ra x) = Ok y -> nd_value y = to_list (from_numpy_model ra x).
Proof. exact to_numpy_is_to_list_partial_thm. Qed.
Print Assumptions to_numpy_is_to_list_partial.

Theorem to_numpy_size0_refuted :
  exists c y, Valid None c /\ to_numpy_model true c = Ok y /\ to_list c = Ok [VList []; VList []; VList []] /\ nd_value y = Ok [].
Proof. exact to_numpy_size0_refuted_thm. Qed.
Print Assumptions to_numpy_size0_refuted.

Theorem arrow_offsets_rebase_spec : forall (child : list value) o o0 rest,
  o = o0 :: rest -> 0 <= o0 -> Forall (fun ab : Z * Z => fst ab = snd ab \/ o0 <= fst ab) (pairs o) ->
  arrow_list (rebase o) (drop o0 child) = arrow_list o child.
Proof. exact arrow_offsets_rebase_spec_thm. Qed.
Print Assumptions arrow_offsets_rebase_spec.

Theorem arrow_offsets_compact_spec : forall (child : list value) s e ls,
  cut2 child s e = Ok ls -> arrow_list (compact_offsets s e) (concat ls) = Ok (map VList ls).
Proof. exact arrow_offsets_compact_spec_thm. Qed.
Print Assumptions arrow_offsets_compact_spec.

Theorem bytemask_to_bitmap_spec : forall bits i, 0 <= i < zlen bits ->
  bitmap_bit (pack_lsb bits) i = Ok (nth (Z.to_nat i) bits false).
Proof. exact bytemask_to_bitmap_spec_thm. Qed.
Print Assumptions bytemask_to_bitmap_spec.

Theorem bitmap_padding_zero : forall bits i, 0 <= i -> i / 8 = (zlen bits - 1) / 8 -> zlen bits <= i -> 0 < zlen bits ->
  bitmap_bit (pack_lsb bits) i = Ok false.
Proof. exact bitmap_padding_zero_thm. Qed.
Print Assumptions bitmap_padding_zero.
