(** C14 — the implementation-independent specification of what a builder session must return.
    MODEL ONLY: no proofs in this file.

    "Appending any well-nested sequence of values yields an array whose to_list equals the appended values up to
    the documented unification."  At the level of [Layout.value] (which does not distinguish 3 from 3.0 and has no
    types) the int->float promotion, the option-ness of a level and the union-ness of a level are invisible; what is
    left of the unification is the treatment of records:

      records with the same name (or both unnamed) reached at the same POSITION share one record type whose fields are
      all the keys seen at that position, in order of first appearance; a record that lacks a key has None there.

    A position is: the top level; the content of the lists at a position; slot i of the n-tuples at a position; field k
    of the records named nm at a position.  None and the atoms do not open positions.  [pos] collects, for one
    position, what was seen below it; [join] adds one value; [coerce] reads a value back against the final [pos];
    [unify vs] is the expected to_list. *)
From AwkV Require Import Base Layout.
From AwkBuilder Require Import Builder.
Open Scope Z_scope.

Inductive pos :=
| Pos (lst : option pos)                                  (* the position "content of a list here" *)
      (tups : list (Z * list pos))                        (* per tuple arity: the slot positions *)
      (recs : list (option name * list (name * pos))).    (* per record name: fields in order of first appearance *)

Definition P0 : pos := Pos None [] [].

Definition oname_eqb (a b : option name) : bool := opt_eqb name_eqb a b.

Section Assoc.
  Context {K V : Type}.
  Variable eqb : K -> K -> bool.
  Variable k : K.
  Variable f : option V -> V.
  (* update the first entry with key [k] (or append one) *)
  Fixpoint upd_assoc (l : list (K * V)) : list (K * V) :=
    match l with
    | [] => [(k, f None)]
    | (k', v) :: t => if eqb k' k then (k', f (Some v)) :: t else (k', v) :: upd_assoc t
    end.
End Assoc.
Fixpoint assoc {K V} (eqb : K -> K -> bool) (k : K) (l : list (K * V)) : option V :=
  match l with
  | [] => None
  | (k', v) :: t => if eqb k' k then Some v else assoc eqb k t
  end.

Definition opos (p : option pos) : pos := match p with Some q => q | None => P0 end.

Fixpoint join (p : pos) (v : pyval) {struct v} : pos :=
  match p with
  | Pos lst tups recs =>
  match v with
  | PNone | PBool _ | PInt _ | PFloat _ | PStr _ _ => p
  | PList l => Pos (Some (fold_left join l (opos lst))) tups recs
  | PTup l =>
      let slots (old : option (list pos)) : list pos :=
        (fix go (l : list pyval) (ps : list pos) : list pos :=
           match l with
           | [] => []
           | x :: t => join (match ps with q :: _ => q | [] => P0 end) x :: go t (tl ps)
           end) l (match old with Some ps => ps | None => [] end) in
      Pos lst (upd_assoc Z.eqb (zlen l) slots tups) recs
  | PRec nm fs =>
      let fields (old : option (list (name * pos))) : list (name * pos) :=
        (fix go (fs : list (name * pyval)) (acc : list (name * pos)) : list (name * pos) :=
           match fs with
           | [] => acc
           | (k, x) :: t => go t (upd_assoc name_eqb k (fun q => join (opos q) x) acc)
           end) fs (match old with Some flds => flds | None => [] end) in
      Pos lst tups (upd_assoc oname_eqb nm fields recs)
  end
  end.

Fixpoint coerce (p : pos) (v : pyval) {struct v} : value :=
  match p with
  | Pos lst tups recs =>
  match v with
  | PNone => VNone
  | PBool b => VBool b
  | PInt z | PFloat z => VNum (DZ z)
  | PStr e s => VStr e s
  | PList l => VList (map (coerce (opos lst)) l)
  | PTup l =>
      VTup ((fix go (l : list pyval) (ps : list pos) : list value :=
               match l with
               | [] => []
               | x :: t => coerce (match ps with q :: _ => q | [] => P0 end) x :: go t (tl ps)
               end) l (match assoc Z.eqb (zlen l) tups with Some ps => ps | None => [] end))
  | PRec nm fs =>
      let flds := match assoc oname_eqb nm recs with Some f => f | None => [] end in
      (* every key of the shared record type, in its order; absent here = None *)
      VRec (map (fun kq : name * pos =>
                   (fst kq,
                    (fix look (fs : list (name * pyval)) : value :=
                       match fs with
                       | [] => VNone
                       | (k, x) :: t => if name_eqb k (fst kq) then coerce (snd kq) x else look t
                       end) fs)) flds)
  end
  end.

Definition positions (vs : list pyval) : pos := fold_left join vs P0.
Definition unify (vs : list pyval) : list value := map (coerce (positions vs)) vs.

(* well-formed Python values: dict keys are distinct *)
Fixpoint keys_nodup (ks : list name) : bool :=
  match ks with
  | [] => true
  | k :: t => negb (existsb (name_eqb k) t) && keys_nodup t
  end.
Fixpoint pywf (v : pyval) : bool :=
  match v with
  | PList l | PTup l => forallb pywf l
  | PRec _ fs =>
      keys_nodup (map fst fs) &&
      (fix go (fs : list (name * pyval)) : bool :=
         match fs with [] => true | (_, x) :: t => pywf x && go t end) fs
  | _ => true
  end.

(* the fragment without records and tuples: there the unification is invisible in values *)
Fixpoint no_struct (v : pyval) : bool :=
  match v with
  | PList l => forallb no_struct l
  | PTup _ | PRec _ _ => false
  | _ => true
  end.
