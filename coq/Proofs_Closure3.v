(** C11 (closure), part 3: flatten(axis) produces valid layouts from valid layouts. *)
From Coq Require Import ZArith List Bool Lia ZifyBool.
From AwkV Require Import Base Layout LayoutInd Valid Types AtAxis Carry Ops_Struct Ops_Flatten
                         Typing Proofs_Typing Proofs_C11 Proofs_Lists Proofs_ToList Proofs_Carry Proofs_CarryValid
                         Proofs_AtAxis Proofs_AtAxisOps Proofs_Closure Proofs_Closure2.
Import ListNotations.
Open Scope Z_scope.

(* ---------------------------------------------------------------- [expand] keeps the value (unions included) *)
Lemma expand_to_list_p c : forall p, Valid p c -> to_list (expand c) = to_list c.
Proof.
  induction c as [dt shape data| |w o c IHc|w s e c IHc|c size zl IHc|w ix c IHc|w ix c IHc|m vw c IHc
                 |m vw lsb n c IHc|c IHc|w t ix cs IHcs|cs ks n IHcs|arr rn c IHc] using content_ind';
    intros p HV; inversion HV; subst; cbn [expand].
  - destruct shape as [|n dims]; [congruence|].
    match goal with H : Forall _ (n :: dims) |- _ => rename H into Hs end. inversion Hs as [|? ? Hn Hds]; subst.
    assert (Hz : zlen (take (prodZ (n :: dims)) data) = n * prodZ dims).
    { rewrite zlen_take; [apply prodZ_cons|]. split; [apply prodZ_nonneg, Hs|assumption]. }
    rewrite np_to_list by assumption. rewrite to_list_Numpy, (Forall_nonneg_existsb _ Hs).
    destruct (zlen data <? prodZ (n :: dims)) eqn:E; [lia|]. reflexivity.
  - reflexivity.
  - match goal with Hp : ParamOk p _, Hs : _ -> Valid None c |- _ =>
      assert (X : to_list (expand c) = to_list c);
      [destruct (is_strk p) eqn:Es;
       [destruct (ParamOk_str _ _ Hp Es) as (c0 & k & rn & n & dd & Hc0 & Hk & _); cbn [list_content] in Hc0; inversion Hc0; subst;
        apply (chars_expand k rn n dd)|apply (IHc None), Hs; reflexivity]|] end.
    rewrite !to_list_ListOffset, X. reflexivity.
  - match goal with Hp : ParamOk p _, Hs : _ -> Valid None c |- _ =>
      assert (X : to_list (expand c) = to_list c);
      [destruct (is_strk p) eqn:Es;
       [destruct (ParamOk_str _ _ Hp Es) as (c0 & k & rn & n & dd & Hc0 & Hk & _); cbn [list_content] in Hc0; inversion Hc0; subst;
        apply (chars_expand k rn n dd)|apply (IHc None), Hs; reflexivity]|] end.
    rewrite !to_list_ListA, X. reflexivity.
  - match goal with Hp : ParamOk p _, Hs : _ -> Valid None c |- _ =>
      assert (X : to_list (expand c) = to_list c);
      [destruct (is_strk p) eqn:Es;
       [destruct (ParamOk_str _ _ Hp Es) as (c0 & k & rn & n & dd & Hc0 & Hk & _); cbn [list_content] in Hc0; inversion Hc0; subst;
        apply (chars_expand k rn n dd)|apply (IHc None), Hs; reflexivity]|] end.
    rewrite !to_list_Regular, X. reflexivity.
  - rewrite !to_list_Indexed, (IHc None) by assumption. reflexivity.
  - rewrite !to_list_IndexedOption, (IHc None) by assumption. reflexivity.
  - rewrite !to_list_ByteMasked, (IHc None) by assumption. reflexivity.
  - rewrite !to_list_BitMasked, (IHc None) by assumption. reflexivity.
  - rewrite !to_list_Unmasked. apply (IHc None). assumption.
  - rewrite !to_list_Union, !all_lists_mapM, mapM_map.
    rewrite (mapM_ext_in (fun x => to_list (expand x)) to_list cs); [reflexivity|].
    match goal with HVs : Forall (Valid None) cs |- _ => rewrite Forall_forall in IHcs, HVs; intros x Hx; apply (IHcs x Hx None), HVs, Hx end.
  - rewrite !to_list_Record, !all_lists_mapM, mapM_map.
    rewrite (mapM_ext_in (fun x => to_list (expand x)) to_list cs); [reflexivity|].
    match goal with HVs : Forall (Valid None) cs |- _ => rewrite Forall_forall in IHcs, HVs; intros x Hx; apply (IHcs x Hx None), HVs, Hx end.
  - rewrite !to_list_Par, (IHc arr) by assumption. reflexivity.
Qed.

(* ---------------------------------------------------------------- unfolding [flat_p] *)
Definition fl_at_list (rec : res (list Z * content)) (p : option akind) (d ax : Z)
                      (b : list (Z * Z)) (c' : content) (rewrap : content -> content) : res (list Z * content) :=
  if ax =? d + 1 then
    if is_strk p then Err EValue else
    do fc <- ranges_content c' (map (fun ab : Z * Z => if fst ab =? snd ab then (0, 0) else ab) b);
    Ok (offsets_from 0 (lens_of b), fc)
  else
    do r <- rec;
    let (inner, fc) := r in
    match inner with
    | [] => Ok ([], rewrap fc)
    | _ =>
        let b' := map (fun ab : Z * Z => if fst ab =? snd ab then (0, 0) else ab) b in
        do s <- remap inner (map fst b'); do e <- remap inner (map snd b'); Ok ([], ListA I64 s e fc)
    end.
Definition fl_at_option (rec : res (list Z * content)) (ix : list Z) (rewrap : content -> content)
  : res (list Z * content) :=
  do r <- rec;
  let (inner, fc) := r in
  match inner with
  | [] => Ok ([], rewrap fc)
  | _ =>
      do rs <- mapM (fun i => if i <? 0 then Ok (0, 0)
                              else do a <- get inner i; do b <- get inner (i + 1); Ok (a, b)) ix;
      do fc' <- ranges_content fc rs;
      Ok (offsets_from 0 (lens_of rs), fc')
  end.
Fixpoint fl_fields (d ax : Z) (l : list content) : res (list content) :=
  match l with
  | [] => Ok []
  | x :: xs =>
      do r <- flat_p None x d ax;
      match fst r with
      | [] => do ys <- fl_fields d ax xs; Ok (snd r :: ys)
      | _ => Err EValue
      end
  end.
Definition flat_body (p : option akind) (c : content) (d ax : Z) : res (list Z * content) :=
  if ax =? d then Err EValue else
  match c with
  | Numpy _ _ _ => Err EValue
  | Empty => Ok ([0], Empty)
  | ListOffset w o c' =>
      match o with [] => Err EValue | _ => fl_at_list (flat_p None c' (d + 1) ax) p d ax (pairs o) c' (ListOffset w o) end
  | ListA w s e c' =>
      if zlen e <? zlen s then Err EValue else fl_at_list (flat_p None c' (d + 1) ax) p d ax (zip s e) c' (ListA w s e)
  | Regular c' size zl =>
      do bc <- list_bounds c; fl_at_list (flat_p None c' (d + 1) ax) p d ax (fst bc) c' (fun x => Regular x size zl)
  | Indexed w ix c' => fl_at_option (flat_p None c' d ax) ix (Indexed w ix)
  | IndexedOption w ix c' => fl_at_option (flat_p None c' d ax) ix (IndexedOption w ix)
  | ByteMasked m vw c' => do oi <- option_index c; fl_at_option (flat_p None c' d ax) (fst oi) (ByteMasked m vw)
  | BitMasked m vw lsb n c' => do oi <- option_index c; fl_at_option (flat_p None c' d ax) (fst oi) (BitMasked m vw lsb n)
  | Unmasked c' =>
      do r <- flat_p None c' d ax;
      let (inner, fc) := r in
      match inner with [] => Ok ([], Unmasked fc) | _ => Ok (inner, fc) end
  | Record cs ks n =>
      if ax =? d + 1 then Err EValue else
      do cs' <- fl_fields d ax cs; Ok ([], Record cs' ks n)
  | Union _ _ _ _ => Err EValue
  | Par a r c' => flat_p a c' d ax
  end.
Lemma flat_p_eq p c d axis :
  flat_p p c d axis = do ax <- resolve_axis (type_of_p p c) d axis; flat_body p c d ax.
Proof.
  destruct c; try reflexivity.
  unfold flat_body; cbn [flat_p]. destruct (resolve_axis _ d axis) as [ax|]; [|reflexivity]. cbn [bind].
  destruct (ax =? d); [reflexivity|]. destruct (ax =? d + 1); [reflexivity|]. f_equal.
  induction cs as [|x xs IH]; [reflexivity|]. cbn [fl_fields]. rewrite <- IH. reflexivity.
Qed.

Lemma flat_p_chars k rn dt sh data d axis r :
  flat_p None (Par (Some k) rn (Numpy dt sh data)) d axis = Ok r -> False.
Proof.
  rewrite flat_p_eq. intros H. apply bind_Ok in H as (ax & _ & H). unfold flat_body in H.
  destruct (ax =? d); [discriminate|]. rewrite flat_p_eq in H. apply bind_Ok in H as (ax' & _ & H). unfold flat_body in H.
  destruct (ax' =? d); discriminate.
Qed.

(* ---------------------------------------------------------------- offsets handed upwards *)
Definition sorted_in (inner : list Z) (total : Z) : Prop :=
  forall i j x y, i <= j -> get inner i = Ok x -> get inner j = Ok y -> 0 <= x /\ x <= y /\ y <= total.

Lemma sumZ_nonneg lens : Forall (fun n => 0 <= n) lens -> 0 <= sumZ lens.
Proof. induction 1; unfold sumZ in *; cbn [fold_right]; lia. Qed.
Lemma sumZ_cons n ns : sumZ (n :: ns) = n + sumZ ns.
Proof. reflexivity. Qed.

Lemma offsets_sorted_gen lens : Forall (fun n => 0 <= n) lens -> forall s i j x y,
  i <= j -> get (offsets_from s lens) i = Ok x -> get (offsets_from s lens) j = Ok y ->
  s <= x /\ x <= y /\ y <= s + sumZ lens.
Proof.
  induction 1 as [|n ns Hn Hns IH]; intros s i j x y Hij Hx Hy.
  - cbn [offsets_from] in *. pose proof (get_range _ _ _ Hx) as Rx. pose proof (get_range _ _ _ Hy) as Ry.
    rewrite zlen_cons in Rx, Ry. change (zlen (@nil Z)) with 0 in Rx, Ry. assert (i = 0) by lia. assert (j = 0) by lia. subst.
    rewrite get_cons_0 in *. inversion Hx; inversion Hy; subst. unfold sumZ. cbn [fold_right]. lia.
  - cbn [offsets_from] in *. rewrite sumZ_cons. pose proof (sumZ_nonneg _ Hns) as Hsum.
    pose proof (get_range _ _ _ Hx) as Rx. pose proof (get_range _ _ _ Hy) as Ry.
    destruct (Z.eq_dec i 0) as [->|Hi0].
    + rewrite get_cons_0 in Hx. inversion Hx; subst x. destruct (Z.eq_dec j 0) as [->|Hj0].
      * rewrite get_cons_0 in Hy. inversion Hy; subst. lia.
      * rewrite get_cons_pos in Hy by lia. destruct (IH (s + n) (j - 1) (j - 1) y y) as (A & B & C); [lia|exact Hy|exact Hy|]. lia.
    + rewrite get_cons_pos in Hx by lia. rewrite get_cons_pos in Hy by lia.
      destruct (IH (s + n) (i - 1) (j - 1) x y) as (A & B & C); [lia|exact Hx|exact Hy|]. lia.
Qed.
Lemma offsets_sorted lens total : Forall (fun n => 0 <= n) lens -> sumZ lens <= total ->
  sorted_in (offsets_from 0 lens) total.
Proof.
  intros Hl Hs i j x y Hij Hx Hy. destruct (offsets_sorted_gen lens Hl 0 i j x y Hij Hx Hy) as (A & B & C). lia.
Qed.

Definition rng_ok (lc : Z) (ab : Z * Z) : Prop := 0 <= fst ab /\ fst ab <= snd ab /\ snd ab <= lc.

Lemma lens_of_rng lc bs : Forall (rng_ok lc) bs -> Forall (fun n => 0 <= n) (lens_of bs).
Proof. intros H. apply Forall_map. eapply Forall_impl; [|exact H]. unfold rng_ok. intros ab. lia. Qed.

Lemma zlen_ranges lc bs : Forall (rng_ok lc) bs ->
  zlen (concat (map (fun ab : Z * Z => range (fst ab) (snd ab)) bs)) = sumZ (lens_of bs).
Proof.
  induction 1 as [|ab bs Hab _ IH]; [reflexivity|]. cbn [map concat lens_of]. rewrite zlen_app, IH, sumZ_cons.
  unfold rng_ok in Hab. rewrite zlen_range by lia. reflexivity.
Qed.

(* gathering a list of in-bounds ranges out of a valid layout that has a value *)
Lemma ranges_content_ok c vs bs fc :
  Valid None c -> to_list c = Ok vs -> Forall (rng_ok (clen c)) bs -> ranges_content c bs = Ok fc ->
  Valid None fc /\ (exists ws, to_list fc = Ok ws) /\ clen fc = sumZ (lens_of bs) /\ optionlike fc = optionlike c.
Proof.
  intros HV Hl Hb H. unfold ranges_content in H.
  assert (Hix : Forall (fun i => 0 <= i < clen c) (concat (map (fun ab : Z * Z => range (fst ab) (snd ab)) bs))).
  { apply Forall_forall. intros i Hi. apply in_concat in Hi as (l & Hl' & Hi). apply in_map_iff in Hl' as (ab & <- & Hab).
    apply range_In in Hi. rewrite Forall_forall in Hb. specialize (Hb ab Hab). unfold rng_ok in Hb. lia. }
  split; [eapply carry_valid; eassumption|].
  destruct (carry_spec c vs _ HV Hl Hix) as (c3 & Hc3 & Hl3 & Hn3). rewrite H in Hc3. inversion Hc3; subst c3.
  split; [|split; [rewrite Hn3; eapply zlen_ranges; exact Hb|apply (carry_class _ _ _ H)]].
  rewrite Hl3. apply gather_ok. rewrite (to_list_len _ _ Hl). exact Hix.
Qed.

(* ---------------------------------------------------------------- the invariant of [flat_p] *)
Definition flat_ok (c : content) (r : list Z * content) : Prop :=
  Valid None (snd r) /\
  match fst r with
  | [] => clen c <= clen (snd r) /\ (optionlike c = false -> optionlike (snd r) = false)
  | _ => sorted_in (fst r) (clen (snd r)) /\ exists ws, to_list (snd r) = Ok ws
  end.

Definition rewrap_ok (c c' : content) (rewrap : content -> content) : Prop :=
  forall fc, Valid None fc -> clen c' <= clen fc -> (optionlike c' = false -> optionlike fc = false) ->
  Valid None (rewrap fc) /\ clen c <= clen (rewrap fc) /\ (optionlike c = false -> optionlike (rewrap fc) = false).

Definition squash (b : list (Z * Z)) : list (Z * Z) := map (fun ab : Z * Z => if fst ab =? snd ab then (0, 0) else ab) b.
Lemma squash_rng lc b : 0 <= lc -> Forall (pair_ok lc) b -> Forall (rng_ok lc) (squash b) /\ lens_of (squash b) = lens_of b.
Proof.
  intros Hlc H. induction H as [|ab b Hab _ [IH1 IH2]]; [split; [constructor|reflexivity]|].
  unfold squash in *. cbn [map lens_of]. unfold lens_of in IH2. rewrite IH2. unfold pair_ok, rng_ok in *.
  destruct (fst ab =? snd ab) eqn:E; cbn [fst snd]; (split; [constructor; [cbn [fst snd]; lia|exact IH1]|f_equal; lia]).
Qed.

Lemma remap_pairs inner total : sorted_in inner total -> forall b s e,
  Forall (fun ab : Z * Z => fst ab <= snd ab) b ->
  remap inner (map fst b) = Ok s -> remap inner (map snd b) = Ok e ->
  Forall (pair_ok total) (zip s e) /\ zlen s = zlen b /\ zlen e = zlen b.
Proof.
  intros Hs. unfold remap. induction b as [|ab b IH]; intros s e Hb H1 H2.
  - cbn [map mapM] in *. inversion H1; inversion H2; subst. repeat split; constructor.
  - cbn [map mapM] in *. apply bind_Ok in H1 as (x & Hx & H1). apply bind_Ok in H1 as (s' & Hs' & H1). inversion H1; subst.
    apply bind_Ok in H2 as (y & Hy & H2). apply bind_Ok in H2 as (e' & He' & H2). inversion H2; subst.
    inversion Hb as [|? ? Hab Hb']; subst. destruct (IH s' e' Hb' Hs' He') as (A & B & C).
    cbn [zip]. rewrite !zlen_cons, B, C. split; [|split; reflexivity].
    constructor; [|exact A]. destruct (Hs _ _ _ _ Hab Hx Hy) as (P1 & P2 & P3). right. cbn [fst snd]. lia.
Qed.

Lemma at_list_ok rec p d ax b c c' vs0 rewrap r :
  Valid p c -> list_content c = Some c' -> Forall (pair_ok (clen c')) b -> clen c <= zlen b ->
  (is_strk p = false -> Valid None c') -> ParamOk p c -> to_list c' = Ok vs0 ->
  (rec = flat_p None c' (d + 1) ax) ->
  (forall r0, rec = Ok r0 -> Valid None c' -> flat_ok c' r0) ->
  rewrap_ok c c' rewrap ->
  fl_at_list rec p d ax b c' rewrap = Ok r -> flat_ok c r.
Proof.
  intros HV Hc Hb Hn Hvc Hp Hl0 Hrec IH Hrw H. subst rec. unfold fl_at_list in H.
  pose proof (to_list_len _ _ Hl0) as Hlen. pose proof (zlen_nonneg vs0) as Hnn.
  destruct (squash_rng (clen c') b ltac:(lia) Hb) as [Hsq Hsl]. fold (squash b) in H.
  destruct (ax =? d + 1) eqn:E.
  - destruct (is_strk p) eqn:Es; [discriminate|]. specialize (Hvc eq_refl).
    apply bind_Ok in H as (fc & Hfc & H). inversion H; subst r.
    destruct (ranges_content_ok _ _ _ _ Hvc Hl0 Hsq Hfc) as (X1 & X2 & X3 & _).
    split; [exact X1|]. cbn [fst snd]. destruct (offsets_from 0 (lens_of b)) eqn:Eo; [exfalso; eapply offsets_from_nonempty, Eo|].
    rewrite <- Eo. split; [|exact X2]. apply offsets_sorted; [eapply lens_of_nonneg, Hb|rewrite X3, Hsl; lia].
  - apply bind_Ok in H as ([inner fc] & Hr & H).
    assert (HVc : Valid None c').
    { destruct (is_strk p) eqn:Es; [|auto]. exfalso.
      destruct (ParamOk_str _ _ Hp Es) as (c0 & k & rn & n & dd & Hc0 & -> & _). rewrite Hc in Hc0. inversion Hc0; subst.
      eapply flat_p_chars, Hr. }
    destruct (IH _ Hr HVc) as (Y1 & Y2). cbn [fst snd] in Y1, Y2.
    destruct inner as [|i0 inner'].
    + inversion H; subst r. destruct Y2 as (Y2 & Y3). destruct (Hrw fc Y1 Y2 Y3) as (Z1 & Z2 & Z3).
      split; [exact Z1|]. cbn [fst snd]. split; assumption.
    + destruct Y2 as (Y2 & _). apply bind_Ok in H as (s & Hs & H). apply bind_Ok in H as (e & He & H). inversion H; subst r.
      destruct (remap_pairs _ _ Y2 (squash b) s e) as (A & B & C); [|exact Hs|exact He|].
      { eapply Forall_impl; [|exact Hsq]. unfold rng_ok. intros ab. lia. }
      unfold squash in B, C. rewrite zlen_map in B, C.
      split; [constructor; [exact I|lia|exact A|intros _; exact Y1]|]. cbn [fst snd clen].
      split; [lia|reflexivity].
Qed.

Lemma at_option_ok rec ix c c' rewrap r :
  (forall r0, rec = Ok r0 -> flat_ok c' r0) -> rewrap_ok c c' rewrap -> optionlike c = true ->
  fl_at_option rec ix rewrap = Ok r -> flat_ok c r.
Proof.
  intros IH Hrw Hoc H. unfold fl_at_option in H. apply bind_Ok in H as ([inner fc] & Hr & H).
  destruct (IH _ Hr) as (Y1 & Y2). cbn [fst snd] in Y1, Y2. destruct inner as [|i0 inner'].
  - inversion H; subst r. destruct Y2 as (Y2 & Y3). destruct (Hrw fc Y1 Y2 Y3) as (Z1 & Z2 & Z3).
    split; [exact Z1|]. cbn [fst snd]. split; assumption.
  - destruct Y2 as (Y2 & ws & Hws). apply bind_Ok in H as (rs & Hrs & H). apply bind_Ok in H as (fc' & Hfc' & H). inversion H; subst r.
    assert (Hrng : Forall (rng_ok (clen fc)) rs).
    { apply Forall_forall. intros ab Hab. destruct (mapM_In_inv _ _ _ _ Hrs Hab) as (i & _ & Hi).
      pose proof (to_list_len _ _ Hws) as Hlen. pose proof (zlen_nonneg ws).
      destruct (i <? 0); [inversion Hi; subst; unfold rng_ok; cbn [fst snd]; lia|].
      apply bind_Ok in Hi as (a & Ha & Hi). apply bind_Ok in Hi as (b & Hb & Hi). inversion Hi; subst.
      destruct (Y2 i (i + 1) a b ltac:(lia) Ha Hb) as (P1 & P2 & P3). unfold rng_ok. cbn [fst snd]. lia. }
    destruct (ranges_content_ok _ _ _ _ Y1 Hws Hrng Hfc') as (X1 & X2 & X3 & _).
    split; [exact X1|]. cbn [fst snd]. destruct (offsets_from 0 (lens_of rs)) eqn:Eo; [exfalso; eapply offsets_from_nonempty, Eo|].
    rewrite <- Eo. split; [|exact X2]. apply offsets_sorted; [eapply lens_of_rng, Hrng|lia].
Qed.

Lemma fl_fields_inv d ax : forall cs cs', fl_fields d ax cs = Ok cs' ->
  Forall2 (fun x y => flat_p None x d ax = Ok ([], y)) cs cs'.
Proof.
  induction cs as [|x xs IH]; intros cs' H; cbn [fl_fields] in H.
  - inversion H. constructor.
  - apply bind_Ok in H as ([inner fc] & Hr & H). cbn [fst snd] in H. destruct inner; [|discriminate].
    apply bind_Ok in H as (ys & Hys & H). inversion H; subst. constructor; [exact Hr|apply IH, Hys].
Qed.

Lemma Forall2_impl_In {A B} (R P : A -> B -> Prop) l l' :
  Forall2 R l l' -> (forall x y, In x l -> R x y -> P x y) -> Forall2 P l l'.
Proof.
  induction 1 as [|a b l l' Hab _ IH]; intros HP; constructor.
  - apply HP; [left; reflexivity|exact Hab].
  - apply IH. intros x y Hx. apply HP. right. exact Hx.
Qed.

Lemma rewrap_opt c c' rewrap :
  optionlike c = true -> optionlike c' = false ->
  (forall fc, Valid None fc -> clen c' <= clen fc -> optionlike fc = false -> Valid None (rewrap fc) /\ clen c <= clen (rewrap fc)) ->
  rewrap_ok c c' rewrap.
Proof.
  intros Hc Hc' H fc HV Hn Ho. destruct (H fc HV Hn (Ho Hc')) as [A B]. split; [exact A|]. split; [exact B|]. rewrite Hc. discriminate.
Qed.

Lemma flat_valid_all c : forall p d axis r vs,
  Valid p c -> to_list c = Ok vs -> flat_p p c d axis = Ok r -> flat_ok c r.
Proof.
  induction c as [dt shape data| |w o c IHc|w s e c IHc|c size zl IHc|w ix c IHc|w ix c IHc|m vw c IHc
                 |m vw lsb n c IHc|c IHc|w t ix cs IHcs|cs ks n IHcs|arr rn c IHc] using content_ind';
    intros p d axis r vs HV Hl H; pose proof HV as HV0; inversion HV; subst;
    rewrite flat_p_eq in H; apply bind_Ok in H as (ax & _ & H); unfold flat_body in H;
    (destruct (ax =? d) eqn:Ed; [discriminate|]); try discriminate.
  - (* Empty *)
    inversion H; subst r. split; [constructor; exact I|]. cbn [fst snd clen]. split; [|exists []; reflexivity].
    intros i j x y _ Hx Hy. apply get_In in Hx. apply get_In in Hy. destruct Hx as [<-|[]]. destruct Hy as [<-|[]]. lia.
  - (* ListOffset *)
    destruct o as [|a o']; [discriminate|]. rewrite to_list_ListOffset in Hl. apply bind_Ok in Hl as (vs0 & Hl0 & _).
    eapply (at_list_ok _ p d ax (pairs (a :: o')) (ListOffset w (a :: o') c) c vs0); try eassumption; try reflexivity.
    + cbn [clen]. rewrite zlen_pairs by discriminate. lia.
    + intros r0 Hr0 HVc. eapply IHc; eassumption.
    + intros fc HVf Hn _. split; [|split; [cbn [clen]; lia|reflexivity]].
      constructor; [exact I|assumption| |intros _; exact HVf].
      match goal with Hq : Forall (pair_ok (clen c)) _ |- _ => eapply Forall_impl; [|exact Hq] end. intros ab. apply pair_ok_mono, Hn.
  - (* ListA *)
    destruct (zlen e <? zlen s) eqn:Ez; [discriminate|]. rewrite to_list_ListA in Hl. apply bind_Ok in Hl as (vs0 & Hl0 & _).
    eapply (at_list_ok _ p d ax (zip s e) (ListA w s e c) c vs0); try eassumption; try reflexivity.
    + cbn [clen]. rewrite zlen_zip. lia.
    + intros r0 Hr0 HVc. eapply IHc; eassumption.
    + intros fc HVf Hn _. split; [|split; [cbn [clen]; lia|reflexivity]].
      constructor; [exact I|assumption| |intros _; exact HVf].
      match goal with Hq : Forall (pair_ok (clen c)) _ |- _ => eapply Forall_impl; [|exact Hq] end. intros ab. apply pair_ok_mono, Hn.
  - (* Regular *)
    apply bind_Ok in H as ([b cc] & Hb & H). cbn [fst] in H.
    destruct (list_bounds_valid _ _ _ _ HV0 Hb) as (Hcc & Hn & Hp & Hvc). cbn [list_content] in Hcc. inversion Hcc; subst cc.
    rewrite to_list_Regular in Hl. apply bind_Ok in Hl as (vs0 & Hl0 & _).
    eapply (at_list_ok _ p d ax b (Regular c size zl) c vs0); try eassumption; try reflexivity.
    + intros r0 Hr0 HVc. eapply IHc; eassumption.
    + intros fc HVf Hn' _. split; [constructor; [exact I|assumption|assumption|intros _; exact HVf]|]. split; [|reflexivity].
      cbn [clen]. destruct (size =? 0) eqn:Ez; [lia|]. apply Z.div_le_mono; lia.
  - (* Indexed *)
    rewrite to_list_Indexed in Hl. apply bind_Ok in Hl as (vs0 & Hl0 & _).
    eapply (at_option_ok _ ix (Indexed w ix c) c); [|apply rewrap_opt; [reflexivity|assumption|]|reflexivity|exact H].
    + intros r0 Hr0. eapply (IHc None); eassumption.
    + intros fc HVf Hn Ho. split; [|cbn [clen]; lia]. constructor; [exact I| |exact Ho|exact HVf].
      match goal with Hq : Forall _ ix |- _ => eapply Forall_impl; [|exact Hq] end. cbv beta. intros i Hi. lia.
  - (* IndexedOption *)
    rewrite to_list_IndexedOption in Hl. apply bind_Ok in Hl as (vs0 & Hl0 & _).
    eapply (at_option_ok _ ix (IndexedOption w ix c) c); [|apply rewrap_opt; [reflexivity|assumption|]|reflexivity|exact H].
    + intros r0 Hr0. eapply (IHc None); eassumption.
    + intros fc HVf Hn Ho. split; [|cbn [clen]; lia]. constructor; [exact I| |exact Ho|exact HVf].
      match goal with Hq : Forall _ ix |- _ => eapply Forall_impl; [|exact Hq] end. cbv beta. intros i Hi. lia.
  - (* ByteMasked *)
    apply bind_Ok in H as (oi & _ & H). rewrite to_list_ByteMasked in Hl. apply bind_Ok in Hl as (vs0 & Hl0 & _).
    eapply (at_option_ok _ (fst oi) (ByteMasked m vw c) c); [|apply rewrap_opt; [reflexivity|assumption|]|reflexivity|exact H].
    + intros r0 Hr0. eapply (IHc None); eassumption.
    + intros fc HVf Hn Ho. split; [|cbn [clen]; lia]. constructor; [exact I|lia|exact Ho|exact HVf].
  - (* BitMasked *)
    apply bind_Ok in H as (oi & _ & H). rewrite to_list_BitMasked in Hl. apply bind_Ok in Hl as (vs0 & Hl0 & _).
    eapply (at_option_ok _ (fst oi) (BitMasked m vw lsb n c) c); [|apply rewrap_opt; [reflexivity|assumption|]|reflexivity|exact H].
    + intros r0 Hr0. eapply (IHc None); eassumption.
    + intros fc HVf Hn Ho. split; [|cbn [clen]; lia]. constructor; [exact I|assumption|assumption|lia|exact Ho|exact HVf].
  - (* Unmasked *)
    apply bind_Ok in H as ([inner fc] & Hr & H). rewrite to_list_Unmasked in Hl.
    match goal with HVc : Valid None c |- _ => destruct (IHc None _ _ _ _ HVc Hl Hr) as (Y1 & Y2) end. cbn [fst snd] in Y1, Y2.
    destruct inner as [|i0 inner'].
    + inversion H; subst r. destruct Y2 as (Y2 & Y3). split; [constructor; [exact I|auto|exact Y1]|]. cbn [fst snd clen].
      split; [exact Y2|discriminate].
    + inversion H; subst r. split; [exact Y1|exact Y2].
  - (* Record *)
    destruct (ax =? d + 1); [discriminate|]. apply bind_Ok in H as (cs' & Hcs' & H). inversion H; subst r.
    apply fl_fields_inv in Hcs'. rewrite to_list_Record in Hl. apply bind_Ok in Hl as (vss & Hvss & _). rewrite all_lists_mapM in Hvss.
    match goal with HVs : Forall (Valid None) cs |- _ => rename HVs into HVs0 end.
    assert (HF : Forall2 (fun x y => Valid None y /\ clen x <= clen y) cs cs').
    { eapply Forall2_impl_In; [exact Hcs'|]. cbv beta. intros x y Hx Hxy. rewrite Forall_forall in IHcs, HVs0.
      destruct (mapM_Ok_In _ _ _ _ Hvss Hx) as (col & Hcol & _).
      destruct (IHcs x Hx None _ _ _ _ (HVs0 x Hx) Hcol Hxy) as (Y1 & Y2 & _). cbn [fst snd] in *. auto. }
    split; [|cbn [fst snd clen]; split; [lia|reflexivity]]. cbn [snd].
    constructor; [exact I|assumption| | |].
    + match goal with Hn : Forall (fun x => n <= clen x) cs |- _ => rewrite Forall_forall in Hn; rename Hn into Hn0 end.
      eapply Forall2_Forall_r; [exact HF|]. cbv beta. intros x y Hx (_ & X2). specialize (Hn0 x Hx). lia.
    + intros k Hk. rewrite (Forall2_length _ _ _ HF). auto.
    + eapply Forall2_Forall_r; [exact HF|]. cbv beta. intros x y _ (X1 & _). exact X1.
  - (* Par *)
    rewrite to_list_Par in Hl. apply bind_Ok in Hl as (vs0 & Hl0 & _).
    match goal with HVc : Valid arr c |- _ => destruct (IHc arr _ _ _ _ HVc Hl0 H) as (Y1 & Y2) end.
    split; [exact Y1|]. destruct (fst r); [|exact Y2]. cbn [clen]. rewrite optionlike_Par. exact Y2.
Qed.

(* no fragment needed beyond "the input has a value" (implied by [chars_ok]); unions make the model fail *)
Theorem flatten_preserves_valid : forall axis c vs c',
  Valid None c -> to_list c = Ok vs -> flatten_model axis c = Ok c' -> Valid None c'.
Proof.
  intros axis c vs c' HV Hl H. unfold flatten_model in H. apply bind_Ok in H as (r & Hr & H). inversion H; subst.
  rewrite <- (expand_to_list_p c None HV) in Hl.
  exact (proj1 (flat_valid_all (expand c) None 0 axis r vs (expand_valid_p c None HV) Hl Hr)).
Qed.
Corollary flatten_preserves_valid_chars : forall axis c c',
  Valid None c -> chars_ok c = true -> flatten_model axis c = Ok c' -> Valid None c'.
Proof.
  intros axis c c' HV Hc H. destruct (valid_to_list_total_partial c None HV Hc) as [vs Hl].
  eapply flatten_preserves_valid; eassumption.
Qed.

Example flatten_preserves_valid_ex :
  let c := IndexedOption I64 [1; -1; 0]
             (ListOffset I64 [0; 2; 3]
                (ByteMasked [1; 0; 1] true
                   (ListA I64 [0; 4; 1] [1; 4; 3]
                      (Record [Numpy DInt64 [3; 1] [DZ 1; DZ 2; DZ 3]; Numpy DFloat64 [3] [DZ 7; DNaN; DZ 9]] (Some [[120]; [121]]) 3)))) in
  valid_b c = true /\ chars_ok c = true /\
  (do r <- flatten_model 1 c; Ok (valid_b r)) = Ok true /\
  (do r <- flatten_model 2 c; Ok (valid_b r)) = Ok true.
Proof. vm_compute. repeat split. Qed.
