(** Slicing, part 6: the several-fields item.  [fields_content] / [projs_ty] / [projs_v]: same development as
    part 5 (the node-by-node descent is identical; the record case builds the sub-record). *)
From Coq Require Import ZArith List Bool Lia ZifyBool.
From AwkV Require Import Base Layout LayoutInd Valid Types AtAxis Carry Ops_Getitem Typing Proofs_Typing
                         Proofs_Lists Proofs_ToList Proofs_Carry Proofs_CarryValid Proofs_AtAxis Proofs_AtAxisOps
                         Proofs_C01 Proofs_Getitem Proofs_Getitem2 Proofs_Getitem3 Proofs_Getitem4 Proofs_Getitem5.
Import ListNotations.
Open Scope Z_scope.
Ltac Zify.zify_post_hook ::= Z.to_euclidean_division_equations.

Lemma projs_v_list ks sz t l : projs_v ks (TList sz None t) (VList l) = rmap VList (mapM (projs_v ks t) l).
Proof. reflexivity. Qed.
Lemma projs_v_opt ks t v : projs_v ks (TOpt t) v = optF (projs_v ks t) v.
Proof. cbn [projs_v optF]. destruct v; reflexivity. Qed.

(* ---------------------------------------------------------------- the projection of a layout *)
Definition FCSres (ks : list name) (c : content) (xs : list value) : Prop :=
  match fields_content ks c with
  | Ok f => projs_ty ks (type_of c) = Ok (type_of f) /\
            (exists ys, mapM (projs_v ks (type_of c)) xs = Ok ys /\ to_list f = Ok ys) /\
            Valid None f /\ gfrag f = true
  | Err e => e = EValue /\ projs_ty ks (type_of c) = Err EValue
  end.

Lemma fcs_class ks c : forall f,
  rec_fields_ok c = true -> fields_content ks c = Ok f ->
  rec_fields_ok f = true /\ (optionlike c = false -> optionlike f = false).
Proof.
  induction c using content_ind'; intros f Hr Hf; cbn [fields_content] in Hf; try discriminate;
    try (apply rmap_Ok in Hf as (? & _ & ->); split; [reflexivity|auto]).
  - cbn [rec_fields_ok] in Hr. apply rec_fields_ok_all in Hr.
    apply bind_Ok in Hf as (fs & Hfs & Hf). inversion Hf; subst. split; [|reflexivity].
    cbn [rec_fields_ok]. apply rec_fields_ok_all. apply Forall_forall. intros x Hx.
    destruct (mapM_In_inv _ _ _ _ Hfs Hx) as (k & _ & Hk). apply bind_Ok in Hk as (i & _ & Hk). apply get_In in Hk.
    rewrite Forall_forall in Hr. apply Hr, Hk.
  - destruct arr; [discriminate|]. cbn [rec_fields_ok] in Hr. rewrite optionlike_Par. eapply IHc; eassumption.
Qed.

Lemma fields_content_spec ks c : forall xs, Valid None c -> gfrag c = true -> to_list c = Ok xs -> FCSres ks c xs.
Proof.
  unfold FCSres.
  induction c as [dt shape data| |w o c IHc|w s e c IHc|c size zl IHc|w ix c IHc|w ix c IHc|m vw c IHc
                 |m vw lsb n c IHc|c IHc|w t ix cs IHcs|cs rk n IHcs|arr rn c IHc] using content_ind';
    intros xs HV Hfr Hl; cbn [fields_content].
  - (* Numpy *) cbn [gfrag] in Hfr. destruct shape as [|? [|? ?]]; try discriminate. split; reflexivity.
  - (* Empty *) split; reflexivity.
  - (* ListOffset *)
    inversion HV; subst. rewrite to_list_ListOffset in Hl. apply bind_Ok in Hl as (vs0 & Hl0 & Hl).
    apply rmap_Ok in Hl as (ls & Hcut & ->).
    match goal with H : is_strk None = false -> Valid None c |- _ => pose proof (H eq_refl) as HVc end.
    specialize (IHc vs0 HVc Hfr Hl0). cbn [type_of type_of_p strflag projs_ty]. fold (type_of c).
    destruct (fields_content ks c) as [f'|e]; cbn [rmap].
    + destruct IHc as (Ht & (ys0 & Hys0 & Hlf) & HVf & Hff). rewrite Ht. cbn [rmap]. split; [reflexivity|].
      unfold cut in Hcut. destruct o as [|o0 o']; [discriminate|].
      destruct (cuts_mapM _ vs0 ys0 _ ls Hys0 Hcut) as (ls' & Hcut' & Hm).
      split; [|split].
      * exists (map VList ls'). split; [rewrite mapM_map; exact Hm|]. rewrite to_list_ListOffset, Hlf. cbn [bind cut]. rewrite Hcut'. reflexivity.
      * apply V_ListOffset; [exact I|assumption| |intros _; exact HVf].
        rewrite <- (to_list_len _ _ Hlf), (mapM_zlen _ _ _ Hys0), (to_list_len _ _ Hl0). assumption.
      * exact Hff.
    + destruct IHc as [-> ->]. split; reflexivity.
  - (* ListA *)
    inversion HV; subst. rewrite to_list_ListA in Hl. apply bind_Ok in Hl as (vs0 & Hl0 & Hl).
    apply rmap_Ok in Hl as (ls & Hcut & ->).
    match goal with H : is_strk None = false -> Valid None c |- _ => pose proof (H eq_refl) as HVc end.
    specialize (IHc vs0 HVc Hfr Hl0). cbn [type_of type_of_p strflag projs_ty]. fold (type_of c).
    destruct (fields_content ks c) as [f'|e0]; cbn [rmap].
    + destruct IHc as (Ht & (ys0 & Hys0 & Hlf) & HVf & Hff). rewrite Ht. cbn [rmap]. split; [reflexivity|].
      unfold cut2 in Hcut. destruct (zlen e <? zlen s) eqn:Ez; [discriminate|].
      destruct (cuts_mapM _ vs0 ys0 _ ls Hys0 Hcut) as (ls' & Hcut' & Hm).
      split; [|split].
      * exists (map VList ls'). split; [rewrite mapM_map; exact Hm|]. rewrite to_list_ListA, Hlf. cbn [bind]. unfold cut2. rewrite Ez, Hcut'. reflexivity.
      * apply V_ListA; [exact I|assumption| |intros _; exact HVf].
        rewrite <- (to_list_len _ _ Hlf), (mapM_zlen _ _ _ Hys0), (to_list_len _ _ Hl0). assumption.
      * exact Hff.
    + destruct IHc as [-> ->]. split; reflexivity.
  - (* Regular *)
    inversion HV; subst. rewrite to_list_Regular in Hl. apply bind_Ok in Hl as (vs0 & Hl0 & Hl).
    apply rmap_Ok in Hl as (ch & Hch & ->).
    match goal with H : is_strk None = false -> Valid None c |- _ => pose proof (H eq_refl) as HVc end.
    specialize (IHc vs0 HVc Hfr Hl0). cbn [type_of type_of_p strflag projs_ty]. fold (type_of c).
    destruct (fields_content ks c) as [f'|e0]; cbn [rmap].
    + destruct IHc as (Ht & (ys0 & Hys0 & Hlf) & HVf & Hff). rewrite Ht. cbn [rmap]. split; [reflexivity|].
      pose proof (chunks_as_cuts _ _ _ _ Hch) as Hcut.
      destruct (cuts_mapM _ vs0 ys0 _ ch Hys0 Hcut) as (ls' & Hcut' & Hm).
      destruct (chunks_same_shape vs0 ys0 size zl ch Hch (mapM_zlen _ _ _ Hys0)) as (ch' & Hch' & Hz').
      pose proof (chunks_as_cuts _ _ _ _ Hch') as Hcut''. rewrite Hz', Hcut' in Hcut''. inversion Hcut''; subst ch'.
      split; [|split].
      * exists (map VList ls'). split; [rewrite mapM_map; exact Hm|]. rewrite to_list_Regular, Hlf. cbn [bind]. rewrite Hch'. reflexivity.
      * apply V_Regular; [exact I|assumption|assumption|intros _; exact HVf].
      * exact Hff.
    + destruct IHc as [-> ->]. split; reflexivity.
  - (* Indexed *)
    inversion HV; subst. rewrite to_list_Indexed in Hl. apply bind_Ok in Hl as (vs0 & Hl0 & Hl).
    cbn [gfrag] in Hfr. apply andb_true_iff in Hfr as [Hrf Hfr].
    specialize (IHc vs0 ltac:(assumption) Hfr Hl0). cbn [type_of type_of_p]. fold (type_of c).
    destruct (fields_content ks c) as [f'|e0] eqn:Ef; cbn [rmap].
    + destruct IHc as (Ht & (ys0 & Hys0 & Hlf) & HVf & Hff). split; [exact Ht|].
      pose proof (mapM_gather_ok _ _ _ ix xs Hys0 Hl) as Hg.
      destruct (gather_ok ys0 ix) as [xs' Hxs'].
      { rewrite (mapM_zlen _ _ _ Hys0), (to_list_len _ _ Hl0). assumption. }
      split; [|split].
      * exists xs'. rewrite Hg. split; [exact Hxs'|]. rewrite to_list_Indexed, Hlf. exact Hxs'.
      * apply V_Indexed; [exact I| |eapply (fcs_class ks c f' Hrf Ef); assumption|exact HVf].
        rewrite <- (to_list_len _ _ Hlf), (mapM_zlen _ _ _ Hys0), (to_list_len _ _ Hl0). assumption.
      * cbn [gfrag]. rewrite Hff, andb_true_r. apply (fcs_class ks c f' Hrf Ef).
    + destruct IHc as [-> ->]. split; reflexivity.
  - (* IndexedOption *)
    inversion HV; subst. rewrite to_list_IndexedOption in Hl. apply bind_Ok in Hl as (vs0 & Hl0 & Hl).
    cbn [gfrag] in Hfr. apply andb_true_iff in Hfr as [Hrf Hfr].
    match goal with H : Valid None c |- _ => rename H into HVc end.
    match goal with H : optionlike c = false |- _ => rename H into Hno end.
    specialize (IHc vs0 HVc Hfr Hl0). cbn [type_of type_of_p projs_ty]. fold (type_of c).
    destruct (fields_content ks c) as [f'|e0] eqn:Ef; cbn [rmap].
    + destruct IHc as (Ht & (ys0 & Hys0 & Hlf) & HVf & Hff). rewrite Ht. cbn [rmap]. split; [reflexivity|].
      pose proof (nonone_values c vs0 HVc (gfrag_frag1 _ Hfr) Hno Hl0) as Hnn.
      destruct (mapM_square (fun i => pick_opt vs0 (0 <=? i) i) (fun i => pick_opt ys0 (0 <=? i) i) (optF (projs_v ks (type_of c))) ix xs) as (xs' & Hp1 & Hp2); [|exact Hl|].
      { intros i v _ Hv. eapply pick_square; eassumption. }
      split; [|split].
      * exists xs'. split; [|rewrite to_list_IndexedOption, Hlf; exact Hp1].
        rewrite <- Hp2. apply mapM_ext_in. intros v _. apply projs_v_opt.
      * apply V_IndexedOption; [exact I| |eapply (fcs_class ks c f' Hrf Ef); assumption|exact HVf].
        rewrite <- (to_list_len _ _ Hlf), (mapM_zlen _ _ _ Hys0), (to_list_len _ _ Hl0). assumption.
      * cbn [gfrag]. rewrite Hff, andb_true_r. apply (fcs_class ks c f' Hrf Ef).
    + destruct IHc as [-> ->]. split; reflexivity.
  - (* ByteMasked *)
    inversion HV; subst. rewrite to_list_ByteMasked in Hl. apply bind_Ok in Hl as (vs0 & Hl0 & Hl).
    cbn [gfrag] in Hfr. apply andb_true_iff in Hfr as [Hrf Hfr].
    match goal with H : Valid None c |- _ => rename H into HVc end.
    match goal with H : optionlike c = false |- _ => rename H into Hno end.
    specialize (IHc vs0 HVc Hfr Hl0). cbn [type_of type_of_p projs_ty]. fold (type_of c).
    destruct (fields_content ks c) as [f'|e0] eqn:Ef; cbn [rmap].
    + destruct IHc as (Ht & (ys0 & Hys0 & Hlf) & HVf & Hff). rewrite Ht. cbn [rmap]. split; [reflexivity|].
      pose proof (nonone_values c vs0 HVc (gfrag_frag1 _ Hfr) Hno Hl0) as Hnn.
      destruct (mapM_square (fun im : Z * Z => let (i, b) := im in pick_opt vs0 (Bool.eqb (negb (b =? 0)) vw) i)
                  (fun im : Z * Z => let (i, b) := im in pick_opt ys0 (Bool.eqb (negb (b =? 0)) vw) i)
                  (optF (projs_v ks (type_of c))) (zip (iota (zlen m)) m) xs) as (xs' & Hp1 & Hp2); [|exact Hl|].
      { intros [i b] v _ Hv. eapply pick_square; eassumption. }
      split; [|split].
      * exists xs'. split; [|rewrite to_list_ByteMasked, Hlf; exact Hp1].
        rewrite <- Hp2. apply mapM_ext_in. intros v _. apply projs_v_opt.
      * apply V_ByteMasked; [exact I| |eapply (fcs_class ks c f' Hrf Ef); assumption|exact HVf].
        rewrite <- (to_list_len _ _ Hlf), (mapM_zlen _ _ _ Hys0), (to_list_len _ _ Hl0). assumption.
      * cbn [gfrag]. rewrite Hff, andb_true_r. apply (fcs_class ks c f' Hrf Ef).
    + destruct IHc as [-> ->]. split; reflexivity.
  - (* BitMasked *)
    inversion HV; subst. rewrite to_list_BitMasked in Hl. apply bind_Ok in Hl as (vs0 & Hl0 & Hl).
    destruct (n <? 0) eqn:En; [discriminate|].
    cbn [gfrag] in Hfr. apply andb_true_iff in Hfr as [Hrf Hfr].
    match goal with H : Valid None c |- _ => rename H into HVc end.
    match goal with H : optionlike c = false |- _ => rename H into Hno end.
    specialize (IHc vs0 HVc Hfr Hl0). cbn [type_of type_of_p projs_ty]. fold (type_of c).
    destruct (fields_content ks c) as [f'|e0] eqn:Ef; cbn [rmap].
    + destruct IHc as (Ht & (ys0 & Hys0 & Hlf) & HVf & Hff). rewrite Ht. cbn [rmap]. split; [reflexivity|].
      pose proof (nonone_values c vs0 HVc (gfrag_frag1 _ Hfr) Hno Hl0) as Hnn.
      destruct (mapM_square (fun i => do b <- bit_at m lsb i; pick_opt vs0 (Bool.eqb b vw) i)
                  (fun i => do b <- bit_at m lsb i; pick_opt ys0 (Bool.eqb b vw) i)
                  (optF (projs_v ks (type_of c))) (iota n) xs) as (xs' & Hp1 & Hp2); [|exact Hl|].
      { intros i v _ Hv. destruct (bit_at m lsb i) as [b|]; cbn [bind] in Hv |- *; [|discriminate]. eapply pick_square; eassumption. }
      split; [|split].
      * exists xs'. split; [|rewrite to_list_BitMasked, Hlf; cbn [bind]; rewrite En; exact Hp1].
        rewrite <- Hp2. apply mapM_ext_in. intros v _. apply projs_v_opt.
      * apply V_BitMasked; [exact I|assumption|assumption| |eapply (fcs_class ks c f' Hrf Ef); assumption|exact HVf].
        rewrite <- (to_list_len _ _ Hlf), (mapM_zlen _ _ _ Hys0), (to_list_len _ _ Hl0). assumption.
      * cbn [gfrag]. rewrite Hff, andb_true_r. apply (fcs_class ks c f' Hrf Ef).
    + destruct IHc as [-> ->]. split; reflexivity.
  - (* Unmasked *)
    inversion HV; subst. rewrite to_list_Unmasked in Hl.
    cbn [gfrag] in Hfr. apply andb_true_iff in Hfr as [Hrf Hfr].
    match goal with H : Valid None c |- _ => rename H into HVc end.
    match goal with H : optionlike c = false |- _ => rename H into Hno end.
    specialize (IHc xs HVc Hfr Hl). cbn [type_of type_of_p projs_ty]. fold (type_of c).
    destruct (fields_content ks c) as [f'|e0] eqn:Ef; cbn [rmap].
    + destruct IHc as (Ht & (ys0 & Hys0 & Hlf) & HVf & Hff). rewrite Ht. cbn [rmap]. split; [reflexivity|].
      pose proof (nonone_values c xs HVc (gfrag_frag1 _ Hfr) Hno Hl) as Hnn.
      split; [|split].
      * exists ys0. split; [|rewrite to_list_Unmasked; exact Hlf].
        rewrite <- (optF_nonone _ _ _ Hys0 Hnn). apply mapM_ext_in. intros v _. apply projs_v_opt.
      * apply V_Unmasked; [exact I|eapply (fcs_class ks c f' Hrf Ef); assumption|exact HVf].
      * cbn [gfrag]. rewrite Hff, andb_true_r. apply (fcs_class ks c f' Hrf Ef).
    + destruct IHc as [-> ->]. split; reflexivity.
  - (* Union *) discriminate.
  - (* Record *)
    inversion HV; subst. rewrite to_list_Record, all_lists_mapM in Hl. apply bind_Ok in Hl as (vss & Hvss & Hl).
    destruct (n <? 0) eqn:En; [discriminate|].
    match goal with H : Forall (Valid None) cs |- _ => rename H into HVs end.
    match goal with H : Forall (fun x => n <= clen x) cs |- _ => rename H into Hns end.
    match goal with H : forall k0, rk = Some k0 -> length k0 = length cs |- _ => rename H into Hks end.
    apply gfrag_Record in Hfr.
    cbn [type_of type_of_p projs_ty]. set (ts := map (type_of_p None) cs).
    set (SEL := fun k => do i <- field_pos rk (zlen cs) k; get cs i).
    assert (Hrange : forall k i, field_pos rk (zlen cs) k = Ok i -> 0 <= i < zlen cs).
    { intros k i Ei. eapply field_pos_range; [|exact Ei]. intros k0 ->. unfold zlen. rewrite (Hks k0 eq_refl). reflexivity. }
    assert (Hty : mapM (fun k => do i <- field_pos rk (zlen ts) k; get ts i) ks = rmap (map (type_of_p None)) (mapM SEL ks)).
    { rewrite <- mapM_rmap. apply mapM_ext_in. intros k _. unfold ts, SEL. rewrite zlen_map.
      destruct (field_pos rk (zlen cs) k); cbn [bind rmap]; [apply get_map|reflexivity]. }
    rewrite Hty. fold SEL.
    destruct (mapM SEL ks) as [fs|e0] eqn:Hsel; cbn [bind rmap].
    2:{ apply mapM_Err in Hsel as (k & _ & Hk). unfold SEL in Hk. destruct (field_pos rk (zlen cs) k) as [i|e1] eqn:Ei; cbn [bind] in Hk.
        - destruct (get_ok cs i (Hrange k i Ei)) as [x Hx]. congruence.
        - inversion Hk; subst. apply field_pos_err in Ei. subst. split; reflexivity. }
    split; [reflexivity|].
    (* the selected positions *)
    assert (His : exists is, mapM (field_pos rk (zlen cs)) ks = Ok is /\ mapM (get cs) is = Ok fs).
    { unfold SEL in Hsel. rewrite mapM_bind_total in Hsel by (intros k i _ Ei; apply get_ok, (Hrange k i Ei)).
      apply bind_Ok in Hsel as (is & Hs1 & Hs2). eauto. }
    destruct His as (is & His & Hget).
    assert (Hin : forall f, In f fs -> In f cs).
    { intros f Hf. destruct (mapM_In_inv _ _ _ _ Hget Hf) as (i & _ & Hi). eapply get_In, Hi. }
    (* their columns *)
    destruct (mapM_total to_list fs) as [vss' Hvss'].
    { intros f Hf. destruct (mapM_Ok_In _ _ _ _ Hvss (Hin f Hf)) as (col & Hcol & _). eauto. }
    assert (Hcols : mapM (get vss) is = Ok vss').
    { rewrite <- Hvss'. rewrite (mapM_mapM _ to_list _ _ Hget). apply mapM_ext_in. intros i Hi.
      rewrite (mapM_get _ _ _ i Hvss). reflexivity. }
    set (rk' := match rk with Some _ => Some ks | None => None end).
    assert (Hlen : length vss' = length ks).
    { rewrite (mapM_length _ _ _ Hvss'), (mapM_length _ _ _ Hget). apply (mapM_length _ _ _ His). }
    assert (Hrows : mapM (projs_v ks (TRec rk ts)) xs = mapM (row rk' vss') (iota n)).
    { rewrite (mapM_mapM _ _ _ _ Hl). apply mapM_ext_in. intros j Hj.
      destruct (mapM_Ok_In _ _ _ _ Hl Hj) as (v & Hv & _). rewrite Hv. cbn [bind projs_v].
      unfold ts. rewrite zlen_map, His. cbn [bind].
      assert (Hf : mapM (fun i => field_of i v) is = mapM (fun col : list value => get col j) vss').
      { rewrite (mapM_mapM _ (fun col : list value => get col j) _ _ Hcols). apply mapM_ext_in. intros i Hi.
        destruct (mapM_Ok_In _ _ _ _ Hcols Hi) as (col & Hcol & _). rewrite Hcol. cbn [bind]. eapply row_proj; eassumption. }
      unfold row in Hv |- *. apply bind_Ok in Hv as (vs0 & Hvs0 & Hv).
      destruct rk as [k0|]; cbn [rk'].
      - destruct (Nat.eqb (length k0) (length vs0)); [|discriminate]. inversion Hv; subst v. cbn [field_of] in Hf.
        rewrite Hf. destruct (mapM (fun col : list value => get col j) vss') as [vs|e1] eqn:Evs; cbn [bind]; [|reflexivity].
        rewrite (mapM_length _ _ _ Evs), Hlen, Nat.eqb_refl. reflexivity.
      - inversion Hv; subst v. cbn [field_of] in Hf. change (fun i : Z => get vs0 i) with (get vs0) in Hf. rewrite Hf.
        destruct (mapM (fun col : list value => get col j) vss'); reflexivity. }
    assert (Hok : exists ys, mapM (row rk' vss') (iota n) = Ok ys).
    { apply mapM_total. intros j Hj. apply iota_In' in Hj. unfold row.
      destruct (mapM_total (fun col : list value => get col j) vss') as [vs Hvs].
      { intros col Hcol. destruct (mapM_In_inv _ _ _ _ Hvss' Hcol) as (f & Hf & Hlf). apply get_ok.
        rewrite (to_list_len _ _ Hlf). rewrite Forall_forall in Hns. specialize (Hns f (Hin f Hf)). lia. }
      rewrite Hvs. cbn [bind]. destruct rk; cbn [rk']; [|eauto].
      rewrite (mapM_length _ _ _ Hvs), Hlen, Nat.eqb_refl. eauto. }
    destruct Hok as [ys Hys]. split; [|split].
    + exists ys. split; [rewrite Hrows; exact Hys|].
      rewrite to_list_Record, all_lists_mapM, Hvss'. cbn [bind]. rewrite En. exact Hys.
    + apply V_Record; [exact I|assumption| | |].
      * apply Forall_forall. intros f Hf. rewrite Forall_forall in Hns. apply Hns, Hin, Hf.
      * intros k0 E. unfold rk' in E. destruct rk; inversion E; subst. rewrite <- Hlen. apply (mapM_length _ _ _ Hvss').
      * apply Forall_forall. intros f Hf. rewrite Forall_forall in HVs. apply HVs, Hin, Hf.
    + apply gfrag_Record. apply Forall_forall. intros f Hf. rewrite Forall_forall in Hfr. apply Hfr, Hin, Hf.
  - (* Par *)
    cbn [gfrag] in Hfr. destruct arr; [discriminate|]. inversion HV; subst.
    rewrite to_list_Par in Hl. apply bind_Ok in Hl as (vs0 & Hl0 & Hl). inversion Hl; subst.
    cbn [type_of type_of_p]. apply IHc; assumption.
Qed.

(* ---------------------------------------------------------------- field item: equations *)
Lemma gn_IFields f c ks tl adv :
  match c with Numpy _ (_ :: _ :: _) _ => False | _ => True end ->
  gn (S f) c (IFields ks :: tl) adv = do fc <- fields_content ks c; gn f fc tl adv.
Proof. destruct c as [dt [|n [|m sh]] data| | | | | | | | | | | |]; try contradiction; intros _; reflexivity. Qed.
Lemma se_IFields f T xs ks tl adv :
  se_ f T xs (IFields ks :: tl) adv =
  do t' <- projs_ty ks T; do ys <- mapM (projs_v ks T) xs;
  sg f None None t' (map (fun x => Some [x]) ys) (IAt 0 :: tl) adv.
Proof. unfold se_. destruct (so_ty T); reflexivity. Qed.

(* ---------------------------------------------------------------- projections and the type relation *)
Lemma projs_ty_ow ks T U : optwrap T U ->
  match projs_ty ks U with
  | Ok U' => exists T', projs_ty ks T = Ok T' /\ optwrap T' U'
  | Err e => projs_ty ks T = Err e
  end.
Proof.
  induction 1 as [T|T U H IH].
  - destruct (projs_ty ks T); [eexists; split; [reflexivity|apply ow_refl]|reflexivity].
  - cbn [projs_ty]. destruct (projs_ty ks U) as [U'|e].
    + destruct IH as (T' & -> & Ho). cbn [rmap]. eexists. split; [reflexivity|apply ow_opt, Ho].
    + rewrite IH. reflexivity.
Qed.

Lemma projs_v_ow ks T U x : optwrap T U -> has_typeb U x = true -> (forall ts, U <> TUnion ts) -> projs_v ks T x = projs_v ks U x.
Proof.
  intros H Hx Hu. induction H as [T|T U H IH]; [reflexivity|]. rewrite projs_v_opt. specialize (IH Hx Hu).
  destruct x; cbn [optF]; try exact IH.
  destruct (has_type_none_opt U Hx Hu) as [U0 ->]. reflexivity.
Qed.

Lemma zmax_list_le d l M : d <= M -> (forall x, In x l -> x <= M) -> zmax_list d l <= M.
Proof. unfold zmax_list. induction l as [|y l IH]; cbn [fold_right]; intros Hd Hl; [exact Hd|]. specialize (IH Hd (fun x Hx => Hl x (or_intror Hx))). specialize (Hl y (or_introl eq_refl)). lia. Qed.
Lemma projs_ty_depth ks T : forall T', projs_ty ks T = Ok T' -> tdepth T' <= tdepth T.
Proof.
  unfold tdepth. induction T as [d| |sz str t IH|t IH|rk ts IH|ts IH] using ty_ind'; intros T' H; cbn [projs_ty] in H; try discriminate.
  - destruct str; [discriminate|]. apply rmap_Ok in H as (t' & Ht & ->). specialize (IH _ Ht). cbn [minmax].
    destruct (minmax t), (minmax t'). cbn [snd] in *. lia.
  - apply rmap_Ok in H as (t' & Ht & ->). cbn [minmax]. auto.
  - apply bind_Ok in H as (ts' & Hts' & H). inversion H; subst T'. clear H IH.
    assert (Hin : forall x, In x ts' -> In x ts).
    { intros x Hx. destruct (mapM_In_inv _ _ _ _ Hts' Hx) as (k & _ & Hk). apply bind_Ok in Hk as (i & _ & Hk). eapply get_In, Hk. }
    cbn [minmax]. destruct ts' as [|t0' rest']; [destruct ts; cbn [snd]; [lia|]; pose proof (tdepth_nonneg t); unfold tdepth in *;
      pose proof (zmax_list_ge (snd (minmax t)) (map snd (map minmax (t :: ts)))); lia|].
    destruct ts as [|t0 rest]; [exfalso; apply (Hin t0'); left; reflexivity|]. cbn [snd].
    assert (HM : forall x, In x (t0 :: rest) -> snd (minmax x) <= zmax_list (snd (minmax t0)) (map snd (map minmax (t0 :: rest)))).
    { intros x Hx. apply zmax_list_In. rewrite map_map. apply in_map_iff. exists x. auto. }
    apply zmax_list_le.
    + apply HM, Hin. left. reflexivity.
    + intros y Hy. rewrite map_map in Hy. apply in_map_iff in Hy as (x & <- & Hx). apply HM, Hin, Hx.
Qed.

(* ---------------------------------------------------------------- field item at the element level *)
Lemma PSE_fields ks tl Nm Ns K : PSE Nm Ns K tl -> PSE (1 + Nm) (1 + Ns) K (IFields ks :: tl).
Proof.
  intros IH fm fs c T xs Hfm Hfs HK Hsc HV Hfr Hl HT.
  destruct fm as [|fm]; [lia|]. destruct fs as [|fs]; [lia|].
  rewrite gn_IFields by (apply gfrag_not_nd, Hfr). rewrite se_IFields.
  pose proof (fields_content_spec ks c xs HV Hfr Hl) as Hfc. unfold FCSres in Hfc.
  pose proof (projs_ty_ow ks T _ HT) as Hpt.
  destruct (fields_content ks c) as [f|e]; cbn [bind].
  - destruct Hfc as (Hty & (ys & Hys & Hlf) & HVf & Hff). rewrite Hty in Hpt. destruct Hpt as (T' & HT' & Ho).
    cbn [sc] in Hsc. rewrite HT' in Hsc |- *. cbn [bind].
    assert (Hys' : mapM (projs_v ks T) xs = Ok ys).
    { rewrite <- Hys. apply mapM_ext_in. intros x Hx. apply projs_v_ow; [exact HT| |apply gfrag_type_not_union, Hfr].
      pose proof (to_list_typed_thm c xs HV Hl) as Hty'. rewrite Forall_forall in Hty'. apply Hty', Hx. }
    rewrite Hys'. cbn [bind]. rewrite sg_singletons.
    rewrite <- (mapM_zlen _ _ _ Hys). apply R_reinsert_id; [|reflexivity].
    apply IH; try assumption; try lia. pose proof (projs_ty_depth ks T T' HT'). lia.
  - destruct Hfc as [-> He]. rewrite He in Hpt. rewrite Hpt. cbn [bind]. split; reflexivity.
Qed.

(* ---------------------------------------------------------------- field item at the list level *)
Definition projs_l (ks : list name) (t : ty) (o : option (list value)) : res (option (list value)) :=
  match o with
  | None => Ok None
  | Some l => rmap Some (mapM (projs_v ks t) l)
  end.
Lemma sg_IFields' f str sz t lists ks tail adv :
  sg (S f) str sz t lists (IFields ks :: tail) adv =
  do t' <- projs_ty ks t; do ls <- mapM (projs_l ks t) lists; sg f None sz t' ls tail adv.
Proof. reflexivity. Qed.

Lemma projs_ty_list ks U : forall sz t, so_ty U = TList sz None t ->
  match projs_ty ks t with
  | Ok t' => exists U', projs_ty ks U = Ok U' /\ so_ty U' = TList sz None t'
  | Err e => projs_ty ks U = Err e
  end.
Proof.
  induction U; intros sz t Hs; cbn [so_ty] in Hs; try discriminate.
  - inversion Hs; subst. cbn [projs_ty]. destruct (projs_ty ks t); cbn [rmap]; [eexists; split; reflexivity|reflexivity].
  - specialize (IHU sz t Hs). cbn [projs_ty]. destruct (projs_ty ks t).
    + destruct IHU as (U' & -> & Hs'). cbn [rmap]. eexists. split; [reflexivity|exact Hs'].
    + rewrite IHU. reflexivity.
Qed.
Lemma projs_v_list_view ks U : forall sz t x, so_ty U = TList sz None t -> has_typeb U x = true ->
  (do y <- projs_v ks U x; as_list y) = (do o <- as_list x; projs_l ks t o).
Proof.
  induction U; intros sz t x Hs Hx; cbn [so_ty] in Hs; try discriminate.
  - inversion Hs; subst. cbn [has_typeb] in Hx. destruct x; try discriminate. rewrite projs_v_list. cbn [as_list bind projs_l].
    destruct (mapM (projs_v ks t) l); reflexivity.
  - rewrite projs_v_opt. destruct x; cbn [optF has_typeb] in *; try (eapply IHU; eassumption). reflexivity.
Qed.

Lemma PSG_fields ks tl Nm Ns K : PSG Nm Ns K tl -> PSG (1 + Nm) (1 + Ns) K (IFields ks :: tl).
Proof.
  intros IH fm fs c T xs sz t ls Hfm Hfs HK Hsc HV Hfr Hl HT Hs Hls.
  destruct fm as [|fm]; [lia|]. destruct fs as [|fs]; [lia|].
  rewrite gn_IFields by (apply gfrag_not_nd, Hfr). rewrite sg_IFields'.
  pose proof (fields_content_spec ks c xs HV Hfr Hl) as Hfc. unfold FCSres in Hfc.
  pose proof (list_type_of_c c T sz t HT Hs) as HsU.
  pose proof (projs_ty_list ks (type_of c) sz t HsU) as Hpl.
  pose proof (projs_ty_ow ks T _ HT) as Hpt.
  pose proof (to_list_typed_thm c xs HV Hl) as Htyped.
  destruct (fields_content ks c) as [f|e]; cbn [bind].
  - destruct Hfc as (Hty & (ys & Hys & Hlf) & HVf & Hff). rewrite Hty in Hpt. destruct Hpt as (T' & HT' & Ho).
    destruct (projs_ty ks t) as [t'|e] eqn:Et; [|rewrite Hpl in Hty; discriminate].
    destruct Hpl as (U' & HU' & HsU'). rewrite Hty in HU'. inversion HU'; subst U'. cbn [bind].
    assert (Hm : mapM (projs_l ks t) ls = mapM as_list ys).
    { rewrite (mapM_mapM _ _ _ _ Hys), (mapM_mapM _ _ _ _ Hls). apply mapM_ext_in. intros x Hx.
      symmetry. eapply projs_v_list_view; [exact HsU|]. rewrite Forall_forall in Htyped. apply Htyped, Hx. }
    destruct (as_list_total ys (list_values f ys sz t' HVf Hlf HsU')) as [ls' Hls']. rewrite Hm, Hls'. cbn [bind].
    rewrite <- (mapM_zlen _ _ _ Hys).
    apply (IH fm fs f (type_of f) ys sz t' ls'); try assumption; try lia.
    + pose proof (projs_ty_depth ks _ _ Hty) as Hd. unfold tdepth in *. rewrite <- (ow_minmax _ _ HT) in Hd. lia.
    + cbn [sc] in Hsc. rewrite HT' in Hsc. rewrite <- (sc_ow _ _ _ Ho). exact Hsc.
    + apply ow_refl.
  - destruct Hfc as [-> He]. rewrite He in Hpl. destruct (projs_ty ks t) as [t'|e'] eqn:Et.
    + destruct Hpl as (? & Hx & _). discriminate.
    + inversion Hpl; subst. split; reflexivity.
Qed.

