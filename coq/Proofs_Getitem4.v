(** Slicing, part 4: tuples of basic items (integer, range, newaxis, ellipsis) on the fragment [gfrag]:
    [getitem_model] computes [getitem_spec], values and error status, whenever the fuel covers the
    stated cost; the fixed [items_fuel] of the model does when there is no ellipsis or the layout is shallow. *)
From Coq Require Import ZArith List Bool Lia ZifyBool.
From AwkV Require Import Base Layout LayoutInd Valid Types AtAxis Carry Ops_Getitem Typing Proofs_Typing
                         Proofs_Lists Proofs_ToList Proofs_Carry Proofs_CarryValid Proofs_AtAxis Proofs_AtAxisOps
                         Proofs_C01 Proofs_Getitem Proofs_Getitem2 Proofs_Getitem3.
Import ListNotations.
Open Scope Z_scope.
Ltac Zify.zify_post_hook ::= Z.to_euclidean_division_equations.

(* ---------------------------------------------------------------- values of a list-typed layout *)
Definition listy (x : value) : Prop := x = VNone \/ exists l, x = VList l.

Lemma has_type_listy U : forall sz u x, so_ty U = TList sz None u -> has_typeb U x = true -> listy x.
Proof.
  induction U; intros sz u x Hs Ht; cbn [so_ty] in Hs; try discriminate.
  - inversion Hs; subst. cbn [has_typeb] in Ht. destruct x; try discriminate. right. eauto.
  - cbn [has_typeb] in Ht. destruct x; try (eapply IHU; eassumption). left. reflexivity.
Qed.
Lemma list_values c xs sz u :
  Valid None c -> to_list c = Ok xs -> so_ty (type_of c) = TList sz None u -> Forall listy xs.
Proof.
  intros HV Hl Hs. pose proof (to_list_typed_thm c xs HV Hl) as Ht.
  eapply Forall_impl; [|exact Ht]. intros x Hx. eapply has_type_listy; eassumption.
Qed.
Lemma as_list_total xs : Forall listy xs -> exists ls, mapM as_list xs = Ok ls.
Proof. intros H. apply mapM_total. intros x Hx. rewrite Forall_forall in H. destruct (H x Hx) as [->|[l ->]]; cbn; eauto. Qed.
Lemma as_list_inv xs : forall ls,
  mapM as_list xs = Ok ls -> Forall listy xs ->
  map (fun o : option (list value) => match o with Some l => mk_list None l | None => VNone end) ls = xs.
Proof.
  induction xs as [|x xs IH]; intros ls H HF; cbn [mapM] in H.
  - inversion H. reflexivity.
  - apply bind_Ok in H as (o & Ho & H). apply bind_Ok in H as (ls' & Hls' & H). inversion H; subst.
    inversion HF as [|? ? Hx HF']; subst. cbn [map]. rewrite (IH ls' Hls' HF'). f_equal.
    destruct Hx as [->|[l ->]]; cbn in Ho; inversion Ho; reflexivity.
Qed.

(* the possible element types of the fragment *)
Lemma gfrag_ty_cases c : gfrag c = true ->
  (exists d, so_ty (type_of c) = TNum d) \/ so_ty (type_of c) = TUnk \/ (exists sz u, so_ty (type_of c) = TList sz None u).
Proof.
  unfold type_of. induction c using content_ind'; intros Hf; cbn [gfrag] in Hf; try discriminate; cbn [type_of_p so_ty strflag]; auto.
  - destruct shape as [|n [|? ?]]; try discriminate. left. cbn. eauto.
  - right. right. eauto.
  - right. right. eauto.
  - right. right. eauto.
  - destruct arr; [discriminate|]. apply IHc, Hf.
Qed.

Lemma chunks_nat_ones {A} (ws : list A) : chunks_nat ws 1 (length ws) = map (fun v => [v]) ws.
Proof. induction ws as [|w ws IH]; [reflexivity|]. cbn [length chunks_nat map]. f_equal. exact IH. Qed.
Lemma to_list_newaxis r ws :
  to_list r = Ok ws -> to_list (Regular r 1 (clen r)) = Ok (map (fun v => VList [v]) ws).
Proof.
  intros Hl. rewrite to_list_Regular, Hl. cbn [bind]. unfold chunks. cbn [Z.ltb Z.eqb Z.compare].
  rewrite Z.div_1_r. unfold zlen. rewrite Nat2Z.id, chunks_nat_ones. cbn [rmap]. rewrite map_map. reflexivity.
Qed.

(* ---------------------------------------------------------------- the generic element path of the specification *)
Lemma sg_singletons f T xs tl :
  sg (S f) None None T (map (fun x => Some [x]) xs) (IAt 0 :: tl) None =
  do r <- se_ f T xs tl None; Ok (fst r, reinsert (map (fun x => Some [x]) xs) (snd r)).
Proof.
  rewrite sg_IAt. cbn [szchk bind present_adv].
  replace (map (fun x : value => Some [x]) xs) with (map Some (map (fun x : value => [x]) xs)) by (rewrite map_map; reflexivity).
  rewrite present_somes, mapM_map.
  replace (mapM (fun x : value => do j <- wrap_at (zlen [x]) 0; get [x] j) xs) with (Ok (A := list value) xs); [reflexivity|].
  symmetry. rewrite <- (map_id xs) at 2. rewrite <- mapM_pure. apply mapM_ext_in. intros x _. reflexivity.
Qed.
Lemma reinsert_singletons (xs ws : list value) :
  length ws = length xs -> reinsert (map (fun x => Some [x]) xs) ws = ws.
Proof.
  intros H. replace (map (fun x : value => Some [x]) xs) with (map Some (map (fun x : value => [x]) xs)) by (rewrite map_map; reflexivity).
  apply reinsert_somes. rewrite map_length. exact H.
Qed.

(* ---------------------------------------------------------------- the statements, relative to fuel and depth bounds *)
Definition PSE (Nm Ns : nat) (K : Z) (items : list item) : Prop :=
  forall fm fs c T xs, (Nm <= fm)%nat -> (Ns <= fs)%nat -> tdepth T <= K ->
    Valid None c -> gfrag c = true -> to_list c = Ok xs -> er T = er (type_of c) ->
    R (zlen xs) (gn fm c items None) (se_ fs T xs items None).
Definition PSG (Nm Ns : nat) (K : Z) (items : list item) : Prop :=
  forall fm fs c T xs sz t ls, (Nm <= fm)%nat -> (Ns <= fs)%nat -> tdepth T <= K ->
    Valid None c -> gfrag c = true -> to_list c = Ok xs -> er T = er (type_of c) ->
    so_ty T = TList sz None t -> mapM as_list xs = Ok ls ->
    R (zlen xs) (gn fm c items None) (sg fs None sz t ls items None).

Lemma PSE_mono Nm Ns K items Nm' Ns' K' :
  PSE Nm Ns K items -> (Nm <= Nm')%nat -> (Ns <= Ns')%nat -> K' <= K -> PSE Nm' Ns' K' items.
Proof. intros H ? ? ? fm fs c T xs ? ? ?. apply H; lia. Qed.
Lemma PSG_mono Nm Ns K items Nm' Ns' K' :
  PSG Nm Ns K items -> (Nm <= Nm')%nat -> (Ns <= Ns')%nat -> K' <= K -> PSG Nm' Ns' K' items.
Proof. intros H ? ? ? fm fs c T xs sz t ls ? ? ?. apply H; lia. Qed.

(* the list type seen from the layout *)
Lemma list_type_of_c c T sz t :
  er T = er (type_of c) -> so_ty T = TList sz None t -> exists u, so_ty (type_of c) = TList sz None u.
Proof.
  intros HT Hs. symmetry in HT. pose proof (er_view _ _ HT) as Hv. rewrite Hs in Hv. destruct Hv as (u & Hu & _). eauto.
Qed.

(* nothing left, at a list-typed node *)
Lemma sg_done f c T xs sz t ls :
  Valid None c -> to_list c = Ok xs -> er T = er (type_of c) -> so_ty T = TList sz None t -> mapM as_list xs = Ok ls ->
  R (zlen xs) (Ok c) (sg (S f) None sz t ls [] None).
Proof.
  intros HV Hl HT Hs Hls. rewrite sg_nil. cbn [R]. destruct (list_type_of_c c T sz t HT Hs) as [u Hu].
  exists (TList sz None t), xs. split; [|split; [|split]].
  - rewrite (as_list_inv xs ls Hls (list_values c xs sz u HV Hl Hu)). reflexivity.
  - rewrite <- HT, <- (er_so_ty T), Hs. reflexivity.
  - exact Hl.
  - reflexivity.
Qed.

Lemma PSE_nil K : PSE 1 0 K [].
Proof.
  intros fm fs c T xs Hfm _ _ HV Hfr Hl HT. destruct fm as [|fm]; [lia|]. rewrite gn_nil, se_nil. cbn [R]. exists T, xs. auto.
Qed.
Lemma PSG_nil K : PSG 1 1 K [].
Proof.
  intros fm fs c T xs sz t ls Hfm Hfs _ HV Hfr Hl HT Hs Hls.
  destruct fm as [|fm]; [lia|]. destruct fs as [|fs]; [lia|]. rewrite gn_nil. eapply sg_done; eassumption.
Qed.

(* positional head *)
Lemma PSE_positional head tl Nm Ns K :
  basic_item head = true -> PSE Nm Ns K tl -> PSE (4 + Nm) (1 + Ns) (K + 1) (head :: tl).
Proof.
  intros Hh IH fm fs c T xs Hfm Hfs HK HV Hfr Hl HT.
  apply (positional_step head tl Hh Nm Ns K IH 3%nat); try assumption; try lia. eapply valid_wd, HV.
Qed.
Lemma PSG_of_PSE head tl Nm Ns K :
  positional head = true -> PSE Nm Ns K (head :: tl) -> PSG Nm Ns K (head :: tl).
Proof.
  intros Hp H fm fs c T xs sz t ls Hfm Hfs HK HV Hfr Hl HT Hs Hls.
  rewrite <- (se_at_list fs T xs head tl sz t ls None Hp Hs Hls). apply H; assumption.
Qed.

Lemma gfrag_not_nd c : gfrag c = true -> match c with Numpy _ (_ :: _ :: _) _ => False | _ => True end.
Proof. destruct c as [dt [|n [|m sh]] data| | | | | | | | | | | |]; cbn [gfrag]; try discriminate; auto. Qed.

(* newaxis *)
Lemma R_newaxis n m s :
  R n m s ->
  R n (do r <- m; Ok (Regular r 1 (clen r))) (do r <- s; Ok (TList (Some 1) None (fst r), map (fun v => VList [v]) (snd r))).
Proof.
  destruct m as [c'|e]; cbn [R bind].
  - intros (t' & ws & -> & Ht & Hl & Hz). cbn [bind fst snd]. eexists _, _. split; [reflexivity|]. split; [|split].
    + cbn [type_of type_of_p strflag er]. f_equal. exact Ht.
    + apply to_list_newaxis, Hl.
    + rewrite zlen_map. exact Hz.
  - intros [-> ->]. split; reflexivity.
Qed.
Lemma R_reinsert_id n m s (xs : list value) :
  R n m s -> n = zlen xs -> R n m (do r <- s; Ok (fst r, reinsert (map (fun x => Some [x]) xs) (snd r))).
Proof.
  destruct m as [c'|e]; cbn [R].
  - intros (t' & ws & -> & Ht & Hl & Hz) Hn. cbn [bind fst snd].
    rewrite reinsert_singletons by (apply zlen_eq_length; lia). eexists _, _. split; [reflexivity|]. auto.
  - intros [-> ->] _. split; reflexivity.
Qed.

Lemma PSE_newaxis tl Nm Ns K : PSE Nm Ns K tl -> PSE (1 + Nm) (1 + Ns) K (INewAxis :: tl).
Proof.
  intros IH fm fs c T xs Hfm Hfs HK HV Hfr Hl HT.
  destruct fm as [|fm]; [lia|]. destruct fs as [|fs]; [lia|].
  rewrite gn_INewAxis by (apply gfrag_not_nd, Hfr). rewrite se_INewAxis, sg_singletons.
  apply R_newaxis. apply R_reinsert_id; [|reflexivity]. apply IH; assumption || lia.
Qed.
Lemma PSG_newaxis tl Nm Ns K : PSG Nm Ns K tl -> PSG (1 + Nm) (1 + Ns) K (INewAxis :: tl).
Proof.
  intros IH fm fs c T xs sz t ls Hfm Hfs HK HV Hfr Hl HT Hs Hls.
  destruct fm as [|fm]; [lia|]. destruct fs as [|fs]; [lia|].
  rewrite gn_INewAxis by (apply gfrag_not_nd, Hfr). rewrite sg_INewAxis.
  apply R_newaxis. eapply IH; eassumption || lia.
Qed.

(* ---------------------------------------------------------------- ellipsis *)
Lemma se_IEllipsis_list f T xs tl adv sz t ls :
  so_ty T = TList sz None t -> mapM as_list xs = Ok ls ->
  se_ f T xs (IEllipsis :: tl) adv = sg f None sz t ls (IEllipsis :: tl) adv.
Proof. intros Hs Hl. unfold se_, list_elem_ty, str_of_ty. rewrite Hs, Hl. reflexivity. Qed.
Lemma se_IEllipsis_leaf f T xs tl adv :
  (exists d, so_ty T = TNum d) \/ so_ty T = TUnk ->
  se_ f T xs (IEllipsis :: tl) adv =
  let (mn, mx) := minmax T in
  let d := dim_items tl in
  match tl with
  | [] => Ok (T, xs)
  | _ =>
      if (mn - 1 =? d) && (mx - 1 =? d)
      then sg f None None T (map (fun x => Some [x]) xs) (IAt 0 :: tl) adv
      else Err EValue
  end.
Proof. intros [[d Hs]|Hs]; unfold se_; rewrite Hs; reflexivity. Qed.

Lemma zmax_list_ge d l : d <= zmax_list d l.
Proof. unfold zmax_list. induction l as [|x l IH]; cbn [fold_right]; lia. Qed.
Lemma tdepth_nonneg t : 0 <= tdepth t.
Proof.
  unfold tdepth. induction t as [d| |sz str t IH|t IH|ks ts IH|ts IH] using ty_ind'; cbn [minmax snd]; try lia.
  - destruct str; [cbn; lia|]. destruct (minmax t); cbn [snd] in *. lia.
  - destruct ts as [|t0 rest]; [cbn; lia|]. inversion IH; subst. cbn [snd]. pose proof (zmax_list_ge (snd (minmax t0)) (map snd (map minmax (t0 :: rest)))). lia.
  - destruct ts as [|t0 rest]; [cbn; lia|]. inversion IH; subst. cbn [snd]. pose proof (zmax_list_ge (snd (minmax t0)) (map snd (map minmax (t0 :: rest)))). lia.
Qed.

Section Ellipsis.
  Variables (tl : list item) (Nm Ns : nat).

  (* at a list-typed node, given the statement one level down *)
  Lemma ell_PSG K Nm' Ns' N M :
    (1 + Nm <= N)%nat -> (5 + Nm' <= N)%nat -> (2 <= M)%nat -> (1 + Ns <= M)%nat -> (2 + Ns' <= M)%nat ->
    PSG Nm Ns (K + 1) tl -> PSE Nm' Ns' K (IEllipsis :: tl) ->
    PSG N M (K + 1) (IEllipsis :: tl).
  Proof.
    intros HN1 HN2 HM0 HM1 HM2 IHt IHe fm fs c T xs sz t ls Hfm Hfs HK HV Hfr Hl HT Hs Hls.
    destruct fm as [|fm]; [lia|]. destruct fs as [|fs]; [lia|].
    rewrite gn_IEllipsis by (apply gfrag_not_nd, Hfr). rewrite sg_IEllipsis.
    symmetry in HT. rewrite (minmax_er_eq _ _ HT), (tdepth_list T sz t Hs). symmetry in HT.
    destruct (minmax t) as [a b]. cbn [fst snd].
    replace (a + 1 - 1) with a by lia. replace (b + 1 - 1) with b by lia.
    destruct tl as [|h tl'] eqn:Etl.
    - destruct fs as [|fs]; [lia|]. eapply sg_done; eassumption.
    - rewrite <- Etl in *. clear Etl.
      destruct ((a =? dim_items tl) && (b =? dim_items tl)); [|destruct ((a =? dim_items tl) || (b =? dim_items tl))].
      + eapply IHt; eassumption || lia.
      + split; reflexivity.
      + rewrite <- (se_at_list fs T xs (IRange None None (Some 1)) (IEllipsis :: tl) sz t ls None eq_refl Hs Hls).
        apply (positional_step (IRange None None (Some 1)) (IEllipsis :: tl) eq_refl Nm' Ns' K IHe 3%nat); try assumption; try lia.
        eapply valid_wd, HV.
  Qed.

  (* at a leaf-typed node: the ellipsis stands for nothing *)
  Lemma ell_leaf Nm' Ns' fm fs c T xs :
    (1 + Nm <= fm)%nat -> (5 + Nm' <= fm)%nat -> (1 + Ns <= fs)%nat -> (2 + Ns' <= fs)%nat ->
    PSE Nm Ns 1 tl -> PSE Nm' Ns' 0 (IEllipsis :: tl) ->
    (exists d, so_ty T = TNum d) \/ so_ty T = TUnk ->
    Valid None c -> gfrag c = true -> to_list c = Ok xs -> er T = er (type_of c) ->
    R (zlen xs) (gn fm c (IEllipsis :: tl) None) (se_ fs T xs (IEllipsis :: tl) None).
  Proof.
    intros Hfm1 Hfm2 Hfs1 Hfs2 IHt IHe Hleaf HV Hfr Hl HT.
    assert (Hmm : minmax T = (1, 1)).
    { rewrite <- (minmax_so_ty T). destruct Hleaf as [[d ->]| ->]; reflexivity. }
    assert (HdT : tdepth T <= 1) by (unfold tdepth; rewrite Hmm; cbn; lia).
    destruct fm as [|fm]; [lia|]. destruct fs as [|fs]; [lia|].
    rewrite gn_IEllipsis by (apply gfrag_not_nd, Hfr). rewrite (se_IEllipsis_leaf _ _ _ _ _ Hleaf).
    symmetry in HT. rewrite (minmax_er_eq _ _ HT), Hmm. symmetry in HT.
    change (1 - 1) with 0. cbv zeta.
    destruct tl as [|h tl'] eqn:Etl; [cbn [R]; exists T, xs; auto|]. rewrite <- Etl in *. clear Etl.
    destruct (0 =? dim_items tl); cbn [andb orb].
    - rewrite sg_singletons. apply R_reinsert_id; [|reflexivity]. apply IHt; assumption || lia.
    - assert (HR : R (zlen xs) (gn fm c (IRange None None (Some 1) :: IEllipsis :: tl) None)
                     (se_ (S fs) T xs (IRange None None (Some 1) :: IEllipsis :: tl) None)).
      { apply (positional_step (IRange None None (Some 1)) (IEllipsis :: tl) eq_refl Nm' Ns' 0 IHe 3%nat);
          try assumption; try lia. eapply valid_wd, HV. }
      rewrite (se_at_leaf (S fs) T xs (IRange None None (Some 1)) (IEllipsis :: tl) None eq_refl Hleaf) in HR.
      apply R_err in HR as (e' & -> & -> & _). split; reflexivity.
  Qed.

  (* at any node, given the list-typed case at the same level *)
  Lemma ell_PSE K Nm' Ns' N M :
    0 <= K -> (1 + Nm <= N)%nat -> (5 + Nm' <= N)%nat -> (1 + Ns <= M)%nat -> (2 + Ns' <= M)%nat ->
    PSG N M (K + 1) (IEllipsis :: tl) -> PSE Nm Ns (K + 1) tl -> PSE Nm' Ns' K (IEllipsis :: tl) ->
    PSE N M (K + 1) (IEllipsis :: tl).
  Proof.
    intros HK0 HN1 HN2 HM1 HM2 IHg IHt IHe fm fs c T xs Hfm Hfs HK HV Hfr Hl HT.
    pose proof (er_view T _ HT) as Hv.
    assert (IHt1 : PSE Nm Ns 1 tl) by (eapply PSE_mono; [exact IHt|lia..]).
    assert (IHe0 : PSE Nm' Ns' 0 (IEllipsis :: tl)) by (eapply PSE_mono; [exact IHe|lia..]).
    destruct (gfrag_ty_cases c Hfr) as [[d Hc]|[Hc|(sz & u & Hc)]]; rewrite Hc in Hv.
    - eapply (ell_leaf Nm' Ns'); try eassumption; try lia. eauto.
    - eapply (ell_leaf Nm' Ns'); try eassumption; try lia. eauto.
    - destruct Hv as (t & Hs & _).
      destruct (as_list_total xs (list_values c xs sz u HV Hl Hc)) as [ls Hls].
      rewrite (se_IEllipsis_list fs T xs tl None sz t ls Hs Hls). eapply IHg; eassumption || lia.
  Qed.

  Lemma gfrag_depth_pos c T : gfrag c = true -> er T = er (type_of c) -> 1 <= tdepth T.
  Proof.
    intros Hfr HT. pose proof (er_view T _ HT) as Hv. unfold tdepth. rewrite <- (minmax_so_ty T).
    destruct (gfrag_ty_cases c Hfr) as [[d Hc]|[Hc|(sz & u & Hc)]]; rewrite Hc in Hv.
    - rewrite Hv. cbn. lia.
    - rewrite Hv. cbn. lia.
    - destruct Hv as (t & -> & _). cbn [minmax]. pose proof (tdepth_nonneg t). unfold tdepth in *. destruct (minmax t). cbn [snd] in *. lia.
  Qed.

  Hypothesis HNs : (1 <= Ns)%nat.

  Lemma ellipsis_step (D : nat) :
    PSE Nm Ns (Z.of_nat D) tl -> PSG Nm Ns (Z.of_nat D) tl ->
    forall k, (k <= D)%nat ->
      PSE (5 * k + 1 + Nm) (2 * k + 1 + Ns) (Z.of_nat k) (IEllipsis :: tl) /\
      PSG (5 * k + 1 + Nm) (2 * k + 1 + Ns) (Z.of_nat k) (IEllipsis :: tl).
  Proof.
    intros IHe IHg. induction k as [|k IHk]; intros Hk.
    - split.
      + intros fm fs c T xs _ _ HK _ Hfr _ HT. pose proof (gfrag_depth_pos c T Hfr HT). lia.
      + intros fm fs c T xs sz t ls _ _ HK _ Hfr _ HT. pose proof (gfrag_depth_pos c T Hfr HT). lia.
    - destruct (IHk ltac:(lia)) as [IHke IHkg].
      replace (Z.of_nat (S k)) with (Z.of_nat k + 1) by lia.
      assert (IHt_e : PSE Nm Ns (Z.of_nat k + 1) tl) by (eapply PSE_mono; [exact IHe|lia..]).
      assert (IHt_g : PSG Nm Ns (Z.of_nat k + 1) tl) by (eapply PSG_mono; [exact IHg|lia..]).
      assert (Hg : PSG (5 * S k + 1 + Nm) (2 * S k + 1 + Ns) (Z.of_nat k + 1) (IEllipsis :: tl)).
      { eapply (ell_PSG (Z.of_nat k) (5 * k + 1 + Nm) (2 * k + 1 + Ns)); try eassumption; lia. }
      split; [|exact Hg].
      eapply (ell_PSE (Z.of_nat k) (5 * k + 1 + Nm) (2 * k + 1 + Ns)); try eassumption; lia.
  Qed.
End Ellipsis.

(* ---------------------------------------------------------------- the tuple induction *)
Definition basic4 (it : item) : bool :=
  match it with IAt _ | IRange _ _ _ | INewAxis | IEllipsis => true | _ => false end.
(* fuel the model / the specification may use for one item, on layouts of depth at most D *)
Definition wm (D : nat) (it : item) : nat := match it with IEllipsis => 5 * D + 1 | INewAxis => 1 | _ => 4 end.
Definition wsp (D : nat) (it : item) : nat := match it with IEllipsis => 2 * D + 1 | _ => 1 end.
Fixpoint cost_m (D : nat) (items : list item) : nat :=
  match items with [] => 1 | it :: tl => wm D it + cost_m D tl end.
Fixpoint cost_s (D : nat) (items : list item) : nat :=
  match items with [] => 1 | it :: tl => wsp D it + cost_s D tl end.
Lemma cost_s_pos D items : (1 <= cost_s D items)%nat.
Proof. induction items; cbn [cost_s]; lia. Qed.

Theorem gn_refines_sg (D : nat) : forall items, forallb basic4 items = true ->
  PSE (cost_m D items) (cost_s D items) (Z.of_nat D) items /\
  PSG (cost_m D items) (cost_s D items) (Z.of_nat D) items.
Proof.
  induction items as [|h tl IH]; intros Hb.
  - split; [apply (PSE_mono 1 0 (Z.of_nat D) [] _ _ _ (PSE_nil _)); cbn; lia|apply PSG_nil].
  - cbn [forallb] in Hb. apply andb_true_iff in Hb as [Hh Hb]. destruct (IH Hb) as [IHe IHg]. cbn [cost_m cost_s].
    destruct h; try discriminate; cbn [wm wsp].
    + assert (He : PSE (4 + cost_m D tl) (1 + cost_s D tl) (Z.of_nat D) (IAt i :: tl)).
      { eapply PSE_mono; [apply (PSE_positional (IAt i) tl _ _ _ eq_refl IHe)|lia..]. }
      split; [exact He|apply PSG_of_PSE; [reflexivity|exact He]].
    + assert (He : PSE (4 + cost_m D tl) (1 + cost_s D tl) (Z.of_nat D) (IRange start stop step :: tl)).
      { eapply PSE_mono; [apply (PSE_positional (IRange start stop step) tl _ _ _ eq_refl IHe)|lia..]. }
      split; [exact He|apply PSG_of_PSE; [reflexivity|exact He]].
    + destruct (ellipsis_step tl _ _ (cost_s_pos D tl) D IHe IHg D (le_n D)) as [He Hg].
      split; [eapply PSE_mono; [exact He|lia..]|eapply PSG_mono; [exact Hg|lia..]].
    + split; [apply PSE_newaxis, IHe|apply PSG_newaxis, IHg].
Qed.

(* ---------------------------------------------------------------- the whole operation *)
Lemma top_wrap c vs :
  Valid None c -> to_list c = Ok vs ->
  Valid None (Regular c (clen c) 1) /\ to_list (Regular c (clen c) 1) = Ok [VList vs] /\
  type_of (Regular c (clen c) 1) = TList (Some (zlen vs)) None (type_of c).
Proof.
  intros HV Hl. pose proof (to_list_len _ _ Hl) as Hn. pose proof (zlen_nonneg vs). split; [|split].
  - constructor; [exact I|lia|lia|intros _; exact HV].
  - rewrite to_list_Regular, Hl. cbn [bind]. rewrite <- Hn. unfold chunks.
    destruct (zlen vs <? 0) eqn:E; [lia|]. destruct (zlen vs =? 0) eqn:E0.
    + assert (vs = []) by (apply zlen_0_nil; lia). subst. reflexivity.
    + rewrite Z.div_same by lia. change (Z.to_nat 1) with 1%nat. cbn [chunks_nat rmap map].
      rewrite take_all by lia. reflexivity.
  - cbn [type_of type_of_p strflag]. rewrite Hn. reflexivity.
Qed.

Definition obs_spec (s : res (ty * list value)) : res (list value) := do r <- s; Ok (snd r).

Lemma R_obs n m s : R n m s -> obs m = obs_spec s /\ obs m <> Err EFuel /\ obs m <> Err EOob.
Proof.
  destruct m as [c'|e]; cbn [R obs].
  - intros (t' & ws & -> & _ & Hl & _). rewrite Hl. repeat split; discriminate.
  - intros [-> ->]. repeat split; discriminate.
Qed.

(* number of list levels of the array (its own dimension included) *)
Definition adepth (c : content) : nat := Z.to_nat (tdepth (type_of c)) + 1.

(* any fuel covering the cost gives the same, fuel-independent answer: never EFuel, never EOob *)
Theorem getitem_basic_fuel : forall items c vs fm fs,
  forallb basic4 items = true -> Valid None c -> gfrag c = true -> to_list c = Ok vs ->
  (cost_m (adepth c) items <= fm)%nat -> (cost_s (adepth c) items <= fs)%nat ->
  obs (gn fm (Regular c (clen c) 1) items None) =
  obs_spec (sg fs None (Some (zlen vs)) (type_of c) [Some vs] items None) /\
  obs (gn fm (Regular c (clen c) 1) items None) <> Err EFuel /\
  obs (gn fm (Regular c (clen c) 1) items None) <> Err EOob.
Proof.
  intros items c vs fm fs Hb HV Hfr Hl Hfm Hfs.
  destruct (top_wrap c vs HV Hl) as (HVC & HlC & HtC).
  destruct (gn_refines_sg (adepth c) items Hb) as [_ Hg].
  apply (R_obs 1). change 1 with (zlen [VList vs]).
  apply (Hg fm fs (Regular c (clen c) 1) (type_of (Regular c (clen c) 1)) [VList vs] (Some (zlen vs)) (type_of c) [Some vs]);
    try assumption; try reflexivity.
  - rewrite HtC. rewrite (tdepth_list' (TList (Some (zlen vs)) None (type_of c)) (Some (zlen vs)) (type_of c) eq_refl).
    unfold adepth. pose proof (tdepth_nonneg (type_of c)). lia.
Qed.

(* the fuel [items_fuel] that [getitem_model] / [getitem_spec] run with covers the cost *)
Definition fuel_ok (items : list item) (c : content) : bool :=
  Nat.leb (cost_m (adepth c) items) (items_fuel items) && Nat.leb (cost_s (adepth c) items) (items_fuel items).

Theorem getitem_refines_spec_partial : forall items c vs,
  forallb basic4 items = true -> Valid None c -> gfrag c = true -> to_list c = Ok vs -> fuel_ok items c = true ->
  obs (getitem_model items c) = getitem_spec items (type_of c) vs.
Proof.
  intros items c vs Hb HV Hfr Hl Hf. unfold fuel_ok in Hf. apply andb_true_iff in Hf as [H1 H2].
  apply Nat.leb_le in H1. apply Nat.leb_le in H2. unfold getitem_model, getitem_spec.
  apply (getitem_basic_fuel items c vs _ _ Hb HV Hfr Hl H1 H2).
Qed.
Theorem getitem_never_out_of_fuel : forall items c vs,
  forallb basic4 items = true -> Valid None c -> gfrag c = true -> to_list c = Ok vs -> fuel_ok items c = true ->
  obs (getitem_model items c) <> Err EFuel /\ getitem_spec items (type_of c) vs <> Err EFuel /\
  obs (getitem_model items c) <> Err EOob /\ getitem_spec items (type_of c) vs <> Err EOob.
Proof.
  intros items c vs Hb HV Hfr Hl Hf.
  pose proof (getitem_refines_spec_partial items c vs Hb HV Hfr Hl Hf) as He.
  unfold fuel_ok in Hf. apply andb_true_iff in Hf as [H1 H2]. apply Nat.leb_le in H1. apply Nat.leb_le in H2.
  destruct (getitem_basic_fuel items c vs _ _ Hb HV Hfr Hl H1 H2) as (_ & Hf1 & Hf2).
  fold (getitem_model items c) in Hf1, Hf2. rewrite <- He. auto.
Qed.

(* when the fuel is enough: no ellipsis, or one ellipsis on a layout of depth at most 5 *)
Definition nell (items : list item) : nat :=
  length (filter (fun it => match it with IEllipsis => true | _ => false end) items).
Lemma cost_bounds D items :
  (cost_m D items <= 4 * length items + 5 * D * nell items + 1)%nat /\
  (cost_s D items <= length items + 2 * D * nell items + 1)%nat.
Proof.
  unfold nell. induction items as [|h tl [IH1 IH2]]; cbn [cost_m cost_s length filter]; [lia|].
  destruct h; cbn [wm wsp length]; lia.
Qed.
Lemma fuel_ok_no_ellipsis items c : nell items = O -> fuel_ok items c = true.
Proof.
  intros Hn. unfold fuel_ok. destruct (cost_bounds (adepth c) items) as [H1 H2]. rewrite Hn in H1, H2.
  apply andb_true_iff. split; apply Nat.leb_le; unfold items_fuel; lia.
Qed.
Lemma fuel_ok_shallow items c : (nell items <= 1)%nat -> tdepth (type_of c) <= 5 -> fuel_ok items c = true.
Proof.
  intros Hn Hd. unfold fuel_ok. destruct (cost_bounds (adepth c) items) as [H1 H2].
  assert (Ha : (adepth c <= 6)%nat) by (unfold adepth; lia).
  assert (Hp : (adepth c * nell items <= 6)%nat) by nia.
  apply andb_true_iff. split; apply Nat.leb_le; unfold items_fuel; nia.
Qed.

Corollary getitem_refines_spec_basic : forall items c vs,
  forallb basic_item items = true -> Valid None c -> gfrag c = true -> to_list c = Ok vs ->
  obs (getitem_model items c) = getitem_spec items (type_of c) vs.
Proof.
  intros items c vs Hb HV Hfr Hl. apply getitem_refines_spec_partial; try assumption.
  - clear -Hb. induction items as [|h tl IH]; [reflexivity|]. cbn [forallb] in *. apply andb_true_iff in Hb as [Hh Hb].
    rewrite (IH Hb), andb_true_r. destruct h; try discriminate; reflexivity.
  - apply fuel_ok_no_ellipsis. clear -Hb. unfold nell. induction items as [|h tl IH]; [reflexivity|]. cbn [forallb filter] in *.
    apply andb_true_iff in Hb as [Hh Hb]. destruct h; try discriminate; apply IH, Hb.
Qed.

(* layout independence (property C02): the sliced value depends on the layout only through its value and type *)
Theorem layout_independent_getitem_partial : forall items a b vs,
  forallb basic4 items = true -> Valid None a -> Valid None b -> gfrag a = true -> gfrag b = true ->
  to_list a = Ok vs -> to_list b = Ok vs -> type_of a = type_of b ->
  fuel_ok items a = true ->
  obs (getitem_model items a) = obs (getitem_model items b).
Proof.
  intros items a b vs Hb HVa HVb Hfa Hfb Hla Hlb Hty Hf.
  assert (Hf' : fuel_ok items b = true) by (unfold fuel_ok, adepth in *; rewrite <- Hty; exact Hf).
  rewrite (getitem_refines_spec_partial items a vs), (getitem_refines_spec_partial items b vs), Hty by assumption.
  reflexivity.
Qed.

Example getitem_refines_ex :
  let c := ListOffset I64 [0; 2; 2; 3]
             (IndexedOption I64 [1; -1; 0]
                (Par None None (ListA I64 [0; 3] [3; 5]
                   (Indexed I64 [4; 3; 2; 1; 0] (Numpy DInt64 [5] [DZ 1; DZ 2; DZ 3; DZ 4; DZ 5]))))) in
  let items := [IRange None None (Some (-1)); IEllipsis; INewAxis; IAt (-1)] in
  validb None c = true /\ gfrag c = true /\ forallb basic4 items = true /\ fuel_ok items c = true /\
  to_list c = Ok [VList [VList [VNum (DZ 2); VNum (DZ 1)]; VNone]; VList []; VList [VList [VNum (DZ 5); VNum (DZ 4); VNum (DZ 3)]]] /\
  obs (getitem_model items c) =
    Ok [VList [VList [VList [VNum (DZ 3)]]; VList []; VList [VList [VNum (DZ 1)]; VList [VNone]]]] /\
  obs (getitem_model [IAt 1; IAt 0] c) = Err EValue /\
  obs (getitem_model [IAt 3] c) = Err EValue.
Proof. vm_compute. repeat split. Qed.

Print Assumptions getitem_refines_spec_partial.
Print Assumptions getitem_never_out_of_fuel.
Print Assumptions layout_independent_getitem_partial.
