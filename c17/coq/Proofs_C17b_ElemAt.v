(** C17b, integer indexing at the level of the slicing model: [getitem_model [IAt i] c] (array[i] as the model
    and the driver present it: a length-1 array holding the element) is the gather of the wrapped index, so it
    keeps the type with all parameters, and its single element is element i, typed by the array's item type. *)
From Coq Require Import ZArith List Bool Lia ZifyBool String.
From AwkV Require Import Base Layout LayoutInd Valid Types Carry AtAxis Ops_Getitem Proofs_Lists Proofs_ToList
                         Proofs_Carry Proofs_CarryValid Proofs_C11.
From AwkTypes Require Import Json Forms TypeStr Typing Proofs_Depth Proofs_Types Proofs_Typing Examples_C17
                             Proofs_C17b_Elem Proofs_C17b_ElemRange.
Import ListNotations.
Open Scope Z_scope.
Ltac Zify.zify_post_hook ::= Z.to_euclidean_division_equations.

Theorem getitem_at_model_thm i c :
  getitem_model [IAt i] c = do j <- wrap_at (clen c) i; carry c [j].
Proof.
  unfold getitem_model. change (items_fuel [IAt i]) with (S (S 34)).
  cbn [gn].
  unfold list_bounds.
  destruct (clen c <? 0) eqn:En.
  - cbn [bind]. unfold wrap_at. destruct (i <? 0); destruct ((0 <=? _) && (_ <? clen c)) eqn:E; try reflexivity; lia.
  - destruct (clen c =? 0) eqn:E0.
    + cbn [bind fst snd]. assert (Hw : wrap_at (clen c) i = Err EValue).
      { unfold wrap_at. destruct (i <? 0); destruct ((0 <=? _) && (_ <? clen c)) eqn:E; try reflexivity; lia. }
      rewrite Hw. reflexivity.
    + assert (H1 : clen c / clen c = 1) by (apply Z.div_same; lia). rewrite H1. change (iota 1) with [0].
      cbn [map bind fst snd mapM].
      replace ((0 + 1) * clen c - 0 * clen c) with (clen c) by lia.
      destruct (wrap_at (clen c) i) as [j|e]; cbn [rmap bind]; [|reflexivity].
      replace (0 * clen c + j) with j by lia. destruct (carry c [j]); reflexivity.
Qed.

(* array[i] keeps the type (core type, Form::type with parameters, item types) and has length 1 *)
Theorem getitem_at_model_type_thm i c c' :
  getitem_model [IAt i] c = Ok c' ->
  type_of c' = type_of c /\
  (forall ts, type_of_form ts (form_of c') = type_of_form ts (form_of c)) /\
  (forall ts, item_types ts (form_of c') = item_types ts (form_of c)) /\
  (reg_nonneg c = true -> clen c' = 1).
Proof.
  rewrite getitem_at_model_thm. intros H. apply bind_Ok in H as (j & _ & H).
  split; [exact (carry_preserves_type c None _ _ H)|].
  split; [intros ts; exact (carry_preserves_rtype_thm ts c _ _ H)|].
  split; [intros ts; exact (carry_preserves_item_types_thm ts c _ _ H)|].
  intros Hr. exact (carry_len_thm c _ _ Hr H).
Qed.

(* on a valid array, for -len <= i < len: the result exists, is valid, holds exactly element i (i + len when
   negative), which has the array's item type and matches one of the item types of the array's form *)
Theorem getitem_at_model_elem_thm i c vs :
  Valid None c -> to_list c = Ok vs -> - clen c <= i < clen c ->
  exists c' v, getitem_model [IAt i] c = Ok c' /\ Valid None c' /\ to_list c' = Ok [v] /\
    get vs (if i <? 0 then i + clen c else i) = Ok v /\
    has_type (type_of c) v /\ type_of c' = type_of c /\
    forall ts l, item_types ts (form_of c) = Ok l -> existsb (fun it => item_matches it v) l = true.
Proof.
  intros HV Hl Hi. rewrite getitem_at_model_thm.
  set (j := if i <? 0 then i + clen c else i).
  assert (Hj : 0 <= j < clen c) by (unfold j; destruct (i <? 0) eqn:E; lia).
  assert (Hw : wrap_at (clen c) i = Ok j).
  { unfold wrap_at. fold j. destruct ((0 <=? j) && (j <? clen c)) eqn:E; [reflexivity|lia]. }
  rewrite Hw. cbn [bind].
  assert (HF : Forall (fun i => 0 <= i < clen c) [j]) by (constructor; [exact Hj|constructor]).
  destruct (carry_spec c vs [j] HV Hl HF) as (c' & Hc & Hl' & _).
  pose proof (carry_valid c vs [j] c' HV Hl HF Hc) as HV'.
  destruct (get_ok vs j) as (v & Hv); [rewrite (to_list_len _ _ Hl); exact Hj|].
  cbn [mapM] in Hl'. rewrite Hv in Hl'. cbn [bind] in Hl'.
  exists c', v. split; [exact Hc|]. split; [exact HV'|]. split; [exact Hl'|]. split; [exact Hv|].
  pose proof (to_list_typed_thm c vs HV Hl) as HT. rewrite Forall_forall in HT.
  split; [apply HT; eapply get_In; exact Hv|]. split; [exact (carry_preserves_type c None _ _ Hc)|].
  intros ts l Hit. exact (getitem_at_type_thm c vs j v ts l HV Hl Hv Hit).
Qed.

(* out of range: a value error, never anything else *)
Theorem getitem_at_model_oob_thm i c :
  ~ (- clen c <= i < clen c) -> getitem_model [IAt i] c = Err EValue.
Proof.
  intros Hi. rewrite getitem_at_model_thm. unfold wrap_at.
  destruct (i <? 0) eqn:E; destruct ((0 <=? _) && (_ <? clen c)) eqn:E2; try reflexivity; lia.
Qed.

(* ---------------------------------------------------------------- examples *)
Example ex_at_model : exists c' v, getitem_model [IAt (-2)] ex_layout = Ok c' /\ to_list c' = Ok [v] /\
  v = VList [VRec [([120], VNum (DZ 1)); ([121], VStr true [97; 98])]; VRec [([120], VNum (DZ 2)); ([121], VNone)]] /\
  type_of c' = type_of ex_layout.
Proof. do 2 eexists. split; [vm_compute; reflexivity|]. repeat split. Qed.

Example ex_at_model_thm : exists c' v, getitem_model [IAt 1] ex_layout = Ok c' /\ to_list c' = Ok [v] /\
  has_type (type_of ex_layout) v.
Proof.
  destruct (getitem_at_model_elem_thm 1 ex_layout _ ex_valid ex_to_list) as (c' & v & H1 & _ & H3 & _ & H5 & _).
  { vm_compute. split; congruence. }
  exists c', v. auto.
Qed.

(* n-d NumpyArray: array[1] of a 3 x 2 array is presented as a 1 x 2 array, type "2 * int64" kept *)
Example ex_at_numpy :
  getitem_model [IAt 1] (Numpy DInt64 [3; 2] [DZ 1; DZ 2; DZ 3; DZ 4; DZ 5; DZ 6]) = Ok (Numpy DInt64 [1; 2] [DZ 3; DZ 4]) /\
  getitem_model [IAt 3] (Numpy DInt64 [3; 2] [DZ 1; DZ 2; DZ 3; DZ 4; DZ 5; DZ 6]) = Err EValue.
Proof. split; vm_compute; reflexivity. Qed.
