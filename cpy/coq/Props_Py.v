(** Property theorems about the PYTHON-layer specifications (PySpec.v) of C03 C05 C07 C08 C09 C10.
    Only [Theorem .. Proof. exact lemma. Qed.] + [Print Assumptions]; an [Example] beside each shows that the
    hypotheses are satisfiable / what the statement says on a concrete array. *)
From Coq Require Import ZArith List Bool Lia.
From AwkV Require Import Base Layout Valid Types AtAxis Ops_Struct Ops_Flatten Ops_Option Ops_Reduce
  Ops_Getitem Ops_Fields.
From AwkPy Require Import PySpec Proofs_Py.
Import ListNotations.
Open Scope Z_scope.

Definition i64 (z : Z) : value := VNum (DZ z).
Definition tint : ty := TNum DInt64.

(* ====================================================================== C05 *)
(* unflatten(flatten(x), num(x)) = x with the default axes (flatten axis=1, num axis=1, unflatten axis=0), for
   every array x of lists - missing lists included (they contribute nothing to flatten, their count is None and
   unflatten gives None back).  No bound on sizes; the element type [te] is arbitrary. *)
Theorem unflatten_flatten : forall sz te (ls : list (option (list value))) f c,
  let t := TOpt (TList sz None te) in
  let x := map olist ls in
  spec_flatten (Some 1) t x = Ok (VList f) ->
  spec_num 1 t x = Ok (VList c) ->
  spec_unflatten 0 te f (CArr (TOpt (TNum DInt64)) c) = Ok (VList x).
Proof. exact unflatten_flatten_lemma. Qed.
Print Assumptions unflatten_flatten.
Example unflatten_flatten_ex :
  let x := [VList [i64 1; i64 2]; VNone; VList []; VList [i64 3]] in
  spec_flatten (Some 1) (TOpt (TList None None tint)) x = Ok (VList [i64 1; i64 2; i64 3]) /\
  spec_num 1 (TOpt (TList None None tint)) x = Ok (VList [i64 2; VNone; i64 0; i64 1]) /\
  spec_unflatten 0 tint [i64 1; i64 2; i64 3] (CArr (TOpt tint) [i64 2; VNone; i64 0; i64 1]) = Ok (VList x).
Proof. vm_compute. repeat split. Qed.

Theorem unflatten_flatten_plain : forall sz te (ls : list (list value)) f c,
  let t := TList sz None te in
  let x := map VList ls in
  spec_flatten (Some 1) t x = Ok (VList f) ->
  spec_num 1 t x = Ok (VList c) ->
  spec_unflatten 0 te f (CArr (TNum DInt64) c) = Ok (VList x).
Proof. exact unflatten_flatten_plain_lemma. Qed.
Print Assumptions unflatten_flatten_plain.

(* flatten(axis=None) of an array of lists = flatten(axis=None) of the concatenation of the lists (in order) *)
Theorem flatten_none_app : forall sz te (ls : list (list value)),
  leaves_l (TList sz None te) (map VList ls) = leaves_l te (concat ls).
Proof. exact flatten_none_app_lemma. Qed.
Print Assumptions flatten_none_app.
Example flatten_none_ex :
  spec_flatten_none (TList None None (TOpt (TList None None tint)))
    [VList [VList [i64 1; i64 2]; VNone]; VList []; VList [VList [i64 3]]] = Ok (VList [i64 1; i64 2; i64 3]).
Proof. reflexivity. Qed.

(* ====================================================================== C03 *)
(* ak.<reducer>(x, axis=None) = the reducer applied to all leaves of ak.flatten(x, axis=None) *)
Theorem reduce_none_is_reduce_of_flatten : forall r t vs dt ls,
  single_dt (leaf_dts t) = Some dt ->
  (match r with RArgmin | RArgmax => has_rec t = false | _ => True end) ->
  spec_flatten_none t vs = Ok (VList ls) ->
  spec_reduce_none r t vs = (do zs <- mapM leaf_int ls; reduce_leaves r dt zs).
Proof. exact reduce_none_is_reduce_of_flatten_lemma. Qed.
Print Assumptions reduce_none_is_reduce_of_flatten.
Example reduce_none_ex :
  spec_reduce_none RSum (TList None None (TOpt tint)) [VList [i64 1; VNone]; VList []; VList [i64 5]] = Ok (i64 6) /\
  spec_reduce_none RMax (TList None None tint) [VList []] = Ok VNone /\
  spec_reduce_none RArgmax (TList None None tint) [VList [i64 3; i64 9]; VList [i64 9]] = Ok (i64 1).
Proof. vm_compute. repeat split. Qed.

(* ====================================================================== C07 *)
(* ak.cartesian(arrays, axis=0): exactly the tuples of itertools.product, in its order *)
Theorem cartesian_is_product : forall (a0 : arr) (arrs : list arr),
  spec_cartesian 0 NNone None (a0 :: arrs) = Ok (VList (map VTup (product (map snd (a0 :: arrs))))).
Proof. exact cartesian_is_product_lemma. Qed.
Print Assumptions cartesian_is_product.
Example cartesian_ex :
  spec_cartesian 0 NNone None [(tint, [i64 1; i64 2]); (tint, [i64 7; i64 8; i64 9])] =
  Ok (VList [VTup [i64 1; i64 7]; VTup [i64 1; i64 8]; VTup [i64 1; i64 9];
             VTup [i64 2; i64 7]; VTup [i64 2; i64 8]; VTup [i64 2; i64 9]]).
Proof. reflexivity. Qed.

(* per entry (any axis): the number of tuples is the product of the list lengths *)
Theorem cartesian_length : forall (ls : list (list value)) out,
  cart_entry None [] (map Some ls) = Ok (VList out) ->
  length out = fold_right Nat.mul 1%nat (map (@length value) ls).
Proof. exact cartesian_length_lemma. Qed.
Print Assumptions cartesian_length.

(* element (i, j) of the product of two lists is (a_i, b_j): position i * len(b) + j *)
Theorem cartesian_pair_index : forall (a b : list value) (d : value) i j,
  (i < length a)%nat -> (j < length b)%nat ->
  nth (i * length b + j) (product [a; b]) [] = [nth i a d; nth j b d].
Proof. exact (@product_pair_nth value). Qed.
Print Assumptions cartesian_pair_index.

(* nested=True: one inner list per element of the first list *)
Theorem cartesian_nested_pair : forall (a b : list value),
  cart_entry None [0] [Some a; Some b] = Ok (VList (map (fun x => VList (map (fun y => VTup [x; y]) b)) a)).
Proof. exact cartesian_nested_pair_lemma. Qed.
Print Assumptions cartesian_nested_pair.
Example cartesian_axis1_ex :
  spec_cartesian 1 NAll None [(TList None None tint, [VList [i64 1; i64 2]; VList []]);
                              (TList None None tint, [VList [i64 7]; VList [i64 8]])] =
  Ok (VList [VList [VList [VTup [i64 1; i64 7]]; VList [VTup [i64 2; i64 7]]]; VList []]).
Proof. reflexivity. Qed.

(* ====================================================================== C08 *)
(* ak.concatenate(arrays, axis=0) = the elements of the first array followed by those of the others *)
Theorem concat_axis0_app : forall (a0 : arr) (arrs : list arr),
  existsb has_union (map fst (a0 :: arrs)) = false ->
  mixes_bool_num (map fst (a0 :: arrs)) = false ->
  0 < fold_right (fun t m => Z.max (snd (minmax t)) m) 0 (map fst (a0 :: arrs)) ->
  spec_concat_axis 0 (a0 :: arrs) = Ok (VList (concat (map snd (a0 :: arrs)))).
Proof. exact concat_axis0_app_lemma. Qed.
Print Assumptions concat_axis0_app.
Example concat_axis0_ex :
  spec_concat_axis 0 [(tint, [i64 1; i64 2]); (TOpt tint, [VNone]); (tint, [i64 3])] =
  Ok (VList [i64 1; i64 2; VNone; i64 3]).
Proof. reflexivity. Qed.

(* ak.concatenate(arrays, axis=1) concatenates corresponding lists: every element kept, in order *)
Theorem concat_axis1_zipapp : forall sz te (xs ys : list (list value)),
  length xs = length ys ->
  has_union te = false -> has_empty_rec te = false ->
  mixes_bool_num [TList sz None te; TList sz None te] = false ->
  1 <= snd (minmax te) ->
  spec_concat_axis 1 [(TList sz None te, map VList xs); (TList sz None te, map VList ys)] =
  Ok (VList (map (fun p : list value * list value => VList (fst p ++ snd p)) (zip xs ys))).
Proof. exact concat_axis1_zipapp_lemma. Qed.
Print Assumptions concat_axis1_zipapp.
Example concat_axis1_ex :
  spec_concat_axis 1 [(TList None None tint, [VList [i64 1; i64 2]; VList []]);
                      (TList None None tint, [VList [i64 9]; VList [i64 8; i64 7]])] =
  Ok (VList [VList [i64 1; i64 2; i64 9]; VList [i64 8; i64 7]]).
Proof. reflexivity. Qed.
(* ... so the length of every output list is the sum of the lengths of the input lists *)
Theorem concat_axis1_lengths : forall (xs ys : list (list value)),
  map (fun p : list value * list value => zlen (fst p ++ snd p)) (zip xs ys) =
  map (fun p : list value * list value => zlen (fst p) + zlen (snd p)) (zip xs ys).
Proof. exact concat_axis1_lengths. Qed.
Print Assumptions concat_axis1_lengths.
(* arrays of different lengths cannot be concatenated along axis 1 *)
Example concat_axis1_mismatch_ex :
  spec_concat_axis 1 [(TList None None tint, [VList [i64 1]; VList []; VList []]);
                      (TList None None tint, [VList [i64 9]; VList []])] = Err EValue.
Proof. reflexivity. Qed.

(* ====================================================================== C09 *)
Theorem is_none_exact : forall t vs,
  is_union t = false ->
  spec_is_none 0 t vs = Ok (VList (map (fun v => VBool (is_none v)) vs)).
Proof. exact is_none_exact_lemma. Qed.
Print Assumptions is_none_exact.
(* ... also through a union, whose alternatives may carry the missing values (option below the union), at the
   outermost level and one level down (a missing list stays missing) *)
Theorem is_none_union_exact : forall ts vs,
  spec_is_none 0 (TUnion ts) vs = Ok (VList (map (fun v => VBool (is_none v)) vs)).
Proof. exact is_none_union_exact_lemma. Qed.
Print Assumptions is_none_union_exact.
Theorem is_none_union_axis1 : forall ts (ls : list (option (list value))),
  spec_is_none 1 (TUnion ts) (map (fun o => match o with Some l => VList l | None => VNone end) ls) =
  Ok (VList (map (fun o => match o with
                           | Some l => VList (map (fun v => VBool (is_none v)) l)
                           | None => VNone
                           end) ls)).
Proof. exact is_none_union_axis1_lemma. Qed.
Print Assumptions is_none_union_axis1.
Theorem is_none_exact_axis1 : forall sz te (ls : list (list value)),
  spec_is_none 1 (TList sz None te) (map VList ls) =
  Ok (VList (map (fun l => VList (map (fun v => VBool (is_none v)) l)) ls)).
Proof. exact is_none_exact_axis1_lemma. Qed.
Print Assumptions is_none_exact_axis1.
Example is_none_ex :
  spec_is_none 1 (TOpt (TList None None (TOpt tint))) [VList [i64 1; VNone]; VNone; VList []] =
  Ok (VList [VList [VBool false; VBool true]; VNone; VList []]).
Proof. reflexivity. Qed.

(* ak.mask(x, m, valid_when): None exactly where m differs from valid_when, everything else unchanged *)
Theorem mask_exact : forall vw ta (xs : list value) (ms : list bool),
  has_union ta = false ->
  length xs = length ms ->
  spec_mask vw ta xs (TNum DBool) (map VBool ms) =
  Ok (VList (map (fun p : value * bool => if Bool.eqb (snd p) vw then fst p else VNone) (zip xs ms))).
Proof. exact mask_exact_lemma. Qed.
Print Assumptions mask_exact.
(* a mask with the structure of the array (lists of booleans of the same lengths) *)
Theorem mask_exact_lists : forall vw ta' (xss : list (list value)) (mss : list (list bool)),
  has_union ta' = false ->
  Forall2 (fun xs ms => length xs = length ms) xss mss ->
  spec_mask vw (TList None None ta') (map VList xss) (TList None None (TNum DBool))
            (map (fun ms => VList (map VBool ms)) mss) =
  Ok (VList (map (fun p : list value * list bool =>
                    VList (map (fun q : value * bool => if Bool.eqb (snd q) vw then fst q else VNone) (zip (fst p) (snd p))))
                 (zip xss mss))).
Proof. exact mask_exact_lists_lemma. Qed.
Print Assumptions mask_exact_lists.
Example mask_ex :
  spec_mask true (TList None None tint) [VList [i64 1]; VList []; VList [i64 2]]
            (TNum DBool) [VBool true; VBool false; VBool true] = Ok (VList [VList [i64 1]; VNone; VList [i64 2]]) /\
  spec_mask false (TList None None tint) [VList [i64 1; i64 2]; VList [i64 3]]
            (TList None None (TNum DBool)) [VList [VBool true; VBool false]; VList [VBool false]]
  = Ok (VList [VList [VNone; i64 2]; VList [i64 3]]).
Proof. vm_compute. split; reflexivity. Qed.

(* ak.fill_none(x, v, axis): exactly the None entries at that level are replaced *)
Theorem fill_none_exact : forall dt v0 vs,
  is_bool_dt dt = false ->
  spec_fill_none (FAxis 0) v0 (TOpt (TNum dt)) vs = Ok (VList (map (fun v => if is_none v then v0 else v) vs)).
Proof. exact fill_none_exact_lemma. Qed.
Print Assumptions fill_none_exact.
Theorem fill_none_exact_axis1 : forall sz dt v0 (ls : list (list value)),
  is_bool_dt dt = false ->
  spec_fill_none (FAxis 1) v0 (TList sz None (TOpt (TNum dt))) (map VList ls) =
  Ok (VList (map (fun l => VList (map (fun v => if is_none v then v0 else v) l)) ls)).
Proof. exact fill_none_exact_axis1_lemma. Qed.
Print Assumptions fill_none_exact_axis1.
Example fill_none_ex :
  spec_fill_none (FAxis 1) (i64 9) (TOpt (TList None None (TOpt tint))) [VList [i64 1; VNone]; VNone]
  = Ok (VList [VList [i64 1; i64 9]; VNone]) /\
  spec_fill_none (FAxis 0) (i64 9) (TOpt (TList None None (TOpt tint))) [VList [i64 1; VNone]; VNone]
  = Ok (VList [VList [i64 1; VNone]; i64 9]).
Proof. vm_compute. split; reflexivity. Qed.

(* ak.firsts(ak.singletons(x)) = x for every option-type array x *)
Theorem firsts_singletons : forall t' vs, spec_firsts_singletons (TOpt t') vs = Ok (VList vs).
Proof. exact firsts_singletons_lemma. Qed.
Print Assumptions firsts_singletons.
Example firsts_singletons_ex :
  spec_singletons (TOpt tint) [i64 1; VNone; i64 3] = Ok (VList [VList [i64 1]; VList []; VList [i64 3]]) /\
  spec_firsts 1 (TList None None tint) [VList [i64 1]; VList []; VList [i64 3]] = Ok (VList [i64 1; VNone; i64 3]).
Proof. vm_compute. split; reflexivity. Qed.

(* ====================================================================== C10 *)
(* unzip(zip(fields)) = fields.  FRAGMENT: zip building its records at the outermost level (depth_limit = 1; the
   fields may have any structure, equal or not).  Not proved: zipping below the first level of equally
   structured nested lists (that case is covered by the correspondence only). *)
Theorem unzip_zip_partial : forall n (fields : option (list name)) (arrs : list arr),
  arrs <> [] ->
  all_len n (map snd arrs) ->
  existsb is_union (map fst arrs) = false ->
  fields_ok (zlen arrs) fields = true ->
  spec_unzip_zip (Some 1) fields arrs = Ok (VTup (map (fun a : arr => VList (snd a)) arrs)).
Proof. exact unzip_zip_partial_lemma. Qed.
Print Assumptions unzip_zip_partial.
(* ... and for fields that are lists of leaves with equal list lengths row by row, where zip goes one level down
   and builds one record per element (depth_limit=None).  [aligned_row]: the k lists of a row have one length. *)
Theorem unzip_zip_lists : forall n (fields : option (list name)) (arrs : list arr),
  arrs <> [] ->
  all_len n (map snd arrs) ->
  Forall leaf_list_ty (map fst arrs) ->
  fields_ok (zlen arrs) fields = true ->
  Forall aligned_row (transpose_n n (map snd arrs)) ->
  spec_unzip_zip None fields arrs = Ok (VTup (map (fun a : arr => VList (snd a)) arrs)).
Proof. exact unzip_zip_lists_lemma. Qed.
Print Assumptions unzip_zip_lists.
Example unzip_zip_ex :
  spec_unzip_zip None (Some [[120]; [121]])
    [(TList None None tint, [VList [i64 1; i64 2]; VList []]); (TList None None tint, [VList [i64 5; i64 6]; VList []])]
  = Ok (VTup [VList [VList [i64 1; i64 2]; VList []]; VList [VList [i64 5; i64 6]; VList []]]) /\
  spec_zip None (Some [[120]; [121]])
    [(TList None None tint, [VList [i64 1; i64 2]; VList []]); (tint, [i64 5; i64 6])]
  = Ok (VList [VList [VRec [([120], i64 1); ([121], i64 5)]; VRec [([120], i64 2); ([121], i64 5)]]; VList []]).
Proof. vm_compute. split; reflexivity. Qed.

(* with_field(base, what, k) on an array of records with distinct keys [ks]: reading k gives what ... *)
Theorem with_field_get_same : forall k ks ts tw (rows : list (list (name * value))) (ws : list value),
  existsb has_union ts = false -> has_union tw = false ->
  records_of ks rows -> NoDup ks -> zlen ts = zlen ks -> length rows = length ws ->
  spec_get_with_field [k] (TRec (Some ks) ts) (map VRec rows) (WArr tw ws) = Ok (VList ws).
Proof. exact with_field_get_same_lemma. Qed.
Print Assumptions with_field_get_same.

(* ... every other field reads as before ... *)
Theorem with_field_get_other : forall k k' ks ts tw (rows : list (list (name * value))) (ws : list value) out t',
  existsb has_union ts = false -> has_union tw = false ->
  records_of ks rows -> zlen ts = zlen ks -> length rows = length ws ->
  k' <> k -> In k' ks ->
  with_field_path [k] (TRec (Some ks) ts) (map VRec rows) (WArr tw ws) = Ok (t', out) ->
  mapM (proj_v k' t') out = mapM (proj_v k' (TRec (Some ks) ts)) (map VRec rows).
Proof. exact with_field_get_other_lemma. Qed.
Print Assumptions with_field_get_other.

(* ... and the number of records and the field names (the others in their order, then k) are as stated *)
Theorem with_field_preserves_shape : forall k ks ts tw (rows : list (list (name * value))) (ws : list value) out t',
  existsb has_union ts = false -> has_union tw = false ->
  records_of ks rows -> zlen ts = zlen ks -> length rows = length ws ->
  with_field_path [k] (TRec (Some ks) ts) (map VRec rows) (WArr tw ws) = Ok (t', out) ->
  length out = length rows /\
  Forall (fun v => exists fs, v = VRec fs /\ map fst fs = remove_name k ks ++ [k]) out.
Proof. exact with_field_preserves_shape_lemma. Qed.
Print Assumptions with_field_preserves_shape.
(* with_field on an array of LISTS of records keeps the enclosing list structure: same number of lists, every list
   keeps its length, record (i, j) gets what[i][j] as field k, its other fields stay *)
Theorem with_field_preserves_lists : forall k ks ts tw
        (rows : list (list (list (name * value)))) (wss : list (list value)),
  existsb has_union ts = false -> has_union tw = false ->
  Forall (records_of ks) rows -> zlen ts = zlen ks ->
  Forall2 (fun fss ws => length fss = length ws) rows wss ->
  spec_with_field [k] (TList None None (TRec (Some ks) ts)) (map (fun fss => VList (map VRec fss)) rows)
                  (WArr (TList None None tw) (map VList wss)) =
  Ok (VList (map (fun p : list (list (name * value)) * list value =>
                    VList (map (fun q : list (name * value) * value => VRec (remove_key k (fst q) ++ [(k, snd q)]))
                               (zip (fst p) (snd p))))
                 (zip rows wss))).
Proof. exact with_field_preserves_lists_lemma. Qed.
Print Assumptions with_field_preserves_lists.
Example with_field_ex :
  spec_with_field [[121]] (TList None None (TRec (Some [[120]; [121]]) [tint; tint]))
     [VList [VRec [([120], i64 1); ([121], i64 0)]; VRec [([120], i64 2); ([121], i64 0)]]; VList []]
     (WArr (TList None None tint) [VList [i64 10; i64 20]; VList []])
  = Ok (VList [VList [VRec [([120], i64 1); ([121], i64 10)]; VRec [([120], i64 2); ([121], i64 20)]]; VList []]).
Proof. reflexivity. Qed.

(* ====================================================================== C18: partitioned arrays *)

(* ====================================================================== C18, partitioned half *)
(* A partitioned array (awkward.partition.PartitionedArray) is a list of arrays [parts] of one type [t] standing for
   [concat parts].  partition.py applies an operation to every partition separately whenever
   [first(self).axis_wrap_if_negative(axis) != 0] (for reducers: unless "not branch and negaxis == depth").
   The theorems say that this gives the value - and the error status - of the operation on the concatenation:
       op (xs ++ ys) = lift2 app (op xs) (op ys)        [lift2: both must succeed, the LEFT error wins]
       op (concat parts) = rmap concat (mapM op parts)  [the first failing partition gives the error]
   and give the combination rules used when the axis is the outermost one / there is no axis. *)
From Coq Require Import Permutation.
From AwkV Require Import Ops_Sort.
From AwkPy Require Import Proofs_Partition Proofs_Partition2 Proofs_Partition3.

(* example partitions: var * ?{x: int64, y: var * int64} and var * ?(var * int64), three partitions, the middle one empty *)
Definition pt_t : ty := TList None None (TOpt (TRec (Some [[120]; [121]]) [tint; TList None None tint])).
Definition pt_rec (x : Z) (ys : list Z) : value := VRec [([120], i64 x); ([121], VList (map i64 ys))].
Definition pt_parts : list (list value) :=
  [ [VList [pt_rec 1 [10; 11]; VNone]; VList []];  [];  [VList [pt_rec 2 []; pt_rec 3 [30]; VNone]] ].
Definition pt_u : ty := TList None None (TOpt (TList None None tint)).
Definition pt_uparts : list (list value) :=
  [ [VList [VList [i64 3; i64 1]; VNone]; VList []];  [];  [VList [VList []; VList [i64 2; i64 2; i64 0]]] ].

(* ---- which error wins ---- *)
Theorem lift2_succeeds : forall (A B C : Type) (f : A -> B -> C) (a : res A) (b : res B) (c : C),
  lift2 f a b = Ok c <-> exists x y, a = Ok x /\ b = Ok y /\ c = f x y.
Proof. exact (@lift2_ok). Qed.
Print Assumptions lift2_succeeds.
Theorem lift2_error_wins : forall (A B C : Type) (f : A -> B -> C) (a : res A) (b : res B) (e : err),
  lift2 f a b = Err e <-> a = Err e \/ (exists x, a = Ok x) /\ b = Err e.
Proof. exact (@lift2_err). Qed.
Print Assumptions lift2_error_wins.
Example lift2_error_wins_ex :
  lift2 (@app value) (Err EFuel) (Err EValue) = Err EFuel /\ lift2 (@app value) (Ok [VNone]) (Err EValue) = Err EValue.
Proof. split; reflexivity. Qed.

(* ---- the at-axis combinator: ANY per-list action, ANY axis ---- *)
Theorem spec_ax_app : forall (f : ty -> list value -> res value) (unk_ok : bool) (fchk : ty -> bool) (str_ok : bool)
    (t : ty) (axis : Z) (xs ys : list value),
  spec_ax f unk_ok fchk str_ok t axis (xs ++ ys) =
  lift2 (@app value) (spec_ax f unk_ok fchk str_ok t axis xs) (spec_ax f unk_ok fchk str_ok t axis ys).
Proof. exact spec_ax_app_lemma. Qed.
Print Assumptions spec_ax_app.
Theorem spec_ax_parts : forall (f : ty -> list value -> res value) (unk_ok : bool) (fchk : ty -> bool) (str_ok : bool)
    (t : ty) (axis : Z) (parts : list (list value)),
  parts <> [] ->
  spec_ax f unk_ok fchk str_ok t axis (concat parts) =
  rmap (@concat value) (mapM (spec_ax f unk_ok fchk str_ok t axis) parts).
Proof. exact spec_ax_parts_lemma. Qed.
Print Assumptions spec_ax_parts.
Theorem spec_ax_fold : forall (f : ty -> list value -> res value) (unk_ok : bool) (fchk : ty -> bool) (str_ok : bool)
    (t : ty) (axis : Z) (parts : list (list value)),
  spec_ax f unk_ok fchk str_ok t axis (concat parts) =
  fold_right (fun p acc => lift2 (@app value) (spec_ax f unk_ok fchk str_ok t axis p) acc)
             (spec_ax f unk_ok fchk str_ok t axis []) parts.
Proof. exact spec_ax_fold_lemma. Qed.
Print Assumptions spec_ax_fold.
Example spec_ax_parts_ex :
  spec_ax num_f true (fun _ => true) true pt_t 1 (concat pt_parts) = Ok [i64 2; i64 0; i64 3] /\
  rmap (@concat value) (mapM (spec_ax num_f true (fun _ => true) true pt_t 1) pt_parts) = Ok [i64 2; i64 0; i64 3] /\
  (* an error inside the last partition (a number where a list should be) is the error of the whole *)
  spec_ax num_f true (fun _ => true) true pt_u 2 (concat [[VList [VList []]]; []; [VList [i64 7]]]) = Err EValue /\
  rmap (@concat value) (mapM (spec_ax num_f true (fun _ => true) true pt_u 2) [[VList [VList []]]; []; [VList [i64 7]]])
    = Err EValue.
Proof. repeat split; reflexivity. Qed.

(* ---- "the axis is not the outermost one": whole-array resolution and per-node resolution agree ---- *)
Theorem axis_top_inner : forall t axis ax,
  resolve_axis_top t axis = Ok ax -> (ax =? 0) = false -> axis_inner t axis = true.
Proof. exact top_resolved_inner. Qed.
Print Assumptions axis_top_inner.
Example axis_below_top_ex :
  axis_below_top pt_t 1 = true /\ axis_below_top pt_t (-1) = true /\ axis_below_top pt_u (-1) = true /\
  axis_below_top pt_u 2 = true /\ axis_inner pt_u (-1) = true /\ axis_inner pt_t 1 = true /\
  axis_below_top pt_u (-3) = false /\ axis_below_top pt_t 0 = false.
Proof. repeat split; reflexivity. Qed.

(* ---- ak.num ---- *)
Theorem spec_num_app : forall axis t xs ys,
  axis_below_top t axis = true ->
  spec_num axis t (xs ++ ys) = lift2 vapp (spec_num axis t xs) (spec_num axis t ys).
Proof. exact spec_num_app_lemma. Qed.
Print Assumptions spec_num_app.
Theorem spec_num_parts : forall axis t parts,
  axis_below_top t axis = true -> parts <> [] ->
  spec_num axis t (concat parts) = rmap vconcat (mapM (spec_num axis t) parts).
Proof. exact spec_num_parts_lemma. Qed.
Print Assumptions spec_num_parts.
Example spec_num_parts_ex :
  spec_num 1 pt_t (concat pt_parts) = Ok (VList [i64 2; i64 0; i64 3]) /\
  rmap vconcat (mapM (spec_num 1 pt_t) pt_parts) = Ok (VList [i64 2; i64 0; i64 3]) /\
  spec_num (-1) pt_u (concat pt_uparts) = Ok (VList [VList [i64 2; VNone]; VList []; VList [i64 0; i64 3]]) /\
  rmap vconcat (mapM (spec_num (-1) pt_u) pt_uparts) = Ok (VList [VList [i64 2; VNone]; VList []; VList [i64 0; i64 3]]).
Proof. repeat split; reflexivity. Qed.

(* ---- ak.local_index ---- *)
Theorem spec_local_index_app : forall axis t xs ys,
  axis_below_top t axis = true ->
  spec_local_index axis t (xs ++ ys) = lift2 vapp (spec_local_index axis t xs) (spec_local_index axis t ys).
Proof. exact spec_local_index_app_lemma. Qed.
Print Assumptions spec_local_index_app.
Theorem spec_local_index_parts : forall axis t parts,
  axis_below_top t axis = true -> parts <> [] ->
  spec_local_index axis t (concat parts) = rmap vconcat (mapM (spec_local_index axis t) parts).
Proof. exact spec_local_index_parts_lemma. Qed.
Print Assumptions spec_local_index_parts.
Example spec_local_index_parts_ex :
  spec_local_index 1 pt_t (concat pt_parts) = Ok (VList [VList [i64 0; i64 1]; VList []; VList [i64 0; i64 1; i64 2]]) /\
  rmap vconcat (mapM (spec_local_index 1 pt_t) pt_parts)
    = Ok (VList [VList [i64 0; i64 1]; VList []; VList [i64 0; i64 1; i64 2]]) /\
  spec_local_index (-1) pt_u (concat pt_uparts) = rmap vconcat (mapM (spec_local_index (-1) pt_u) pt_uparts) /\
  spec_local_index (-1) pt_u (concat pt_uparts)
    = Ok (VList [VList [VList [i64 0; i64 1]; VNone]; VList []; VList [VList []; VList [i64 0; i64 1; i64 2]]]).
Proof. repeat split; reflexivity. Qed.

(* ---- ak.pad_none (clip = False: rpad, clip = True: rpad_and_clip) ---- *)
Theorem spec_pad_none_app : forall target axis clip t xs ys,
  axis_below_top t axis = true ->
  spec_pad_none target axis clip t (xs ++ ys) =
  lift2 vapp (spec_pad_none target axis clip t xs) (spec_pad_none target axis clip t ys).
Proof. exact spec_pad_none_app_lemma. Qed.
Print Assumptions spec_pad_none_app.
Theorem spec_pad_none_parts : forall target axis clip t parts,
  axis_below_top t axis = true -> parts <> [] ->
  spec_pad_none target axis clip t (concat parts) = rmap vconcat (mapM (spec_pad_none target axis clip t) parts).
Proof. exact spec_pad_none_parts_lemma. Qed.
Print Assumptions spec_pad_none_parts.
Example spec_pad_none_parts_ex :
  spec_pad_none 2 1 true pt_t (concat pt_parts)
    = Ok (VList [VList [pt_rec 1 [10; 11]; VNone]; VList [VNone; VNone]; VList [pt_rec 2 []; pt_rec 3 [30]]]) /\
  rmap vconcat (mapM (spec_pad_none 2 1 true pt_t) pt_parts) = spec_pad_none 2 1 true pt_t (concat pt_parts) /\
  spec_pad_none 2 2 false pt_u (concat pt_uparts)
    = Ok (VList [VList [VList [i64 3; i64 1]; VNone]; VList []; VList [VList [VNone; VNone]; VList [i64 2; i64 2; i64 0]]]) /\
  rmap vconcat (mapM (spec_pad_none 2 2 false pt_u) pt_uparts) = spec_pad_none 2 2 false pt_u (concat pt_uparts).
Proof. repeat split; reflexivity. Qed.

(* ---- ak.combinations / ak.argcombinations ---- *)
Theorem spec_combinations_app : forall n repl axis fields t xs ys,
  axis_below_top t axis = true ->
  spec_combinations n repl axis fields t (xs ++ ys) =
  lift2 vapp (spec_combinations n repl axis fields t xs) (spec_combinations n repl axis fields t ys).
Proof. exact spec_combinations_app_lemma. Qed.
Print Assumptions spec_combinations_app.
Theorem spec_combinations_parts : forall n repl axis fields t parts,
  axis_below_top t axis = true -> parts <> [] ->
  spec_combinations n repl axis fields t (concat parts) =
  rmap vconcat (mapM (spec_combinations n repl axis fields t) parts).
Proof. exact spec_combinations_parts_lemma. Qed.
Print Assumptions spec_combinations_parts.
Example spec_combinations_parts_ex :
  spec_combinations 2 false 1 None pt_t (concat pt_parts)
    = Ok (VList [VList [VTup [pt_rec 1 [10; 11]; VNone]]; VList [];
                 VList [VTup [pt_rec 2 []; pt_rec 3 [30]]; VTup [pt_rec 2 []; VNone]; VTup [pt_rec 3 [30]; VNone]]]) /\
  rmap vconcat (mapM (spec_combinations 2 false 1 None pt_t) pt_parts)
    = spec_combinations 2 false 1 None pt_t (concat pt_parts) /\
  spec_combinations 2 false (-1) None pt_u (concat pt_uparts)
    = Ok (VList [VList [VList [VTup [i64 3; i64 1]]; VNone]; VList [];
                 VList [VList []; VList [VTup [i64 2; i64 2]; VTup [i64 2; i64 0]; VTup [i64 2; i64 0]]]]) /\
  rmap vconcat (mapM (spec_combinations 2 false (-1) None pt_u) pt_uparts)
    = spec_combinations 2 false (-1) None pt_u (concat pt_uparts).
Proof. repeat split; reflexivity. Qed.

Theorem spec_argcombinations_app : forall n repl axis fields t xs ys,
  axis_below_top t axis = true ->
  spec_argcombinations n repl axis fields t (xs ++ ys) =
  lift2 vapp (spec_argcombinations n repl axis fields t xs) (spec_argcombinations n repl axis fields t ys).
Proof. exact spec_argcombinations_app_lemma. Qed.
Print Assumptions spec_argcombinations_app.
Theorem spec_argcombinations_parts : forall n repl axis fields t parts,
  axis_below_top t axis = true -> parts <> [] ->
  spec_argcombinations n repl axis fields t (concat parts) =
  rmap vconcat (mapM (spec_argcombinations n repl axis fields t) parts).
Proof. exact spec_argcombinations_parts_lemma. Qed.
Print Assumptions spec_argcombinations_parts.
Example spec_argcombinations_parts_ex :
  spec_argcombinations 2 true 1 None pt_t (concat pt_parts)
    = Ok (VList [VList [VTup [i64 0; i64 0]; VTup [i64 0; i64 1]; VTup [i64 1; i64 1]]; VList [];
                 VList [VTup [i64 0; i64 0]; VTup [i64 0; i64 1]; VTup [i64 0; i64 2];
                        VTup [i64 1; i64 1]; VTup [i64 1; i64 2]; VTup [i64 2; i64 2]]]) /\
  rmap vconcat (mapM (spec_argcombinations 2 true 1 None pt_t) pt_parts)
    = spec_argcombinations 2 true 1 None pt_t (concat pt_parts).
Proof. split; reflexivity. Qed.

(* ---- ak.firsts ---- *)
Theorem spec_firsts_app : forall axis t xs ys,
  axis_below_top t axis = true ->
  spec_firsts axis t (xs ++ ys) = lift2 vapp (spec_firsts axis t xs) (spec_firsts axis t ys).
Proof. exact spec_firsts_app_lemma. Qed.
Print Assumptions spec_firsts_app.
Theorem spec_firsts_parts : forall axis t parts,
  axis_below_top t axis = true -> parts <> [] ->
  spec_firsts axis t (concat parts) = rmap vconcat (mapM (spec_firsts axis t) parts).
Proof. exact spec_firsts_parts_lemma. Qed.
Print Assumptions spec_firsts_parts.
Example spec_firsts_parts_ex :
  spec_firsts 1 pt_t (concat pt_parts) = Ok (VList [pt_rec 1 [10; 11]; VNone; pt_rec 2 []]) /\
  rmap vconcat (mapM (spec_firsts 1 pt_t) pt_parts) = Ok (VList [pt_rec 1 [10; 11]; VNone; pt_rec 2 []]).
Proof. split; reflexivity. Qed.

(* ---- element-wise at EVERY axis (no hypothesis on the axis): is_none, fill_none, flatten(axis) ---- *)
Theorem spec_is_none_app : forall axis t xs ys,
  spec_is_none axis t (xs ++ ys) = lift2 vapp (spec_is_none axis t xs) (spec_is_none axis t ys).
Proof. exact spec_is_none_app_lemma. Qed.
Print Assumptions spec_is_none_app.
Theorem spec_is_none_parts : forall axis t parts,
  parts <> [] -> spec_is_none axis t (concat parts) = rmap vconcat (mapM (spec_is_none axis t) parts).
Proof. exact spec_is_none_parts_lemma. Qed.
Print Assumptions spec_is_none_parts.
Example spec_is_none_parts_ex :
  spec_is_none 1 pt_t (concat pt_parts)
    = Ok (VList [VList [VBool false; VBool true]; VList []; VList [VBool false; VBool false; VBool true]]) /\
  rmap vconcat (mapM (spec_is_none 1 pt_t) pt_parts) = spec_is_none 1 pt_t (concat pt_parts) /\
  spec_is_none 0 pt_t (concat pt_parts) = Ok (VList [VBool false; VBool false; VBool false]) /\
  rmap vconcat (mapM (spec_is_none 0 pt_t) pt_parts) = spec_is_none 0 pt_t (concat pt_parts).
Proof. repeat split; reflexivity. Qed.

Theorem spec_fill_none_app : forall fa v0 t xs ys,
  spec_fill_none fa v0 t (xs ++ ys) = lift2 vapp (spec_fill_none fa v0 t xs) (spec_fill_none fa v0 t ys).
Proof. exact spec_fill_none_app_lemma. Qed.
Print Assumptions spec_fill_none_app.
Theorem spec_fill_none_parts : forall fa v0 t parts,
  parts <> [] -> spec_fill_none fa v0 t (concat parts) = rmap vconcat (mapM (spec_fill_none fa v0 t) parts).
Proof. exact spec_fill_none_parts_lemma. Qed.
Print Assumptions spec_fill_none_parts.
Example spec_fill_none_parts_ex :
  spec_fill_none (FAxis 1) (i64 0) pt_t (concat pt_parts)
    = Ok (VList [VList [pt_rec 1 [10; 11]; i64 0]; VList []; VList [pt_rec 2 []; pt_rec 3 [30]; i64 0]]) /\
  rmap vconcat (mapM (spec_fill_none (FAxis 1) (i64 0) pt_t) pt_parts)
    = spec_fill_none (FAxis 1) (i64 0) pt_t (concat pt_parts) /\
  rmap vconcat (mapM (spec_fill_none FAll (i64 0) pt_t) pt_parts) = spec_fill_none FAll (i64 0) pt_t (concat pt_parts) /\
  rmap vconcat (mapM (spec_fill_none FDefault (i64 0) pt_t) pt_parts)
    = spec_fill_none FDefault (i64 0) pt_t (concat pt_parts).
Proof. repeat split; reflexivity. Qed.

(* Content::flatten (core specification) and ak.flatten(array, axis): axis 0 only drops the missing entries of the
   outer level, so also that case is per element; partition.py applies flatten to every partition whatever the axis *)
Theorem flatten_spec_app : forall axis t xs ys,
  flatten_spec axis t (xs ++ ys) = lift2 (@app value) (flatten_spec axis t xs) (flatten_spec axis t ys).
Proof. exact flatten_spec_app_lemma. Qed.
Print Assumptions flatten_spec_app.
Theorem spec_flatten_axis_app : forall a t xs ys,
  spec_flatten (Some a) t (xs ++ ys) = lift2 vapp (spec_flatten (Some a) t xs) (spec_flatten (Some a) t ys).
Proof. exact spec_flatten_axis_app_lemma. Qed.
Print Assumptions spec_flatten_axis_app.
Theorem spec_flatten_axis_parts : forall a t parts,
  parts <> [] -> spec_flatten (Some a) t (concat parts) = rmap vconcat (mapM (spec_flatten (Some a) t) parts).
Proof. exact spec_flatten_axis_parts_lemma. Qed.
Print Assumptions spec_flatten_axis_parts.
Example spec_flatten_axis_parts_ex :
  spec_flatten (Some 1) pt_t (concat pt_parts)
    = Ok (VList [pt_rec 1 [10; 11]; VNone; pt_rec 2 []; pt_rec 3 [30]; VNone]) /\
  rmap vconcat (mapM (spec_flatten (Some 1) pt_t) pt_parts) = spec_flatten (Some 1) pt_t (concat pt_parts) /\
  spec_flatten (Some 2) pt_u (concat pt_uparts) = Ok (VList [VList [i64 3; i64 1]; VList []; VList [i64 2; i64 2; i64 0]]) /\
  rmap vconcat (mapM (spec_flatten (Some 2) pt_u) pt_uparts) = spec_flatten (Some 2) pt_u (concat pt_uparts) /\
  spec_flatten (Some 0) (TOpt tint) (concat [[i64 1; VNone]; []; [VNone; i64 2]]) = Ok (VList [i64 1; i64 2]) /\
  rmap vconcat (mapM (spec_flatten (Some 0) (TOpt tint)) [[i64 1; VNone]; []; [VNone; i64 2]]) = Ok (VList [i64 1; i64 2]).
Proof. repeat split; reflexivity. Qed.

Theorem spec_singletons_app : forall t xs ys,
  spec_singletons t (xs ++ ys) = lift2 vapp (spec_singletons t xs) (spec_singletons t ys).
Proof. exact spec_singletons_app_lemma. Qed.
Print Assumptions spec_singletons_app.
Theorem spec_values_astype_app : forall to t xs ys,
  spec_values_astype to t (xs ++ ys) = lift2 vapp (spec_values_astype to t xs) (spec_values_astype to t ys).
Proof. exact spec_values_astype_app_lemma. Qed.
Print Assumptions spec_values_astype_app.
Example spec_singletons_app_ex :
  spec_singletons pt_t ([VList [pt_rec 1 [10]; VNone]] ++ [VList []])
    = Ok (VList [VList [VList [pt_rec 1 [10]]; VList []]; VList []]) /\
  lift2 vapp (spec_singletons pt_t [VList [pt_rec 1 [10]; VNone]]) (spec_singletons pt_t [VList []])
    = Ok (VList [VList [VList [pt_rec 1 [10]]; VList []]; VList []]).
Proof. split; reflexivity. Qed.

(* ---- sort / argsort at an inner axis (every axis: "column sort" for a non-innermost one) ---- *)
Theorem sort_spec_app : forall asc argsort axis t xs ys,
  axis_inner t axis = true ->
  sort_spec asc argsort axis t (xs ++ ys) =
  lift2 (@app value) (sort_spec asc argsort axis t xs) (sort_spec asc argsort axis t ys).
Proof. exact sort_spec_app_lemma. Qed.
Print Assumptions sort_spec_app.
Theorem sort_spec_parts : forall asc argsort axis t parts,
  axis_inner t axis = true -> parts <> [] ->
  sort_spec asc argsort axis t (concat parts) = rmap (@concat value) (mapM (sort_spec asc argsort axis t) parts).
Proof. exact sort_spec_parts_lemma. Qed.
Print Assumptions sort_spec_parts.
Theorem sort_spec_inner_app : forall asc argsort axis t xs ys,
  axis_inner t axis = true ->
  sort_spec_inner asc argsort axis t (xs ++ ys) =
  lift2 (@app value) (sort_spec_inner asc argsort axis t xs) (sort_spec_inner asc argsort axis t ys).
Proof. exact sort_spec_inner_app_lemma. Qed.
Print Assumptions sort_spec_inner_app.
Example sort_spec_parts_ex :
  sort_spec true false (-1) pt_u (concat pt_uparts)
    = Ok [VList [VList [i64 1; i64 3]; VNone]; VList []; VList [VList []; VList [i64 0; i64 2; i64 2]]] /\
  rmap (@concat value) (mapM (sort_spec true false (-1) pt_u) pt_uparts) = sort_spec true false (-1) pt_u (concat pt_uparts) /\
  (* argsort, descending, axis 1 (not the innermost one): positions within each outer list, column by column *)
  sort_spec false true 1 pt_u (concat pt_uparts)
    = Ok [VList [VList [i64 0; i64 0]; VNone]; VList []; VList [VList []; VList [i64 1; i64 1; i64 1]]] /\
  rmap (@concat value) (mapM (sort_spec false true 1 pt_u) pt_uparts) = sort_spec false true 1 pt_u (concat pt_uparts).
Proof. repeat split; reflexivity. Qed.

(* ---- reducers with an axis ---- *)
Theorem reduce_spec_app : forall r axis mask keep t xs ys,
  axis_inner t axis = true ->
  reduce_spec r axis mask keep t (xs ++ ys) =
  lift2 (@app value) (reduce_spec r axis mask keep t xs) (reduce_spec r axis mask keep t ys).
Proof. exact reduce_spec_app_lemma. Qed.
Print Assumptions reduce_spec_app.
Theorem reduce_spec_parts : forall r axis mask keep t parts,
  axis_inner t axis = true -> parts <> [] ->
  reduce_spec r axis mask keep t (concat parts) = rmap (@concat value) (mapM (reduce_spec r axis mask keep t) parts).
Proof. exact reduce_spec_parts_lemma. Qed.
Print Assumptions reduce_spec_parts.
Theorem spec_reduce_py_app : forall r a mask keep t xs ys,
  axis_inner t a = true ->
  spec_reduce_py r (Some a) mask keep t (xs ++ ys) =
  lift2 vapp (spec_reduce_py r (Some a) mask keep t xs) (spec_reduce_py r (Some a) mask keep t ys).
Proof. exact spec_reduce_py_app_lemma. Qed.
Print Assumptions spec_reduce_py_app.
Theorem spec_reduce_py_parts : forall r a mask keep t parts,
  axis_inner t a = true -> parts <> [] ->
  spec_reduce_py r (Some a) mask keep t (concat parts) = rmap vconcat (mapM (spec_reduce_py r (Some a) mask keep t) parts).
Proof. exact spec_reduce_py_parts_lemma. Qed.
Print Assumptions spec_reduce_py_parts.
(* PartitionedArray.reduce decides with "not branch and negaxis == depth" ([py_reduce_whole]): whenever that sends the
   reducer to the partitions and the axis is not literally 0, the axis is an inner one *)
Theorem py_reduce_rule_sound : forall t axis,
  py_reduce_whole t axis = false -> axis <> 0 -> axis_inner t axis = true.
Proof. exact py_reduce_rule_sound_lemma. Qed.
Print Assumptions py_reduce_rule_sound.
Example spec_reduce_py_parts_ex :
  spec_reduce_py RSum (Some 1) None false pt_t (concat pt_parts)
    = Ok (VList [pt_rec 1 [10; 11]; pt_rec 0 []; pt_rec 5 [30]]) /\
  rmap vconcat (mapM (spec_reduce_py RSum (Some 1) None false pt_t) pt_parts)
    = spec_reduce_py RSum (Some 1) None false pt_t (concat pt_parts) /\
  spec_reduce_py RMax (Some (-1)) None true pt_u (concat pt_uparts)
    = Ok (VList [VList [VList [i64 3]; VNone]; VList []; VList [VList [VNone]; VList [i64 2]]]) /\
  rmap vconcat (mapM (spec_reduce_py RMax (Some (-1)) None true pt_u) pt_uparts)
    = spec_reduce_py RMax (Some (-1)) None true pt_u (concat pt_uparts) /\
  spec_reduce_py RArgmax (Some (-1)) None false pt_u (concat pt_uparts)
    = Ok (VList [VList [i64 0; VNone]; VList []; VList [VNone; i64 0]]) /\
  py_reduce_whole pt_u (-1) = false /\ py_reduce_whole pt_u (-3) = true /\ py_reduce_whole pt_u 0 = true.
Proof. repeat split; reflexivity. Qed.
(* REFUTED: axis 0 on a record type whose fields differ in depth - partition.py's test is false (per partition) although
   the axis is the outermost one.  (The implementation refuses this call on both sides; the reachable relative is
   axis = -(min depth), which [reduce_spec] refuses - see Proofs_Partition2.v and the finding
   partitioned-reduce-negaxis-branching-records.) *)
Example reduce_axis0_branching_record_refuted_ex :
  let t := TRec (Some [[120]; [121]]) [tint; TList None None tint] in
  let xs := [VRec [([120], i64 1); ([121], VList [i64 10])]] in
  let ys := [VRec [([120], i64 2); ([121], VList [i64 20; i64 30])]] in
  py_reduce_whole t 0 = false /\ axis_inner t 0 = false /\ resolve_axis t 0 0 = Ok 0 /\
  reduce_spec RSum 0 false false t (xs ++ ys) = Ok [VRec [([120], i64 3); ([121], VList [i64 30; i64 30])]] /\
  lift2 (@app value) (reduce_spec RSum 0 false false t xs) (reduce_spec RSum 0 false false t ys)
    = Ok [VRec [([120], i64 1); ([121], VList [i64 10])]; VRec [([120], i64 2); ([121], VList [i64 20; i64 30])]].
Proof. exact reduce_axis0_branching_record_refuted. Qed.

(* ====================================================================== the axis IS the outermost one *)
(* num: the per-partition counts are added (sum(prepared)) *)
Theorem spec_num_top_app : forall axis t xs ys,
  resolve_axis_top t axis = Ok 0 ->
  spec_num axis t (xs ++ ys) = lift2 vadd (spec_num axis t xs) (spec_num axis t ys).
Proof. exact spec_num_top_app_lemma. Qed.
Print Assumptions spec_num_top_app.
Theorem spec_num_top_parts : forall axis t parts,
  resolve_axis_top t axis = Ok 0 -> is_union t = false ->
  spec_num axis t (concat parts) = Ok (VNum (DZ (sumZ (map (@zlen value) parts)))) /\
  spec_num axis t (concat parts) =
    fold_right (fun p acc => lift2 vadd (spec_num axis t p) acc) (spec_num axis t []) parts.
Proof. exact spec_num_top_parts_lemma. Qed.
Print Assumptions spec_num_top_parts.
Example spec_num_top_parts_ex :
  spec_num 0 pt_t (concat pt_parts) = Ok (i64 3) /\ mapM (spec_num 0 pt_t) pt_parts = Ok [i64 2; i64 0; i64 1] /\
  spec_num (-3) pt_u (concat pt_uparts) = Ok (i64 3).
Proof. repeat split; reflexivity. Qed.

(* local_index: partition k continues counting at the sum of the earlier lengths ([li_parts]: the loop of partition.py) *)
Theorem spec_local_index_top_parts : forall axis t parts,
  resolve_axis_top t axis = Ok 0 ->
  spec_local_index axis t (concat parts) = Ok (VList (concat (li_parts 0 parts))).
Proof. exact spec_local_index_top_parts_lemma. Qed.
Print Assumptions spec_local_index_top_parts.
Theorem spec_local_index_top_app : forall axis t xs ys,
  resolve_axis_top t axis = Ok 0 ->
  spec_local_index axis t (xs ++ ys) =
  lift2 vapp (spec_local_index axis t xs) (Ok (VList (map vint (range (zlen xs) (zlen xs + zlen ys))))).
Proof. exact spec_local_index_top_app_lemma. Qed.
Print Assumptions spec_local_index_top_app.
Example spec_local_index_top_parts_ex :
  spec_local_index 0 pt_t (concat pt_parts) = Ok (VList [i64 0; i64 1; i64 2]) /\
  li_parts 0 pt_parts = [[i64 0; i64 1]; []; [i64 2]].
Proof. split; reflexivity. Qed.

(* ====================================================================== reducers with axis=None *)
(* closed form of the reducers over the flattened integer leaves *)
Theorem red_leaves_closed_form : forall r dt zs, red_leaves r dt zs = red_val r dt zs.
Proof. exact red_leaves_val. Qed.
Print Assumptions red_leaves_closed_form.
Theorem reduce_leaves_closed_form : forall r dt zs,
  reduce_leaves r dt zs =
  if float_unspec r dt zs then Err EFuel
  else if is_arg r then match zs with [] => Err EValue | _ => Ok (red_val r dt zs) end
  else Ok (red_val r dt zs).
Proof. exact reduce_leaves_val. Qed.
Print Assumptions reduce_leaves_closed_form.
(* count / count_nonzero / sum / prod / any / all / min / max: the whole = the reducer's own combination of the parts;
   the result for nothing (0, 1, False, True, None) is its unit *)
Theorem red_val_app : forall r dt a b,
  is_arg r = false -> red_val r dt (a ++ b) = red_comb r dt (red_val r dt a) (red_val r dt b).
Proof. exact red_val_app_lemma. Qed.
Print Assumptions red_val_app.
Theorem red_val_parts : forall r dt (zss : list (list Z)),
  is_arg r = false ->
  red_val r dt (concat zss) = fold_right (red_comb r dt) (red_val r dt []) (map (red_val r dt) zss).
Proof. exact red_val_parts_lemma. Qed.
Print Assumptions red_val_parts.
Theorem red_comb_unit : forall r dt zs,
  is_arg r = false ->
  red_comb r dt (red_val r dt zs) (red_val r dt []) = red_val r dt zs /\
  red_comb r dt (red_val r dt []) (red_val r dt zs) = red_val r dt zs.
Proof. exact red_comb_unit_lemma. Qed.
Print Assumptions red_comb_unit.
Example red_val_parts_ex :
  map (fun r => red_val r DInt64 (concat [[3; 1]; []; [2; 2; 0]])) [RCount; RCountNonzero; RSum; RProd; RAny; RAll; RMin; RMax]
    = [i64 5; i64 4; i64 8; i64 0; VBool true; VBool false; i64 0; i64 3] /\
  map (fun r => fold_right (red_comb r DInt64) (red_val r DInt64 []) (map (red_val r DInt64) [[3; 1]; []; [2; 2; 0]]))
      [RCount; RCountNonzero; RSum; RProd; RAny; RAll; RMin; RMax]
    = [i64 5; i64 4; i64 8; i64 0; VBool true; VBool false; i64 0; i64 3] /\
  map (red_val RMin DInt64) [[3; 1]; []; [2; 2; 0]] = [i64 1; VNone; i64 0] /\
  (* the 64-bit accumulator wraps, and wrapping commutes with the combination: (2^64 - 1) + 2 = 1 as uint64 *)
  red_val RSum DUInt64 (concat [[18446744073709551615]; [2]]) = i64 1 /\
  red_comb RSum DUInt64 (red_val RSum DUInt64 [18446744073709551615]) (red_val RSum DUInt64 [2]) = i64 1.
Proof. repeat split; reflexivity. Qed.

(* argmin / argmax: the loop of reducers.py over the partitions = first extremum of the concatenated leaves *)
Theorem arg_parts_first_min : forall zss, arg_parts Z.ltb 0 None zss = argbest Z.ltb None (enum (concat zss)).
Proof. exact arg_parts_first_min_lemma. Qed.
Print Assumptions arg_parts_first_min.
Theorem arg_parts_first_max : forall zss, arg_parts Z.gtb 0 None zss = argbest Z.gtb None (enum (concat zss)).
Proof. exact arg_parts_first_max_lemma. Qed.
Print Assumptions arg_parts_first_max.
Theorem reduce_leaves_arg_parts : forall r dt (zss : list (list Z)),
  is_arg r = true -> reduce_leaves r dt (concat zss) = py_arg_parts r zss.
Proof. exact reduce_leaves_arg_parts_lemma. Qed.
Print Assumptions reduce_leaves_arg_parts.
Example py_arg_parts_ex :
  (* ties: the earliest partition wins; positions count flattened items, the empty partition is skipped *)
  py_arg_parts RArgmax [[1; 3]; []; [3; 0]] = Ok (i64 1) /\ py_arg_parts RArgmin [[1; 3]; []; [3; 0]] = Ok (i64 3) /\
  py_arg_parts RArgmin [[5]; [5; 5]] = Ok (i64 0) /\ py_arg_parts RArgmax [[]; []] = Err EValue /\
  reduce_leaves RArgmax DInt64 (concat [[1; 3]; []; [3; 0]]) = Ok (i64 1).
Proof. repeat split; reflexivity. Qed.

(* the leaves (_util.completely_flatten) of a partitioned array without records, and ak.flatten(axis=None) *)
Theorem leaves_l_app : forall t, plain t = true -> forall xs ys,
  leaves_l t (xs ++ ys) = lift2 (@app value) (leaves_l t xs) (leaves_l t ys).
Proof. exact leaves_l_app_lemma. Qed.
Print Assumptions leaves_l_app.
Theorem spec_flatten_none_app : forall t xs ys,
  has_rec t = false ->
  spec_flatten None t (xs ++ ys) = lift2 vapp (spec_flatten None t xs) (spec_flatten None t ys).
Proof. exact spec_flatten_none_app_lemma. Qed.
Print Assumptions spec_flatten_none_app.
Theorem spec_flatten_none_parts : forall t parts,
  has_rec t = false -> parts <> [] ->
  spec_flatten None t (concat parts) = rmap vconcat (mapM (spec_flatten None t) parts).
Proof. exact spec_flatten_none_parts_lemma. Qed.
Print Assumptions spec_flatten_none_parts.
Example spec_flatten_none_parts_ex :
  plain pt_u = true /\
  spec_flatten None pt_u (concat pt_uparts) = Ok (VList [i64 3; i64 1; i64 2; i64 2; i64 0]) /\
  rmap vconcat (mapM (spec_flatten None pt_u) pt_uparts) = Ok (VList [i64 3; i64 1; i64 2; i64 2; i64 0]).
Proof. repeat split; reflexivity. Qed.
(* REFUTED for records: the leaves come field by field over the WHOLE array *)
Example flatten_none_records_refuted_ex :
  let t := TRec None [tint; tint] in
  let xs := [VTup [i64 8; i64 (-7)]] in
  let ys := [VTup [i64 (-5); i64 (-2)]] in
  spec_flatten None t (xs ++ ys) = Ok (VList [i64 8; i64 (-5); i64 (-7); i64 (-2)]) /\
  lift2 vapp (spec_flatten None t xs) (spec_flatten None t ys) = Ok (VList [i64 8; i64 (-7); i64 (-5); i64 (-2)]).
Proof. exact flatten_none_records_refuted. Qed.

(* the reducers of the Python layer with axis=None on a partitioned array (no records, one leaf dtype) *)
Theorem spec_reduce_none_concat : forall r t dt parts zss,
  single_dt (leaf_dts t) = Some dt -> plain t = true ->
  mapM (leaf_ints t) parts = Ok zss ->
  spec_reduce_none r t (concat parts) = reduce_leaves r dt (concat zss).
Proof. exact spec_reduce_none_concat_lemma. Qed.
Print Assumptions spec_reduce_none_concat.
Theorem reduce_none_parts : forall r t dt parts vs v,
  single_dt (leaf_dts t) = Some dt -> plain t = true -> is_arg r = false ->
  mapM (spec_reduce_none r t) parts = Ok vs ->
  spec_reduce_none r t (concat parts) = Ok v ->
  v = fold_right (red_comb r dt) (red_val r dt []) vs.
Proof. exact reduce_none_parts_lemma. Qed.
Print Assumptions reduce_none_parts.
Theorem reduce_none_parts_exact : forall r t dt parts vs,
  single_dt (leaf_dts t) = Some dt -> plain t = true -> is_arg r = false -> is_float dt = false ->
  mapM (spec_reduce_none r t) parts = Ok vs ->
  spec_reduce_none r t (concat parts) = Ok (fold_right (red_comb r dt) (red_val r dt []) vs).
Proof. exact reduce_none_parts_exact_lemma. Qed.
Print Assumptions reduce_none_parts_exact.
Theorem reduce_none_arg_parts : forall r t dt parts zss,
  single_dt (leaf_dts t) = Some dt -> plain t = true -> is_arg r = true ->
  mapM (leaf_ints t) parts = Ok zss ->
  spec_reduce_none r t (concat parts) = py_arg_parts r zss.
Proof. exact reduce_none_arg_parts_lemma. Qed.
Print Assumptions reduce_none_arg_parts.
Example reduce_none_parts_ex :
  single_dt (leaf_dts pt_u) = Some DInt64 /\ mapM (leaf_ints pt_u) pt_uparts = Ok [[3; 1]; []; [2; 2; 0]] /\
  mapM (spec_reduce_none RSum pt_u) pt_uparts = Ok [i64 4; i64 0; i64 4] /\
  spec_reduce_none RSum pt_u (concat pt_uparts) = Ok (i64 8) /\
  mapM (spec_reduce_none RMin pt_u) pt_uparts = Ok [i64 1; VNone; i64 0] /\
  spec_reduce_none RMin pt_u (concat pt_uparts) = Ok (i64 0) /\
  fold_right (red_comb RMin DInt64) (red_val RMin DInt64 []) [i64 1; VNone; i64 0] = i64 0 /\
  spec_reduce_none RArgmax pt_u (concat pt_uparts) = Ok (i64 0) /\ py_arg_parts RArgmax [[3; 1]; []; [2; 2; 0]] = Ok (i64 0).
Proof. repeat split; reflexivity. Qed.

(* ---- records allowed: the leaves of the concatenation are a PERMUTATION of the per-partition leaves (field-major
        order), and count / count_nonzero / sum / prod / any / all / min / max do not depend on the order ---- *)
Theorem leaves_l_perm : forall t, has_union t = false -> forall xs ys a b,
  leaves_l t xs = Ok a -> leaves_l t ys = Ok b ->
  exists c, leaves_l t (xs ++ ys) = Ok c /\ Permutation c (a ++ b).
Proof. exact leaves_l_perm_lemma. Qed.
Print Assumptions leaves_l_perm.
Theorem red_val_perm : forall r dt a b,
  is_arg r = false -> Permutation a b -> red_val r dt a = red_val r dt b.
Proof. exact red_val_perm_lemma. Qed.
Print Assumptions red_val_perm.
Theorem reduce_none_parts_records : forall r t dt parts vs v,
  single_dt (leaf_dts t) = Some dt -> has_union t = false -> is_arg r = false ->
  mapM (spec_reduce_none r t) parts = Ok vs ->
  spec_reduce_none r t (concat parts) = Ok v ->
  v = fold_right (red_comb r dt) (red_val r dt []) vs.
Proof. exact reduce_none_parts_records_lemma. Qed.
Print Assumptions reduce_none_parts_records.
Theorem reduce_none_parts_records_exact : forall r t dt parts vs,
  single_dt (leaf_dts t) = Some dt -> has_union t = false -> is_arg r = false -> is_float dt = false ->
  mapM (spec_reduce_none r t) parts = Ok vs ->
  spec_reduce_none r t (concat parts) = Ok (fold_right (red_comb r dt) (red_val r dt []) vs).
Proof. exact reduce_none_parts_records_exact_lemma. Qed.
Print Assumptions reduce_none_parts_records_exact.
Example reduce_none_parts_records_ex :
  single_dt (leaf_dts pt_t) = Some DInt64 /\ has_union pt_t = false /\
  leaves_l pt_t (concat pt_parts) = Ok [i64 1; i64 2; i64 3; i64 10; i64 11; i64 30] /\
  mapM (leaves_l pt_t) pt_parts = Ok [[i64 1; i64 10; i64 11]; []; [i64 2; i64 3; i64 30]] /\
  mapM (spec_reduce_none RSum pt_t) pt_parts = Ok [i64 22; i64 0; i64 35] /\
  spec_reduce_none RSum pt_t (concat pt_parts) = Ok (i64 57) /\
  mapM (spec_reduce_none RMax pt_t) pt_parts = Ok [i64 11; VNone; i64 30] /\
  spec_reduce_none RMax pt_t (concat pt_parts) = Ok (i64 30) /\
  fold_right (red_comb RMax DInt64) (red_val RMax DInt64 []) [i64 11; VNone; i64 30] = i64 30.
Proof. repeat split; reflexivity. Qed.
