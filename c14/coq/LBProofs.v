(** C14 (Form-driven half) — theorems about the specification [LBuilder.lb_run] of a Form-driven builder session
    (restated in Props_C14lb.v).

      lb_roundtrip          forall f vs, conforms f vs -> lb_run f (lb_encode f vs) = LOk vs
                            for ALL forms of the node classes NumpyForm(bool|int64|float64), ListOffsetForm (also string /
                            bytestring), RegularForm, IndexedForm, IndexedOptionForm, ByteMasked/BitMasked/UnmaskedForm,
                            UnionForm, RecordForm (records and tuples), arbitrarily nested, and all conforming values
                            (induction over the form, [item_rt]).
      lb_type               any completed element a session returns has the type of the form ([Typing.has_type]), for
                            ALL command lists (not only encodings).
      lb_misfit_errors      after any conforming values, a command that no element of the form may begin with gives
                            LErr or LUnspec whatever follows -- never LOk / LPartial.
      lb_prefix_snapshot    the commands up to a top-level element boundary are exactly the completed elements.
      (not proved: that LErr EFuel is never returned.) *)
From Coq Require Import ZArith List Bool Lia.
From AwkV Require Import Base Layout Types Typing.
From AwkBuilder Require Import LBuilder.
Import ListNotations.
Open Scope Z_scope.

(* ------------------------------------------------------------------ induction over forms *)
Section LformInd.
  Variable P : lform -> Prop.
  Hypothesis HNumpy : forall dt, P (LNumpy dt).
  Hypothesis HEmpty : P LEmpty.
  Hypothesis HListOffset : forall w s c, P c -> P (LListOffset w s c).
  Hypothesis HList : forall w c, P c -> P (LList w c).
  Hypothesis HRegular : forall n c, P c -> P (LRegular n c).
  Hypothesis HIndexed : forall w c, P c -> P (LIndexed w c).
  Hypothesis HIndexedOption : forall w c, P c -> P (LIndexedOption w c).
  Hypothesis HByteMasked : forall vw c, P c -> P (LByteMasked vw c).
  Hypothesis HBitMasked : forall vw lsb c, P c -> P (LBitMasked vw lsb c).
  Hypothesis HUnmasked : forall c, P c -> P (LUnmasked c).
  Hypothesis HUnion : forall w cs, Forall P cs -> P (LUnion w cs).
  Hypothesis HRecord : forall ks cs, Forall P cs -> P (LRecord ks cs).

  Fixpoint lform_ind' (f : lform) : P f :=
    let all := fix all (cs : list lform) : Forall P cs :=
                 match cs with
                 | [] => Forall_nil P
                 | c :: cs' => Forall_cons c (lform_ind' c) (all cs')
                 end in
    match f with
    | LNumpy dt => HNumpy dt
    | LEmpty => HEmpty
    | LListOffset w s c => HListOffset w s c (lform_ind' c)
    | LList w c => HList w c (lform_ind' c)
    | LRegular n c => HRegular n c (lform_ind' c)
    | LIndexed w c => HIndexed w c (lform_ind' c)
    | LIndexedOption w c => HIndexedOption w c (lform_ind' c)
    | LByteMasked vw c => HByteMasked vw c (lform_ind' c)
    | LBitMasked vw lsb c => HBitMasked vw lsb c (lform_ind' c)
    | LUnmasked c => HUnmasked c (lform_ind' c)
    | LUnion w cs => HUnion w cs (all cs)
    | LRecord ks cs => HRecord ks cs (all cs)
    end.
End LformInd.

(* ------------------------------------------------------------------ named copies of the local fixpoints *)
Fixpoint flds (cs : list lform) (cmds : list lbcmd) : pres (list value) :=
  match cs with
  | [] => POk [] cmds
  | f0 :: cs' =>
      match lb_item f0 cmds with
      | POk v r =>
          match flds cs' r with
          | POk vs r' => POk (v :: vs) r'
          | PMore => PMore
          | PErr e => PErr e
          | PUnspec => PUnspec
          end
      | PMore => PMore
      | PErr e => PErr e
      | PUnspec => PUnspec
      end
  end.

Section Sel.
  Variable rest : list lbcmd.
  Fixpoint sel (cs : list lform) (n : nat) {struct cs} : pres value :=
    match cs, n with
    | [], _ => PErr EValue
    | f0 :: _, O => lb_item f0 rest
    | _ :: cs', S n' => sel cs' n'
    end.
End Sel.

Definition wrapl (r : pres (list value)) : pres value :=
  match r with
  | POk vs rest' => POk (VList vs) rest'
  | PMore => PMore
  | PErr e => PErr e
  | PUnspec => PUnspec
  end.

Definition recval (keys : option (list name)) (vs : list value) : value :=
  match keys with Some ks => VRec (combine ks vs) | None => VTup vs end.

Lemma lb_item_nil f : lb_item f [] = PMore.
Proof. destruct f; reflexivity. Qed.

Lemma lb_item_record keys cs c rest :
  lb_item (LRecord keys cs) (c :: rest) =
  match flds cs (c :: rest) with
  | POk vs rest' => POk (recval keys vs) rest'
  | PMore => PMore
  | PErr e => PErr e
  | PUnspec => PUnspec
  end.
Proof. reflexivity. Qed.

Lemma lb_item_union w cs t rest :
  lb_item (LUnion w cs) (KTag t :: rest) =
  if t <? 0 then PErr EValue else sel rest cs (Z.to_nat t).
Proof. reflexivity. Qed.

Lemma lb_item_list w f' rest :
  lb_item (LListOffset w None f') (KBegin :: rest) = wrapl (many (lb_item f') (S (length rest)) rest).
Proof. reflexivity. Qed.

Lemma lb_item_regular n f' c rest :
  lb_item (LRegular n f') (c :: rest) = wrapl (rep (lb_item f') (Z.to_nat n) (c :: rest)).
Proof. reflexivity. Qed.

Section ConfEx.
  Variable v : value.
  Fixpoint conf_ex (cs : list lform) : bool :=
    match cs with [] => false | f0 :: cs' => conf f0 v || conf_ex cs' end.
  Fixpoint enc_pick (cs : list lform) (t : Z) : list lbcmd :=
    match cs with
    | [] => []
    | f0 :: cs' => if conf f0 v then KTag t :: enc f0 v else enc_pick cs' (t + 1)
    end.
End ConfEx.
Fixpoint conf_all2 (cs : list lform) (vs : list value) : bool :=
  match cs, vs with
  | [], [] => true
  | f0 :: cs', v0 :: vs' => conf f0 v0 && conf_all2 cs' vs'
  | _, _ => false
  end.
Fixpoint enc_go (cs : list lform) (vs : list value) : list lbcmd :=
  match cs, vs with
  | f0 :: cs', v0 :: vs' => enc f0 v0 ++ enc_go cs' vs'
  | _, _ => []
  end.

Lemma conf_union w cs v : conf (LUnion w cs) v = conf_ex v cs.
Proof. reflexivity. Qed.
Lemma enc_union w cs v : enc (LUnion w cs) v = enc_pick v cs 0.
Proof. reflexivity. Qed.
Lemma conf_record keys cs v :
  conf (LRecord keys cs) v =
  negb (match cs with [] => true | _ => false end) &&
  match keys, v with
  | Some ks, VRec fs => list_eqb name_eqb (map fst fs) ks && conf_all2 cs (map snd fs)
  | None, VTup vs => conf_all2 cs vs
  | _, _ => false
  end.
Proof. reflexivity. Qed.
Lemma enc_record keys cs v :
  enc (LRecord keys cs) v =
  enc_go cs (match v with VRec fs => map snd fs | VTup vs => vs | _ => [] end).
Proof. reflexivity. Qed.

(* ------------------------------------------------------------------ small facts *)
Lemma list_eqb_Z_eq (a b : list Z) : list_eqb Z.eqb a b = true -> a = b.
Proof.
  revert b; induction a as [|x a IH]; intros [|y b] H; simpl in H; try discriminate; auto.
  apply andb_true_iff in H as [H1 H2]. apply Z.eqb_eq in H1. subst. f_equal. auto.
Qed.

Lemma names_eqb_eq (a b : list name) : list_eqb name_eqb a b = true -> a = b.
Proof.
  revert b; induction a as [|x a IH]; intros [|y b] H; simpl in H; try discriminate; auto.
  apply andb_true_iff in H as [H1 H2]. apply list_eqb_Z_eq in H1. subst. f_equal. auto.
Qed.

Lemma list_eqb_Z_refl (a : list Z) : list_eqb Z.eqb a a = true.
Proof. induction a; simpl; auto. rewrite Z.eqb_refl. auto. Qed.

Lemma names_eqb_refl' (a : list name) : list_eqb name_eqb a a = true.
Proof. induction a; simpl; auto. unfold name_eqb at 1. rewrite list_eqb_Z_refl. auto. Qed.

Lemma combine_fst_snd {A B} (l : list (A * B)) : combine (map fst l) (map snd l) = l.
Proof. induction l as [|[a b] l IH]; simpl; congruence. Qed.

Lemma first_ok_end f : first_ok f KEnd = false.
Proof.
  induction f using lform_ind'; simpl; auto.
  - destruct dt; reflexivity.
  - destruct s; reflexivity.
  - destruct cs; auto. inversion H; auto.
Qed.

Lemma first_ok_index f i : first_ok f (KIndex i) = false.
Proof.
  induction f using lform_ind'; simpl; auto.
  - destruct dt; reflexivity.
  - destruct s; reflexivity.
  - destruct cs; auto. inversion H; auto.
Qed.

(* ------------------------------------------------------------------ the encoding of a conforming value begins with a
   command the form allows first *)
Lemma enc_first f : forall v, cons_in f = true -> conf f v = true ->
  exists c tl, enc f v = c :: tl /\ first_ok f c = true.
Proof.
  induction f using lform_ind'; intros v HC HV.
  - destruct dt; simpl in HV; try discriminate; destruct v; try discriminate; simpl; eauto.
    destruct d; try discriminate; simpl; eauto.
  - discriminate.
  - destruct s as [isstr|]; simpl in *.
    + destruct f; try discriminate. destruct dt; try discriminate. destruct v; try discriminate. simpl; eauto.
    + destruct v; try discriminate. simpl; eauto.
  - discriminate.
  - simpl in HC, HV. apply andb_true_iff in HC as [Hn HC].
    destruct v as [| | | |l| |]; try discriminate.
    apply andb_true_iff in HV as [HV Hall]. apply andb_true_iff in HV as [_ Hlen].
    destruct l as [|v0 l].
    + apply Z.eqb_eq in Hlen. unfold zlen in Hlen. simpl in Hlen. apply Z.leb_le in Hn. lia.
    + simpl in Hall. apply andb_true_iff in Hall as [H0 _].
      destruct (IHf v0 HC H0) as (c & tl & E & F). simpl. rewrite E. simpl. eauto.
  - simpl in *. eauto.
  - simpl in *. destruct w; try discriminate; destruct v; simpl; eauto;
      match goal with H : conf f ?x = true |- _ => destruct (IHf x HC H) as (c & tl & E & F) end;
      simpl in E; rewrite E; exists c, tl; split; auto; destruct c; auto.
  - simpl in *. destruct v; simpl; eauto;
      match goal with H : conf f ?x = true |- _ => destruct (IHf x HC H) as (c & tl & E & F) end;
      simpl in E; rewrite E; exists c, tl; split; auto; destruct c; auto.
  - simpl in *. destruct v; simpl; eauto;
      match goal with H : conf f ?x = true |- _ => destruct (IHf x HC H) as (c & tl & E & F) end;
      simpl in E; rewrite E; exists c, tl; split; auto; destruct c; auto.
  - simpl in *. eauto.
  - rewrite conf_union in HV. rewrite enc_union. simpl in HC. apply andb_true_iff in HC as [_ HC].
    generalize 0 as t. induction cs as [|f0 cs IH]; intros t; simpl in *; try discriminate.
    destruct (conf f0 v) eqn:E0; simpl; eauto.
    apply andb_true_iff in HC as [_ HC]. inversion H; subst. apply IH; auto.
  - rewrite conf_record in HV. rewrite enc_record. simpl in HC.
    apply andb_true_iff in HC as [HC _]. apply andb_true_iff in HC as [_ HC].
    apply andb_true_iff in HV as [Hne HV].
    destruct cs as [|f0 cs]; try discriminate. simpl in HC. apply andb_true_iff in HC as [HC0 _].
    inversion H as [|? ? P0 _]; subst.
    assert (G : forall vs, conf_all2 (f0 :: cs) vs = true ->
                exists c tl, enc_go (f0 :: cs) vs = c :: tl /\ first_ok f0 c = true).
    { intros [|v0 vs] HA; simpl in HA; try discriminate. apply andb_true_iff in HA as [HA _].
      destruct (P0 v0 HC0 HA) as (c & tl & E & F). simpl. rewrite E. simpl. eauto. }
    destruct ks as [ks|]; destruct v; try discriminate.
    + apply andb_true_iff in HV as [_ HV]. apply G in HV. exact HV.
    + apply G in HV. exact HV.
Qed.

Lemma enc_first_not c tl f v : cons_in f = true -> conf f v = true -> enc f v = c :: tl ->
  c <> KEnd /\ (forall i, c <> KIndex i) /\ (first_ok f KNull = false -> c <> KNull).
Proof.
  intros HC HV E. destruct (enc_first f v HC HV) as (c' & tl' & E' & F). rewrite E in E'. inversion E'; subst.
  repeat split; intros; intro; subst.
  - rewrite first_ok_end in F; discriminate.
  - rewrite first_ok_index in F; discriminate.
  - congruence.
Qed.

(* ------------------------------------------------------------------ round trip of one element *)
Definition rt (f : lform) : Prop :=
  forall v rest, conf f v = true -> lb_item f (enc f v ++ rest) = POk v rest.

Lemma many_rt f : cons_in f = true -> rt f ->
  forall l fuel rest, forallb (conf f) l = true ->
    (length (flat_map (enc f) l ++ KEnd :: rest) < fuel)%nat ->
    many (lb_item f) fuel (flat_map (enc f) l ++ KEnd :: rest) = POk l rest.
Proof.
  intros HC IH. induction l as [|v l IHl]; intros fuel rest Hall Hfuel.
  - simpl in *. destruct fuel; [lia|]. reflexivity.
  - simpl in Hall. apply andb_true_iff in Hall as [Hv Hall].
    destruct (enc_first f v HC Hv) as (c & tl & E & F).
    destruct (enc_first_not c tl f v HC Hv E) as (NE & _ & _).
    simpl flat_map in *. rewrite <- app_assoc in *.
    destruct fuel; [simpl in Hfuel; lia|].
    assert (R := IH v (flat_map (enc f) l ++ KEnd :: rest) Hv).
    rewrite E in *. simpl app in *. simpl many.
    destruct c; try congruence; rewrite R; rewrite IHl; auto; simpl in Hfuel; rewrite app_length in Hfuel; lia.
Qed.

Lemma rep_rt f : rt f ->
  forall l rest, forallb (conf f) l = true ->
    rep (lb_item f) (length l) (flat_map (enc f) l ++ rest) = POk l rest.
Proof.
  intros IH. induction l as [|v l IHl]; intros rest Hall; simpl in *; auto.
  apply andb_true_iff in Hall as [Hv Hall]. rewrite <- app_assoc. rewrite IH; auto. rewrite IHl; auto.
Qed.

Lemma flds_rt cs : Forall rt cs ->
  forall vs rest, conf_all2 cs vs = true -> flds cs (enc_go cs vs ++ rest) = POk vs rest.
Proof.
  induction 1 as [|f0 cs H0 _ IH]; intros [|v vs] rest HA; simpl in *; try discriminate; auto.
  apply andb_true_iff in HA as [Hv HA]. rewrite <- app_assoc. rewrite H0; auto. rewrite IH; auto.
Qed.

Lemma sel_app rest pre cs n : sel rest (pre ++ cs) (length pre + n) = sel rest cs n.
Proof. induction pre; simpl; auto. Qed.

Lemma union_rt v rest cs : Forall rt cs -> conf_ex v cs = true ->
  forall pre, exists t tl, enc_pick v cs (Z.of_nat (length pre)) = KTag t :: tl /\ 0 <= t /\
    sel (tl ++ rest) (pre ++ cs) (Z.to_nat t) = POk v rest.
Proof.
  induction 1 as [|f0 cs H0 _ IH]; intros HE pre; simpl in *; try discriminate.
  destruct (conf f0 v) eqn:E0.
  - exists (Z.of_nat (length pre)), (enc f0 v). split; auto. split; [lia|].
    rewrite Nat2Z.id. replace (length pre) with (length pre + 0)%nat by lia. rewrite sel_app. simpl. apply H0; auto.
  - simpl in HE. destruct (IH HE (pre ++ [f0])) as (t & tl & E & Ht & S).
    rewrite app_length in E. simpl in E. rewrite Nat2Z.inj_add in E. simpl in E.
    exists t, tl. split; auto. split; auto. rewrite <- app_assoc in S. exact S.
Qed.

Lemma item_rt f : cons_in f = true -> unambiguous f = true -> rt f.
Proof.
  induction f using lform_ind'; intros HC HU v rest HV.
  - destruct dt; simpl in HV; try discriminate; destruct v; try discriminate; simpl; auto.
    all: destruct d; try discriminate; simpl; try rewrite HV; reflexivity.
  - discriminate.
  - destruct s as [isstr|]; simpl in HC, HU, HV.
    + destruct f; try discriminate. destruct dt; try discriminate. destruct v; try discriminate.
      simpl. rewrite HV. apply andb_true_iff in HV as [HV _]. apply eqb_prop in HV. subst. reflexivity.
    + destruct v as [| | | |l| |]; try discriminate.
      change (enc (LListOffset w None f) (VList l)) with (KBegin :: flat_map (enc f) l ++ [KEnd]).
      simpl app. rewrite lb_item_list. rewrite <- app_assoc. simpl app.
      rewrite (many_rt f HC (IHf HC HU)); auto.
  - discriminate.
  - simpl in HC, HU, HV. apply andb_true_iff in HC as [Hn HC].
    destruct v as [| | | |l| |]; try discriminate.
    apply andb_true_iff in HV as [HV Hall]. apply andb_true_iff in HV as [_ Hlen].
    apply Z.eqb_eq in Hlen. apply Z.leb_le in Hn.
    change (enc (LRegular n f) (VList l)) with (flat_map (enc f) l).
    destruct l as [|v0 l]; [unfold zlen in Hlen; simpl in Hlen; lia|].
    pose proof Hall as Hall'. simpl in Hall'. apply andb_true_iff in Hall' as [Hv0 _].
    destruct (enc_first f v0 HC Hv0) as (c & tl & E & F).
    assert (NE : exists c' r', flat_map (enc f) (v0 :: l) ++ rest = c' :: r').
    { simpl. rewrite E. simpl. eauto. }
    destruct NE as (c' & r' & NE). rewrite NE. rewrite lb_item_regular. rewrite <- NE.
    replace (Z.to_nat n) with (length (v0 :: l)) by (unfold zlen in Hlen; lia).
    rewrite (rep_rt f (IHf HC HU)); auto.
  - simpl in HC, HU, HV.
    destruct (enc_first f v HC HV) as (c & tl & E & F).
    destruct (enc_first_not c tl f v HC HV E) as (_ & NI & _).
    change (enc (LIndexed w f) v) with (enc f v). pose proof (IHf HC HU v rest HV) as R.
    rewrite E in *. simpl app in *. destruct c; try (exfalso; eapply NI; reflexivity); exact R.
  - simpl in HC, HU, HV. apply andb_true_iff in HU as [HN HU]. apply negb_true_iff in HN.
    assert (HC' : cons_in f = true) by (destruct w; auto; discriminate).
    destruct v; try reflexivity;
      match goal with HV : conf f ?x = true |- _ =>
        destruct (enc_first f x HC' HV) as (c & tl & E & F);
        destruct (enc_first_not c tl f x HC' HV E) as (_ & _ & NN);
        change (enc (LIndexedOption w f) x) with (enc f x); pose proof (IHf HC' HU x rest HV) as R;
        rewrite E in *; simpl app in *; destruct c; try (exfalso; apply NN; auto; fail); exact R end.
  - simpl in HC, HU, HV. apply andb_true_iff in HU as [HN HU]. apply negb_true_iff in HN.
    destruct v; try reflexivity;
      match goal with HV : conf f ?x = true |- _ =>
        destruct (enc_first f x HC HV) as (c & tl & E & F);
        destruct (enc_first_not c tl f x HC HV E) as (_ & _ & NN);
        change (enc (LByteMasked vw f) x) with (enc f x); pose proof (IHf HC HU x rest HV) as R;
        rewrite E in *; simpl app in *; destruct c; try (exfalso; apply NN; auto; fail); exact R end.
  - simpl in HC, HU, HV. apply andb_true_iff in HU as [HN HU]. apply negb_true_iff in HN.
    destruct v; try reflexivity;
      match goal with HV : conf f ?x = true |- _ =>
        destruct (enc_first f x HC HV) as (c & tl & E & F);
        destruct (enc_first_not c tl f x HC HV E) as (_ & _ & NN);
        change (enc (LBitMasked vw lsb f) x) with (enc f x); pose proof (IHf HC HU x rest HV) as R;
        rewrite E in *; simpl app in *; destruct c; try (exfalso; apply NN; auto; fail); exact R end.
  - simpl in HC, HU, HV.
    destruct (enc_first f v HC HV) as (c & tl & E & F).
    change (enc (LUnmasked f) v) with (enc f v). pose proof (IHf HC HU v rest HV) as R.
    rewrite E in *. simpl app in *. exact R.
  - rewrite conf_union in HV. rewrite enc_union. simpl in HC, HU.
    apply andb_true_iff in HC as [_ HC].
    assert (HR : Forall rt cs).
    { clear HV. induction H as [|f0 cs P0 _ IH]; constructor; simpl in HC, HU;
        apply andb_true_iff in HC as [? ?]; apply andb_true_iff in HU as [? ?]; auto. }
    destruct (union_rt v rest cs HR HV []) as (t & tl & E & Ht & S). simpl in E, S.
    rewrite E. simpl app. rewrite lb_item_union.
    destruct (t <? 0) eqn:L; [apply Z.ltb_lt in L; lia|]. exact S.
  - rewrite conf_record in HV. rewrite enc_record. simpl in HC, HU.
    apply andb_true_iff in HC as [HC HK]. apply andb_true_iff in HC as [Hne HC].
    apply andb_true_iff in HV as [_ HV].
    assert (HR : Forall rt cs).
    { clear HV Hne HK. induction H as [|f0 cs P0 _ IH]; constructor; simpl in HC, HU;
        apply andb_true_iff in HC as [? ?]; apply andb_true_iff in HU as [? ?]; auto. }
    assert (G : forall vs, conf_all2 cs vs = true ->
                lb_item (LRecord ks cs) (enc_go cs vs ++ rest) = POk (recval ks vs) rest).
    { intros vs HA.
      assert (NE : exists c r, enc_go cs vs ++ rest = c :: r).
      { destruct cs as [|f0 cs]; try discriminate. destruct vs as [|v0 vs]; try discriminate.
        simpl in HA, HC. apply andb_true_iff in HA as [HA _]. apply andb_true_iff in HC as [HC0 _].
        destruct (enc_first f0 v0 HC0 HA) as (c & tl & E & F). simpl. rewrite E. simpl. eauto. }
      destruct NE as (c & r & NE). rewrite NE. rewrite lb_item_record. rewrite <- NE.
      rewrite (flds_rt cs HR); auto. }
    destruct ks as [ks|]; destruct v; try discriminate.
    + apply andb_true_iff in HV as [HN HV]. rewrite G; auto. apply names_eqb_eq in HN. subst.
      simpl. rewrite combine_fst_snd. reflexivity.
    + rewrite G; auto.
Qed.

(* ------------------------------------------------------------------ the session *)
Lemma cons_in_of f v : constructible f = true -> conf f v = true -> cons_in f = true.
Proof. destruct f; simpl; auto; discriminate. Qed.

Lemma top_rt_ok f : cons_in f = true -> unambiguous f = true ->
  forall vs fuel, forallb (conf f) vs = true -> (length (lb_encode f vs) <= fuel)%nat ->
    top (lb_item f) fuel (lb_encode f vs) = LOk vs.
Proof.
  intros HC HU. induction vs as [|v vs IH]; intros fuel Hall Hf; [destruct fuel; reflexivity|].
  simpl in Hall. apply andb_true_iff in Hall as [Hv Hall].
  destruct (enc_first f v HC Hv) as (c & tl & E & F).
  unfold lb_encode in *. simpl flat_map in *.
  pose proof (item_rt f HC HU v (flat_map (enc f) vs) Hv) as R.
  rewrite E in *. simpl app in *. destruct fuel; [simpl in Hf; lia|].
  simpl top. rewrite R. rewrite IH; auto. simpl in Hf. rewrite app_length in Hf. lia.
Qed.

Lemma top_rt_bad f : cons_in f = true -> unambiguous f = true ->
  forall vs fuel c rest, forallb (conf f) vs = true -> (length (lb_encode f vs ++ c :: rest) <= fuel)%nat ->
    top (lb_item f) fuel (lb_encode f vs ++ c :: rest) =
    match lb_item f (c :: rest) with
    | PErr e => LErr e
    | PUnspec => LUnspec
    | _ => top (lb_item f) fuel (lb_encode f vs ++ c :: rest)
    end.
Proof.
  intros HC HU. induction vs as [|v vs IH]; intros fuel c rest Hall Hf.
  - simpl in *. destruct fuel; [lia|]. simpl. destruct (lb_item f (c :: rest)); reflexivity.
  - simpl in Hall. apply andb_true_iff in Hall as [Hv Hall].
    destruct (enc_first f v HC Hv) as (c0 & tl & E & F).
    unfold lb_encode in *. simpl flat_map in *. rewrite <- app_assoc in *.
    pose proof (item_rt f HC HU v (flat_map (enc f) vs ++ c :: rest) Hv) as R.
    rewrite E in *. simpl app in *. destruct fuel; [simpl in Hf; lia|].
    assert (Hf' : (length (flat_map (enc f) vs ++ c :: rest) <= fuel)%nat).
    { simpl in Hf. rewrite app_length in Hf. lia. }
    specialize (IH fuel c rest Hall Hf').
    destruct (lb_item f (c :: rest)) eqn:EI; try reflexivity.
    + simpl top. rewrite R. rewrite IH. reflexivity.
    + simpl top. rewrite R. rewrite IH. reflexivity.
Qed.

Theorem lb_roundtrip : forall f vs, conforms f vs -> lb_run f (lb_encode f vs) = LOk vs.
Proof.
  intros f vs (HC & HU & HV). unfold lb_run. rewrite HC.
  destruct vs as [|v vs]; [reflexivity|].
  pose proof HV as HV'. simpl in HV'. apply andb_true_iff in HV' as [Hv _].
  apply top_rt_ok; auto. eapply cons_in_of; eauto.
Qed.

Lemma forallb_app' {A} (p : A -> bool) l1 l2 : forallb p (l1 ++ l2) = true -> forallb p l1 = true /\ forallb p l2 = true.
Proof. rewrite forallb_app. apply andb_true_iff. Qed.

Theorem lb_prefix_snapshot : forall f vs1 vs2, conforms f (vs1 ++ vs2) ->
  lb_encode f (vs1 ++ vs2) = lb_encode f vs1 ++ lb_encode f vs2 /\
  lb_run f (lb_encode f vs1) = LOk vs1.
Proof.
  intros f vs1 vs2 (HC & HU & HV). split.
  - unfold lb_encode. apply flat_map_app.
  - apply forallb_app' in HV as [HV1 _]. apply lb_roundtrip. repeat split; auto.
Qed.

(* ------------------------------------------------------------------ a command no element may begin with *)
Definition refused (r : pres value) : Prop := (exists e, r = PErr e) \/ r = PUnspec.

Lemma misfit_item f : cons_in f = true -> forall c rest, first_ok f c = false -> refused (lb_item f (c :: rest)).
Proof.
  unfold refused. induction f using lform_ind'; intros HC c rest HF.
  - destruct dt, c; simpl in *; try discriminate; eauto; destruct s; eauto.
  - discriminate.
  - destruct s as [isstr|]; destruct c; simpl in *; try discriminate; eauto. destruct s; eauto.
  - discriminate.
  - simpl in HC, HF. apply andb_true_iff in HC as [Hn HC]. apply Z.leb_le in Hn.
    rewrite lb_item_regular. destruct (Z.to_nat n) eqn:EN; [lia|]. simpl rep.
    destruct (IHf HC c rest HF) as [(e & E)|E]; rewrite E; simpl; eauto.
  - simpl in HC, HF. destruct c; try (apply IHf; auto; fail). simpl. eauto.
  - simpl in HC, HF. assert (HC' : cons_in f = true) by (destruct w; auto; discriminate).
    destruct c; try discriminate; apply (IHf HC' _ rest HF).
  - simpl in HC, HF. destruct c; try discriminate; apply (IHf HC _ rest HF).
  - simpl in HC, HF. destruct c; try discriminate; apply (IHf HC _ rest HF).
  - simpl in HC, HF. apply (IHf HC _ rest HF).
  - destruct c; simpl in *; try discriminate; eauto.
  - simpl in HC, HF. apply andb_true_iff in HC as [HC _]. apply andb_true_iff in HC as [Hne HC].
    destruct cs as [|f0 cs]; [discriminate Hne|]. simpl in HC. apply andb_true_iff in HC as [HC0 _].
    inversion H as [|? ? P0 _]; subst. rewrite lb_item_record. simpl flds.
    destruct (P0 HC0 c rest HF) as [(e & E)|E]; rewrite E; eauto.
Qed.

Theorem lb_misfit_errors : forall f vs c rest, conforms f vs -> first_ok f c = false ->
  (exists e, lb_run f (lb_encode f vs ++ c :: rest) = LErr e) \/ lb_run f (lb_encode f vs ++ c :: rest) = LUnspec.
Proof.
  intros f vs c rest (HC & HU & HV) HF. unfold lb_run. rewrite HC.
  destruct f; try (
    match goal with |- context [top (lb_item ?g)] =>
      assert (HC' : cons_in g = true) by exact HC;
      rewrite (top_rt_bad g HC' HU vs _ c rest HV (Nat.le_refl _));
      destruct (misfit_item g HC' c rest HF) as [(e & E)|E]; rewrite E; eauto
    end).
  (* LEmpty: no value conforms *)
  destruct vs as [|v vs]; [|discriminate]. simpl. destruct c; simpl; eauto.
Qed.

(* ------------------------------------------------------------------ the result has the type of the form *)
Fixpoint ty_all2 (ts : list ty) (vs : list value) : bool :=
  match ts, vs with
  | [], [] => true
  | t0 :: ts', v0 :: vs' => has_typeb t0 v0 && ty_all2 ts' vs'
  | _, _ => false
  end.
Section TyEx.
  Variable v : value.
  Fixpoint ty_ex (ts : list ty) : bool :=
    match ts with [] => false | t0 :: ts' => has_typeb t0 v || ty_ex ts' end.
End TyEx.

Lemma has_type_union ts v : has_typeb (TUnion ts) v = ty_ex v ts.
Proof. reflexivity. Qed.
Lemma has_type_rec ks ts fs :
  has_typeb (TRec (Some ks) ts) (VRec fs) = list_eqb name_eqb (map fst fs) ks && ty_all2 ts (map snd fs).
Proof. reflexivity. Qed.
Lemma has_type_tup ts vs : has_typeb (TRec None ts) (VTup vs) = ty_all2 ts vs.
Proof. reflexivity. Qed.

Definition typed (f : lform) : Prop :=
  forall cmds v rest, lb_item f cmds = POk v rest -> has_typeb (form_ty f) v = true.

Lemma many_typed f : typed f -> forall fuel cmds vs rest,
  many (lb_item f) fuel cmds = POk vs rest -> forallb (has_typeb (form_ty f)) vs = true.
Proof.
  intros T. induction fuel as [|k IH]; intros cmds vs rest H; simpl in H; [discriminate|].
  destruct cmds as [|c cmds]; [discriminate|].
  assert (G : forall r, match lb_item f (c :: cmds) with
                        | POk v rest0 => match many (lb_item f) k rest0 with
                                         | POk vs0 rest' => POk (v :: vs0) rest' | PMore => PMore
                                         | PErr e => PErr e | PUnspec => PUnspec end
                        | PMore => PMore | PErr e => PErr e | PUnspec => PUnspec end = POk vs r ->
                        forallb (has_typeb (form_ty f)) vs = true).
  { intros r G. destruct (lb_item f (c :: cmds)) as [v r0| | |] eqn:E; try discriminate.
    destruct (many (lb_item f) k r0) as [vs0 r1| | |] eqn:E2; try discriminate.
    inversion G; subst. simpl. rewrite (T _ _ _ E). simpl. eapply IH; eauto. }
  destruct c; try (eapply G; exact H). inversion H; subst. reflexivity.
Qed.

Lemma rep_typed f : typed f -> forall n cmds vs rest,
  rep (lb_item f) n cmds = POk vs rest -> forallb (has_typeb (form_ty f)) vs = true /\ length vs = n.
Proof.
  intros T. induction n as [|k IH]; intros cmds vs rest H; simpl in H.
  - inversion H; subst. auto.
  - destruct (lb_item f cmds) as [v r0| | |] eqn:E; try discriminate.
    destruct (rep (lb_item f) k r0) as [vs0 r1| | |] eqn:E2; try discriminate.
    inversion H; subst. destruct (IH _ _ _ E2) as [A B]. simpl. rewrite (T _ _ _ E), A, B. auto.
Qed.

Lemma flds_typed cs : Forall typed cs -> forall cmds vs rest,
  flds cs cmds = POk vs rest -> ty_all2 (map form_ty cs) vs = true /\ length vs = length cs.
Proof.
  induction 1 as [|f0 cs T0 _ IH]; intros cmds vs rest H; simpl in H.
  - inversion H; subst. auto.
  - destruct (lb_item f0 cmds) as [v r0| | |] eqn:E; try discriminate.
    destruct (flds cs r0) as [vs0 r1| | |] eqn:E2; try discriminate.
    inversion H; subst. destruct (IH _ _ _ E2) as [A B]. simpl. rewrite (T0 _ _ _ E), A, B. auto.
Qed.

Lemma sel_typed cs : Forall typed cs -> forall n cmds v rest,
  sel cmds cs n = POk v rest -> ty_ex v (map form_ty cs) = true.
Proof.
  induction 1 as [|f0 cs T0 _ IH]; intros n cmds v rest H; simpl in H; [discriminate|].
  destruct n; simpl.
  - rewrite (T0 _ _ _ H). reflexivity.
  - rewrite (IH _ _ _ _ H). apply orb_true_r.
Qed.

Lemma map_fst_combine {A B} (l : list A) (m : list B) : length l = length m -> map fst (combine l m) = l.
Proof. revert m; induction l; intros [|b m] H; simpl in *; try discriminate; auto. f_equal. auto. Qed.
Lemma map_snd_combine {A B} (l : list A) (m : list B) : length l = length m -> map snd (combine l m) = m.
Proof. revert m; induction l; intros [|b m] H; simpl in *; try discriminate; auto. f_equal. auto. Qed.

Lemma wrapl_ok r vs rest : wrapl r = POk (VList vs) rest -> r = POk vs rest.
Proof. destruct r; simpl; intros H; inversion H; subst; auto. Qed.

Lemma opt_typed t v : has_typeb t v = true -> has_typeb (TOpt t) v = true.
Proof. intros H. simpl. destruct v; auto. Qed.

Lemma item_typed f : cons_in f = true -> typed f.
Proof.
  induction f using lform_ind'; intros HC cmds v rest HI; (destruct cmds as [|c cmds]; [rewrite lb_item_nil in HI; discriminate|]).
  - destruct dt, c; simpl in HI; try discriminate; try (inversion HI; subst; reflexivity);
      try (destruct s; discriminate).
    destruct (in_int64 z); inversion HI; subst; reflexivity.
  - discriminate.
  - destruct s as [isstr|].
    + simpl in HI. destruct c; try discriminate.
      destruct (Bool.eqb isstr0 isstr && forallb is_byte s) eqn:E; [|discriminate].
      inversion HI; subst. simpl. rewrite eqb_reflx. reflexivity.
    + destruct c as [| | | |i0 s0| | | |]; try discriminate; [destruct s0; discriminate|].
      rewrite lb_item_list in HI. destruct v; try (destruct (many (lb_item f) (S (length cmds)) cmds); discriminate).
      apply wrapl_ok in HI. simpl in HC. simpl. rewrite (many_typed f (IHf HC) _ _ _ _ HI). reflexivity.
  - discriminate.
  - simpl in HC. apply andb_true_iff in HC as [Hn HC]. apply Z.leb_le in Hn.
    rewrite lb_item_regular in HI.
    destruct v; try (destruct (rep (lb_item f) (Z.to_nat n) (c :: cmds)); discriminate).
    apply wrapl_ok in HI. destruct (rep_typed f (IHf HC) _ _ _ _ HI) as [A B].
    simpl. rewrite A. simpl. apply Z.eqb_eq. unfold zlen. lia.
  - simpl in HC. simpl form_ty. destruct c; try (apply (IHf HC _ _ _ HI)). discriminate.
  - simpl in HC. assert (HC' : cons_in f = true) by (destruct w; auto; discriminate).
    change (form_ty (LIndexedOption w f)) with (TOpt (form_ty f)).
    destruct c; try (apply opt_typed; apply (IHf HC' _ _ _ HI)). inversion HI; subst. reflexivity.
  - simpl in HC. change (form_ty (LByteMasked vw f)) with (TOpt (form_ty f)).
    destruct c; try (apply opt_typed; apply (IHf HC _ _ _ HI)). inversion HI; subst. reflexivity.
  - simpl in HC. change (form_ty (LBitMasked vw lsb f)) with (TOpt (form_ty f)).
    destruct c; try (apply opt_typed; apply (IHf HC _ _ _ HI)). inversion HI; subst. reflexivity.
  - simpl in HC. change (form_ty (LUnmasked f)) with (TOpt (form_ty f)).
    apply opt_typed; apply (IHf HC _ _ _ HI).
  - simpl in HC. apply andb_true_iff in HC as [_ HC].
    assert (HT : Forall typed cs).
    { clear - H HC. induction H as [|f0 cs P0 _ IH]; constructor; simpl in HC; apply andb_true_iff in HC as [? ?]; auto. }
    destruct c; try discriminate. rewrite lb_item_union in HI. destruct (t <? 0); [discriminate|].
    change (form_ty (LUnion w cs)) with (TUnion (map form_ty cs)). rewrite has_type_union.
    eapply sel_typed; eauto.
  - simpl in HC. apply andb_true_iff in HC as [HC HK]. apply andb_true_iff in HC as [_ HC].
    assert (HT : Forall typed cs).
    { clear - H HC. induction H as [|f0 cs P0 _ IH]; constructor; simpl in HC; apply andb_true_iff in HC as [? ?]; auto. }
    rewrite lb_item_record in HI. destruct (flds cs (c :: cmds)) as [vs r0| | |] eqn:E; try discriminate.
    inversion HI; subst. destruct (flds_typed cs HT _ _ _ E) as [A B].
    change (form_ty (LRecord ks cs)) with (TRec ks (map form_ty cs)).
    destruct ks as [ks|]; simpl recval.
    + apply Nat.eqb_eq in HK. rewrite has_type_rec.
      rewrite map_fst_combine, map_snd_combine by lia. rewrite names_eqb_refl', A. reflexivity.
    + rewrite has_type_tup. exact A.
Qed.

Lemma top_typed f : typed f -> forall fuel cmds vs,
  top (lb_item f) fuel cmds = LOk vs \/ top (lb_item f) fuel cmds = LPartial vs ->
  forallb (has_typeb (form_ty f)) vs = true.
Proof.
  intros T. induction fuel as [|k IH]; intros cmds vs H.
  - destruct cmds; simpl in H; destruct H as [H|H]; inversion H; subst; reflexivity.
  - destruct cmds as [|c cmds]; simpl in H; [destruct H as [H|H]; inversion H; subst; reflexivity|].
    destruct (lb_item f (c :: cmds)) as [v r0| | |] eqn:E.
    + destruct (top (lb_item f) k r0) as [vs0|vs0|e|] eqn:E2; destruct H as [H|H]; inversion H; subst;
        simpl; rewrite (T _ _ _ E); simpl; eapply IH; eauto.
    + destruct H as [H|H]; inversion H; subst; reflexivity.
    + destruct H as [H|H]; discriminate.
    + destruct H as [H|H]; discriminate.
Qed.

(* every completed element of any session (any commands, not only encodings) has the type of the form *)
Theorem lb_type : forall f cmds vs,
  lb_run f cmds = LOk vs \/ lb_run f cmds = LPartial vs -> Forall (has_type (form_ty f)) vs.
Proof.
  intros f cmds vs H. unfold lb_run in H. destruct (constructible f) eqn:HC; [|destruct H; discriminate].
  apply Forall_forall. intros v Hin.
  assert (G : forallb (has_typeb (form_ty f)) vs = true).
  { destruct f; try (eapply top_typed; [apply item_typed; exact HC|exact H]).
    (* LEmpty at the top: every command is refused *)
    clear HC. revert H. generalize (length cmds). intros n. revert cmds vs Hin.
    induction n; intros cmds vs Hin H; destruct cmds as [|c cmds]; simpl in H;
      try (destruct H as [H|H]; inversion H; subst; reflexivity).
    destruct c; simpl in H; destruct H as [H|H]; try discriminate. }
  rewrite forallb_forall in G. apply G; auto.
Qed.

(* ------------------------------------------------------------------ examples: the hypotheses are satisfiable *)
Definition ex_form : lform :=
  LListOffset I64 None
    (LRecord (Some [[120]; [121]; [122]])
       [LIndexedOption I64 (LNumpy DInt64);
        LUnion I64 [LNumpy DBool; LListOffset I32 (Some true) (LNumpy DUInt8)];
        LRegular 2 (LNumpy DFloat64)]).
Definition ex_vals : list value :=
  [VList [VRec [([120], VNone); ([121], VStr true [97; 98]); ([122], VList [VNum (DZ 1); VNum (DInf false)])];
          VRec [([120], VNum (DZ 7)); ([121], VBool true); ([122], VList [VNum (DZ 2); VNum (DZ 3)])]];
   VList []].

Example ex_conforms : conforms ex_form ex_vals.
Proof. repeat split; vm_compute; reflexivity. Qed.
Example ex_encode : lb_encode ex_form ex_vals =
  [KBegin; KNull; KTag 1; KStr true [97; 98]; KReal (DZ 1); KReal (DInf false);
           KInt 7; KTag 0; KBool true; KReal (DZ 2); KReal (DZ 3); KEnd; KBegin; KEnd].
Proof. vm_compute. reflexivity. Qed.
Example ex_roundtrip : lb_run ex_form (lb_encode ex_form ex_vals) = LOk ex_vals.
Proof. exact (lb_roundtrip ex_form ex_vals ex_conforms). Qed.
Example ex_type : Forall (has_type (form_ty ex_form)) ex_vals.
Proof. apply (lb_type ex_form (lb_encode ex_form ex_vals)). left. exact ex_roundtrip. Qed.
(* a wrong command for the form, an unbalanced end_list, a tag where a list must begin: all refused *)
Example ex_misfit_int : lb_run ex_form (lb_encode ex_form ex_vals ++ [KInt 5; KBegin; KEnd]) = LErr EValue.
Proof. vm_compute. reflexivity. Qed.
Example ex_misfit_end : lb_run ex_form (lb_encode ex_form ex_vals ++ [KEnd]) = LErr EValue.
Proof. vm_compute. reflexivity. Qed.
Example ex_misfit_general c rest : first_ok ex_form c = false ->
  (exists e, lb_run ex_form (lb_encode ex_form ex_vals ++ c :: rest) = LErr e) \/
  lb_run ex_form (lb_encode ex_form ex_vals ++ c :: rest) = LUnspec.
Proof. apply lb_misfit_errors. exact ex_conforms. Qed.
Example ex_wrong_tag : lb_run ex_form [KBegin; KNull; KTag 2; KBool true] = LErr EValue.
Proof. vm_compute. reflexivity. Qed.
Example ex_prefix : lb_run ex_form (lb_encode ex_form (firstn 1 ex_vals)) = LOk (firstn 1 ex_vals).
Proof. apply (lb_prefix_snapshot ex_form (firstn 1 ex_vals) (skipn 1 ex_vals)). exact ex_conforms. Qed.
(* a snapshot in the middle of an element shows the completed elements *)
Example ex_partial : lb_run ex_form (firstn 13 (lb_encode ex_form ex_vals)) = LPartial (firstn 1 ex_vals).
Proof. vm_compute. reflexivity. Qed.
(* what the C++ does not check is outside the specified fragment *)
Example ex_unspec_begin_on_leaf : lb_run (LNumpy DInt64) [KInt 1; KBegin; KInt 2] = LUnspec.
Proof. vm_compute. reflexivity. Qed.
Example ex_unspec_listform : lb_run (LList I64 (LNumpy DInt64)) [] = LUnspec.
Proof. vm_compute. reflexivity. Qed.
(* the restriction [unambiguous] is needed: below an option node an element that begins with null is read as a
   missing element (the C++ Forth word does the same) *)
Example ex_ambiguous_refuted :
  let f := LIndexedOption I64 (LRecord None [LIndexedOption I64 (LNumpy DInt64); LNumpy DBool]) in
  let v := VTup [VNone; VBool true] in
  constructible f = true /\ conf f v = true /\ lb_run f (lb_encode f [v]) = LErr EValue.
Proof. vm_compute. auto. Qed.
