(** C04 — proofs about the MODEL (Broadcast.v).
    Fragment [jag]: 1-d integer NumpyArray leaves under ListOffsetArray / ListArray (any index width, any
    offset origin, gaps, unreachable data) and IndexedOptionArray (not directly inside another one). *)
From AwkV Require Import Proofs_Lists Proofs_ToList Proofs_Typing Proofs_Carry.
From AwkBroadcast Require Import Broadcast Proofs_C04.
From Coq Require Import Lia ZifyBool.

Definition is_dz (d : datum) : bool := match d with DZ _ => true | _ => false end.
Fixpoint jag (c : content) : bool :=
  match c with
  | Numpy _ [_] data => forallb is_dz data
  | ListOffset _ _ c' | ListA _ _ _ c' => jag c'
  | IndexedOption _ _ c' => jag c' && negb (is_option_node c')
  | _ => false
  end.
(* number of nodes of the chain *)
Fixpoint csize (c : content) : nat :=
  match c with
  | ListOffset _ _ c' | ListA _ _ _ c' | IndexedOption _ _ c' => S (csize c')
  | _ => 1%nat
  end.

(* ------------------------------------------------------------------ generic list facts *)
Lemma mapM_slice {A B} (f : A -> res B) l ys a b sl :
  mapM f l = Ok ys -> slice l a b = Ok sl -> mapM f sl = slice ys a b.
Proof.
  intros H Hs. pose proof (slice_inv _ _ _ _ Hs) as Hb.
  rewrite <- (gather_range l a b) in Hs by lia.
  rewrite (mapM_gather_ok f l ys (range a b) sl H Hs).
  apply gather_range; try lia. rewrite (mapM_zlen _ _ _ H). lia.
Qed.

Lemma pairs_skipn k : forall o, pairs (skipn k o) = skipn k (pairs o).
Proof.
  induction k as [|k IH]; [reflexivity|]. intros [|a [|b o]].
  - reflexivity.
  - destruct k; reflexivity.
  - change (skipn (S k) (a :: b :: o)) with (skipn k (b :: o)). rewrite IH. reflexivity.
Qed.
Lemma pairs_firstn k : forall o, pairs (firstn (S k) o) = firstn k (pairs o).
Proof.
  induction k as [|k IH]; intros o.
  - destruct o as [|a [|b o]]; reflexivity.
  - destruct o as [|a [|b o]]; try reflexivity.
    change (firstn (S (S k)) (a :: b :: o)) with (a :: b :: firstn k o).
    change (pairs (a :: b :: firstn k o)) with ((a, b) :: pairs (firstn (S k) (b :: o))).
    rewrite IH. reflexivity.
Qed.
Lemma pairs_slice o a b sl :
  slice o a (b + 1) = Ok sl -> a <= b -> slice (pairs o) a b = Ok (pairs sl).
Proof.
  intros Hs Hab. pose proof (slice_inv _ _ _ _ Hs) as Hb. rewrite slice_ok in Hs by lia. inversion Hs; subst.
  assert (Hne : o <> []) by (intros ->; cbn in Hb; lia).
  rewrite slice_ok; try lia.
  - f_equal. unfold take, drop. rewrite pairs_skipn.
    replace (Z.to_nat (b + 1 - a)) with (S (Z.to_nat (b - a))) by lia. rewrite pairs_firstn. rewrite <- pairs_skipn. reflexivity.
  - rewrite zlen_pairs by exact Hne. lia.
Qed.

Lemma take_as_slice {A} (l : list A) k : 0 <= k <= zlen l -> slice l 0 k = Ok (take k l).
Proof. intros H. rewrite slice_ok by lia. unfold drop. cbn [Z.to_nat skipn]. now rewrite Z.sub_0_r. Qed.

(* ------------------------------------------------------------------ ranges and gathers inside the fragment *)
Lemma jag_type_list c : jag c = true -> is_list_node c = true -> type_of c = TList None None (type_of (match list_content c with Some x => x | None => c end)).
Proof. destruct c; try discriminate; reflexivity. Qed.

Lemma grange0_jag c : forall vs k,
  jag c = true -> to_list c = Ok vs -> 0 <= k <= clen c ->
  exists c', grange c 0 k = Ok c' /\ jag c' = true /\ to_list c' = Ok (take k vs) /\
             type_of c' = type_of c /\ csize c' = csize c /\ clen c' = k /\
             is_option_node c' = is_option_node c /\ is_list_node c' = is_list_node c /\ is_numpy_node c' = is_numpy_node c.
Proof.
  intros vs k Hj Hl Hk. pose proof (to_list_len _ _ Hl) as Hlen.
  assert (Hguard : negb ((0 <=? 0) && (0 <=? k) && (k <=? clen c)) = false) by lia.
  destruct c as [dt shape data| |w o c'|w s e c'|c' size zl|w ix c'|w ix c'|m vw c'|m vw lsb n c'|c'|w t ix cs|cs ks n|arr rn c'];
    try discriminate.
  - (* Numpy, 1-d *)
    destruct shape as [|n [|d ds]]; try discriminate. cbn [jag] in Hj. cbn [clen] in Hk, Hguard.
    cbn [grange]. rewrite Hguard. cbn [prodZ fold_right].
    rewrite to_list_Numpy in Hl. cbn [existsb prodZ fold_right] in Hl.
    destruct (n <? 0) eqn:En; [discriminate|]. cbn [orb] in Hl.
    replace (n * 1) with n in Hl by lia. destruct (zlen data <? n) eqn:Ed; [discriminate|]. cbn [nest] in Hl. inversion Hl; subst vs.
    eexists. split; [reflexivity|]. repeat split.
    + cbn [jag]. apply forallb_forall. intros x Hx. rewrite forallb_forall in Hj. apply Hj.
      unfold take, drop in Hx. cbn [Z.to_nat skipn] in Hx. now apply firstn_In in Hx.
    + rewrite to_list_Numpy. cbn [existsb prodZ fold_right].
      replace ((k - 0) * 1) with k by lia. replace (k - 0) with k by lia.
      destruct (k <? 0) eqn:Ek; [lia|]. cbn [orb]. unfold drop. cbn [Z.to_nat skipn].
      rewrite zlen_take by lia. destruct (k <? k * 1) eqn:E2; [lia|]. cbn [nest]. f_equal.
      replace (k * 1) with k by lia. rewrite <- map_take. f_equal.
      unfold take. rewrite !firstn_firstn. f_equal. lia.
    + cbn [clen]. lia.
  - (* ListOffset *)
    cbn [jag] in Hj. cbn [clen] in Hk, Hguard. cbn [grange]. rewrite Hguard.
    rewrite to_list_ListOffset in Hl. apply bind_Ok in Hl as (vs0 & Hl0 & Hl). apply rmap_Ok in Hl as (ls & Hc & ->).
    unfold cut in Hc. destruct o as [|o0 o]; [discriminate|]. set (oo := o0 :: o) in *.
    assert (Hzo : zlen oo = clen (ListOffset w oo c') + 1) by (cbn [clen]; lia). cbn [clen] in Hzo.
    destruct (slice oo 0 (k + 1)) as [o'|] eqn:Es; [|rewrite slice_ok in Es by lia; discriminate].
    cbn [bind]. eexists. split; [reflexivity|]. repeat split.
    + exact Hj.
    + rewrite to_list_ListOffset, Hl0. cbn [bind]. unfold cut.
      pose proof (slice_zlen _ _ _ _ Es) as Hzo'.
      destruct o' as [|x o']; [cbn in Hzo'; lia|].
      pose proof (pairs_slice oo 0 k _ Es ltac:(lia)) as Hp.
      rewrite (mapM_slice _ _ _ 0 k _ Hc Hp). rewrite take_as_slice.
      * cbn [rmap]. now rewrite map_take.
      * rewrite (mapM_zlen _ _ _ Hc), zlen_pairs by discriminate. lia.
    + cbn [clen]. rewrite (slice_zlen _ _ _ _ Es). lia.
  - (* ListA *)
    cbn [jag] in Hj. cbn [clen] in Hk, Hguard. cbn [grange]. rewrite Hguard.
    rewrite to_list_ListA in Hl. apply bind_Ok in Hl as (vs0 & Hl0 & Hl). apply rmap_Ok in Hl as (ls & Hc & ->).
    unfold cut2 in Hc. destruct (zlen e <? zlen s) eqn:E0; [discriminate|].
    rewrite !take_as_slice by lia. cbn [bind]. eexists. split; [reflexivity|]. repeat split.
    + exact Hj.
    + rewrite to_list_ListA, Hl0. cbn [bind]. unfold cut2. rewrite !zlen_take by lia.
      destruct (k <? k) eqn:E1; [lia|].
      assert (Hz : slice (zip s e) 0 k = Ok (zip (take k s) (take k e))).
      { rewrite take_as_slice by (rewrite zlen_zip; lia). f_equal. unfold take.
        clear. revert s e. induction (Z.to_nat k) as [|n IH]; intros [|a s] [|b e]; cbn; try reflexivity.
        - now destruct n.
        - now rewrite IH. }
      rewrite (mapM_slice _ _ _ 0 k _ Hc Hz). rewrite take_as_slice.
      * cbn [rmap]. now rewrite map_take.
      * rewrite (mapM_zlen _ _ _ Hc), zlen_zip. lia.
    + cbn [clen]. rewrite zlen_take by lia. reflexivity.
  - (* IndexedOption *)
    cbn [jag] in Hj. cbn [clen] in Hk, Hguard. cbn [grange]. rewrite Hguard.
    rewrite to_list_IndexedOption in Hl. apply bind_Ok in Hl as (vs0 & Hl0 & Hl).
    rewrite take_as_slice by lia. cbn [bind]. eexists. split; [reflexivity|]. repeat split.
    + exact Hj.
    + rewrite to_list_IndexedOption, Hl0. cbn [bind].
      rewrite (mapM_slice _ _ _ 0 k _ Hl (take_as_slice ix k ltac:(lia))). apply take_as_slice.
      rewrite (mapM_zlen _ _ _ Hl). lia.
    + cbn [clen]. rewrite zlen_take by lia. reflexivity.
Qed.
