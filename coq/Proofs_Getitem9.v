(** Slicing, part 9: one integer-array item alone.  On every valid layout (no fragment restriction: only
    [carry] is involved), [a[ix]] gathers the elements [ix] (negative indexes wrap, out of range = error). *)
From Coq Require Import ZArith List Bool Lia ZifyBool.
From AwkV Require Import Base Layout LayoutInd Valid Types AtAxis Carry Ops_Getitem Typing Proofs_Typing
                         Proofs_Lists Proofs_ToList Proofs_Carry Proofs_CarryValid Proofs_AtAxis Proofs_AtAxisOps
                         Proofs_C01 Proofs_Getitem Proofs_Getitem2 Proofs_Getitem3.
Import ListNotations.
Open Scope Z_scope.
Ltac Zify.zify_post_hook ::= Z.to_euclidean_division_equations.

Definition szchk_all (sz : option Z) (ix : list Z) : res unit :=
  match sz with Some n => rmap (fun _ => tt) (mapM (wrap_at n) ix) | None => Ok tt end.

Lemma gn_list_IArray f c ix tail : lnode c = true ->
  gn (S f) c (IArray ix :: tail) None =
  do bc <- list_bounds c;
  do _ <- szchk_all (rsize c) ix;
  do picked <- mapM (fun ab : Z * Z => mapM (fun i => at_model i ab) ix) (fst bc);
  do nc <- carry (snd bc) (concat picked);
  do r <- gn f nc tail (Some (concat (map (fun _ => iota (zlen ix)) (fst bc))));
  Ok (Regular r (zlen ix) (zlen (fst bc))).
Proof. destruct c; try discriminate; intros _; reflexivity. Qed.

Definition pick_array (ix : list Z) (o : option (list value)) : res (option (list value)) :=
  match o with
  | None => Ok None
  | Some l => rmap Some (mapM (fun i => at_spec i l) ix)
  end.
Lemma sg_IArray f str sz t lists ix tail :
  sg (S f) str sz t lists (IArray ix :: tail) None =
  do _ <- szchk_all sz ix;
  if has_none lists then Err EFuel else
  do picked <- mapM (pick_array ix) lists;
  let counts := map (fun o => zlen (unopt o)) picked in
  let adv' := concat (map (fun o : option (list value) => match o with Some _ => iota (zlen ix) | None => [] end) picked) in
  do r <- se_ f t (concat (map unopt picked)) tail (Some adv');
  Ok (TList (Some (zlen ix)) str (fst r), regrouped str picked (regroup counts (snd r))).
Proof. reflexivity. Qed.

(* the whole operation with a single array item *)
Lemma top_bounds c : 0 <= clen c -> list_bounds (Regular c (clen c) 1) = Ok ([(0, clen c)], c).
Proof.
  intros Hn. cbn [list_bounds]. destruct (clen c <? 0) eqn:E; [lia|]. destruct (clen c =? 0) eqn:E0.
  - cbn. assert (clen c = 0) by lia. rewrite H. reflexivity.
  - rewrite Z.div_same by lia. change (iota 1) with [0]. cbn [map]. replace (0 * clen c) with 0 by lia. replace ((0 + 1) * clen c) with (clen c) by lia. reflexivity.
Qed.

Theorem getitem_array_alone : forall ix c vs,
  Valid None c -> to_list c = Ok vs ->
  obs (getitem_model [IArray ix] c) = getitem_spec [IArray ix] (type_of c) vs.
Proof.
  intros ix c vs HV Hl. pose proof (to_list_len _ _ Hl) as Hn. pose proof (zlen_nonneg vs) as Hnn.
  unfold getitem_model, getitem_spec. change (items_fuel [IArray ix]) with (S 35).
  rewrite gn_list_IArray by reflexivity. rewrite sg_IArray. rewrite top_bounds by lia. cbn [bind fst snd rsize has_none existsb].
  rewrite <- Hn.
  destruct (szchk_all (Some (zlen vs)) ix) as [[]|e] eqn:Esz; cbn [bind]; [|reflexivity].
  cbn [mapM pick_array]. unfold at_model, at_spec. cbn [fst snd]. rewrite Z.sub_0_r.
  (* the picked positions *)
  assert (Hpk : mapM (fun i => do j <- wrap_at (zlen vs) i; Ok (0 + j)) ix = mapM (wrap_at (zlen vs)) ix).
  { apply mapM_ext_in. intros i _. destruct (wrap_at (zlen vs) i); reflexivity. }
  rewrite Hpk. cbn [szchk_all] in Esz. destruct (mapM (wrap_at (zlen vs)) ix) as [ks|e] eqn:Eks; [|discriminate].
  cbn [bind concat]. rewrite app_nil_r.
  assert (Hr : Forall (fun j => 0 <= j < zlen vs) ks).
  { apply Forall_forall. intros j Hj. destruct (mapM_In_inv _ _ _ _ Eks Hj) as (i & _ & Hi). eapply wrap_at_range, Hi. }
  destruct (carry_spec c vs ks HV Hl) as (nc & Hnc & Hlnc & Hcl); [rewrite <- Hn; exact Hr|].
  destruct (gather_ok vs ks Hr) as [xs Hxs]. rewrite Hxs in Hlnc.
  assert (Hsp : mapM (fun i => do j <- wrap_at (zlen vs) i; get vs j) ix = Ok xs).
  { rewrite <- Hxs. rewrite (mapM_mapM _ (get vs) _ _ Eks). reflexivity. }
  rewrite Hsp, Hnc. cbn [rmap bind map unopt concat]. rewrite app_nil_r.
  change (gn 35 nc [] _) with (@Ok content nc). rewrite se_nil. cbn [bind fst snd obs].
  (* the value of the regular result *)
  assert (Hzx : zlen xs = zlen ix) by (rewrite (mapM_zlen _ _ _ Hxs); apply (mapM_zlen _ _ _ Eks)).
  rewrite to_list_Regular, Hlnc. cbn [bind]. change (zlen [(0, zlen vs)]) with 1.
  replace xs with (concat [xs]) at 1 by (cbn; apply app_nil_r).
  rewrite <- Hzx. change 1 with (zlen [xs]). rewrite chunks_concat; [|apply zlen_nonneg|constructor; [reflexivity|constructor]].
  cbn [rmap map orb bind snd]. rewrite app_nil_r. unfold regrouped. cbn [regroup zip map fst snd mk_list]. rewrite take_all by lia. reflexivity.
Qed.
Print Assumptions getitem_array_alone.

(* ---------------------------------------------------------------- why the hypotheses of parts 3-7 are there *)
(* The model does not re-normalise its results (the C++ calls simplify_optiontype): the layouts it produces and
   recurses on need not be valid, although their values are right.
   (1) projecting a field that is itself an option / IndexedArray node out of a record that sits directly under an
       option / IndexedArray node: the projected layout has an option node directly under another one
       (hence [rec_fields_ok] in the fragment [gfrag]); *)
Example field_projection_leaves_valid_layouts_refuted :
  let c := IndexedOption I64 [0; -1] (Record [IndexedOption I64 [-1; 0] (Numpy DInt64 [1] [DZ 7])] (Some [[120]]) 2) in
  validb None c = true /\ rec_fields_ok (Record [IndexedOption I64 [-1; 0] (Numpy DInt64 [1] [DZ 7])] (Some [[120]]) 2) = false /\
  exists f, field_content [120] c = Ok f /\ validb None f = false /\ to_list f = Ok [VNone; VNone].
Proof. vm_compute. repeat split. eexists. repeat split. Qed.
(* (2) an integer item on an option-wrapped list of options: the result is an option node over an option node
       (so the result of [gn] cannot be fed back to a theorem that assumes validity: this is what stops the proof of
       positional items slicing THROUGH a record, [slice_ok]) *)
Example gn_result_not_valid :
  let c := IndexedOption I64 [0] (ListOffset I64 [0; 1] (IndexedOption I64 [-1] (Numpy DInt64 [0] []))) in
  validb None c = true /\
  exists r, gn 8 c [IAt 0] None = Ok r /\ validb None r = false /\ to_list r = Ok [VNone].
Proof. vm_compute. repeat split. eexists. repeat split. Qed.
