(** Proofs_C13h.v -- the "never out of bounds" calculus of Proofs_C13d.v transported to the monad [xres] of Kernels2.v
    ([xnoob_post], tactics xp_step / xp_auto), block-write algebra ([splice]) and
    awkward_slicearray_ravel: k_safe and the k_spec "toptr = row-major ravel of the strided n-d index" for every rank. *)
From Coq Require Import ZArith List Bool Lia ZifyBool.
From AwkV Require Import Base.
From AwkKernels Require Import Kernels KLemmas Proofs_C13 Proofs_C13b Proofs_C13c Proofs_C13d.
From AwkKernels Require Export Kernels2.
From AwkKernels Require Import Proofs_C13e Proofs_C13f Proofs_C13g.
Import ListNotations.
Open Scope Z_scope.

Ltac Zify.zify_post_hook ::= Z.to_euclidean_division_equations.

(* ================================================================================================ *)
(** * [xnoob_post r Q]: [noob_post] for the monad [xres] *)
Definition xnoob_post {A} (r : xres A) (Q : A -> Prop) : Prop :=
  r <> XOob /\ forall a, r = XOk a -> Q a.

Lemma xp_noob {A} (r : xres A) (Q : A -> Prop) : xnoob_post r Q -> r <> XOob.
Proof. intros (H & _); exact H. Qed.
Lemma xp_ret {A} (a : A) (Q : A -> Prop) : Q a -> xnoob_post (XOk a) Q.
Proof. intros H. split; [congruence|]. intros b E; inversion E; subst; auto. Qed.
Lemma xp_err {A} m (Q : A -> Prop) : xnoob_post (XErr m) Q.
Proof. split; congruence. Qed.
Lemma xp_weaken {A} (r : xres A) (Q Q' : A -> Prop) : xnoob_post r Q -> (forall a, Q a -> Q' a) -> xnoob_post r Q'.
Proof. intros (H & K) W. split; auto. Qed.
Lemma xp_bind {A B} (r : xres A) (f : A -> xres B) (R : A -> Prop) (Q : B -> Prop) :
  xnoob_post r R -> (forall a, R a -> xnoob_post (f a) Q) -> xnoob_post (xbind r f) Q.
Proof.
  intros (N & P) H. destruct r as [a| |]; cbn [xbind]; [apply H; auto|apply xp_err|congruence].
Qed.
Lemma xp_xmap {A B} (g : A -> B) (r : xres A) (Q : B -> Prop) : xnoob_post r (fun a => Q (g a)) -> xnoob_post (xmap g r) Q.
Proof.
  intros (N & P). destruct r as [a| |]; cbn [xmap]; [apply xp_ret; auto|apply xp_err|congruence].
Qed.
Lemma xp_lift {A} (r : kres A) (Q : A -> Prop) : noob_post r Q -> xnoob_post (lift r) Q.
Proof.
  intros (N & P). destruct r as [a| |]; cbn [lift]; [apply xp_ret; auto|apply xp_err|congruence].
Qed.
Lemma xp_bind_lift {A B} (r : kres A) (f : A -> xres B) (R : A -> Prop) (Q : B -> Prop) :
  noob_post r R -> (forall a, R a -> xnoob_post (f a) Q) -> xnoob_post (xbind (lift r) f) Q.
Proof. intros H K. eapply xp_bind; [apply xp_lift; eauto|exact K]. Qed.

Lemma xp_xget l i (Q : Z -> Prop) : 0 <= i < zlen l -> Q (at_ l i) -> xnoob_post (xget l i) Q.
Proof. intros H HQ. rewrite xget_at by auto. now apply xp_ret. Qed.
Lemma xp_bind_xget {B} l i (f : Z -> xres B) (Q : B -> Prop) :
  0 <= i < zlen l -> xnoob_post (f (at_ l i)) Q -> xnoob_post (xbind (xget l i) f) Q.
Proof. intros H HQ. rewrite xget_at by auto. exact HQ. Qed.
Lemma xp_xupd l i v (Q : list Z -> Prop) :
  0 <= i < zlen l -> Q (set_nth l (Z.to_nat i) v) -> xnoob_post (xupd l i v) Q.
Proof. intros H HQ. rewrite xupd_ok by auto. now apply xp_ret. Qed.
Lemma xp_bind_xupd {B} l i v (f : list Z -> xres B) (Q : B -> Prop) :
  0 <= i < zlen l -> xnoob_post (f (set_nth l (Z.to_nat i) v)) Q -> xnoob_post (xbind (xupd l i v) f) Q.
Proof. intros H HQ. rewrite xupd_ok by auto. exact HQ. Qed.
Lemma xp_xcheck b m (Q : unit -> Prop) : (b = false -> Q tt) -> xnoob_post (xcheck b m) Q.
Proof. intros H. destruct b; cbn [xcheck]; [apply xp_err|apply xp_ret; auto]. Qed.
Lemma xp_bind_xcheck {B} b m (f : unit -> xres B) (Q : B -> Prop) :
  (b = false -> xnoob_post (f tt) Q) -> xnoob_post (xbind (xcheck b m) f) Q.
Proof. intros H. destruct b; cbn [xcheck xbind]; [apply xp_err|auto]. Qed.

Lemma xp_xfor {S} (body : Z -> S -> xres S) (P : Z -> S -> Prop) lo hi s :
  P lo s ->
  (forall j s, lo <= j < hi -> P j s -> xnoob_post (body j s) (P (j + 1))) ->
  xnoob_post (xfor lo hi body s) (P (Z.max lo hi)).
Proof.
  intros H0 Hstep. destruct (Z_le_gt_dec lo hi) as [Hle|Hgt].
  - rewrite Z.max_r by lia. destruct (xfor_noob body P lo hi s H0) as (N & K).
    + intros j s0 Hj Pj. exact (Hstep j s0 Hj Pj).
    + split; auto.
  - rewrite Z.max_l by lia. unfold xfor. replace (Z.to_nat (hi - lo)) with O by lia. cbn [xfor_nat]. now apply xp_ret.
Qed.
Lemma xp_bind_xfor {S B} (body : Z -> S -> xres S) (P : Z -> S -> Prop) lo hi s (f : S -> xres B) (Q : B -> Prop) :
  P lo s ->
  (forall j s, lo <= j < hi -> P j s -> xnoob_post (body j s) (P (j + 1))) ->
  (forall s', P (Z.max lo hi) s' -> xnoob_post (f s') Q) ->
  xnoob_post (xbind (xfor lo hi body s) f) Q.
Proof. intros H0 Hstep Hf. eapply xp_bind; [apply xp_xfor; eauto|exact Hf]. Qed.
Lemma xp_xfor_c {S} (body : Z -> S -> xres S) (P : S -> Prop) lo hi s :
  P s -> (forall j s, lo <= j < hi -> P s -> xnoob_post (body j s) P) -> xnoob_post (xfor lo hi body s) P.
Proof. intros H0 Hstep. exact (xp_xfor body (fun _ => P) lo hi s H0 Hstep). Qed.

Lemma xp_xwhile {S} fuel (cond : S -> bool) (body : S -> xres S) (P : S -> Prop) s :
  P s -> (forall s, P s -> cond s = true -> xnoob_post (body s) P) ->
  xnoob_post (xwhile fuel cond body s) (fun s' => P s' /\ cond s' = false).
Proof.
  intros H0 Hstep. revert s H0. induction fuel as [|f IH]; intros s H0; cbn [xwhile].
  - destruct (cond s) eqn:C; [apply xp_err|apply xp_ret; auto].
  - destruct (cond s) eqn:C; [|apply xp_ret; auto].
    eapply xp_bind; [apply Hstep; auto|]. intros a Pa. now apply IH.
Qed.

(** invariants that only fix the lengths of the buffers *)
Ltac xp_side := try solve [cbn [fst snd] in *; rewrite ?zlen_set_nth in *; lia].
Ltac xp_step :=
  lazymatch goal with
  | |- xnoob_post (xbind (xget _ _) _) _ => apply xp_bind_xget; [xp_side | cbv beta]
  | |- xnoob_post (xbind (xupd _ _ _) _) _ => apply xp_bind_xupd; [xp_side | cbv beta]
  | |- xnoob_post (xbind (xcheck _ _) _) _ => apply xp_bind_xcheck; intros ?; cbv beta
  | |- xnoob_post (xbind (XOk _) _) _ => cbn [xbind]
  | |- xnoob_post (xbind (if ?b then _ else _) _) _ => destruct b eqn:?
  | |- xnoob_post (XOk _) _ => apply xp_ret
  | |- xnoob_post (XErr _) _ => apply xp_err
  | |- xnoob_post (xupd _ _ _) _ => apply xp_xupd; [xp_side|]
  | |- xnoob_post (xget _ _) _ => apply xp_xget; [xp_side|]
  | |- xnoob_post (xcheck _ _) _ => apply xp_xcheck; intros ?
  | |- xnoob_post (if ?b then _ else _) _ => destruct b eqn:?
  end.
Ltac xp_auto := repeat xp_step.

(** [kpush] keeps the length of the buffer and advances the counter *)
Lemma np_kpush (st : list Z * Z) v (Q : list Z * Z -> Prop) :
  0 <= snd st < zlen (fst st) -> Q (set_nth (fst st) (Z.to_nat (snd st)) v, snd st + 1) -> noob_post (kpush st v) Q.
Proof. destruct st as [o k]. cbn [fst snd]. intros H HQ. unfold kpush. rewrite kupd_ok by lia. cbn [kbind]. now apply np_ret. Qed.

(* ================================================================================================ *)
(** * writing a block into a buffer *)
Definition splice (off : Z) (blk out : list Z) : list Z :=
  firstn (Z.to_nat off) out ++ blk ++ skipn (Z.to_nat (off + zlen blk)) out.

Lemma zlen_firstn (l : list Z) n : 0 <= n <= zlen l -> zlen (firstn (Z.to_nat n) l) = n.
Proof. intros H. unfold zlen in *. rewrite firstn_length. lia. Qed.
Lemma zlen_skipn (l : list Z) n : 0 <= n <= zlen l -> zlen (skipn (Z.to_nat n) l) = zlen l - n.
Proof. intros H. unfold zlen in *. rewrite skipn_length. lia. Qed.

Lemma zlen_splice off blk out : 0 <= off -> off + zlen blk <= zlen out -> zlen (splice off blk out) = zlen out.
Proof.
  intros H1 H2. pose proof (zlen_nonneg blk). unfold splice. rewrite !zlen_app, zlen_firstn, zlen_skipn by lia. lia.
Qed.
Lemma splice_nil off out : 0 <= off -> splice off [] out = out.
Proof. intros H. unfold splice. rewrite zlen_nil, Z.add_0_r. cbn [app]. apply firstn_skipn. Qed.
Lemma filled_splice off n g out : 0 <= n -> filled off n g out = splice off (map g (iota n)) out.
Proof. intros H. unfold filled, splice. rewrite zlen_map. unfold zlen. rewrite iota_length. now rewrite Z2Nat.id by lia. Qed.

Lemma firstn_app_exact {A} (l m : list A) n : length l = n -> firstn n (l ++ m) = l.
Proof. intros <-. rewrite firstn_app, Nat.sub_diag, firstn_all. cbn. apply app_nil_r. Qed.
Lemma skipn_app_exact {A} (l m : list A) n : length l = n -> skipn n (l ++ m) = m.
Proof. intros <-. rewrite skipn_app, Nat.sub_diag, skipn_all. reflexivity. Qed.

Lemma skipn_add {A} (l : list A) n m : skipn (n + m) l = skipn m (skipn n l).
Proof. revert l; induction n; intros l; cbn [Nat.add skipn]; auto. destruct l; [now rewrite skipn_nil|apply IHn]. Qed.

Lemma splice_snoc off b1 b2 out :
  0 <= off -> off + zlen b1 + zlen b2 <= zlen out ->
  splice (off + zlen b1) b2 (splice off b1 out) = splice off (b1 ++ b2) out.
Proof.
  intros H1 H2. pose proof (zlen_nonneg b1) as N1. pose proof (zlen_nonneg b2) as N2.
  unfold splice at 1.
  assert (F : firstn (Z.to_nat (off + zlen b1)) (splice off b1 out) = firstn (Z.to_nat off) out ++ b1).
  { unfold splice. rewrite app_assoc. apply firstn_app_exact.
    rewrite app_length, firstn_length. unfold zlen in *. lia. }
  assert (K : skipn (Z.to_nat (off + zlen b1 + zlen b2)) (splice off b1 out) = skipn (Z.to_nat (off + zlen (b1 ++ b2))) out).
  { unfold splice. rewrite app_assoc. rewrite zlen_app.
    replace (Z.to_nat (off + zlen b1 + zlen b2)) with (length (firstn (Z.to_nat off) out ++ b1) + Z.to_nat (zlen b2))%nat
      by (rewrite app_length, firstn_length; unfold zlen in *; lia).
    rewrite skipn_add. rewrite skipn_app_exact by reflexivity. rewrite <- skipn_add.
    f_equal. unfold zlen in *. lia. }
  rewrite F, K. unfold splice. now rewrite <- !app_assoc.
Qed.

(* ================================================================================================ *)
(** * awkward_slicearray_ravel *)
Definition prodZ (l : list Z) : Z := fold_right Z.mul 1 l.

(** the positions (in [fromptr]) of the elements of an n-d view with the given shape and strides, in row-major order *)
Fixpoint ravel_idx (shape strides : list Z) (foff : Z) : list Z :=
  match shape, strides with
  | s :: shape', st :: strides' => flat_map (fun i => ravel_idx shape' strides' (foff + i * st)) (iota s)
  | _, _ => [foff]
  end.

Lemma prodZ_nonneg l : Forall (fun x => 0 <= x) l -> 0 <= prodZ l.
Proof. induction 1; cbn [prodZ fold_right]; [lia|]. fold (prodZ l). nia. Qed.

Lemma flat_map_length_const {A} (f : Z -> list A) (c : Z) l :
  (forall i, In i l -> zlen (f i) = c) -> zlen (flat_map f l) = zlen l * c.
Proof.
  induction l as [|x l IH]; intros H; cbn [flat_map]; [unfold zlen; cbn [length]; lia|].
  rewrite zlen_app, zlen_cons, IH by (intros; apply H; cbn [In]; auto). rewrite (H x) by (cbn [In]; auto). lia.
Qed.
Lemma zlen_iota_ n : 0 <= n -> zlen (iota n) = n.
Proof. intros H. unfold zlen. rewrite iota_length. lia. Qed.

Lemma zlen_ravel_idx shape : forall strides foff,
  length strides = length shape -> Forall (fun x => 0 <= x) shape -> zlen (ravel_idx shape strides foff) = prodZ shape.
Proof.
  induction shape as [|s shape IH]; intros [|st strides] foff L F; cbn [length] in L; try discriminate; [reflexivity|].
  inversion F; subst. cbn [ravel_idx prodZ fold_right]. fold (prodZ shape).
  rewrite (flat_map_length_const _ (prodZ shape)).
  - now rewrite zlen_iota_.
  - intros i _. apply IH; auto.
Qed.

Lemma flat_map_snoc {A B} (f : A -> list B) l x : flat_map f (l ++ [x]) = flat_map f l ++ f x.
Proof. rewrite flat_map_app. cbn. now rewrite app_nil_r. Qed.

Lemma prodZ_firstn_S l k : (k < length l)%nat -> prodZ (firstn (S k) l) = prodZ (firstn k l) * nth k l 0.
Proof.
  revert k; induction l as [|x l IH]; intros k H; cbn [length] in H; [lia|].
  destruct k; [cbn [firstn nth prodZ fold_right]; lia|].
  specialize (IH k). unfold prodZ in *. cbn [firstn nth fold_right]. cbn [firstn] in IH. rewrite IH by lia. lia.
Qed.

(** the block-size loop: the product of the trailing extents *)
Lemma ravel_blocksize shape soff (sh : list Z) :
  (forall k, 0 <= k < zlen sh -> kget shape (soff + 1 + k) = KOk (at_ sh k)) ->
  kfor 1 (zlen sh + 1) (fun k acc => let* sk := kget shape (soff + k) in KOk (acc * sk)) 1 = KOk (prodZ sh).
Proof.
  intros Hs. pose proof (zlen_nonneg sh) as Hn.
  destruct (kfor_inv (fun k acc => let* sk := kget shape (soff + k) in KOk (acc * sk))
              (fun j acc => acc = prodZ (firstn (Z.to_nat (j - 1)) sh)) 1 (zlen sh + 1) 1) as (s' & E & P); try lia.
  - reflexivity.
  - intros j acc Hj ->. replace (soff + j) with (soff + 1 + (j - 1)) by lia. rewrite Hs by lia. cbn [kbind].
    eexists; split; [reflexivity|]. replace (Z.to_nat (j + 1 - 1)) with (S (Z.to_nat (j - 1))) by lia.
    rewrite prodZ_firstn_S by (unfold zlen in *; lia). reflexivity.
  - rewrite E, P. f_equal. rewrite firstn_all2; auto. unfold zlen. lia.
Qed.

Lemma map_flat_map {A B C} (g : B -> C) (f : A -> list B) l : map g (flat_map f l) = flat_map (fun x => map g (f x)) l.
Proof. induction l; cbn [flat_map map]; auto. rewrite map_app. congruence. Qed.
Lemma flat_map_single {A} (g : Z -> A) l : flat_map (fun i => [g i]) l = map g l.
Proof. induction l; cbn; congruence. Qed.

Lemma ravel_rec_spec fromptr shape strides :
  forall (sh st : list Z) (d : nat) out toff foff soff,
  sh <> [] -> length st = length sh -> (length sh <= d)%nat ->
  (forall k, 0 <= k < zlen sh -> kget shape (soff + k) = KOk (at_ sh k)) ->
  (forall k, 0 <= k < zlen sh -> kget strides (soff + k) = KOk (at_ st k)) ->
  Forall (fun x => 0 <= x) sh ->
  (forall p, In p (ravel_idx sh st foff) -> 0 <= p < zlen fromptr) ->
  0 <= toff -> toff + prodZ sh <= zlen out ->
  slicearray_ravel_rec d out fromptr shape strides toff foff soff (zlen sh)
  = KOk (splice toff (map (at_ fromptr) (ravel_idx sh st foff)) out).
Proof.
  induction sh as [|s sh IH]; intros st d out toff foff soff Hne L Hd Hshape Hstr F Hin Ht Hcap; [congruence|].
  destruct st as [|t st]; [discriminate|]. destruct d as [|d]; [cbn [length] in Hd; lia|].
  cbn [length] in L, Hd. inversion F as [|? ? Fs Fsh]; subst.
  pose proof (zlen_nonneg sh) as Hn. pose proof (prodZ_nonneg sh Fsh) as Hp.
  cbn [slicearray_ravel_rec].
  pose proof (Hshape 0) as S0. rewrite Z.add_0_r in S0. rewrite S0 by (rewrite zlen_cons; lia). cbn [kbind].
  change (at_ (s :: sh) 0) with s.
  assert (T0 : kget strides soff = KOk t).
  { pose proof (Hstr 0) as T0. rewrite Z.add_0_r in T0. rewrite T0 by (rewrite zlen_cons; lia). reflexivity. }
  destruct sh as [|s1 sh'].
  - (* rank 1 *)
    destruct st; [|discriminate]. change (zlen [s] =? 1) with true. cbv iota.
    cbn [ravel_idx]. rewrite flat_map_single, map_map.
    rewrite <- (filled_splice toff s (fun i => at_ fromptr (foff + i * t))) by lia.
    cbn [prodZ fold_right] in Hcap.
    replace s with (Z.max 0 s) at 2 by lia.
    rewrite <- (kfill_spec toff s (fun i => let* stv := kget strides soff in kget fromptr (foff + i * stv))); try lia.
    + unfold kfill. apply kfor_ext. intros j o Hj. rewrite T0. cbn [kbind]. destruct (kget fromptr (foff + j * t)); reflexivity.
    + intros i Hi. rewrite T0. cbn [kbind]. apply kget_at. apply Hin. cbn [ravel_idx]. rewrite flat_map_single.
      apply in_map_iff. exists i. split; auto. apply in_iota. lia.
  - (* rank >= 2 *)
    set (sh1 := s1 :: sh') in *.
    assert (Hn1 : 1 <= zlen sh1) by (unfold sh1; rewrite zlen_cons; pose proof (zlen_nonneg sh'); lia).
    replace (zlen (s :: sh1) =? 1) with false by (rewrite zlen_cons; lia). cbv iota.
    rewrite zlen_cons at 1.
    rewrite (ravel_blocksize shape soff sh1).
    2:{ intros k Hk. replace (soff + 1 + k) with (soff + (k + 1)) by lia. rewrite Hshape by (rewrite zlen_cons; lia).
        f_equal. unfold at_. replace (Z.to_nat (k + 1)) with (S (Z.to_nat k)) by lia. reflexivity. }
    cbn [kbind]. cbn [ravel_idx].
    set (blk := fun i => map (at_ fromptr) (ravel_idx sh1 st (foff + i * t))).
    assert (Lb : forall i, zlen (blk i) = prodZ sh1).
    { intros i. unfold blk. rewrite zlen_map. apply zlen_ravel_idx; auto. }
    cbn [prodZ fold_right] in Hcap. fold (prodZ sh1) in Hcap.
    destruct (kfor_inv
      (fun i out0 => let* stv := kget strides soff in
         slicearray_ravel_rec d out0 fromptr shape strides (toff + i * prodZ sh1) (foff + i * stv) (soff + 1)
           (zlen (s :: sh1) - 1))
      (fun j o => o = splice toff (flat_map blk (iota j)) out) 0 s out) as (o' & E & P); try lia.
    + rewrite iota_0. cbn [flat_map]. now rewrite splice_nil.
    + intros j o Hj ->. rewrite T0. cbn [kbind].
      assert (Lj : zlen (flat_map blk (iota j)) = j * prodZ sh1).
      { rewrite (flat_map_length_const _ (prodZ sh1)) by (intros; apply Lb). now rewrite zlen_iota_ by lia. }
      replace (zlen (s :: sh1) - 1) with (zlen sh1) by (rewrite zlen_cons; lia).
      rewrite (IH st d); auto; try lia.
      * eexists; split; [reflexivity|]. rewrite iota_snoc by lia. rewrite flat_map_snoc.
        rewrite <- splice_snoc; try lia.
        -- rewrite Lj. reflexivity.
        -- rewrite Lj, Lb. nia.
      * unfold sh1; congruence.
      * intros k Hk. replace (soff + 1 + k) with (soff + (k + 1)) by lia. rewrite Hshape by (rewrite zlen_cons; lia).
        f_equal. unfold at_. replace (Z.to_nat (k + 1)) with (S (Z.to_nat k)) by lia. reflexivity.
      * intros k Hk. replace (soff + 1 + k) with (soff + (k + 1)) by lia. rewrite Hstr by (rewrite zlen_cons; lia).
        f_equal. unfold at_. replace (Z.to_nat (k + 1)) with (S (Z.to_nat k)) by lia. reflexivity.
      * intros p Hp'. apply Hin. cbn [ravel_idx]. apply in_flat_map. exists j. split; auto. apply in_iota. lia.
      * rewrite zlen_splice by (rewrite ?Lj; nia). nia.
    + rewrite E, P. f_equal. unfold blk. now rewrite map_flat_map.
Qed.

(** k_spec: for every rank >= 1, toptr receives the row-major ravel of the strided view of fromptr; the rest of
    the buffer is untouched (before fix b22ac49 the block offset was i * shape[1], which violates this for rank >= 3) *)
Theorem slicearray_ravel_spec toptr fromptr shape strides :
  1 <= zlen shape -> zlen strides = zlen shape ->
  Forall (fun x => 0 <= x) shape ->
  (forall p, In p (ravel_idx shape strides 0) -> 0 <= p < zlen fromptr) ->
  prodZ shape <= zlen toptr ->
  slicearray_ravel toptr fromptr (zlen shape) shape strides
  = KOk (map (at_ fromptr) (ravel_idx shape strides 0) ++ skipn (Z.to_nat (prodZ shape)) toptr).
Proof.
  intros H1 H2 F Hin Hcap. unfold slicearray_ravel.
  rewrite (ravel_rec_spec fromptr shape strides shape strides); auto; try lia.
  - unfold splice. cbn [Z.to_nat firstn app]. rewrite zlen_map, zlen_ravel_idx; auto. unfold zlen in *; lia.
  - intros ->. rewrite zlen_nil in H1. lia.
  - unfold zlen in *; lia.
  - unfold zlen. lia.
  - intros k Hk. rewrite Z.add_0_l. now apply kget_at.
  - intros k Hk. rewrite Z.add_0_l. apply kget_at. lia.
Qed.

(** k_safe: the caller (SliceArrayOf<T>::ravel) allocates prod(shape) cells and passes shape/strides of ndim entries *)
Theorem slicearray_ravel_safe toptr fromptr shape strides :
  1 <= zlen shape -> zlen strides = zlen shape ->
  Forall (fun x => 0 <= x) shape ->
  (forall p, In p (ravel_idx shape strides 0) -> 0 <= p < zlen fromptr) ->
  prodZ shape <= zlen toptr ->
  slicearray_ravel toptr fromptr (zlen shape) shape strides <> KOob.
Proof. intros. rewrite slicearray_ravel_spec; auto. congruence. Qed.

(** a rank-3 view (shape 2 x 2 x 3, C-contiguous strides 6, 3, 1): the case the code before b22ac49 got wrong *)
Example slicearray_ravel_example :
  slicearray_ravel [9;9;9;9;9;9;9;9;9;9;9;9;7] [10;11;12;13;14;15;16;17;18;19;20;21] 3 [2;2;3] [6;3;1]
  = KOk [10;11;12;13;14;15;16;17;18;19;20;21;7].
Proof. vm_compute. reflexivity. Qed.
Example slicearray_ravel_example_strided :
  slicearray_ravel [9;9;9;9;9;9;9;9] [0;1;2;3;4;5;6;7;8;9;10;11] 3 [2;2;2] [6;3;2]
  = KOk [0;2;3;5;6;8;9;11].
Proof. vm_compute. reflexivity. Qed.
