(** Extraction of the executable AwkwardForth model (ExtrOcamlBasic only; Z, positive, nat stay inductive). *)
From Coq Require Import Extraction ExtrOcamlBasic ZArith List.
From AwkForth Require Import Forth.
Extraction Language OCaml.
Extraction "forthmodel.ml" Z.add Z.mul Z.sub Z.div Z.modulo Z.eqb Z.ltb Z.leb Z.of_nat Z.to_nat Z.opp Nat.add Nat.mul
  compile session init_machine is_done.
