(** C12 property theorems (proofs in Proofs_C12.v, Proofs_Carry.v, Proofs_AtAxis.v, Proofs_ToList.v):
    the modelled pipelines never read or write outside their buffers.  In the models every buffer
    access is a checked [get]/[slice] returning [Err EOob] outside the extent and non-structural
    recursion runs on fuel ([Err EFuel]); on valid layouts neither can happen. *)
From AwkV Require Import Layout Valid Types AtAxis Carry Ops_Struct
                         Proofs_Lists Proofs_ToList Proofs_Carry Proofs_AtAxis Proofs_AtAxisOps Proofs_C12.

Theorem carry_never_reads_out_of_bounds : forall c vs ix,
  Valid None c -> to_list c = Ok vs -> Forall (fun i => 0 <= i < clen c) ix ->
  exists c', carry c ix = Ok c'.
Proof. exact carry_no_oob. Qed.
Print Assumptions carry_never_reads_out_of_bounds.

Theorem at_axis_operations_never_read_out_of_bounds : forall c axis vs target,
  Valid None c -> frag c = true -> to_list c = Ok vs ->
  clean (num_model axis c) /\ clean (localindex_model axis c) /\ clean (rpad_model target axis c) /\
  clean (rpadclip_model target axis c).
Proof. exact at_axis_no_oob. Qed.
Print Assumptions at_axis_operations_never_read_out_of_bounds.

Theorem valid_layouts_can_always_be_read : forall c p, Valid p c -> chars_ok c = true -> exists vs, to_list c = Ok vs.
Proof. exact valid_to_list_total_partial. Qed.
Print Assumptions valid_layouts_can_always_be_read.

(* ================================================================================================
   Memory safety of ALL the modelled operations (proofs in Proofs_Safety.v, Proofs_Safety2.v, Proofs_Safety3.v,
   Proofs_Safety4.v, Proofs_SafetyAll.v).  [clean r]: the run [r] ends in a result or in the ordinary refusal
   [Err EValue]; equivalently r <> Err EOob /\ r <> Err EFuel.
   ================================================================================================ *)
From AwkV Require Import Base Ops_Flatten Ops_Option Ops_Reduce Ops_Sort Ops_Getitem Ops_Fields
                         Proofs_Reduce Proofs_SortRef2 Proofs_Fillna Proofs_FlattenB Proofs_Closure6
                         Proofs_Safety Proofs_Safety2 Proofs_Safety3 Proofs_Safety4 Proofs_Safety5 Proofs_SafetyAll.
From AwkV Require Import Proofs_Getitem3 Proofs_Getitem7.

Theorem clean_means_no_oob_no_fuel : forall (A : Type) (r : res A), clean r <-> r <> Err EOob /\ r <> Err EFuel.
Proof. exact (@clean_iff). Qed.
Print Assumptions clean_means_no_oob_no_fuel.

(* the at-axis descent performs no buffer access of its own and is structural: on EVERY layout (valid or not, unions
   included) it is as clean as the action [g] at the axis and the answer [unk] below an EmptyArray *)
Theorem at_axis_descent_is_as_clean_as_its_action : forall g unk str_ok,
  (forall p c, clean (g p c)) -> clean unk -> forall c axis, clean (model_ax g unk str_ok c axis).
Proof. exact model_ax_clean. Qed.
Print Assumptions at_axis_descent_is_as_clean_as_its_action.

(* num, local_index, pad_none (both variants), combinations (every n, with / without replacement), every axis:
   NO hypothesis on the layout at all (extends at_axis_operations_never_read_out_of_bounds above) *)
Theorem at_axis_operations_clean_on_any_layout : forall c,
  (forall axis, clean (num_model axis c)) /\
  (forall axis, clean (localindex_model axis c)) /\
  (forall target axis, clean (rpad_model target axis c)) /\
  (forall target axis, clean (rpadclip_model target axis c)) /\
  (forall n repl axis, clean (comb_model n repl axis c)).
Proof. exact at_axis_ops_clean_any_layout. Qed.
Print Assumptions at_axis_operations_clean_on_any_layout.

Theorem combinations_never_reads_out_of_bounds : forall n repl axis c,
  comb_model n repl axis c <> Err EOob /\ comb_model n repl axis c <> Err EFuel.
Proof. exact combinations_never_out_of_bounds. Qed.
Print Assumptions combinations_never_reads_out_of_bounds.

(* flatten, every axis, EVERY valid layout that has a value (unions, strings, n-d leaves, EmptyArray included) *)
Theorem flatten_never_reads_out_of_bounds : forall axis c vs,
  Valid None c -> to_list c = Ok vs -> flatten_model axis c <> Err EOob /\ flatten_model axis c <> Err EFuel.
Proof. exact flatten_never_out_of_bounds. Qed.
Print Assumptions flatten_never_reads_out_of_bounds.
Theorem flatten_never_reads_out_of_bounds_chars : forall axis c,
  Valid None c -> chars_ok c = true -> flatten_model axis c <> Err EOob /\ flatten_model axis c <> Err EFuel.
Proof. exact flatten_never_out_of_bounds_chars. Qed.
Print Assumptions flatten_never_reads_out_of_bounds_chars.

(* fill_none: every valid layout (unions included), any value array *)
Theorem fillna_never_reads_out_of_bounds : forall value c,
  Valid None c -> fillna_model value c <> Err EOob /\ fillna_model value c <> Err EFuel.
Proof. exact fillna_never_out_of_bounds. Qed.
Print Assumptions fillna_never_reads_out_of_bounds.

(* record fields: projection of one field / of several fields on every valid layout; setfield on every layout *)
Theorem field_never_reads_out_of_bounds : forall k c vs,
  Valid None c -> to_list c = Ok vs -> field_content k c <> Err EOob /\ field_content k c <> Err EFuel.
Proof. exact field_never_out_of_bounds. Qed.
Print Assumptions field_never_reads_out_of_bounds.
Theorem fields_never_reads_out_of_bounds : forall ks c,
  Valid None c -> fields_content ks c <> Err EOob /\ fields_content ks c <> Err EFuel.
Proof. exact fields_never_out_of_bounds. Qed.
Print Assumptions fields_never_reads_out_of_bounds.
Theorem setfield_clean_on_any_layout : forall k c what, clean (setfield_model k c what).
Proof. exact setfield_clean_any_layout. Qed.
Print Assumptions setfield_clean_on_any_layout.

(* reducers: every reducer, axis, mask_identity, keepdims, every valid layout (unions, strings, records included).
   _partial: [fin c] (finite leaf data) -- the model deliberately answers [Err EOob] when it meets NaN / inf, which
   it does not cover (Ops_Reduce.datum_int; Example Proofs_Safety.reduce_nan_is_unmodelled) *)
Theorem reduce_never_reads_out_of_bounds_partial : forall r axis mask keepdims c vs,
  Valid None c -> fin c = true -> to_list c = Ok vs ->
  reduce_model r axis mask keepdims c <> Err EOob /\ reduce_model r axis mask keepdims c <> Err EFuel.
Proof. exact reduce_never_out_of_bounds_partial. Qed.
Print Assumptions reduce_never_reads_out_of_bounds_partial.

(* sort / argsort, both directions, EVERY axis, every valid layout with a value.  [Err EFuel] is by design the model's
   way of declining a legal non-innermost axis ([sort_modelled ... = false]); the model has no fuel *)
Theorem sort_never_reads_out_of_bounds : forall asc argsort axis c vs,
  Valid None c -> to_list c = Ok vs ->
  sort_model asc argsort axis c <> Err EOob /\
  (sort_modelled asc argsort axis c = true -> sort_model asc argsort axis c <> Err EFuel).
Proof. exact sort_never_out_of_bounds. Qed.
Print Assumptions sort_never_reads_out_of_bounds.
Theorem sort_on_innermost_axis_never_declines : forall asc argsort axis c vs,
  Valid None c -> sfrag c = true -> to_list c = Ok vs -> innermost axis (type_of c) = true ->
  sort_model asc argsort axis c <> Err EOob /\ sort_model asc argsort axis c <> Err EFuel.
Proof. exact sort_innermost_never_declines. Qed.
Print Assumptions sort_on_innermost_axis_never_declines.

(* slicing.  (1) integer / range / newaxis / ellipsis / field / fields items, any number in any order, on the wide
   fragment of the closure theorem (valid, no string nodes, option-type / indexed nodes not nested in one another;
   unions, n-d leaves, records anywhere), no side condition: never an out-of-bounds access.  ([Err EFuel] stays
   possible: the model's designed answer on a UnionArray, and the genuine out-of-fuel of an ellipsis on very deep
   layouts, Props_C01.) *)
Theorem getitem_never_reads_out_of_bounds_wide : forall items c,
  forallb item_ok items = true -> Valid None c -> nostr c = true -> gi_frag c = true ->
  getitem_model items c <> Err EOob.
Proof. exact Proofs_SafetyAll.getitem_never_out_of_bounds_wide. Qed.
Print Assumptions getitem_never_reads_out_of_bounds_wide.
(* (1') ALL item kinds, integer arrays included (any number of them, anywhere), same fragment: never an out-of-bounds
   access, provided the integer arrays have one common length (they are given as already broadcast: the C++ ensures it
   in Slice::become_sealed; without it the statement is false of model and specification,
   Example Proofs_Safety4.getitem_unbroadcast_arrays_refuted) *)
Theorem getitem_with_arrays_never_reads_out_of_bounds : forall L items c,
  arrays_len L items = true -> Valid None c -> nostr c = true -> gi_frag c = true ->
  getitem_model items c <> Err EOob.
Proof. exact getitem_never_out_of_bounds_arrays. Qed.
Print Assumptions getitem_with_arrays_never_reads_out_of_bounds.
(* (2) the same items on the fragment and under the side conditions of the refinement theorem (Props_C01): neither *)
Theorem getitem_never_reads_out_of_bounds_partial : forall items c vs,
  forallb item_ok items = true -> Valid None c -> gfrag c = true -> to_list c = Ok vs ->
  slice_ok items c = true -> fuel_ok items c = true ->
  getitem_model items c <> Err EOob /\ getitem_model items c <> Err EFuel.
Proof. exact getitem_never_out_of_bounds_partial. Qed.
Print Assumptions getitem_never_reads_out_of_bounds_partial.
(* (3) one integer array alone: EVERY valid layout with a value (strings, nested option nodes included), neither *)
Theorem getitem_array_never_reads_out_of_bounds : forall ix c vs,
  Valid None c -> to_list c = Ok vs ->
  getitem_model [IArray ix] c <> Err EOob /\ getitem_model [IArray ix] c <> Err EFuel.
Proof. exact getitem_array_never_out_of_bounds. Qed.
Print Assumptions getitem_array_never_reads_out_of_bounds.
Theorem range_slice_never_reads_out_of_bounds : forall c vs a b,
  Valid None c -> to_list c = Ok vs -> 0 <= a -> a <= b -> b <= clen c -> exists c', crange c a b = Ok c'.
Proof. exact crange_never_out_of_bounds. Qed.
Print Assumptions range_slice_never_reads_out_of_bounds.

(* the validity check itself, on ANY layout (valid or not): it always returns a verdict, and the verdict is exact *)
Theorem validity_check_total_on_any_layout : forall c,
  (valid_b c = true /\ Valid None c) \/ (valid_b c = false /\ ~ Valid None c).
Proof. exact validity_check_total_any_layout. Qed.
Print Assumptions validity_check_total_on_any_layout.

(* reading ANY layout (valid or not) never hangs: a value, [Err EValue], or the checked access refusing ([Err EOob]) *)
Theorem reading_any_layout_never_hangs : forall c, to_list c <> Err EFuel.
Proof. exact to_list_never_hangs. Qed.
Print Assumptions reading_any_layout_never_hangs.

(* type-level functions that can fail, fail with [Err EValue] only *)
Theorem type_level_functions_fail_cleanly :
  (forall t d axis, clean (resolve_axis t d axis)) /\
  (forall unk_ok fchk str_ok t d axis, clean (check_ax unk_ok fchk str_ok t d axis)) /\
  (forall k c vs, Valid None c -> to_list c = Ok vs -> clean (proj_ty k (type_of c))).
Proof. exact type_level_functions_clean. Qed.
Print Assumptions type_level_functions_fail_cleanly.

(* all operations in one statement *)
Theorem memory_safety_of_all_modelled_operations : forall c vs,
  Valid None c -> to_list c = Ok vs ->
  (forall axis, clean (num_model axis c)) /\
  (forall axis, clean (localindex_model axis c)) /\
  (forall target axis, clean (rpad_model target axis c)) /\
  (forall target axis, clean (rpadclip_model target axis c)) /\
  (forall n repl axis, clean (comb_model n repl axis c)) /\
  (forall axis, clean (flatten_model axis c)) /\
  (forall value, clean (fillna_model value c)) /\
  (forall k, clean (field_content k c)) /\
  (forall ks, clean (fields_content ks c)) /\
  (forall k what, clean (setfield_model k c what)) /\
  (forall r axis mask keepdims, fin c = true -> clean (reduce_model r axis mask keepdims c)) /\
  (forall asc argsort axis, sort_model asc argsort axis c <> Err EOob /\
                            (sort_modelled asc argsort axis c = true -> sort_model asc argsort axis c <> Err EFuel)) /\
  (forall ix, clean (getitem_model [IArray ix] c)) /\
  (forall L items, arrays_len L items = true -> nostr c = true -> gi_frag c = true -> getitem_model items c <> Err EOob) /\
  (forall items, forallb item_ok items = true -> gfrag c = true -> slice_ok items c = true -> fuel_ok items c = true ->
                 clean (getitem_model items c)) /\
  (forall ix, Forall (fun i => 0 <= i < clen c) ix -> exists c', carry c ix = Ok c') /\
  (forall a b, 0 <= a -> a <= b -> b <= clen c -> exists c', crange c a b = Ok c').
Proof. exact memory_safety_of_modelled_operations. Qed.
Print Assumptions memory_safety_of_all_modelled_operations.

(* purity, as far as it is meaningful in the model: results depend on the type and the value of the input only --
   two valid layouts with the same type and value (whatever their buffers, encodings, offset origins, unreachable
   elements) give the same observable result under every operation (fragments of the refinement theorems) *)
Theorem results_do_not_depend_on_the_buffers : forall a b vs,
  Valid None a -> Valid None b -> to_list a = Ok vs -> to_list b = Ok vs -> type_of a = type_of b ->
  (forall ix, Forall (fun i => 0 <= i < zlen vs) ix -> obs (carry a ix) = obs (carry b ix)) /\
  (forall k, obs (field_content k a) = obs (field_content k b)) /\
  (forall r axis mask keepdims, fin a = true -> fin b = true ->
     obs (reduce_model r axis mask keepdims a) = obs (reduce_model r axis mask keepdims b)) /\
  (forall asc argsort axis, sfrag a = true -> sfrag b = true -> innermost axis (type_of a) = true ->
     obs (sort_model asc argsort axis a) = obs (sort_model asc argsort axis b)) /\
  (forall va vb v0s, ffrag a = true -> ffrag b = true -> to_list va = Ok v0s -> to_list vb = Ok v0s ->
     obs (fillna_model va a) = obs (fillna_model vb b)) /\
  (forall items, forallb item_ok items = true -> gfrag a = true -> gfrag b = true ->
     slice_ok items a = true -> fuel_ok items a = true ->
     obs (getitem_model items a) = obs (getitem_model items b)) /\
  (frag a = true -> frag b = true ->
     (forall axis, obs (num_model axis a) = obs (num_model axis b)) /\
     (forall axis, obs (localindex_model axis a) = obs (localindex_model axis b)) /\
     (forall target axis, obs (rpad_model target axis a) = obs (rpad_model target axis b)) /\
     (forall target axis, obs (rpadclip_model target axis a) = obs (rpadclip_model target axis b)) /\
     (forall n repl axis, obs (comb_model n repl axis a) = obs (comb_model n repl axis b)) /\
     (forall axis, noempty a = true -> noempty b = true -> obs (flatten_model axis a) = obs (flatten_model axis b))).
Proof. exact results_depend_only_on_type_and_value. Qed.
Print Assumptions results_do_not_depend_on_the_buffers.
