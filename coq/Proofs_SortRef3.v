(** C06 / sort-argsort, part 3: what the refinement (Proofs_SortRef2) and the spec-level theorems
    (the Proofs_SortCols files) say together about the layout-level model on the modelled (innermost) axis. *)
From Coq Require Import ZArith List Bool Lia Permutation.
From AwkV Require Import Base Layout Valid Types AtAxis Carry Ops_Sort Typing Proofs_Typing Proofs_AtAxis
                         Proofs_SortRef Proofs_SortRef2 Proofs_SortCols Proofs_SortCols2 Proofs_SortCols3.
Import ListNotations.
Open Scope Z_scope.

Section Model.
  Variables (asc argsort : bool) (axis : Z) (c : content) (vs ws : list value).
  Hypothesis HV : Valid None c.
  Hypothesis Hfr : sfrag c = true.
  Hypothesis Hl : to_list c = Ok vs.
  Hypothesis Hm : sort_modelled asc argsort axis c = true.
  Hypothesis Hr : obs (sort_model asc argsort axis c) = Ok ws.

  Lemma model_result_is_spec : sort_spec asc argsort axis (type_of c) vs = Ok ws.
  Proof. rewrite <- (sort_refines_spec_partial asc argsort axis c vs HV Hfr Hl Hm). exact Hr. Qed.

  (* all list lengths at all levels are those of the input (options on the leaves only, axis not inside strings) *)
  Theorem sort_model_preserves_lengths :
    opts_on_leaves (type_of c) = true -> axis_above_strings (type_of c) axis = true -> map shape ws = map shape vs.
  Proof.
    intros Ho Ha. eapply sort_spec_preserves_lengths_partial; [exact Ho|exact Ha|apply to_list_typed_thm; assumption|].
    exact model_result_is_spec.
  Qed.
End Model.

(* nothing moves between lists: in every list at the sorted axis, the entries found at any inner coordinates are a
   permutation of those found there before *)
Theorem sort_model_no_cross_list_movement : forall asc axis c vs ws ax,
  Valid None c -> sfrag c = true -> to_list c = Ok vs -> sort_modelled asc false axis c = true ->
  obs (sort_model asc false axis c) = Ok ws -> resolve_axis (type_of c) 0 axis = Ok ax ->
  forall q0 l l', zlen q0 = ax ->
  at_path q0 (VList vs) = Some (VList l) -> at_path q0 (VList ws) = Some (VList l') ->
  forall q, Permutation (leaves_at q l') (leaves_at q l).
Proof.
  intros asc axis c vs ws ax HV Hfr Hl Hm Hr Hax. eapply sort_spec_no_cross_list_movement; [|exact Hax].
  eapply model_result_is_spec; eassumption.
Qed.

Example sort_model_preserves_lengths_ex :
  let c := ListOffset I64 [0; 2; 2]
             (ListA I64 [0; 3] [3; 5]
                (ByteMasked [1; 0; 1; 1; 1] true (Numpy DFloat64 [5] [DZ 3; DZ 9; DNaN; DZ (-1); DZ 2]))) in
  validb None c = true /\ sfrag c = true /\ sort_modelled false false (-1) c = true /\
  opts_on_leaves (type_of c) = true /\ axis_above_strings (type_of c) (-1) = true /\
  to_list c = Ok [VList [VList [VNum (DZ 3); VNone; VNum DNaN]; VList [VNum (DZ (-1)); VNum (DZ 2)]]; VList []] /\
  obs (sort_model false false (-1) c)
  = Ok [VList [VList [VNum DNaN; VNum (DZ 3); VNone]; VList [VNum (DZ 2); VNum (DZ (-1))]]; VList []].
Proof. vm_compute. repeat split. Qed.
