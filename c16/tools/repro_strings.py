"""Reproducers for the C16 findings about NumPy string ('U' / 'S') arrays on the pinned tree
(run: /venv/bin/python /verif/c16/tools/repro_strings.py).  Each block prints  SIGNATURE: expected / got."""
import sys, warnings
warnings.simplefilter('ignore')
sys.path.insert(0, '/verif')
from pyshim.install import install
install()
import numpy as np
import awkward as ak


def show(sig, expect, f):
    try:
        got = f()
    except Exception as e:   # noqa
        got = 'raises %s: %s' % (type(e).__name__, str(e).split('\n')[0][:150])
    print('%-48s expected %s\n%48s got      %s' % (sig, expect, '', got))


# 1. to_numpy of strings is numpy.array([str(x) for x in ...]): with no string to look at (zero items, or every item
#    masked) the list is empty and NumPy answers float64
x = np.array([], dtype='U3')
show('to_numpy-no-string-to-see-float64', x.dtype.kind, lambda: ak.to_numpy(ak.from_numpy(x)).dtype.kind)
x = np.ma.MaskedArray(np.array(['a', 'b']), [True, True])
show('to_numpy-no-string-to-see-float64', x.dtype.kind, lambda: ak.to_numpy(ak.from_numpy(x)).dtype.kind)
x = np.array([], dtype='S3').reshape(0, 2)
show('to_numpy-no-string-to-see-float64', x.dtype.kind, lambda: ak.to_numpy(ak.from_numpy(x)).dtype.kind)

# 2. from_numpy of an n-d MaskedArray without a mask: attach() walks RegularArray nodes down to a NumpyArray and meets
#    the ListArray64 of the strings
x = np.ma.MaskedArray(np.array([['a', 'b'], ['c', 'd']]))
show('from_numpy-string-nd-unmasked', x.tolist(), lambda: ak.to_list(ak.from_numpy(x)))
show('from_numpy-string-nd-unmasked (ak.Array)', x.tolist(), lambda: ak.to_list(ak.Array(x)))

# 3. the 'S' branch views the flattened array as uint8 without making it contiguous
x = np.array([b'ab', b'\xff', b'c', b'ddd'])[::2]
show('from_numpy-bytestring-not-contiguous', x.tolist(), lambda: ak.to_list(ak.from_numpy(x)))
x = np.array([b'ab', b'\xff', b'c', b'ddd'])[::-1]
show('from_numpy-bytestring-not-contiguous', x.tolist(), lambda: ak.to_list(ak.from_numpy(x)))

# 4. n-d string arrays are wrapped with RegularArray(data, shape[i], shape[i-1]): zeros_length is the adjacent dimension,
#    not the product of the outer ones
x = np.array([], dtype='U1').reshape(2, 3, 0)
show('from_numpy-string-nd-zero-dimension-length', x.tolist(), lambda: ak.to_list(ak.from_numpy(x)))
x = np.array([], dtype='S1').reshape(4, 2, 0)
show('from_numpy-string-nd-zero-dimension-length', x.tolist(), lambda: ak.to_list(ak.from_numpy(x)))

# 5. to_numpy of a union of numbers and strings: numpy.concatenate promotes the numbers to their decimal text, no ValueError
a = ak.Array([1, 'two', 3])
show('to_numpy-union-number-string-promotion', 'ValueError (or %r)' % ak.to_list(a), lambda: ak.to_numpy(a).tolist())
a = ak.Array([b'x', 2.5])
show('to_numpy-union-number-string-promotion', 'ValueError (or %r)' % ak.to_list(a), lambda: ak.to_numpy(a).tolist())
