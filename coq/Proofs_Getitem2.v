(** Slicing, part 2: the layout-level [getitem_model] computes the value-level [getitem_spec]
    (values AND error status) for slice tuples of basic items on the fragment [gfrag]. *)
From Coq Require Import ZArith List Bool Lia ZifyBool.
From AwkV Require Import Base Layout LayoutInd Valid Types AtAxis Carry Ops_Getitem Typing Proofs_Typing
                         Proofs_Lists Proofs_ToList Proofs_Carry Proofs_CarryValid Proofs_AtAxis Proofs_AtAxisOps
                         Proofs_C01 Proofs_Getitem.
Import ListNotations.
Open Scope Z_scope.
Ltac Zify.zify_post_hook ::= Z.to_euclidean_division_equations.

(* ---------------------------------------------------------------- types up to the placement of options *)
(* The specification keeps track of result types without recording where an option came from (the
   values carry the [VNone]s); the model's result layouts have their option nodes.  The two agree up to
   erasure of [TOpt]. *)
Fixpoint er (t : ty) : ty :=
  match t with
  | TNum d => TNum d
  | TUnk => TUnk
  | TList sz str t' => TList sz str (er t')
  | TOpt t' => er t'
  | TRec ks ts => TRec ks (map er ts)
  | TUnion ts => TUnion (map er ts)
  end.

Lemma er_so_ty t : er (so_ty t) = er t.
Proof. induction t; cbn [so_ty er]; auto. Qed.
Lemma so_ty_nonopt t u : so_ty t <> TOpt u.
Proof. induction t; cbn [so_ty]; try discriminate. exact IHt. Qed.
Lemma er_nonopt t u : er t <> TOpt u.
Proof. induction t; cbn [er]; try discriminate. exact IHt. Qed.

(* what [so_ty T] looks like, read off a type with the same erasure *)
Lemma er_view T U :
  er T = er U ->
  match so_ty U with
  | TNum d => so_ty T = TNum d
  | TUnk => so_ty T = TUnk
  | TList sz str u => exists t, so_ty T = TList sz str t /\ er t = er u
  | TOpt _ => False
  | TRec ks us => exists ts, so_ty T = TRec ks ts /\ map er ts = map er us
  | TUnion us => exists ts, so_ty T = TUnion ts /\ map er ts = map er us
  end.
Proof.
  intros H. rewrite <- (er_so_ty T), <- (er_so_ty U) in H.
  pose proof (so_ty_nonopt T) as HT. pose proof (so_ty_nonopt U) as HU.
  destruct (so_ty U) as [d| |sz str u|u|ks us|us]; destruct (so_ty T) as [d'| |sz' str' t|t|ks' ts|ts];
    cbn [er] in H; try discriminate; try (exfalso; eapply HT; reflexivity); try (exfalso; eapply HU; reflexivity);
    try (exfalso; eapply er_nonopt; (exact H || (symmetry; exact H))).
  - inversion H. reflexivity.
  - reflexivity.
  - inversion H; subst. eauto.
  - inversion H; subst. eauto.
  - inversion H; subst. eauto.
Qed.

(* ---------------------------------------------------------------- the fragment *)
(* 1-d numeric leaves; ListOffset / ListArray / RegularArray at any depth; IndexedArray and the option
   encodings; parameter nodes without __array__ *)
Fixpoint gfrag (c : content) : bool :=
  match c with
  | Numpy _ shape _ => match shape with [_] => true | _ => false end
  | Empty => true
  | ListOffset _ _ c' | ListA _ _ _ c' | Regular c' _ _ => gfrag c'
  | _ => false
  end.

Lemma carry_gfrag c : forall ix c', carry c ix = Ok c' -> gfrag c' = gfrag c.
Proof.
  induction c as [dt shape data| |w o c IHc|w s e c IHc|c size zl IHc|w ix0 c IHc|w ix0 c IHc|m vw c IHc
                 |m vw lsb n c IHc|c IHc|w t ix0 cs IHcs|cs ks n IHcs|arr rn c IHc] using content_ind';
    intros ix c' H; cbn [carry] in H.
  - destruct shape as [|n dims]; [discriminate|]. apply bind_Ok in H as (rows & _ & H). inversion H.
    cbn [gfrag]. destruct dims; reflexivity.
  - destruct ix; [|discriminate]. inversion H. reflexivity.
  - apply bind_Ok in H as (s & _ & H). apply bind_Ok in H as (e & _ & H). inversion H. reflexivity.
  - apply bind_Ok in H as (s' & _ & H). apply bind_Ok in H as (e' & _ & H). inversion H. reflexivity.
  - apply bind_Ok in H as (nx & _ & H). apply bind_Ok in H as (c'' & Hc & H). inversion H.
    cbn [gfrag]. apply (IHc _ _ Hc).
  - apply bind_Ok in H as (j & _ & H). inversion H. reflexivity.
  - apply bind_Ok in H as (j & _ & H). inversion H. reflexivity.
  - apply bind_Ok in H as (m' & _ & H). apply bind_Ok in H as (c'' & Hc & H). inversion H. reflexivity.
  - apply bind_Ok in H as (bm & _ & H). apply bind_Ok in H as (m' & _ & H).
    apply bind_Ok in H as (c'' & Hc & H). inversion H. reflexivity.
  - apply bind_Ok in H as (c'' & Hc & H). inversion H. reflexivity.
  - apply bind_Ok in H as (t' & _ & H). apply bind_Ok in H as (j & _ & H). inversion H. reflexivity.
  - destruct (forallb _ ix); [|discriminate]. apply bind_Ok in H as (cs' & _ & H). inversion H. reflexivity.
  - apply bind_Ok in H as (c'' & Hc & H). inversion H. reflexivity.
Qed.

(* ---------------------------------------------------------------- the refinement relation *)
Definition R (n : Z) (m : res content) (s : res (ty * list value)) : Prop :=
  match m with
  | Ok c' => exists t' ws, s = Ok (t', ws) /\ er t' = er (type_of c') /\ to_list c' = Ok ws /\ zlen ws = n
  | Err e => s = Err e
  end.

Lemma R_bind n m s (K : content -> content) (Ks : ty * list value -> ty * list value) n' :
  R n m s ->
  (forall c' t' ws, er t' = er (type_of c') -> to_list c' = Ok ws -> zlen ws = n ->
     exists t'' ws', Ks (t', ws) = (t'', ws') /\ er t'' = er (type_of (K c')) /\ to_list (K c') = Ok ws' /\ zlen ws' = n') ->
  R n' (do r <- m; Ok (K r)) (do r <- s; Ok (Ks r)).
Proof.
  intros H HK. destruct m as [c'|e]; cbn [R bind] in *.
  - destruct H as (t' & ws & -> & Ht & Hl & Hz). cbn [bind].
    destruct (HK c' t' ws Ht Hl Hz) as (t'' & ws' & -> & ? & ? & ?). exists t'', ws'. auto.
  - rewrite H. reflexivity.
Qed.

Definition basic_item (it : item) : bool := match it with IAt _ | IRange _ _ _ => true | _ => false end.

Lemma se_at_list fs T xs head tail sz u ls adv :
  positional head = true -> so_ty T = TList sz None u -> mapM as_list xs = Ok ls ->
  se_ fs T xs (head :: tail) adv = sg fs None sz u ls (head :: tail) adv.
Proof.
  intros Hp Hs Hl. rewrite se_down; [|exact Hp|unfold is_rec; rewrite Hs; reflexivity].
  unfold list_elem_ty, str_of_ty. rewrite Hs, Hl. reflexivity.
Qed.
Lemma se_at_leaf fs T xs head tail adv :
  positional head = true -> (exists d, so_ty T = TNum d) \/ so_ty T = TUnk ->
  se_ fs T xs (head :: tail) adv = Err EValue.
Proof.
  intros Hp Hs. rewrite se_down; [|exact Hp|unfold is_rec; destruct Hs as [[d ->]| ->]; reflexivity].
  unfold list_elem_ty. destruct Hs as [[d ->]| ->]; reflexivity.
Qed.

(* ---------------------------------------------------------------- one positional item at a list node *)
Lemma gfrag_list_content c bs cc :
  gfrag c = true -> lnode c = true -> list_bounds c = Ok (bs, cc) -> gfrag cc = true.
Proof.
  intros Hfr Hn Hb. destruct c; try discriminate; cbn [list_bounds] in Hb; cbn [gfrag] in Hfr.
  - destruct offsets; inversion Hb; subst; exact Hfr.
  - destruct (_ <? _); inversion Hb; subst; exact Hfr.
  - destruct (_ <? _); inversion Hb; subst; exact Hfr.
Qed.

Lemma lnode_view2 c T xs :
  Valid None c -> gfrag c = true -> lnode c = true -> to_list c = Ok xs -> er T = er (type_of c) ->
  exists bs cc vs0 ls t,
    list_bounds c = Ok (bs, cc) /\ Valid None cc /\ gfrag cc = true /\ to_list cc = Ok vs0 /\
    mapM (cut1 vs0) bs = Ok ls /\ xs = map VList ls /\ so_ty T = TList (rsize c) None t /\ er t = er (type_of cc).
Proof.
  intros HV Hfr Hn Hl HT.
  destruct (lnode_view c xs HV Hn Hl) as (bs & cc & vs0 & ls & Hb & HVc & Hl0 & Hcut & -> & Hty).
  rewrite Hty in HT. pose proof (er_view T _ HT) as Hv. cbn [so_ty] in Hv. destruct Hv as (t & HsT & Het).
  exists bs, cc, vs0, ls, t. repeat split; try assumption. eapply gfrag_list_content; eassumption.
Qed.

Lemma unopt_somes (pk : list (list value)) : map unopt (map Some pk) = pk.
Proof. rewrite map_map. cbn [unopt]. apply map_id. Qed.
Lemma counts_somes (pk : list (list value)) : map (fun o => zlen (unopt o)) (map Some pk) = map zlen pk.
Proof. rewrite map_map. reflexivity. Qed.

Section ListNode.
  Variables (tail : list item).
  (* the induction hypothesis for the rest of the tuple *)
  Variable (fm fs : nat).
  Hypothesis IH : forall c T xs,
    Valid None c -> gfrag c = true -> to_list c = Ok xs -> er T = er (type_of c) ->
    R (zlen xs) (gn fm c tail None) (se_ fs T xs tail None).

  Lemma list_node_IAt c T xs i :
    Valid None c -> gfrag c = true -> lnode c = true -> to_list c = Ok xs -> er T = er (type_of c) ->
    R (zlen xs) (gn (S fm) c (IAt i :: tail) None) (se_ (S fs) T xs (IAt i :: tail) None).
  Proof.
    intros HV Hfr Hn Hl HT.
    destruct (lnode_view2 c T xs HV Hfr Hn Hl HT) as (bs & cc & vs0 & ls & t & Hb & HVc & Hfc & Hl0 & Hcut & -> & HsT & Het).
    rewrite (se_at_list _ _ _ (IAt i) _ _ _ _ _ eq_refl HsT (as_list_lists ls)).
    rewrite gn_list_IAt by exact Hn. rewrite sg_IAt, Hb. cbn [bind fst snd].
    destruct (szchk (rsize c) i) as [[]|e]; cbn [bind]; [|reflexivity].
    rewrite present_somes. fold (at_spec i). fold (at_model i).
    destruct (at_step vs0 bs ls i Hcut) as [Hs Hr]. rewrite Hs.
    destruct (mapM (at_model i) bs) as [ks|e] eqn:Hks; cbn [bind]; [|reflexivity].
    specialize (Hr ks eq_refl).
    destruct (carry_spec cc vs0 ks HVc Hl0) as (nc & Hnc & Hlnc & Hcl); [rewrite <- (to_list_len _ _ Hl0); exact Hr|].
    destruct (gather_ok vs0 ks Hr) as [xs' Hxs']. rewrite Hnc, Hxs'. cbn [bind]. rewrite Hxs' in Hlnc.
    assert (HVn : Valid None nc).
    { apply (carry_valid cc vs0 ks nc HVc Hl0); [rewrite <- (to_list_len _ _ Hl0); exact Hr|exact Hnc]. }
    assert (Hfn : gfrag nc = true) by (rewrite (carry_gfrag _ _ _ Hnc); exact Hfc).
    assert (Hetn : er t = er (type_of nc)) by (rewrite (carry_type_of _ _ _ Hnc); exact Het).
    pose proof (IH nc t xs' HVn Hfn Hlnc Hetn) as HR. cbn [present_adv].
    assert (Hlen : zlen xs' = zlen ls).
    { rewrite (mapM_zlen _ _ _ Hxs'), (mapM_zlen _ _ _ Hks). symmetry. apply (mapM_zlen _ _ _ Hcut). }
    rewrite zlen_map.
    destruct (gn fm nc tail None) as [c'|e]; cbn [R] in *.
    - destruct HR as (t' & ws & -> & Ht' & Hl' & Hz). cbn [bind fst snd].
      rewrite reinsert_somes by (apply zlen_eq_length; lia). exists t', ws. repeat split; try assumption. lia.
    - rewrite HR. reflexivity.
  Qed.

  Lemma list_node_IRange c T xs a b st :
    Valid None c -> gfrag c = true -> lnode c = true -> to_list c = Ok xs -> er T = er (type_of c) ->
    R (zlen xs) (gn (S fm) c (IRange a b st :: tail) None) (se_ (S fs) T xs (IRange a b st :: tail) None).
  Proof.
    intros HV Hfr Hn Hl HT.
    destruct (lnode_view2 c T xs HV Hfr Hn Hl HT) as (bs & cc & vs0 & ls & t & Hb & HVc & Hfc & Hl0 & Hcut & -> & HsT & Het).
    rewrite (se_at_list _ _ _ (IRange a b st) _ _ _ _ _ eq_refl HsT (as_list_lists ls)).
    rewrite gn_list_IRange by exact Hn. rewrite sg_IRange, Hb. cbn [bind fst snd]. cbv zeta.
    destruct (stepof st =? 0) eqn:Es; [reflexivity|].
    destruct (rng_step vs0 bs ls a b (stepof st) ltac:(lia) Hcut) as (pk & Hpk & Hpick & Hrange & Hzpk).
    rewrite Hpick. cbn [bind]. rewrite unopt_somes, counts_somes.
    change (map (fun ab : Z * Z => map (fun j => fst ab + j) (py_indices (snd ab - fst ab) a b (stepof st))) bs)
      with (map (rng_model a b (stepof st)) bs).
    set (pm := map (rng_model a b (stepof st)) bs) in *.
    destruct (carry_spec cc vs0 (concat pm) HVc Hl0) as (nc & Hnc & Hlnc & Hcl); [rewrite <- (to_list_len _ _ Hl0); exact Hrange|].
    rewrite mapM_concat, Hpk in Hlnc. cbn [rmap] in Hlnc. rewrite Hnc. cbn [bind adv_range].
    assert (HVn : Valid None nc).
    { apply (carry_valid cc vs0 (concat pm) nc HVc Hl0); [rewrite <- (to_list_len _ _ Hl0); exact Hrange|exact Hnc]. }
    assert (Hfn : gfrag nc = true) by (rewrite (carry_gfrag _ _ _ Hnc); exact Hfc).
    assert (Hetn : er t = er (type_of nc)) by (rewrite (carry_type_of _ _ _ Hnc); exact Het).
    pose proof (IH nc t (concat pk) HVn Hfn Hlnc Hetn) as HR.
    rewrite (mapM_mapM_lens _ _ _ Hpk). rewrite zlen_map.
    destruct (gn fm nc tail None) as [c'|e]; cbn [R] in *.
    - destruct HR as (t' & ws & -> & Ht' & Hl' & Hz). cbn [bind fst snd].
      rewrite zlen_concat in Hz.
      rewrite regrouped_somes by (rewrite regroup_length, map_length; reflexivity).
      exists (TList None None t'), (map VList (regroup (map zlen pk) ws)). split; [reflexivity|]. split; [|split].
      + cbn [type_of type_of_p strflag er]. f_equal. exact Ht'.
      + apply to_list_regroup; [exact Hl'|apply map_zlen_nonneg|exact Hz].
      + rewrite zlen_map. unfold zlen at 1. rewrite regroup_length, map_length. fold (zlen pk). lia.
    - rewrite HR. reflexivity.
  Qed.
End ListNode.
