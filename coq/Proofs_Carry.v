(** T3: [carry] (gather by index) indexes the value; [crange] slices it. *)
From Coq Require Import ZArith List Bool Lia ZifyBool.
From AwkV Require Import Base Layout LayoutInd Valid Types Carry Typing Proofs_Typing Proofs_Lists Proofs_ToList.
Import ListNotations.
Open Scope Z_scope.

(* ---------------------------------------------------------------- more list lemmas *)
(* two mapM's over lists of equal length agree if they agree position by position *)
Lemma mapM_pointwise_eq {A A' B} (F : A -> res B) (F' : A' -> res B) l l' :
  zlen l = zlen l' ->
  (forall j, 0 <= j < zlen l -> (do x <- get l j; F x) = (do x' <- get l' j; F' x')) ->
  mapM F l = mapM F' l'.
Proof.
  revert l'. induction l as [|a l IH]; intros [|a' l'] Hlen Hp.
  - reflexivity.
  - rewrite zlen_cons, zlen_nil in Hlen. pose proof (zlen_nonneg l'). lia.
  - rewrite zlen_cons, zlen_nil in Hlen. pose proof (zlen_nonneg l). lia.
  - rewrite !zlen_cons in Hlen. pose proof (zlen_nonneg l).
    cbn [mapM]. assert (H0 := Hp 0). rewrite zlen_cons in H0. cbn in H0. rewrite H0 by lia.
    rewrite (IH l'); [reflexivity|lia|]. intros j Hj. specialize (Hp (j + 1)). rewrite zlen_cons in Hp.
    rewrite !get_cons_S in Hp by lia. apply Hp. lia.
Qed.

Lemma gather_iota n ix : Forall (fun i => 0 <= i < n) ix -> mapM (get (iota n)) ix = Ok ix.
Proof.
  induction 1 as [|i ix Hi _ IH]; [reflexivity|]. cbn [mapM]. rewrite get_iota by lia. rewrite IH. reflexivity.
Qed.

Lemma mapM_guard {A} (P : Z -> bool) (h : Z -> A) e ix :
  Forall (fun i => P i = true) ix -> mapM (fun i => if P i then Ok (h i) else Err e) ix = Ok (map h ix).
Proof.
  induction 1 as [|i ix Hi _ IH]; [reflexivity|]. cbn [mapM map]. rewrite Hi, IH. reflexivity.
Qed.
Lemma mapM_guard_res {A} (P : Z -> bool) (h : Z -> res A) e ix :
  Forall (fun i => P i = true) ix -> mapM (fun i => if P i then h i else Err e) ix = mapM h ix.
Proof. intros H. apply mapM_ext_in. intros i Hi. rewrite Forall_forall in H. rewrite (H i Hi). reflexivity. Qed.

Lemma zlen_concat_const {A} (ls : list (list A)) size :
  Forall (fun l => zlen l = size) ls -> zlen (concat ls) = zlen ls * size.
Proof.
  induction 1 as [|l ls Hl _ IH]; [reflexivity|]. cbn [concat]. rewrite zlen_app, zlen_cons, IH, Hl. ring.
Qed.

(* take / drop across an append *)
Lemma take_app_le {A} (l m : list A) n : 0 <= n <= zlen l -> take n (l ++ m) = take n l.
Proof.
  intros H. unfold take. rewrite firstn_app. replace (Z.to_nat n - length l)%nat with O by (unfold zlen in H; lia).
  cbn. apply app_nil_r.
Qed.
Lemma drop_app_le {A} (l m : list A) n : 0 <= n <= zlen l -> drop n (l ++ m) = drop n l ++ m.
Proof.
  intros H. unfold drop. rewrite skipn_app. replace (Z.to_nat n - length l)%nat with O by (unfold zlen in H; lia).
  reflexivity.
Qed.

Lemma skipn_skipn' {A} (l : list A) n m : skipn n (skipn m l) = skipn (m + n) l.
Proof.
  revert l. induction m as [|m IH]; intros l; [reflexivity|]. destruct l; cbn [skipn Nat.add].
  - destruct n; reflexivity.
  - apply IH.
Qed.
Lemma drop_drop {A} (l : list A) a b : 0 <= a -> 0 <= b -> drop a (drop b l) = drop (b + a) l.
Proof. intros Ha Hb. unfold drop. rewrite skipn_skipn'. f_equal. lia. Qed.

(* ---------------------------------------------------------------- chunks *)
Lemma chunks_nat_get {A} d : 0 < d -> forall k (vs : list A) i,
  Z.of_nat k * d <= zlen vs -> 0 <= i < Z.of_nat k ->
  get (chunks_nat vs d k) i = Ok (take d (drop (i * d) vs)).
Proof.
  intros Hd. induction k as [|k IH]; intros vs i Hk Hi; [lia|].
  cbn [chunks_nat]. destruct (Z.eq_dec i 0) as [->|Hn].
  - reflexivity.
  - rewrite get_cons_pos by lia. rewrite IH; [|rewrite zlen_drop; nia|lia].
    rewrite drop_drop by nia. do 3 f_equal. nia.
Qed.

Lemma chunks_get {A} (vs : list A) size zl ch i :
  chunks vs size zl = Ok ch -> 0 <= i < zlen ch -> get ch i = slice vs (i * size) ((i + 1) * size).
Proof.
  intros H Hi. pose proof (chunks_zlen _ _ _ _ H) as [Hs Hz]. unfold chunks in H.
  destruct (size <? 0) eqn:E0; [discriminate|]. destruct (size =? 0) eqn:E1.
  - destruct (zl <? 0) eqn:E2; [discriminate|]. rewrite Hz in Hi. inversion H; subst. apply Z.eqb_eq in E1. subst size.
    rewrite get_map, get_iota by lia. cbn [rmap].
    rewrite !Z.mul_0_r. rewrite slice_ok by (pose proof (zlen_nonneg vs); lia). reflexivity.
  - rewrite Hz in Hi. inversion H; subst. pose proof (zlen_nonneg vs).
    assert (Hq : 0 <= zlen vs / size) by (apply Z.div_pos; lia).
    assert (Hm : size * (zlen vs / size) <= zlen vs) by (apply Z.mul_div_le; lia).
    rewrite chunks_nat_get; [|lia|lia|lia].
    rewrite slice_ok by nia. do 2 f_equal. lia.
Qed.

Lemma chunks_nat_concat {A} (ls : list (list A)) size :
  Forall (fun l => zlen l = size) ls -> chunks_nat (concat ls) size (length ls) = ls.
Proof.
  induction 1 as [|l ls Hl _ IH]; [reflexivity|]. cbn [concat length chunks_nat].
  rewrite take_app_exact, drop_app_exact by exact Hl. rewrite IH. reflexivity.
Qed.
Lemma chunks_concat {A} (ls : list (list A)) size :
  0 <= size -> Forall (fun l => zlen l = size) ls -> chunks (concat ls) size (zlen ls) = Ok ls.
Proof.
  intros Hs HF. unfold chunks. destruct (size <? 0) eqn:E0; [lia|]. destruct (size =? 0) eqn:E1.
  - pose proof (zlen_nonneg ls). destruct (zlen ls <? 0) eqn:E2; [lia|]. f_equal.
    apply Z.eqb_eq in E1. subst size. apply get_ext.
    + rewrite zlen_map, zlen_iota by lia. reflexivity.
    + intros i Hi. rewrite zlen_map, zlen_iota in Hi by lia. rewrite get_map, get_iota by lia. cbn [rmap].
      destruct (get_ok ls i Hi) as [l Hl]. rewrite Hl. f_equal. symmetry. apply zlen_0_nil.
      apply get_In in Hl. rewrite Forall_forall in HF. apply HF, Hl.
  - rewrite (zlen_concat_const _ _ HF), Z.div_mul by lia. unfold zlen. rewrite Nat2Z.id.
    rewrite chunks_nat_concat by exact HF. reflexivity.
Qed.

Lemma chunks_nat_app {A} d (x y : list A) k m :
  0 <= d -> zlen x = Z.of_nat k * d -> chunks_nat (x ++ y) d (k + m) = chunks_nat x d k ++ chunks_nat y d m.
Proof.
  intros Hd. revert x. induction k as [|k IH]; intros x Hx.
  - cbn [Z.of_nat] in Hx. apply zlen_0_nil in Hx. subst x. reflexivity.
  - cbn [Nat.add chunks_nat app]. rewrite take_app_le, drop_app_le by nia. f_equal.
    apply IH. rewrite zlen_drop by nia. nia.
Qed.

Lemma map_const_ext {A B} (b : B) (l l' : list A) : length l = length l' -> map (fun _ => b) l = map (fun _ => b) l'.
Proof. revert l'. induction l; intros [|? l'] H; cbn in *; try discriminate; [reflexivity|]. f_equal. auto. Qed.

Lemma chunks_app {A} (x y : list A) d a b cx cy :
  0 <= a -> 0 <= b -> zlen x = a * d -> zlen y = b * d ->
  chunks x d a = Ok cx -> chunks y d b = Ok cy -> chunks (x ++ y) d (a + b) = Ok (cx ++ cy).
Proof.
  intros Ha Hb Hx Hy. unfold chunks. destruct (d <? 0) eqn:E0; [discriminate|]. destruct (d =? 0) eqn:E1.
  - destruct (a <? 0) eqn:Ea; [discriminate|]. destruct (b <? 0) eqn:Eb; [discriminate|].
    destruct (a + b <? 0) eqn:Eab; [lia|]. intros H1 H2. inversion H1; inversion H2; subst. f_equal.
    rewrite <- map_app. apply map_const_ext. rewrite app_length. unfold iota. rewrite !iota_nat_length'. lia.
  - intros H1 H2. inversion H1; inversion H2; subst. f_equal.
    rewrite zlen_app, Hx, Hy. rewrite !Z.div_mul by lia.
    replace ((a * d + b * d) / d) with (a + b) by (rewrite <- Z.mul_add_distr_r, Z.div_mul; lia).
    rewrite Z2Nat.inj_add by lia. apply chunks_nat_app; lia.
Qed.

(* ---------------------------------------------------------------- nest is a homomorphism on row-aligned blocks *)
Lemma nest_app : forall dims a b u v x y,
  Forall (fun d => 0 <= d) dims -> 0 <= a -> 0 <= b ->
  zlen u = a * prodZ dims -> zlen v = b * prodZ dims ->
  nest dims a u = Ok x -> nest dims b v = Ok y -> nest dims (a + b) (u ++ v) = Ok (x ++ y).
Proof.
  induction dims as [|d ds IH]; intros a b u v x y Hd Ha Hb Hu Hv Hx Hy; cbn [nest] in *.
  - inversion Hx; inversion Hy; subst. reflexivity.
  - inversion Hd as [|? ? Hd0 Hds]; subst. rewrite prodZ_cons in Hu, Hv.
    apply bind_Ok in Hx as (x' & Hx' & Hx). apply bind_Ok in Hx as (cx & Hcx & Hx). inversion Hx; subst.
    apply bind_Ok in Hy as (y' & Hy' & Hy). apply bind_Ok in Hy as (cy & Hcy & Hy). inversion Hy; subst.
    replace ((a + b) * d) with (a * d + b * d) by ring.
    rewrite (IH (a * d) (b * d) u v x' y'); try assumption; try nia.
    cbn [bind].
    assert (Hlx : zlen x' = a * d) by (eapply nest_zlen; [exact Hx'|assumption|nia|nia]).
    assert (Hly : zlen y' = b * d) by (eapply nest_zlen; [exact Hy'|assumption|nia|nia]).
    rewrite (chunks_app x' y' d a b cx cy) by assumption. cbn [bind]. rewrite map_app. reflexivity.
Qed.

(* the i-th row of an n-d leaf comes from the i-th block of the flat data *)
Lemma nest_get dims n w vs i :
  Forall (fun d => 0 <= d) dims -> 0 <= i < n -> zlen w = n * prodZ dims -> nest dims n w = Ok vs ->
  exists y, nest dims 1 (take (prodZ dims) (drop (i * prodZ dims) w)) = Ok [y] /\ get vs i = Ok y.
Proof.
  intros Hd Hi Hw Hn. set (rs := prodZ dims) in *. assert (Hrs : 0 <= rs) by (apply prodZ_nonneg, Hd).
  set (w1 := take (i * rs) w). set (w23 := drop (i * rs) w). set (w2 := take rs w23). set (w3 := drop rs w23).
  assert (Hl1 : zlen w1 = i * rs) by (apply zlen_take; nia).
  assert (Hl23 : zlen w23 = (n - i) * rs) by (unfold w23; rewrite zlen_drop; nia).
  assert (Hl2 : zlen w2 = 1 * rs) by (unfold w2; rewrite zlen_take; nia).
  assert (Hl3 : zlen w3 = (n - i - 1) * rs) by (unfold w3; rewrite zlen_drop; nia).
  destruct (nest_total dims i w1 Hd) as [X HX]; [lia|].
  destruct (nest_total dims 1 w2 Hd) as [Y HY]; [lia|].
  destruct (nest_total dims (n - i - 1) w3 Hd) as [Z HZ]; [lia|].
  assert (HYZ : nest dims (1 + (n - i - 1)) (w2 ++ w3) = Ok (Y ++ Z)) by (apply nest_app; auto; lia).
  assert (HXYZ : nest dims (i + (1 + (n - i - 1))) (w1 ++ (w2 ++ w3)) = Ok (X ++ (Y ++ Z))).
  { apply nest_app; auto; try lia. rewrite zlen_app, Hl2, Hl3. fold rs. ring. }
  replace (i + (1 + (n - i - 1))) with n in HXYZ by ring.
  unfold w2, w3 in HXYZ. rewrite take_drop_id in HXYZ. unfold w1, w23 in HXYZ. rewrite take_drop_id in HXYZ.
  rewrite Hn in HXYZ. inversion HXYZ; subst vs.
  assert (HlX : zlen X = i) by (eapply nest_zlen; [exact HX|assumption|lia|exact Hl1]).
  assert (HlY : zlen Y = 1) by (eapply nest_zlen; [exact HY|assumption|lia|exact Hl2]).
  destruct Y as [|y Y']; [rewrite zlen_nil in HlY; lia|].
  destruct Y' as [|y2 Y'']; [|rewrite !zlen_cons in HlY; pose proof (zlen_nonneg Y''); lia].
  exists y. split; [exact HY|]. rewrite get_app2 by lia. rewrite HlX, Z.sub_diag. reflexivity.
Qed.

(* gathering rows of the nested value = nesting the gathered blocks *)
Lemma nest_gather dims n w vs ix :
  Forall (fun d => 0 <= d) dims -> zlen w = n * prodZ dims -> nest dims n w = Ok vs ->
  Forall (fun i => 0 <= i < n) ix ->
  nest dims (zlen ix) (concat (map (fun i => take (prodZ dims) (drop (i * prodZ dims) w)) ix)) = mapM (get vs) ix.
Proof.
  intros Hd Hw Hn. induction 1 as [|i ix Hi _ IH].
  - cbn [map concat mapM]. rewrite zlen_nil.
    destruct (nest_total dims 0 (@nil value) Hd) as [out Ho]; [lia|]. rewrite Ho. f_equal.
    apply zlen_0_nil. eapply nest_zlen; [exact Ho|assumption|lia|reflexivity].
  - destruct (nest_get dims n w vs i Hd Hi Hw Hn) as (y & Hy & Hg).
    cbn [map concat mapM]. rewrite Hg. cbn [bind]. rewrite <- IH.
    set (rs := prodZ dims) in *. assert (Hrs : 0 <= rs) by (apply prodZ_nonneg, Hd).
    set (rest := concat (map (fun i0 => take rs (drop (i0 * rs) w)) ix)) in *.
    destruct (nest_total dims (zlen ix) rest Hd) as [R HR]; [apply zlen_nonneg|]. rewrite HR. cbn [bind].
    rewrite zlen_cons. replace (zlen ix + 1) with (1 + zlen ix) by ring.
    change (y :: R) with ([y] ++ R). apply nest_app; auto; try lia; try apply zlen_nonneg.
    + rewrite zlen_take; [fold rs; lia|]. rewrite zlen_drop by nia. nia.
    + unfold rest. fold rs.
      rewrite (zlen_concat_const _ rs); [rewrite zlen_map; reflexivity|].
      apply Forall_forall. intros l Hl. apply in_map_iff in Hl as (j & <- & Hj).
      rewrite Forall_forall in H. specialize (H j Hj).
      rewrite zlen_take; [reflexivity|]. rewrite zlen_drop by nia. nia.
Qed.
