From AwkV Require Import Layout.
