(** Slicing, part 2: missing values.  The model treats an option node by slicing the present elements
    and re-inserting the [None]s ([gn], option case); the specification carries the missing lists
    along ([sg] on [None] entries).  This file has the merge algebra relating the two, the view of
    an option node as (index, content), and the "present lists" form of one step of [sg]. *)
From Coq Require Import ZArith List Bool Lia ZifyBool.
From AwkV Require Import Base Layout LayoutInd Valid Types AtAxis Carry Ops_Getitem Typing Proofs_Typing
                         Proofs_Lists Proofs_ToList Proofs_Carry Proofs_CarryValid Proofs_AtAxis Proofs_AtAxisOps
                         Proofs_C01 Proofs_Getitem.
Import ListNotations.
Open Scope Z_scope.
Ltac Zify.zify_post_hook ::= Z.to_euclidean_division_equations.

(* ---------------------------------------------------------------- merging by a list of presence flags *)
Fixpoint bmerge {A} (d : A) (ks : list bool) (ys : list A) : list A :=
  match ks with
  | [] => []
  | true :: rest => match ys with y :: ys' => y :: bmerge d rest ys' | [] => [] end
  | false :: rest => d :: bmerge d rest ys
  end.
Definition ntrue (ks : list bool) : nat := length (filter (fun b : bool => b) ks).

Definition keys_ix (ix : list Z) : list bool := map (fun i => 0 <=? i) ix.
Definition keys_ls {B} (ls : list (option B)) : list bool :=
  map (fun o : option B => match o with Some _ => true | None => false end) ls.

Lemma bmerge_length {A} (d : A) ks : forall ys, length ys = ntrue ks -> length (bmerge d ks ys) = length ks.
Proof.
  unfold ntrue. induction ks as [|[|] ks IH]; intros ys H; cbn [bmerge filter length] in *; [reflexivity| |].
  - destruct ys as [|y ys]; [discriminate|]. cbn [length] in *. rewrite IH by lia. reflexivity.
  - rewrite IH by exact H. reflexivity.
Qed.

Lemma mapM_bmerge {A B} (F : A -> res B) d d' ks : F d = Ok d' ->
  forall ys, length ys = ntrue ks -> mapM F (bmerge d ks ys) = rmap (bmerge d' ks) (mapM F ys).
Proof.
  intros Hd. unfold ntrue. induction ks as [|[|] ks IH]; intros ys H; cbn [bmerge filter length] in *.
  - destruct ys; [reflexivity|discriminate].
  - destruct ys as [|y ys]; [discriminate|]. cbn [length] in H. cbn [mapM]. rewrite IH by lia.
    destruct (F y); cbn [bind rmap]; [|reflexivity]. destruct (mapM F ys); reflexivity.
  - cbn [mapM]. rewrite Hd, IH by exact H. cbn [bind]. destruct (mapM F ys); reflexivity.
Qed.

Lemma reinsert_bmerge ls rs : reinsert ls rs = bmerge VNone (keys_ls ls) rs.
Proof.
  revert rs. induction ls as [|[l|] ls IH]; intros rs; cbn [reinsert keys_ls map bmerge]; [reflexivity| |].
  - destruct rs as [|r rs]; [reflexivity|]. rewrite IH. reflexivity.
  - rewrite IH. reflexivity.
Qed.

Lemma ntrue_keys_ls {B} (ls : list (option B)) :
  ntrue (keys_ls ls) = length (flat_map (fun o : option B => match o with Some l => [l] | None => [] end) ls).
Proof.
  unfold ntrue, keys_ls. induction ls as [|[l|] ls IH]; cbn [map filter flat_map app length]; [reflexivity| |]; rewrite IH; reflexivity.
Qed.
Lemma ntrue_keys_ix ix : ntrue (keys_ix ix) = length (filter (fun i => 0 <=? i) ix).
Proof.
  unfold ntrue, keys_ix. induction ix as [|i ix IH]; cbn [map filter length]; [reflexivity|].
  destruct (0 <=? i); cbn [length]; rewrite IH; reflexivity.
Qed.

(* the lists that are present in a merge *)
Lemma present_bmerge ks : forall pl : list (list value),
  length pl = ntrue ks -> present (bmerge None ks (map Some pl)) = pl.
Proof.
  unfold ntrue, present. induction ks as [|[|] ks IH]; intros pl H; cbn [bmerge filter length] in *.
  - destruct pl; [reflexivity|discriminate].
  - destruct pl as [|l pl]; [discriminate|]. cbn [map flat_map app]. cbn [length] in H. rewrite IH by lia. reflexivity.
  - cbn [flat_map app]. apply IH, H.
Qed.
Lemma keys_bmerge ks : forall pl : list (list value),
  length pl = ntrue ks -> keys_ls (bmerge None ks (map Some pl)) = ks.
Proof.
  unfold ntrue, keys_ls. induction ks as [|[|] ks IH]; intros pl H; cbn [bmerge filter length] in *; [reflexivity| |].
  - destruct pl as [|l pl]; [discriminate|]. cbn [map]. cbn [length] in H. rewrite IH by lia. reflexivity.
  - cbn [map]. rewrite IH by exact H. reflexivity.
Qed.

(* re-inserting twice *)
Lemma bmerge_idem {A} (d : A) ks : forall rs, bmerge d ks (bmerge d (repeat true (ntrue ks)) rs) = bmerge d ks rs.
Proof.
  unfold ntrue. induction ks as [|[|] ks IH]; intros rs; cbn [bmerge filter length repeat]; [reflexivity| |].
  - destruct rs as [|r rs]; [reflexivity|]. rewrite IH. reflexivity.
  - rewrite IH. reflexivity.
Qed.
Lemma keys_somes {B} (pl : list B) : keys_ls (map Some pl) = repeat true (length pl).
Proof. unfold keys_ls. induction pl as [|l pl IH]; [reflexivity|]. cbn [map length repeat]. rewrite IH. reflexivity. Qed.
Lemma reinsert_present ls rs : reinsert ls (reinsert (map Some (present ls)) rs) = reinsert ls rs.
Proof.
  rewrite !reinsert_bmerge, keys_somes. unfold present. rewrite <- ntrue_keys_ls. apply bmerge_idem.
Qed.

(* ---------------------------------------------------------------- values of an option node *)
Definition pickv (vs : list value) (i : Z) : res value := pick_opt vs (0 <=? i) i.

Lemma pick_present vs0 ix xs :
  mapM (pickv vs0) ix = Ok xs ->
  exists ys, mapM (get vs0) (filter (fun i => 0 <=? i) ix) = Ok ys /\ xs = bmerge VNone (keys_ix ix) ys.
Proof.
  revert xs. induction ix as [|i ix IH]; intros xs H; cbn [mapM] in H.
  - inversion H. exists []. split; reflexivity.
  - apply bind_Ok in H as (x & Hx & H). apply bind_Ok in H as (xs' & Hxs' & H). inversion H; subst.
    destruct (IH xs' Hxs') as (ys & Hys & ->). unfold pickv, pick_opt in Hx. cbn [filter keys_ix map bmerge].
    destruct (0 <=? i) eqn:E.
    + exists (x :: ys). cbn [mapM]. rewrite Hx, Hys. split; reflexivity.
    + inversion Hx. exists ys. split; [exact Hys|reflexivity].
Qed.

Lemma outindex_pick ix : forall pre ws n,
  zlen pre = n -> length ws = ntrue (keys_ix ix) ->
  mapM (pickv (pre ++ ws)) (outindex ix n) = Ok (bmerge VNone (keys_ix ix) ws).
Proof.
  unfold ntrue. induction ix as [|i ix IH]; intros pre ws n Hn Hl; cbn [outindex keys_ix map bmerge filter] in *; [reflexivity|].
  pose proof (zlen_nonneg pre). destruct (0 <=? i) eqn:E; cbn [filter length] in Hl.
  - destruct ws as [|w ws]; [discriminate|]. cbn [length] in Hl. cbn [mapM]. unfold pickv at 1, pick_opt.
    destruct (0 <=? n) eqn:E2; [|lia]. rewrite get_app2 by lia. replace (n - zlen pre) with 0 by lia. cbn [get_cons_0 bind].
    rewrite get_cons_0. cbn [bind].
    replace (pre ++ w :: ws) with ((pre ++ [w]) ++ ws) by (rewrite <- app_assoc; reflexivity).
    rewrite (IH (pre ++ [w]) ws (n + 1)); [reflexivity| |unfold keys_ix; lia]. rewrite zlen_app. cbn. lia.
  - cbn [mapM]. unfold pickv at 1, pick_opt. cbn [Z.leb Z.compare bind]. rewrite (IH pre ws n Hn Hl). reflexivity.
Qed.

Lemma to_list_outindex r ws ix :
  to_list r = Ok ws -> length ws = ntrue (keys_ix ix) ->
  to_list (IndexedOption I64 (outindex ix 0) r) = Ok (bmerge VNone (keys_ix ix) ws).
Proof.
  intros Hl Hn. rewrite to_list_IndexedOption, Hl. cbn [bind]. apply (outindex_pick ix [] ws 0); [reflexivity|exact Hn].
Qed.

(* an option node as (index, content) *)
Lemma option_view c xs :
  Valid None c -> is_opt c = true -> to_list c = Ok xs ->
  exists ix vs0,
    option_index c = Ok (ix, opt_content c) /\ Valid None (opt_content c) /\ optionlike (opt_content c) = false /\
    to_list (opt_content c) = Ok vs0 /\ mapM (pickv vs0) ix = Ok xs /\ type_of c = TOpt (type_of (opt_content c)).
Proof.
  intros HV Ho Hl. destruct c; try discriminate; cbn [opt_content option_index type_of type_of_p].
  - (* IndexedOption *)
    inversion HV; subst. rewrite to_list_IndexedOption in Hl. apply bind_Ok in Hl as (vs0 & Hl0 & Hl).
    eexists _, vs0. split; [reflexivity|]. repeat split; try assumption.
    rewrite mapM_map. rewrite <- Hl. apply mapM_ext_in. intros i _. unfold pickv, pick_opt.
    destruct (i <? 0) eqn:E.
    + destruct (0 <=? i) eqn:E2; [lia|]. reflexivity.
    + reflexivity.
  - (* ByteMasked *)
    inversion HV; subst. rewrite to_list_ByteMasked in Hl. apply bind_Ok in Hl as (vs0 & Hl0 & Hl).
    eexists _, vs0. split; [reflexivity|]. repeat split; try assumption.
    rewrite mapM_map. rewrite <- Hl. apply mapM_ext_in. intros [i b] Hin. apply zip_In in Hin as [Hin _]. apply iota_In' in Hin.
    unfold pickv, pick_opt. destruct (Bool.eqb _ _).
    + destruct (0 <=? i) eqn:E2; [reflexivity|lia].
    + reflexivity.
  - (* BitMasked *)
    inversion HV; subst. rewrite to_list_BitMasked in Hl. apply bind_Ok in Hl as (vs0 & Hl0 & Hl).
    destruct (len <? 0) eqn:En; [discriminate|].
    destruct (mapM_total (fun i => do b <- bit_at mask lsb i; Ok (if Bool.eqb b valid_when then i else -1)) (iota len)) as [ix Hix].
    { intros i Hi. destruct (mapM_Ok_In _ _ _ _ Hl Hi) as (y & Hy & _). destruct (bit_at mask lsb i); [cbn; eauto|discriminate]. }
    rewrite Hix. cbn [bind]. exists ix, vs0. split; [reflexivity|]. repeat split; try assumption.
    rewrite (mapM_mapM _ (pickv vs0) _ _ Hix). rewrite <- Hl. apply mapM_ext_in. intros i Hin. apply iota_In' in Hin.
    destruct (bit_at mask lsb i) as [b|]; cbn [bind]; [|reflexivity]. unfold pickv, pick_opt. destruct (Bool.eqb _ _).
    + destruct (0 <=? i) eqn:E2; [reflexivity|lia].
    + reflexivity.
  - (* Unmasked *)
    inversion HV; subst. rewrite to_list_Unmasked in Hl.
    exists (iota (clen c)), xs. split; [reflexivity|]. repeat split; try assumption.
    rewrite <- (to_list_len _ _ Hl). transitivity (mapM (get xs) (iota (zlen xs))); [|apply gather_all]. apply mapM_ext_in. intros i Hin. apply iota_In' in Hin.
    unfold pickv, pick_opt. destruct (0 <=? i) eqn:E2; [reflexivity|lia].
Qed.

(* ---------------------------------------------------------------- one step of [sg] through the present lists *)
Lemma unopt_somes (pk : list (list value)) : map unopt (map Some pk) = pk.
Proof. rewrite map_map. cbn [unopt]. apply map_id. Qed.
Lemma counts_somes (pk : list (list value)) : map (fun o => zlen (unopt o)) (map Some pk) = map zlen pk.
Proof. rewrite map_map. reflexivity. Qed.

Lemma sg_present_IAt f str sz t ls i tail :
  has_array tail = false ->
  sg (S f) str sz t ls (IAt i :: tail) None =
  do r <- sg (S f) str sz t (map Some (present ls)) (IAt i :: tail) None; Ok (fst r, reinsert ls (snd r)).
Proof.
  intros Hna. rewrite !sg_IAt by (rewrite Hna; apply andb_false_r).
  rewrite present_somes. destruct (szchk sz i) as [[]|e]; cbn [bind]; [|reflexivity].
  destruct (mapM _ (present ls)) as [xs|e]; cbn [bind present_adv]; [|reflexivity].
  destruct (se_ f t xs tail None) as [[t' ws]|e]; cbn [bind fst snd]; [|reflexivity].
  rewrite reinsert_present. reflexivity.
Qed.

Definition pick_l (a b : option Z) (step : Z) (l : list value) : res (list value) :=
  mapM (get l) (py_indices (zlen l) a b step).

Lemma pick_range_somes a b step pl :
  mapM (pick_range a b step) (map Some pl) = rmap (map Some) (mapM (pick_l a b step) pl).
Proof. rewrite mapM_map. cbn [pick_range]. apply mapM_rmap. Qed.

Lemma pick_range_present a b step ls :
  mapM (pick_range a b step) ls =
  rmap (fun pk => bmerge None (keys_ls ls) (map Some pk)) (mapM (pick_l a b step) (present ls)).
Proof.
  unfold present. induction ls as [|[l|] ls IH]; cbn [mapM flat_map app keys_ls map]; [reflexivity| |]; rewrite IH.
  - change (pick_range a b step (Some l)) with (rmap Some (pick_l a b step l)).
    destruct (pick_l a b step l); cbn [rmap bind]; [|reflexivity].
    destruct (mapM (pick_l a b step) _); reflexivity.
  - change (pick_range a b step None) with (@Ok (option (list value)) None). cbn [bind].
    destruct (mapM (pick_l a b step) _); reflexivity.
Qed.

Lemma take_0 {A} (l : list A) : take 0 l = [].
Proof. reflexivity. Qed.
Lemma drop_0 {A} (l : list A) : drop 0 l = l.
Proof. reflexivity. Qed.

Lemma regrouped_cons str o picked g gs :
  regrouped str (o :: picked) (g :: gs) =
  (match o with Some _ => mk_list str g | None => VNone end) :: regrouped str picked gs.
Proof. reflexivity. Qed.

Lemma regrouped_bmerge str ks : forall (pk : list (list value)) ws,
  length pk = ntrue ks ->
  let picked := bmerge None ks (map Some pk) in
  concat (map unopt picked) = concat pk /\
  regrouped str picked (regroup (map (fun o => zlen (unopt o)) picked) ws) =
  bmerge VNone ks (regrouped str (map Some pk) (regroup (map zlen pk) ws)).
Proof.
  unfold ntrue. induction ks as [|[|] ks IH]; intros pk ws H; cbn [filter length] in H; cbv zeta.
  - destruct pk; [|discriminate]. split; reflexivity.
  - destruct pk as [|p pk]; [discriminate|]. cbn [length] in H. cbn [map bmerge unopt concat regroup].
    destruct (IH pk (drop (zlen p) ws) ltac:(lia)) as [H1 H2]. cbv zeta in H1, H2. rewrite H1. split; [reflexivity|].
    rewrite !regrouped_cons, H2. reflexivity.
  - cbn [map bmerge unopt concat regroup app]. destruct (IH pk ws H) as [H1 H2]. cbv zeta in H1, H2. split; [exact H1|].
    change (zlen (@nil value)) with 0. rewrite take_0, drop_0, regrouped_cons, H2. reflexivity.
Qed.

Lemma sg_present_IRange f str sz t ls a b s tail :
  sg (S f) str sz t ls (IRange a b s :: tail) None =
  do r <- sg (S f) str sz t (map Some (present ls)) (IRange a b s :: tail) None; Ok (fst r, reinsert ls (snd r)).
Proof.
  rewrite !sg_IRange. cbv zeta. destruct (stepof s =? 0); [reflexivity|].
  rewrite pick_range_present, pick_range_somes.
  destruct (mapM (pick_l a b (stepof s)) (present ls)) as [pk|e] eqn:Hpk; cbn [rmap bind]; [|reflexivity].
  assert (Hlen : length pk = ntrue (keys_ls ls)).
  { rewrite ntrue_keys_ls. apply (mapM_length _ _ _ Hpk). }
  rewrite unopt_somes, counts_somes. cbn [adv_range].
  destruct (regrouped_bmerge str (keys_ls ls) pk [] Hlen) as [Hc _]. cbv zeta in Hc. rewrite Hc.
  destruct (se_ f t (concat pk) tail None) as [[t' ws]|e]; cbn [bind fst snd]; [|reflexivity].
  destruct (regrouped_bmerge str (keys_ls ls) pk ws Hlen) as [_ Hr]. cbv zeta in Hr. rewrite Hr, reinsert_bmerge. reflexivity.
Qed.
