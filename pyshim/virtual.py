# VirtualArray / ArrayGenerator / SliceGenerator / ArrayCache substitutes.
# The C++ VirtualArray runs inside pydrv with a generator/cache that call back into these objects.
import itertools
import weakref

from pyshim import core
from pyshim import content as C
from pyshim.core import hx, unhx_str, e_str
from pyshim.nodes import FILENAME_SUFFIX, rd_params, rd_ident
from pyshim import typesforms

_keycounter = itertools.count()


def newkey():
    return "ak" + str(next(_keycounter))


def _form_sx(form):
    return "-" if form is None else hx(form._json())


def _rd_form(t):
    return None if t == "-" else typesforms.form_from_json(unhx_str(t))


def _check_form(form, who):
    if form is not None and not isinstance(form, typesforms.Form):
        raise ValueError(who + " 'form' must be an ak.forms.Form or None" + FILENAME_SUFFIX)
    return form


def _check_length(length, who):
    if length is None:
        return None
    try:
        import operator

        return operator.index(length)
    except TypeError:
        raise ValueError(who + " 'length' must be an int or None" + FILENAME_SUFFIX)


class ArrayGenerator(object):
    def __init__(self, callable, args=(), kwargs=None, form=None, length=None):
        if not isinstance(args, tuple):
            raise TypeError("ArrayGenerator args must be a tuple")
        if kwargs is None:
            kwargs = {}
        if not isinstance(kwargs, dict):
            raise TypeError("ArrayGenerator kwargs must be a dict")
        self._callable = callable
        self._args = args
        self._kwargs = kwargs
        self._form = _check_form(form, "ArrayGenerator")
        self._length = _check_length(length, "ArrayGenerator")
        self._inferred_form = None

    callable = property(lambda self: self._callable)
    args = property(lambda self: self._args)
    kwargs = property(lambda self: self._kwargs)

    @property
    def form(self):
        if self._form is None and self._inferred_form is not None:
            return self._inferred_form
        return self._form

    length = property(lambda self: self._length)

    @property
    def caches(self):
        out = []
        self._caches(out)
        return out

    def _caches(self, out):
        for arg in self._args:
            if isinstance(arg, ArrayCache):
                if not any(x is arg for x in out):
                    out.append(arg)

    def _generate(self):
        import awkward as ak

        out = self._callable(*self._args, **self._kwargs)
        out = ak.to_layout(out, False, False)
        if self._form is None:
            # ArrayGenerator::generate_and_check: inferred_form_ = out->form(true)
            try:
                self._inferred_form = typesforms.form_from_json(core.d_str(out._call("form_materialized", skel=True)))
            except Exception:
                pass
        return out

    def _sx(self):
        return "(pygen %d %s %d %s)" % (core.reg_gen(self), _form_sx(self._form), -1 if self._length is None else self._length,
                                       _form_sx(self._inferred_form))

    def __call__(self):
        return C.fromsx(core.request("generate_and_check " + self._sx()))

    def __repr__(self):
        out = '<ArrayGenerator f="' + repr(self._callable) + '"'
        if len(self._args) != 0:
            out += ' args="' + repr(self._args) + '"'
        if len(self._kwargs) != 0:
            out += ' kwargs="' + repr(self._kwargs) + '"'
        if self._form is None and self._length is None:
            return out + "/>"
        out += ">\n"
        if self._length is not None:
            out += "    <length>%d</length>\n" % self._length
        if self._form is not None:
            formstr = self._form.tojson(True, False).replace("\n", "\n        ")
            out += "    <form>\n        " + formstr + "\n    </form>\n"
        return out + "</ArrayGenerator>"

    def _with(self, **kw):
        d = dict(callable=self._callable, args=self._args, kwargs=self._kwargs, form=self._form, length=self._length)
        d.update(kw)
        return ArrayGenerator(d["callable"], d["args"], d["kwargs"], d["form"], d["length"])

    def with_form(self, form):
        return self._with(form=form)

    def with_length(self, length):
        return self._with(length=length)

    def with_callable(self, callable):
        return self._with(callable=callable)

    def with_args(self, args):
        return self._with(args=args)

    def with_kwargs(self, kwargs):
        return self._with(kwargs=kwargs)


class SliceGenerator(object):
    def __init__(self, content, slice, form=None, length=None):
        from pyshim import slicing

        self._form = _check_form(form, "SliceGenerator")
        self._length = _check_length(length, "SliceGenerator")
        self._slice_sx = slicing.toslice(slice)
        self._content = C._content_arg(content)

    @classmethod
    def _wrap(cls, content, slice_sx, form, length):
        self = cls.__new__(cls)
        self._content = content
        self._slice_sx = slice_sx
        self._form = form
        self._length = length
        return self

    form = property(lambda self: self._form)
    length = property(lambda self: self._length)
    content = property(lambda self: self._content)

    @property
    def caches(self):
        out = []
        self._caches(out)
        return out

    def _caches(self, out):
        self._content._caches(out)

    def _sx(self):
        return "(slicegen %s %d %s %s)" % (_form_sx(self._form), -1 if self._length is None else self._length,
                                          self._content._sx(False), self._slice_sx)

    def __call__(self):
        return C.fromsx(core.request("generate_and_check " + self._sx()))

    def __repr__(self):
        return "<SliceGenerator>%r</SliceGenerator>" % (self._content,)

    def with_form(self, form):
        return SliceGenerator._wrap(self._content, self._slice_sx, _check_form(form, "SliceGenerator"), self._length)

    def with_length(self, length):
        return SliceGenerator._wrap(self._content, self._slice_sx, self._form, _check_length(length, "SliceGenerator"))


def _sx_of_tree(t):
    if isinstance(t, str):
        return t
    return "(" + " ".join(_sx_of_tree(x) for x in t) + ")"


class ArrayCache(object):
    def __init__(self, mutablemapping):
        if mutablemapping is None:
            self._ref = None
        else:
            self._ref = weakref.ref(mutablemapping)

    @property
    def is_broken(self):
        if self._ref is None:
            return False
        return self._ref() is None

    @property
    def mutablemapping(self):
        if self._ref is None:
            return None
        out = self._ref()
        if out is None:
            raise RuntimeError("PyArrayCache has lost its weak reference to mapping" + FILENAME_SUFFIX)
        return out

    def _get(self, key):
        try:
            out = self.mutablemapping[key]
        except RuntimeError:
            raise
        except Exception:
            return None
        return C._content_arg(out)

    def _set(self, key, value):
        mapping = self.mutablemapping
        if mapping is not None:
            mapping[key] = value

    def __repr__(self):
        if self.is_broken:
            return '<ArrayCache is_broken="true"/>'
        r = repr(self.mutablemapping)
        if len(r) > 50:
            r = r[:47] + "..."
        return '<ArrayCache mapping="' + r + '"/>'

    def __getitem__(self, key):
        return self._get(key)

    def __setitem__(self, key, value):
        self._set(key, C._content_arg(value))

    def __delitem__(self, key):
        del self.mutablemapping[key]

    def __iter__(self):
        return iter(self.mutablemapping)

    def __len__(self):
        return len(self.mutablemapping)

    def _sx(self):
        return "(cache %d)" % core.reg_cache(self)


class VirtualArray(C.Content):
    def __init__(self, generator, cache=None, cache_key=None, identities=None, parameters=None):
        if not isinstance(generator, (ArrayGenerator, SliceGenerator)):
            raise ValueError("VirtualArray 'generator' must be an ArrayGenerator or a SliceGenerator" + FILENAME_SUFFIX)
        if cache is not None and not isinstance(cache, ArrayCache):
            raise ValueError("VirtualArray 'cache' must be an ArrayCache or None" + FILENAME_SUFFIX)
        if cache_key is not None and not isinstance(cache_key, str):
            raise ValueError("VirtualArray 'cache_key' must be a string or None" + FILENAME_SUFFIX)
        self._generator = generator
        self._cache = cache
        self._cache_key = newkey() if cache_key is None else cache_key
        self._init_base(identities, parameters)

    generator = property(lambda self: self._generator)
    cache = property(lambda self: self._cache)
    cache_key = property(lambda self: self._cache_key)

    @property
    def peek_array(self):
        return self._callc("peek_array")

    @property
    def array(self):
        return self._callc("array")

    def __len__(self):
        if self._generator.length is not None:
            return self._generator.length
        return int(self._call("len"))

    def _caches(self, out):
        self._generator._caches(out)
        if self._cache is not None and not any(x is self._cache for x in out):
            out.append(self._cache)

    def _children(self):
        return []

    def _adopt_identities(self, other):
        self._identities = other._identities

    def _sx(self, skel=False):
        return "(virt %s %s %s %s)" % (self._PI(skel), self._generator._sx(),
                                       "-" if self._cache is None else self._cache._sx(), hx(self._cache_key))


def rd_gen(t):
    if t[0] == "pygen":
        gen = core.GENS.get(int(t[1]))
        if gen is None:
            raise core.DriverProtocolError("reply mentions an unknown generator id")
        form = _rd_form(t[2])
        length = None if int(t[3]) < 0 else int(t[3])
        same_form = (form is None and gen._form is None) or (form is not None and gen._form is not None and form._json() == gen._form._json())
        inferred = _rd_form(t[4]) if len(t) > 4 else None
        if same_form and length == gen._length:
            if inferred is not None and gen._inferred_form is None:
                gen._inferred_form = inferred
            return gen
        out = gen._with(form=form, length=length)
        out._inferred_form = inferred
        return out
    if t[0] == "slicegen":
        form = _rd_form(t[1])
        length = None if int(t[2]) < 0 else int(t[2])
        return SliceGenerator._wrap(C.fromsx(t[3]), _sx_of_tree(t[4]), form, length)
    raise core.DriverProtocolError("unknown generator node")


def rd_virt(t):
    self = VirtualArray.__new__(VirtualArray)
    self._params = rd_params(t[1])
    self._identities = rd_ident(t[2])
    self._generator = rd_gen(t[3])
    if t[4] == "-":
        self._cache = None
    else:
        self._cache = core.CACHES.get(int(t[4][1]))
        if self._cache is None:
            raise core.DriverProtocolError("reply mentions an unknown cache id")
    self._cache_key = unhx_str(t[5])
    return self
