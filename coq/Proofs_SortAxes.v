(** C06, sort along a non-innermost axis (Ops_SortAxes.v), part 1:
    - the value-level column sort [sortcols] is total on well-typed rows of the handled element types;
    - the leaf level of [sax]: the keys of every group, sorted, are [sortcols] of the group's values;
    - numbering lemmas for the gathering back ([sax_number] / [sax_back]).
    Part 2 (Proofs_SortAxes2.v): list nodes, the refinement theorem. *)
From Coq Require Import ZArith List Bool Lia ZifyBool Permutation.
From AwkV Require Import Base Layout LayoutInd Valid Types AtAxis Carry Ops_Sort Ops_SortAxes Ops_Reduce Typing Proofs_Typing
                         Proofs_C11 Proofs_Lists Proofs_ToList Proofs_Carry Proofs_CarryValid Proofs_AtAxis Proofs_AtAxisOps
                         Proofs_Sort Proofs_C06 Proofs_SortRef Proofs_SortRef2 Proofs_SortCols Proofs_Reduce
                         Proofs_Closure Proofs_Closure4.
Import ListNotations.
Open Scope Z_scope.
Ltac Zify.zify_post_hook ::= Z.to_euclidean_division_equations.

(* ---------------------------------------------------------------- small list facts *)
Lemma zip_fst_snd {A B C} (f : B -> C) (l : list (A * B)) :
  zip (map fst l) (map f (map snd l)) = map (fun jx : A * B => (fst jx, f (snd jx))) l.
Proof. induction l as [|[a b] l IH]; [reflexivity|]. cbn [map zip fst snd]. rewrite IH. reflexivity. Qed.

Lemma map_snd_zip_le {A B} (l : list A) (m : list B) : length m = length l -> map snd (zip l m) = m.
Proof. intros H. apply map_snd_zip. symmetry. exact H. Qed.

Lemma zip_iota_snd {A} (L : list A) : forall s k, map snd (zip (iota_nat s k) L) = firstn k L.
Proof.
  induction L as [|x L IH]; intros s [|k]; cbn [iota_nat zip map firstn snd]; try reflexivity.
  rewrite IH. reflexivity.
Qed.
Lemma mapM_snd_zip_iota {A B} (F : A -> res B) n (L : list A) :
  mapM (fun qc : Z * A => F (snd qc)) (zip (iota n) L) = mapM F (firstn (Z.to_nat n) L).
Proof. unfold iota. rewrite <- (zip_iota_snd L 0 (Z.to_nat n)), mapM_map. reflexivity. Qed.

Lemma map_const_len {A A' B} (b : B) (l : list A) (l' : list A') :
  length l = length l' -> map (fun _ => b) l = map (fun _ => b) l'.
Proof. revert l'. induction l as [|x l IH]; intros [|y l'] H; try discriminate; [reflexivity|]. cbn [map]. f_equal. apply IH. cbn in H. lia. Qed.

Lemma concat_map_map {A B} (f : A -> B) (Ls : list (list A)) : concat (map (map f) Ls) = map f (concat Ls).
Proof. symmetry. apply concat_map. Qed.

(* ---------------------------------------------------------------- gatherG: row numbers are kept *)
Lemma gatherG_fst {A} (xs : list A) G l : gatherG xs G = Ok l -> map fst l = map fst G.
Proof.
  revert l. induction G as [|[j p] G IH]; intros l H; unfold gatherG in H; cbn [mapM] in H.
  - inversion H. reflexivity.
  - apply bind_Ok in H as (y & Hy & H). apply bind_Ok in H as (l' & Hl' & H). inversion H; subst.
    apply bind_Ok in Hy as (v & _ & Hy). inversion Hy; subst. cbn [map fst]. f_equal. apply IH, Hl'.
Qed.
Lemma gatherG_snd {A} (xs : list A) G l : gatherG xs G = Ok l -> mapM (fun jp : Z * Z => get xs (snd jp)) G = Ok (map snd l).
Proof.
  revert l. induction G as [|[j p] G IH]; intros l H; unfold gatherG in H; cbn [mapM] in H.
  - inversion H. reflexivity.
  - apply bind_Ok in H as (y & Hy & H). apply bind_Ok in H as (l' & Hl' & H). inversion H; subst.
    apply bind_Ok in Hy as (v & Hv & Hy). inversion Hy; subst. cbn [fst snd] in *. cbn [mapM map snd]. rewrite Hv. cbn [bind].
    rewrite (IH _ Hl'). reflexivity.
Qed.

(* ---------------------------------------------------------------- the value-level sort of a group of keys *)
Definition vkeys (jk : Z * option key) : list (Z * key) := match snd jk with Some k => [(fst jk, k)] | None => [] end.
Definition nkeys (jk : Z * option key) : list Z := match snd jk with None => [fst jk] | Some _ => [] end.

Lemma vkeys_snd (js : list Z) : forall ks : list (option key), length js = length ks ->
  map snd (flat_map vkeys (zip js ks)) = Proofs_SortRef.valid_keys ks.
Proof.
  induction js as [|j js IH]; intros [|o ks] H; try discriminate; [reflexivity|].
  cbn [zip flat_map Proofs_SortRef.valid_keys]. rewrite map_app, IH by (cbn in H; lia).
  destruct o; reflexivity.
Qed.
Lemma nkeys_len (js js' : list Z) : forall ks : list (option key), length js = length ks -> length js' = length ks ->
  length (flat_map nkeys (zip js ks)) = length (flat_map nkeys (zip js' ks)).
Proof.
  revert js'. induction js as [|j js IH]; intros [|j' js'] [|o ks] H H'; try discriminate; [reflexivity|].
  cbn [zip flat_map]. rewrite !app_length, (IH js' ks) by (cbn in H, H'; lia). destruct o; reflexivity.
Qed.

(* sorting values does not look at the row numbers *)
Lemma sort_leaves_keys_ids asc dt (js : list Z) (ks : list (option key)) :
  length js = length ks ->
  sort_leaves asc false (zip js (map val_of_okey ks)) = Ok (map val_of_okey (sort_keys asc false dt ks)).
Proof.
  intros Hlen. unfold sort_leaves, sort_keys. rewrite keyed_of_keys. cbn [bind]. fold vkeys. fold nkeys.
  set (kb := fun a b : Z * key => key_before asc (snd a) (snd b)).
  rewrite (map_app val_of_okey), !map_map. f_equal. f_equal.
  - transitivity (map value_of_key (map snd (sort_by kb (flat_map vkeys (zip js ks))))); [rewrite map_map; reflexivity|].
    transitivity (map value_of_key (map snd (sort_by kb (flat_map vkeys (zip (iota (zlen ks)) ks))))); [|rewrite map_map; reflexivity].
    f_equal. unfold kb. rewrite <- !(sort_by_map snd (key_before asc)).
    rewrite !vkeys_snd; [reflexivity| |exact Hlen]. unfold iota, zlen. rewrite Nat2Z.id. apply iota_nat_length'.
  - cbn [val_of_okey]. apply map_const_len.
    pose proof (nones_of_keys js ks) as Hn. fold nkeys in Hn. apply (f_equal (@length Z)) in Hn. rewrite map_length in Hn.
    rewrite Hn. apply nkeys_len; [exact Hlen|]. unfold iota, zlen. rewrite Nat2Z.id. apply iota_nat_length'.
Qed.

(* ---------------------------------------------------------------- handled element types *)
Lemma saxty_sortable t : saxty t = true -> sortable t = true.
Proof.
  induction t as [| |sz str t' IH|t' IH| |]; cbn [saxty sortable]; try discriminate; auto.
  - destruct str; [discriminate|]. exact IH.
  - destruct t'; try discriminate. reflexivity.
Qed.
Lemma saxty_styp t : saxty t = true -> styp t = true.
Proof.
  induction t as [| |sz str t' IH|t' IH| |]; cbn [saxty styp]; try discriminate; auto.
  - destruct str; [discriminate|]. exact IH.
  - destruct t'; try discriminate. reflexivity.
Qed.
Lemma saxty_opt t : saxty (TOpt t) = true -> exists dt, t = TNum dt.
Proof. destruct t; try discriminate. eauto. Qed.
Lemma saxty_list sz str t : saxty (TList sz str t) = true -> str = None /\ saxty t = true.
Proof. cbn [saxty]. destruct str; [discriminate|]. auto. Qed.

(* ---------------------------------------------------------------- sortcols is total on typed rows *)
Lemma assocZ_total {A} j (L : list (Z * A)) : In j (map fst L) -> exists v, assocZ j L = Ok v.
Proof.
  induction L as [|[k w] L IH]; intros H; [contradiction|]. cbn [assocZ]. destruct (j =? k) eqn:E; [eauto|].
  apply IH. destruct H as [H|H]; [cbn in H; lia|exact H].
Qed.

Lemma num_key dt v : has_type (TNum dt) v -> exists k, key_of_value v = Ok k.
Proof. unfold has_type. destruct v; cbn; try discriminate; eauto. Qed.

Lemma coll_In p ls j v : In (j, v) (coll p ls) -> exists l, In (j, l) ls /\ get l p = Ok v.
Proof.
  unfold coll. intros H. apply in_flat_map in H as ([j' l] & Hin & H). unfold coll1 in H. cbn [fst snd] in H.
  destruct (get l p) as [x|] eqn:E; [|contradiction]. destruct H as [H|[]]. inversion H; subst. eauto.
Qed.
Lemma coll_has p ls j l v : In (j, l) ls -> get l p = Ok v -> In j (map fst (coll p ls)).
Proof.
  intros Hin Hg. apply in_map_iff. exists (j, v). split; [reflexivity|]. unfold coll. apply in_flat_map.
  exists (j, l). split; [exact Hin|]. unfold coll1. cbn [fst snd]. rewrite Hg. left. reflexivity.
Qed.

Lemma sortcols_total asc t : saxty t = true -> forall rows,
  Forall (fun jv : Z * value => has_type t (snd jv)) rows -> exists out, sortcols asc false t rows = Ok out.
Proof.
  induction t as [dt| |sz str t' IH|t' IH| |]; intros Hs rows Hty; try discriminate.
  - rewrite Proofs_SortCols.sortcols_leaf by reflexivity.
    destruct (sort_leaves_total asc false rows) as [vs Hvs].
    { intros jv Hin. right. rewrite Forall_forall in Hty. eapply num_key, Hty, Hin. }
    rewrite Hvs. cbn [bind]. eauto.
  - apply saxty_list in Hs as [-> Hs]. rewrite sortcols_list.
    assert (Hls : exists ls, mapM aslist rows = Ok ls).
    { apply mapM_total. intros [j v] Hin. rewrite Forall_forall in Hty. specialize (Hty _ Hin). cbn [snd] in Hty.
      unfold has_type in Hty. unfold aslist. cbn [snd fst]. destruct v; cbn in Hty; try discriminate. eauto. }
    destruct Hls as [ls Hls]. rewrite Hls. cbn [bind].
    assert (Hlt : forall j l, In (j, l) ls -> Forall (has_type t') l).
    { intros j l Hin. pose proof (aslist_rows _ _ Hls) as E. subst rows. rewrite Forall_forall in Hty.
      specialize (Hty (j, VList l)). cbn [snd] in Hty. unfold has_type in Hty. cbn in Hty.
      assert (Hi : In (j, VList l) (map (fun jl : Z * list value => (fst jl, VList (snd jl))) ls)).
      { apply in_map_iff. exists (j, l). split; [reflexivity|exact Hin]. }
      specialize (Hty Hi). apply andb_true_iff in Hty as [Hty _]. apply Forall_forall. intros x Hx.
      rewrite forallb_forall in Hty. apply Hty, Hx. }
    assert (Hcols : exists cols, mapM (fun p => sortcols asc false t' (coll p ls)) (iota (maxlen ls)) = Ok cols).
    { apply mapM_total. intros p _. apply IH; [exact Hs|]. apply Forall_forall. intros [j v] Hin. cbn [snd].
      apply coll_In in Hin as (l & Hl & Hg). specialize (Hlt j l Hl). rewrite Forall_forall in Hlt. apply Hlt. eapply get_In, Hg. }
    destruct Hcols as [cols Hcols]. rewrite Hcols. cbn [bind].
    apply mapM_total. intros [j l] Hin. unfold rebuild. cbn [fst snd].
    assert (Hv : exists vs, mapM (fun pc : Z * list (Z * value) => assocZ j (snd pc)) (zip (iota (zlen l)) cols) = Ok vs).
    { apply mapM_total. intros [p cp] Hpc. cbn [snd].
      assert (Hp : 0 <= p < zlen l /\ get cols p = Ok cp).
      { pose proof (zlen_nonneg l). pose proof (maxlen_ge ls (j, l) Hin) as Hm. cbn [snd] in Hm.
        pose proof (mapM_zlen _ _ _ Hcols) as Hzc. rewrite zlen_iota in Hzc by apply maxlen_nonneg.
        apply In_nth_error in Hpc as [n Hn].
        assert (Hg : get (zip (iota (zlen l)) cols) (Z.of_nat n) = Ok (p, cp)).
        { unfold get. destruct (Z.of_nat n <? 0) eqn:E; [lia|]. rewrite Nat2Z.id, Hn. reflexivity. }
        pose proof (get_range _ _ _ Hg) as Hr. rewrite zlen_zip, zlen_iota in Hr by lia.
        rewrite get_zip in Hg by (rewrite zlen_iota by lia; lia). rewrite get_iota in Hg by lia. cbn [bind] in Hg.
        destruct (get cols (Z.of_nat n)) as [cp'|] eqn:Ec; [|discriminate]. inversion Hg; subst. split; [lia|exact Ec]. }
      destruct Hp as [Hp Hcp]. pose proof (mapM_get _ _ _ p Hcols) as Hget. rewrite Hcp in Hget.
      rewrite get_iota in Hget by (pose proof (maxlen_ge ls (j, l) Hin) as Hm; cbn [snd] in Hm; lia). cbn [bind] in Hget.
      symmetry in Hget. apply assocZ_total. rewrite (sortcols_ids _ _ _ _ _ Hget).
      destruct (get_ok l p Hp) as [v Hv]. eapply coll_has; eassumption. }
    destruct Hv as [vs ->]. cbn [bind]. eauto.
  - apply saxty_opt in Hs as [dt ->]. rewrite Proofs_SortCols.sortcols_leaf by reflexivity.
    destruct (sort_leaves_total asc false rows) as [vs Hvs].
    { intros [j v] Hin. rewrite Forall_forall in Hty. specialize (Hty _ Hin). cbn [snd] in *.
      destruct v; try (right; apply (num_key dt); exact Hty). left. reflexivity. }
    rewrite Hvs. cbn [bind]. eauto.
Qed.

(* ---------------------------------------------------------------- numbering the content's answer *)
Lemma assoc_number {A} (o : list (Z * A)) : forall pre rest j v,
  assocZ j o = Ok v ->
  exists p, assocZ j (zip (map fst o) (iota_nat (zlen pre) (length o))) = Ok p /\ get (pre ++ map snd o ++ rest) p = Ok v.
Proof.
  induction o as [|[k x] o IH]; intros pre rest j v H; [discriminate|].
  cbn [assocZ map fst snd length iota_nat zip] in *. destruct (j =? k) eqn:E.
  - inversion H; subst. exists (zlen pre). split; [reflexivity|]. rewrite get_app2 by lia. rewrite Z.sub_diag. cbn [app]. apply get_cons_0.
  - destruct (IH (pre ++ [x]) rest j v H) as (p & Hp & Hg). exists p.
    replace (zlen (pre ++ [x])) with (zlen pre + 1) in Hp by (rewrite zlen_app, zlen_cons, zlen_nil; lia).
    rewrite <- app_assoc in Hg. cbn [app] in Hg. split; assumption.
Qed.

Definition same_ids {A} (g : list (Z * Z)) (o : list (Z * A)) : Prop := map fst o = map fst g.

Lemma same_ids_zlens {A} (cols : list (list (Z * Z))) (Os : list (list (Z * A))) :
  Forall2 same_ids cols Os -> map zlen cols = map zlen Os.
Proof.
  induction 1 as [|g o cols Os Hgo _ IH]; [reflexivity|]. cbn [map]. rewrite IH. f_equal.
  unfold same_ids in Hgo. apply (f_equal (@length Z)) in Hgo. rewrite !map_length in Hgo. unfold zlen. lia.
Qed.

Lemma number_lookup {A} j (cols : list (list (Z * Z))) (Os : list (list (Z * A))) :
  Forall2 same_ids cols Os -> forall pre post n vs,
  mapM (assocZ j) (firstn n Os) = Ok vs ->
  exists ps, mapM (assocZ j) (firstn n (sax_number (zlen pre) cols)) = Ok ps /\
             mapM (get (pre ++ concat (map (map snd) Os) ++ post)) ps = Ok vs.
Proof.
  induction 1 as [|g o cols Os Hgo HF IH]; intros pre post n vs H.
  - rewrite firstn_nil in H. inversion H. exists []. cbn [sax_number]. rewrite firstn_nil. split; reflexivity.
  - destruct n as [|n]; cbn [firstn] in *.
    + inversion H. exists []. split; reflexivity.
    + cbn [mapM] in H. apply bind_Ok in H as (v & Hv & H). apply bind_Ok in H as (vs' & Hvs & H). inversion H; subst.
      cbn [sax_number firstn mapM map concat].
      destruct (assoc_number o pre (concat (map (map snd) Os) ++ post) j v Hv) as (p & Hp & Hg).
      assert (Hlen : length g = length o).
      { unfold same_ids in Hgo. apply (f_equal (@length Z)) in Hgo. rewrite !map_length in Hgo. lia. }
      unfold same_ids in Hgo. rewrite Hgo, <- Hlen in Hp. rewrite Hp. cbn [bind].
      destruct (IH (pre ++ map snd o) post n vs' Hvs) as (ps & Hps & Hgs).
      replace (zlen (pre ++ map snd o)) with (zlen pre + zlen g) in Hps by (rewrite zlen_app, zlen_map; unfold zlen; lia).
      rewrite Hps. cbn [bind]. exists (p :: ps). split; [reflexivity|]. cbn [mapM].
      rewrite <- app_assoc in Hgs. rewrite <- app_assoc. rewrite Hg. cbn [bind]. rewrite Hgs. reflexivity.
Qed.

(* ---------------------------------------------------------------- what [sax] is to compute *)
Definition sax_spec (asc : bool) (t : ty) (vs : list value) (groups : list (list (Z * Z))) : res (list (list (Z * value))) :=
  mapM (fun G => do xs <- gatherG vs G; sortcols asc false t xs) groups.

(* the answer is a valid layout that lists, group after group, the column-sorted rows *)
Definition sax_ok (asc : bool) (c : content) : Prop :=
  forall p groups vs, Valid p c -> frag1 c = true -> saxty (type_of_p p c) = true ->
    to_list c = Ok vs -> in_range (zlen vs) groups ->
    exists c' outs, sax asc p c groups = Ok c' /\ Valid None c' /\
                    sax_spec asc (type_of_p p c) vs groups = Ok outs /\
                    to_list c' = Ok (concat (map (map snd) outs)).

(* ---------------------------------------------------------------- the leaf level *)
Definition leaf_node (c : content) : bool :=
  match c with
  | Numpy _ _ _ | Empty | IndexedOption _ _ _ | ByteMasked _ _ _ | BitMasked _ _ _ _ _ | Unmasked _ => true
  | _ => false
  end.
Lemma sax_leaf_eq asc p c groups :
  leaf_node c = true ->
  sax asc p c groups =
  do ks <- leaf_keys None c;
  do per <- mapM (fun G => do seg <- mapM (fun jp : Z * Z => get ks (snd jp)) G;
                           Ok (sort_keys asc false (leaf_dtype c) seg)) groups;
  Ok (content_of_keys (leaf_dtype c) (concat per)).
Proof. destruct c; try discriminate; reflexivity. Qed.

Lemma Valid_ParamOk p c : Valid p c -> (forall a r x, c <> Par a r x) -> ParamOk p c.
Proof. intros HV Hnp. inversion HV; subst; try assumption. exfalso. eapply Hnp. reflexivity. Qed.

Lemma sort_keys_length asc dt ks : length (sort_keys asc false dt ks) = length ks.
Proof.
  pose proof (sort_leaves_keys asc false dt ks) as H. apply Proofs_SortCols.sort_leaves_length in H.
  rewrite map_length in H. rewrite H. unfold enumv. rewrite zip_length, length_iota_zlen, map_length. lia.
Qed.

Lemma leaf_node_type p c :
  leaf_node c = true -> frag1 c = true -> saxty (type_of_p p c) = true ->
  leafish (type_of_p p c) = true /\ is_leaf_ty (type_of_p p c) = true.
Proof.
  intros Hn Hfr Hs. destruct c; try discriminate; cbn [type_of_p] in *.
  - destruct shape as [|n [|d ds]]; try discriminate. cbn [tl numpy_ty]. split; reflexivity.
  - apply saxty_opt in Hs as [dt ->]. split; reflexivity.
  - apply saxty_opt in Hs as [dt ->]. split; reflexivity.
  - apply saxty_opt in Hs as [dt ->]. split; reflexivity.
  - apply saxty_opt in Hs as [dt ->]. split; reflexivity.
Qed.

Lemma sax_leaf asc c : leaf_node c = true -> sax_ok asc c.
Proof.
  intros Hleaf p groups vs HV Hfr Hs Hl Hr.
  assert (Hp : p = None).
  { apply (ParamOk_nonlist p c); [apply Valid_ParamOk; [exact HV|destruct c; discriminate]|destruct c; try discriminate; reflexivity]. }
  subst p. destruct (leaf_node_type None c Hleaf Hfr Hs) as [Hlf Hil]. fold (type_of c) in *.
  destruct (leaf_keys_spec c vs HV Hlf Hl) as (ks & Hks & -> & kd & Hh & Hcp).
  rewrite zlen_map in Hr. destruct (mapM_gatherG ks groups Hr) as [segs Hsegs].
  set (dt := leaf_dtype c) in *.
  set (per := map (fun l : list (Z * option key) => sort_keys asc false dt (map snd l)) segs).
  set (outs := map (fun l : list (Z * option key) => zip (map fst l) (map val_of_okey (sort_keys asc false dt (map snd l)))) segs).
  assert (Hper : mapM (fun G => do seg <- mapM (fun jp : Z * Z => get ks (snd jp)) G; Ok (sort_keys asc false dt seg)) groups = Ok per).
  { eapply mapM_transfer; [exact Hsegs|]. intros G l _ HG. rewrite (gatherG_snd _ _ _ HG). reflexivity. }
  exists (content_of_keys dt (concat per)), outs. split; [|split; [|split]].
  - rewrite (sax_leaf_eq _ _ _ _ Hleaf), Hks. cbn [bind]. fold dt. rewrite Hper. reflexivity.
  - apply content_of_keys_valid.
  - unfold sax_spec. eapply mapM_transfer; [exact Hsegs|]. intros G l _ HG. cbv beta.
    rewrite gatherG_map, HG. cbn [rmap bind]. rewrite Proofs_SortCols.sortcols_leaf by exact Hil.
    rewrite <- (zip_fst_snd val_of_okey l). rewrite (sort_leaves_keys_ids asc dt) by (rewrite !map_length; reflexivity).
    cbn [bind]. rewrite map_fst_zip by (rewrite !map_length; reflexivity). reflexivity.
  - assert (Hhom : homog kd (concat per)).
    { apply homog_concat. apply Forall_forall. intros x Hx. apply in_map_iff in Hx as (l & <- & Hin).
      apply (sort_keys_homog asc false dt kd). eapply homog_sub; [exact Hh|]. intros k Hk.
      apply in_map_iff in Hk as ([j o] & Ho & Hjo). cbn [snd] in Ho. subst o.
      destruct (mapM_In_inv _ _ _ _ Hsegs Hin) as (G & _ & HG). destruct (gatherG_In _ _ _ _ _ HG Hjo) as (q & _ & Hq).
      eapply get_In, Hq. }
    rewrite (content_of_keys_to_list dt kd (concat per) Hhom Hcp). f_equal. rewrite <- concat_map_map. f_equal.
    unfold per, outs. rewrite !map_map. apply map_ext. intros l.
    rewrite map_snd_zip by (rewrite !map_length, sort_keys_length, map_length; reflexivity). reflexivity.
Qed.
