(** C16 proofs, part 11: to_numpy agrees with to_list on every layout to_numpy accepts, RegularArray of size 0 aside
    (not only on what from_numpy builds). *)
From Coq Require Import ZArith List Bool Lia ZifyBool.
From AwkV Require Import Base Layout LayoutInd Valid Types Proofs_Lists Proofs_C11 Proofs_Typing Proofs_ToList Proofs_Carry.
From AwkBuffers Require Import Buffers Proofs_C16 Proofs_C16b Proofs_C16c Proofs_C16d.
Import ListNotations.
Open Scope Z_scope.

(* the fragment: no RegularArray of size 0 anywhere (known finding numpy-zero-length-dimension, to_numpy_size0_refuted) *)
Fixpoint np_frag (c : content) : bool :=
  match c with
  | Regular c' size _ => negb (size =? 0) && np_frag c'
  | Unmasked c' | ByteMasked _ _ c' | IndexedOption _ _ c' => np_frag c'
  | _ => true
  end.

(* what to_numpy returns is a well-formed ndarray *)
Definition nd_ok (y : ndarr) : Prop :=
  match nd_shape y with
  | [] => False
  | n :: dims => 0 <= n /\ Forall (fun d => 0 <= d) dims /\ zlen (nd_data y) = prodZ (nd_shape y) /\
                 match nd_mask y with None => True | Some m => zlen m = zlen (nd_data y) end
  end.

Definition lv (dt : dtype) (mask : option (list bool)) (data : list datum) : list value :=
  match mask with
  | None => map (leaf dt) data
  | Some m => map (fun p : bool * datum => if fst p then VNone else leaf dt (snd p)) (zip m data)
  end.
Lemma nd_leaves_lv y : nd_leaves y = lv (nd_dt y) (nd_mask y) (nd_data y).
Proof. reflexivity. Qed.
Lemma lv_take dt mask data k :
  lv dt (match mask with None => None | Some m => Some (take k m) end) (take k data) = take k (lv dt mask data).
Proof.
  destruct mask as [m|]; unfold lv.
  - rewrite zip_take. apply map_take.
  - apply map_take.
Qed.
Lemma zlen_lv dt mask data : match mask with None => True | Some m => zlen m = zlen data end -> zlen (lv dt mask data) = zlen data.
Proof. destruct mask as [m|]; unfold lv; intros H; rewrite zlen_map; [rewrite zlen_zip; lia|reflexivity]. Qed.
Lemma lv_no_mask dt data : lv dt (Some (no_mask data)) data = lv dt None data.
Proof.
  unfold lv, no_mask. induction data as [|x data IH]; [reflexivity|]. cbn [map zip fst snd]. rewrite IH. reflexivity.
Qed.

Definition np_at (c : content) : Prop :=
  forall am y, np_frag c = true -> to_numpy_model am c = Ok y -> nd_ok y /\ to_list c = nd_value y.

Lemma prodZ_one z : prodZ [z] = z.
Proof. unfold prodZ. cbn [fold_right]. lia. Qed.

Lemma np_Numpy dt shape data : np_at (Numpy dt shape data).
Proof.
  intros am y _ Q. cbn [to_numpy_model] in Q. destruct shape as [|n dims]; [discriminate Q|].
  destruct (existsb (fun d => d <? 0) (n :: dims)) eqn:En; [discriminate Q|].
  destruct (zlen data <? prodZ (n :: dims)) eqn:Ed; [discriminate Q|]. injection Q as <-.
  assert (HF : Forall (fun d => 0 <= d) (n :: dims)) by (apply existsb_neg_false; exact En).
  inversion HF as [|? ? Hn Hd]; subst. pose proof (prodZ_nonneg _ HF) as Hp.
  split.
  - unfold nd_ok. cbn [nd_shape nd_data nd_mask]. repeat split; try assumption. rewrite <- prodZ_cons. rewrite zlen_take_min by lia. lia.
  - rewrite to_list_Numpy, En, Ed. reflexivity.
Qed.

Lemma firstn_all_len {A} (l : list A) n : length l = n -> firstn n l = l.
Proof. intros <-. apply firstn_all. Qed.

Lemma np_Regular c size zl : np_at c -> np_at (Regular c size zl).
Proof.
  intros IH am y Hf Q. cbn [np_frag] in Hf. apply andb_true_iff in Hf as [Hs0 Hfc].
  cbn [to_numpy_model] in Q. apply bind_Ok in Q as (out & Hout & Q).
  destruct (IH am out Hfc Hout) as [Hok Hval]. unfold nd_ok in Hok.
  destruct out as [dt sh data mask]. cbn [nd_shape nd_data nd_mask nd_dt] in *.
  destruct sh as [|head tail]; [destruct Hok|]. destruct Hok as (Hh & Ht & Hz & Hm).
  destruct (size <? 0) eqn:Es; [discriminate Q|]. replace (size =? 0) with false in Q by lia.
  assert (Hs : 0 < size) by lia. injection Q as <-.
  pose proof (prodZ_nonneg tail Ht) as Hpt. rewrite prodZ_cons in Hz.
  set (n := head / size) in *. set (keep := n * size * prodZ tail).
  assert (Hn : 0 <= n) by (apply Z.div_pos; lia).
  assert (Hns : n * size <= head) by (pose proof (Z.mul_div_le head size Hs); unfold n; lia).
  assert (Hkeep : 0 <= keep <= zlen data) by (unfold keep; nia).
  split.
  - unfold nd_ok. cbn [nd_shape nd_data nd_mask]. split; [exact Hn|]. split; [constructor; [lia|exact Ht]|].
    split; [rewrite zlen_take_min by lia; rewrite !prodZ_cons; unfold keep; lia|].
    destruct mask as [m|]; [|exact I]. rewrite !zlen_take_min by lia. lia.
  - rewrite to_list_Regular, Hval. unfold nd_value. cbn [nd_shape]. rewrite !nd_leaves_lv. cbn [nd_dt nd_mask nd_data].
    rewrite lv_take. set (L := lv dt mask data).
    assert (HzL : zlen L = head * prodZ tail) by (unfold L; rewrite zlen_lv by exact Hm; exact Hz).
    destruct (nest_total tail head L Ht Hh) as (vs & Hvs). rewrite Hvs. cbn [bind].
    pose proof (nest_zlen tail head L vs Hvs Ht Hh HzL) as Hzvs.
    cbn [nest]. unfold keep.
    rewrite (nest_prefix tail head (n * size) L vs Ht ltac:(nia) HzL Hvs). cbn [bind].
    unfold chunks. rewrite Es. replace (size =? 0) with false by lia. cbn [rmap bind]. f_equal. f_equal.
    rewrite zlen_take_min by nia. replace (Z.min (n * size) (zlen vs)) with (n * size) by lia.
    rewrite Z.div_mul by lia. rewrite Hzvs. fold n.
    rewrite (chunks_nat_prefix size Hs (Z.to_nat n) (Z.to_nat n) vs (n * size)); [|lia|rewrite Z2Nat.id by lia; lia|lia].
    symmetry. apply firstn_all_len. apply chunks_nat_length.
Qed.

Lemma np_Unmasked c : np_at c -> np_at (Unmasked c).
Proof.
  intros IH am y Hf Q. cbn [np_frag] in Hf. cbn [to_numpy_model] in Q. apply bind_Ok in Q as (out & Hout & Q).
  destruct (IH am out Hf Hout) as [Hok Hval]. rewrite to_list_Unmasked, Hval.
  destruct am; [|injection Q as <-; split; [exact Hok|reflexivity]]. injection Q as <-.
  destruct out as [dt sh data mask]. unfold nd_ok, nd_value in *. cbn [nd_shape nd_data nd_mask nd_dt] in *.
  destruct sh as [|head tail]; [destruct Hok|]. destruct Hok as (Hh & Ht & Hz & Hm).
  split.
  - repeat split; try assumption. destruct mask as [m|]; [exact Hm|]. unfold no_mask. apply zlen_map.
  - rewrite !nd_leaves_lv. cbn [nd_dt nd_mask nd_data]. destruct mask as [m|]; [reflexivity|]. rewrite lv_no_mask. reflexivity.
Qed.

(* ---------------------------------------------------------------- option nodes over one-dimensional contents *)
Definition optv (p : bool * value) : value := if fst p then VNone else snd p.

Lemma masked_leaves dt : forall (miss cm : list bool) (data : list datum),
  lv dt (Some (or_mask miss cm)) (blank miss data) = map optv (zip miss (lv dt (Some cm) data)).
Proof.
  unfold lv, or_mask, blank. induction miss as [|b miss IH]; intros cm data; [reflexivity|].
  destruct cm as [|c cm]; [reflexivity|]. destruct data as [|d data]; [cbn [zip map]; destruct (zip miss cm); reflexivity|].
  cbn [zip map fst snd]. rewrite IH. f_equal. unfold optv. cbn [fst snd]. destruct b, c; reflexivity.
Qed.
Lemma none_missing (miss : list bool) (L : list value) : any_true miss = false -> zlen L <= zlen miss -> map optv (zip miss L) = L.
Proof.
  unfold any_true. revert L. induction miss as [|b miss IH]; intros L Ha Hz.
  - destruct L; [reflexivity|]. rewrite zlen_cons, zlen_nil in Hz. pose proof (zlen_nonneg L). lia.
  - destruct L as [|v L]; [reflexivity|]. cbn [existsb] in Ha. apply orb_false_iff in Ha as [-> Ha]. cbn [zip map]. unfold optv at 1. cbn [fst snd].
    rewrite IH; [reflexivity|exact Ha|rewrite !zlen_cons in Hz; lia].
Qed.

Lemma masked_result_value am dt miss data cm y :
  masked_result am dt miss data cm = Ok y -> zlen data = zlen miss -> match cm with None => True | Some m => zlen m = zlen data end ->
  nd_ok y /\ nd_value y = Ok (map optv (zip miss (lv dt cm data))).
Proof.
  intros Q Hzd Hcm. unfold masked_result in Q. pose proof (zlen_nonneg miss) as H0.
  set (cm0 := match cm with Some m => m | None => no_mask data end) in *.
  assert (Hcm0 : zlen cm0 = zlen data) by (unfold cm0; destruct cm; [exact Hcm|unfold no_mask; apply zlen_map]).
  assert (Elv : lv dt cm data = lv dt (Some cm0) data) by (unfold cm0; destruct cm; [reflexivity|symmetry; apply lv_no_mask]).
  assert (HzL : zlen (lv dt cm data) = zlen data) by (apply zlen_lv; exact Hcm).
  destruct (any_true miss) eqn:Ea.
  - destruct am; [|discriminate Q]. injection Q as <-. split.
    + unfold nd_ok. cbn [nd_shape nd_data nd_mask]. rewrite prodZ_one. split; [lia|]. split; [constructor|].
      unfold blank, or_mask. rewrite !zlen_map, !zlen_zip. lia.
    + unfold nd_value. cbn [nd_shape nest]. rewrite nd_leaves_lv. cbn [nd_dt nd_mask nd_data]. rewrite masked_leaves, Elv. reflexivity.
  - rewrite none_missing by (exact Ea || lia).
    destruct am; injection Q as <-.
    + split.
      * unfold nd_ok. cbn [nd_shape nd_data nd_mask]. rewrite prodZ_one. repeat split; try lia. constructor.
      * unfold nd_value. cbn [nd_shape nest]. rewrite nd_leaves_lv. cbn [nd_dt nd_mask nd_data]. rewrite Elv. reflexivity.
    + split.
      * unfold nd_ok. cbn [nd_shape nd_data nd_mask]. rewrite prodZ_one. repeat split; try lia; [constructor|exact Hcm].
      * unfold nd_value. cbn [nd_shape nest]. rewrite nd_leaves_lv. reflexivity.
Qed.

Lemma bm_values vw : forall (m : list Z) (vs pre : list value), (length m <= length vs)%nat ->
  mapM (fun im : Z * Z => let (i, b) := im in pick_opt (pre ++ vs) (Bool.eqb (negb (b =? 0)) vw) i) (zip (iota_nat (zlen pre) (length m)) m) =
  Ok (map optv (zip (map (fun b => negb (Bool.eqb (negb (b =? 0)) vw)) m) (firstn (length m) vs))).
Proof.
  induction m as [|b m IH]; intros vs pre Hl; [reflexivity|]. destruct vs as [|v vs]; [cbn in Hl; lia|].
  cbn [length iota_nat zip mapM map firstn].
  assert (Hhead : pick_opt (pre ++ v :: vs) (Bool.eqb (negb (b =? 0)) vw) (zlen pre) = Ok (optv (negb (Bool.eqb (negb (b =? 0)) vw), v))).
  { unfold pick_opt, optv. cbn [fst snd]. destruct (Bool.eqb (negb (b =? 0)) vw); cbn [negb]; [|reflexivity].
    rewrite get_app2 by lia. rewrite Z.sub_diag. apply get_cons_0. }
  rewrite Hhead. cbn [bind]. specialize (IH vs (pre ++ [v]) ltac:(cbn in Hl; lia)).
  rewrite <- app_assoc in IH. cbn [app] in IH. rewrite zlen_app in IH. change (zlen [v]) with 1 in IH. rewrite IH. reflexivity.
Qed.

Lemma np_ByteMasked m vw c : np_at c -> np_at (ByteMasked m vw c).
Proof.
  intros IH am y Hf Q. cbn [np_frag] in Hf. cbn [to_numpy_model] in Q. apply bind_Ok in Q as (full & Hfull & Q).
  destruct (IH am full Hf Hfull) as [Hok Hval]. unfold nd_ok in Hok.
  destruct full as [dt sh data mask]. cbn [nd_shape nd_data nd_mask nd_dt] in *.
  destruct sh as [|n [|d tail]]; try discriminate Q. destruct Hok as (Hn & _ & Hz & Hm). rewrite prodZ_one in Hz.
  destruct (n <? zlen m) eqn:En; [discriminate Q|]. pose proof (zlen_nonneg m) as Hm0.
  set (k := zlen m) in *. set (miss := map (fun b => negb (Bool.eqb (negb (b =? 0)) vw)) m) in *.
  assert (Hzmiss : zlen miss = k) by (unfold miss; apply zlen_map).
  set (cm := match mask with None => None | Some fm => Some (take k fm) end) in *.
  destruct (masked_result_value am dt miss (take k data) cm y Q) as [Hoky Hvy].
  { rewrite zlen_take_min by lia. lia. }
  { unfold cm. destruct mask as [fm|]; [|exact I]. rewrite !zlen_take_min by lia. lia. }
  split; [exact Hoky|]. rewrite Hvy. unfold cm. rewrite lv_take.
  rewrite to_list_ByteMasked, Hval. unfold nd_value. cbn [nd_shape nest bind]. rewrite nd_leaves_lv. cbn [nd_dt nd_mask nd_data].
  set (L := lv dt mask data). assert (HzL : zlen L = n) by (unfold L; rewrite zlen_lv by exact Hm; exact Hz).
  pose proof (bm_values vw m L [] ltac:(unfold k, zlen in *; lia)) as HB. cbn [app] in HB. change (zlen (@nil value)) with 0 in HB.
  unfold iota. fold k. replace (Z.to_nat k) with (length m) by (unfold k, zlen; lia). rewrite HB. f_equal. f_equal. f_equal.
  unfold take. f_equal. unfold k, zlen. lia.
Qed.

Lemma io_values_nomask dt (data : list datum) : forall ix data',
  mapM (fun i => if i <? 0 then Ok junk else get data i) ix = Ok data' ->
  mapM (fun i => pick_opt (map (leaf dt) data) (0 <=? i) i) ix = Ok (map optv (zip (map (fun i => i <? 0) ix) (map (leaf dt) data'))).
Proof.
  induction ix as [|i ix IH]; intros data' H; cbn [mapM] in H.
  - injection H as <-. reflexivity.
  - apply bind_Ok in H as (d & Hd & H). apply bind_Ok in H as (ds & Hds & H). injection H as <-.
    cbn [mapM map zip]. rewrite (IH ds Hds). unfold pick_opt, optv at 1. cbn [fst snd].
    destruct (i <? 0) eqn:Ei.
    + replace (0 <=? i) with false by lia. reflexivity.
    + replace (0 <=? i) with true by lia. rewrite get_map, Hd. reflexivity.
Qed.
Lemma io_values_mask dt (fm : list bool) (data : list datum) : forall ix data' cmv,
  mapM (fun i => if i <? 0 then Ok junk else get data i) ix = Ok data' ->
  mapM (fun i => if i <? 0 then Ok false else get fm i) ix = Ok cmv ->
  mapM (fun i => pick_opt (lv dt (Some fm) data) (0 <=? i) i) ix = Ok (map optv (zip (map (fun i => i <? 0) ix) (lv dt (Some cmv) data'))).
Proof.
  unfold lv. induction ix as [|i ix IH]; intros data' cmv H H2; cbn [mapM] in H, H2.
  - injection H as <-. injection H2 as <-. reflexivity.
  - apply bind_Ok in H as (d & Hd & H). apply bind_Ok in H as (ds & Hds & H). injection H as <-.
    apply bind_Ok in H2 as (c & Hc & H2). apply bind_Ok in H2 as (cs & Hcs & H2). injection H2 as <-.
    cbn [mapM map zip]. rewrite (IH ds cs Hds Hcs). unfold pick_opt, optv at 1. cbn [fst snd].
    destruct (i <? 0) eqn:Ei.
    + replace (0 <=? i) with false by lia. reflexivity.
    + replace (0 <=? i) with true by lia. rewrite get_map, get_zip, Hc, Hd. reflexivity.
Qed.

Lemma np_IndexedOption w ix c : np_at c -> np_at (IndexedOption w ix c).
Proof.
  intros IH am y Hf Q. cbn [np_frag] in Hf. cbn [to_numpy_model] in Q. apply bind_Ok in Q as (full & Hfull & Q).
  destruct (IH am full Hf Hfull) as [Hok Hval]. unfold nd_ok in Hok.
  destruct full as [dt sh data mask]. cbn [nd_shape nd_data nd_mask nd_dt] in *.
  destruct sh as [|n [|d tail]]; try discriminate Q. destruct Hok as (Hn & _ & Hz & Hm).
  apply bind_Ok in Q as (data' & Hdata' & Q). apply bind_Ok in Q as (cm & Hcm & Q).
  pose proof (mapM_zlen _ _ _ Hdata') as Hzd.
  destruct mask as [fm|].
  - apply bind_Ok in Hcm as (cmv & Hcmv & Hcm). injection Hcm as <-. pose proof (mapM_zlen _ _ _ Hcmv) as Hzc.
    destruct (masked_result_value am dt _ data' (Some cmv) y Q) as [Hoky Hvy]; [rewrite zlen_map; lia|lia|].
    split; [exact Hoky|]. rewrite Hvy. rewrite to_list_IndexedOption, Hval. unfold nd_value. cbn [nd_shape nest bind]. rewrite nd_leaves_lv. cbn [nd_dt nd_mask nd_data]. apply io_values_mask; assumption.
  - injection Hcm as <-.
    destruct (masked_result_value am dt _ data' None y Q) as [Hoky Hvy]; [rewrite zlen_map; lia|exact I|].
    split; [exact Hoky|]. rewrite Hvy. rewrite to_list_IndexedOption, Hval. unfold nd_value. cbn [nd_shape nest bind]. rewrite nd_leaves_lv. cbn [nd_dt nd_mask nd_data]. apply io_values_nomask. exact Hdata'.
Qed.

Lemma np_all c : np_at c.
Proof.
  induction c using content_ind'; try (intros am y _ Q; discriminate Q).
  - apply np_Numpy.
  - apply np_Regular; assumption.
  - apply np_IndexedOption; assumption.
  - apply np_ByteMasked; assumption.
  - apply np_Unmasked; assumption.
Qed.

(** to_numpy agrees with to_list: whenever to_numpy (either allow_missing) accepts a layout without a RegularArray of
    size 0, the nested value of the array it returns (masked elements = None) is to_list of the layout, and the array
    is well formed (shape, data and mask sizes agree).  No validity hypothesis.
    Excluded and refuted: RegularArray of size 0 ([to_numpy_size0_refuted], known finding numpy-zero-length-dimension). *)
Theorem to_numpy_is_to_list_partial2_thm am c y : np_frag c = true -> to_numpy_model am c = Ok y -> to_list c = nd_value y /\ nd_ok y.
Proof. intros Hf Q. destruct (np_all c am y Hf Q) as [H1 H2]. split; assumption. Qed.

Example to_numpy_is_to_list_ex :
  (* three dimensions through two RegularArrays with unreachable items at both levels, over an IndexedOptionArray with a
     repeated and a missing index; and an option node over an option-free regular chain is refused (n-d content) *)
  let N7 := Numpy DInt64 [7] [DZ 0; DZ 1; DZ 2; DZ 3; DZ 4; DZ 5; DZ 6; DZ 99] in
  let c := Regular (Regular (IndexedOption I64 [6; -1; 0; 2; 2; 1; -1] N7) 3 0) 2 0 in
  validb None c = true /\ np_frag c = true /\
  to_list c = Ok [VList [VList [VNum (DZ 6); VNone; VNum (DZ 0)]; VList [VNum (DZ 2); VNum (DZ 2); VNum (DZ 1)]]] /\
  to_numpy_model true c = Ok (mk_nd DInt64 [1; 2; 3] [DZ 6; DZ 0; DZ 0; DZ 2; DZ 2; DZ 1] (Some [false; true; false; false; false; false])) /\
  to_numpy_model false c = Err EValue /\
  to_numpy_model false (Regular (ByteMasked [1; 1; 1; 1; 1] true N7) 2 0) = Ok (mk_nd DInt64 [2; 2] [DZ 0; DZ 1; DZ 2; DZ 3] None).
Proof. vm_compute. repeat split. Qed.

(** ... and back: from_numpy of what to_numpy returned has the value of the layout (the other half of "mutually
    inverse"; inner dimensions positive as from_numpy_value requires — see known finding from_numpy-regulararray-empty-reshape) *)
Theorem from_numpy_to_numpy_value_thm am ra c y :
  np_frag c = true -> to_numpy_model am c = Ok y -> Forall (fun d => 0 < d) (tl (nd_shape y)) ->
  to_list (from_numpy_model ra y) = to_list c /\ wf_nd y.
Proof.
  intros Hf Q Hpos. destruct (to_numpy_is_to_list_partial2_thm am c y Hf Q) as [Hv Hok].
  assert (Hwf : wf_nd y).
  { unfold nd_ok in Hok. unfold wf_nd. destruct (nd_shape y) as [|n dims]; [exact Hok|]. cbn [tl] in Hpos.
    destruct Hok as (Hn & _ & Hz & Hm). repeat split; try assumption. destruct (nd_mask y) as [m|]; [|exact I].
    apply zlen_eq_length. exact Hm. }
  split; [|exact Hwf]. rewrite Hv. apply from_numpy_value_thm. exact Hwf.
Qed.

Example from_numpy_to_numpy_ex :
  let N7 := Numpy DInt64 [7] [DZ 0; DZ 1; DZ 2; DZ 3; DZ 4; DZ 5; DZ 6; DZ 99] in
  let c := Regular (Regular (IndexedOption I64 [6; -1; 0; 2; 2; 1; -1] N7) 3 0) 2 0 in
  exists y, to_numpy_model true c = Ok y /\ to_list (from_numpy_model true y) = to_list c /\ from_numpy_model true y <> c.
Proof. eexists. split; [vm_compute; reflexivity|]. split; [vm_compute; reflexivity|]. discriminate. Qed.
